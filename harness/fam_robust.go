package main

import (
	"bytes"
	"crypto/elliptic"
	"crypto/sha512"
	"fmt"
	"math/big"
	"math/rand"
	"strings"
	"sync"

	"github.com/cloudflare/pat-go/ecdsa"
	"github.com/cloudflare/pat-go/ed25519"
	"github.com/cloudflare/pat-go/quicwire"
	"github.com/cloudflare/pat-go/tokens"
	"github.com/cloudflare/pat-go/tokens/batched"
	"github.com/cloudflare/pat-go/tokens/type1"
	"github.com/cloudflare/pat-go/tokens/type2"
	"github.com/cloudflare/pat-go/tokens/type3"
	"github.com/cloudflare/pat-go/tokens/type5"
	"github.com/cloudflare/pat-go/util"
)

// Family "robust" (property C03): every function that consumes peer-supplied
// bytes beyond the plain decoders (those are in family "wire") is called with
// honest inputs, their grammar-derived mutations and random strings. An event
// records the outcome class, a recovered panic, a timeout and the bytes
// allocated; the trace specification requires a total function into
// {ok, error} within the resource bound.

func init() { register("robust", &family{gen: genRobust, exec: execRobust, serial: true}) }

// memCache is a plain ClientStateCache.
type memCache struct {
	mu sync.Mutex
	m  map[string]*type3.ClientState
}

func newMemCache() *memCache { return &memCache{m: map[string]*type3.ClientState{}} }
func (c *memCache) Get(id string) (*type3.ClientState, bool) {
	c.mu.Lock()
	defer c.mu.Unlock()
	s, ok := c.m[id]
	return s, ok
}
func (c *memCache) Put(id string, s *type3.ClientState) {
	c.mu.Lock()
	defer c.mu.Unlock()
	c.m[id] = s
}

// robustWorld holds the honest protocol state the consumers are called on. It
// is rebuilt identically (up to library randomness) in every process.
type robustWorld struct {
	a1       *t1Art
	a2       *t2Art
	a3       *t3Art
	a5       map[int]*t5Art
	attester *type3.RateLimitedAttester
	anon     []byte
	batchIss *batched.BasicBatchedIssuer
	ecPub    *ecdsa.PublicKey
	ecDigest []byte
	ecSig    []byte
	edPub    ed25519.PublicKey
	edMsg    []byte
	edSig    []byte
	spki     []byte
	a3reg    *type3.RateLimitedTokenRequest
	honestIn map[string][]byte // per consumer: the honest input of this world
}

var (
	rwOnce sync.Once
	rw     *robustWorld
)

func getRobustWorld(seed int64) *robustWorld {
	rwOnce.Do(func() {
		r := newRand(seed, "robust-world")
		w := &robustWorld{a5: map[int]*t5Art{}, honestIn: map[string][]byte{}}
		var err error
		k1 := p384Key(seed, "k1")
		if w.a1, err = honestT1(k1, randBytes(r, 40), randNonce(r), false); err != nil {
			panic("honest type 1: " + err.Error())
		}
		if w.a2, err = honestT2(rsaKey(0), randBytes(r, 20), randNonce(r), false); err != nil {
			panic("honest type 2: " + err.Error())
		}
		t3w := newT3World(rsaKey(1), seed, map[string]string{"origin.example": "a"})
		if w.a3, err = honestT3(t3w, p384Scalar(seed, "client1"), p384Scalar(seed, "blind1"), randBytes(r, 32), randNonce(r), "origin.example"); err != nil {
			panic("honest type 3: " + err.Error())
		}
		for _, n := range []int{1, 3} {
			nonces := [][]byte{}
			for i := 0; i < n; i++ {
				nonces = append(nonces, randNonce(r))
			}
			if w.a5[n], err = honestT5(ristrettoKey(seed, "k5"), randBytes(r, 3), nonces, false); err != nil {
				panic("honest type 5: " + err.Error())
			}
		}
		w.attester = type3.NewRateLimitedAttester(newMemCache())
		w.anon = randBytes(r, 32)
		// register the client (an honest request is verified first)
		// (decoded from the recorded bytes: the request object handed out by the
		// client state must not be relied upon after FinalizeToken, see C16)
		reg := new(type3.RateLimitedTokenRequest)
		if !reg.Unmarshal(w.a3.req) {
			panic("honest type 3 request does not decode")
		}
		w.a3reg = reg
		if err := w.attester.VerifyRequest(*reg, w.a3.blind, w.a3.clientKey, w.anon); err != nil {
			panic("honest type 3 request not accepted by the attester: " + err.Error())
		}
		w.batchIss = batched.NewBasicBatchedIssuer(batchIssuer1{type1.NewBasicPrivateIssuer(k1)}, batchIssuer2{type2.NewBasicPublicIssuer(rsaKey(0))})

		sk, _ := rawKey(elliptic.P384(), p384Scalar(seed, "ecdsa-robust"))
		w.ecPub = &sk.PublicKey
		d := sha512.Sum384([]byte("robust"))
		w.ecDigest = d[:]
		w.ecSig, _ = ecdsa.SignASN1(r, sk, w.ecDigest)
		edSeed := randBytes(r, 32)
		edPriv := ed25519.NewKeyFromSeed(edSeed)
		w.edPub = edPriv.Public().(ed25519.PublicKey)
		w.edMsg = []byte("robust message")
		w.edSig = ed25519.Sign(edPriv, w.edMsg)
		w.spki, _ = util.MarshalTokenKeyPSSOID(&rsaKey(0).PublicKey)
		// the honest input of every consumer, by name (the executing process need not be the generating one)
		w.honestIn = map[string][]byte{
			"t1.FinalizeToken": w.a1.resp, "t2.FinalizeToken": w.a2.resp, "t3.FinalizeToken": w.a3.resp,
			"t5.FinalizeTokens/1": w.a5[1].resp, "t5.FinalizeTokens/3": w.a5[3].resp,
			"t1.Evaluate": w.a1.req, "t1.EvaluateElem": w.a1.req[3:], "t2.Evaluate": w.a2.req, "t2.EvaluateMsg": w.a2.req[3:],
			"t5.Evaluate": w.a5[3].req, "t5.EvaluateElem": w.a5[1].req[4:],
			"t1.Verify": w.a1.token.Marshal(), "t5.Verify": w.a5[1].tokens[0].Marshal(),
			"t3.Evaluate": w.a3.req, "attester.VerifyRequest": w.a3.req, "attester.Session": w.a3.req,
			"attester.VerifyRequest/clientKey": w.a3.clientKey, "attester.VerifyRequest/blind": w.a3.blind,
			"attester.FinalizeIndex/blindedKey": w.a3.blindedRK, "attester.FinalizeIndex/clientKey": w.a3.clientKey,
			"attester.FinalizeIndex/blind": w.a3.blind,
			"ecdsa.VerifyASN1":             w.ecSig, "ed25519.Verify": w.edSig, "ed25519.Verify/key": w.edPub, "util.UnmarshalTokenKey": w.spki,
			"t5.UnmarshalRequest":         w.a5[3].req,
			"quicwire.ConsumeVarintBytes": quicwire.AppendVarintBytes(nil, bytes.Repeat([]byte{0x5a}, 300)),
			"quicwire.ConsumeUint8Bytes":  quicwire.AppendUint8Bytes(nil, bytes.Repeat([]byte{0x5a}, 40)), "quicwire.ConsumeVarint": {0xc0, 1, 2, 3, 4, 5, 6, 7},
		}
		{
			x1, err1 := honestT1(p384Key(seed, "k1"), []byte("robust-batch"), hashBytes(seed, "robust-batch-n1", 32), false)
			x2, err2 := honestT2(rsaKey(0), []byte("robust-batch"), hashBytes(seed, "robust-batch-n2", 32), false)
			if err1 != nil || err2 != nil {
				panic("harness: honest runs for the batch inputs failed")
			}
			br, err := batched.NewBasicClient().CreateTokenRequest([]tokens.TokenRequestWithDetails{x1.state.Request(), x2.state.Request(), x1.state.Request()})
			if err != nil {
				panic(err)
			}
			w.honestIn["batched.Unmarshal"] = append([]byte{}, br.Marshal()...)
			i1, i2 := type1.NewBasicPrivateIssuer(p384Key(seed, "k1")), type2.NewBasicPublicIssuer(rsaKey(0))
			resp, err := batched.NewBasicBatchedIssuer(batchIssuer1{i1}, batchIssuer2{i2}).EvaluateBatch(br)
			if err != nil {
				panic(err)
			}
			w.honestIn["batched.UnmarshalResponses"] = resp
		}
		rw = w
	})
	return rw
}

func resErr(err error) string {
	if err == nil {
		return "ok"
	}
	return "error"
}

func resBool(b bool) string {
	if b {
		return "true"
	}
	return "false"
}

// callConsumer runs consumer fn on input in and returns the result class.
func callConsumer(w *robustWorld, fn string, in []byte, aux ev) string {
	switch fn {
	case "t1.FinalizeToken":
		_, err := w.a1.state.FinalizeToken(in)
		return resErr(err)
	case "t2.FinalizeToken":
		_, err := w.a2.state.FinalizeToken(in)
		return resErr(err)
	case "t3.FinalizeToken":
		_, err := w.a3.state.FinalizeToken(in)
		return resErr(err)
	case "t5.FinalizeTokens/1":
		_, err := w.a5[1].state.FinalizeTokens(in)
		return resErr(err)
	case "t5.FinalizeTokens/3":
		_, err := w.a5[3].state.FinalizeTokens(in)
		return resErr(err)
	case "t1.Evaluate": // decode, then evaluate what was decoded
		req := new(type1.BasicPrivateTokenRequest)
		if !req.Unmarshal(in) {
			return "error"
		}
		_, err := w.a1.issuer.Evaluate(req)
		return resErr(err)
	case "t1.EvaluateElem": // any byte string as the blinded element
		_, err := w.a1.issuer.Evaluate(&type1.BasicPrivateTokenRequest{TokenKeyID: 1, BlindedReq: in})
		return resErr(err)
	case "t2.Evaluate":
		req := new(type2.BasicPublicTokenRequest)
		if !req.Unmarshal(in) {
			return "error"
		}
		_, err := w.a2.issuer.Evaluate(req)
		return resErr(err)
	case "t2.EvaluateMsg":
		_, err := w.a2.issuer.Evaluate(&type2.BasicPublicTokenRequest{TokenKeyID: 1, BlindedReq: in})
		return resErr(err)
	case "t5.Evaluate":
		req := new(type5.BatchedPrivateTokenRequest)
		if !req.Unmarshal(in) {
			return "error"
		}
		_, err := w.a5[1].issuer.Evaluate(req)
		return resErr(err)
	case "t5.EvaluateElem":
		_, err := w.a5[1].issuer.Evaluate(&type5.BatchedPrivateTokenRequest{TokenKeyID: 1, BlindedReq: [][]byte{in}})
		return resErr(err)
	case "t1.Verify":
		tok, err := type1.UnmarshalPrivateToken(in)
		if err != nil {
			return "error"
		}
		return resErr(w.a1.issuer.Verify(tok))
	case "t5.Verify":
		tok, err := type5.UnmarshalBatchedPrivateToken(in)
		if err != nil {
			return "error"
		}
		return resErr(w.a5[1].issuer.Verify(tok))
	case "t1.VerifyFields": // a token with arbitrary field lengths: in = nonce, aux gives the rest
		tok := tokens.Token{TokenType: 1, Nonce: in, Context: gB(aux, "context"), KeyID: gB(aux, "key_id"), Authenticator: gB(aux, "auth")}
		return resErr(w.a1.issuer.Verify(tok))
	case "t3.Evaluate":
		_, _, err := w.a3.w.issuer.Evaluate(in)
		return resErr(err)
	case "attester.VerifyRequest":
		req := new(type3.RateLimitedTokenRequest)
		if !req.Unmarshal(in) {
			return "error"
		}
		return resErr(w.attester.VerifyRequest(*req, w.a3.blind, w.a3.clientKey, w.anon))
	case "attester.Session":
		// a fresh attester whose FIRST contact with the client is the (possibly corrupted) request `in`; the client's
		// honest request and its index finalization follow. A refused request must not leave anything behind that
		// breaks the calls after it.
		att := type3.NewRateLimitedAttester(newMemCache())
		req := new(type3.RateLimitedTokenRequest)
		if req.Unmarshal(in) {
			att.VerifyRequest(*req, w.a3.blind, w.a3.clientKey, w.anon)
		}
		att.VerifyRequest(*w.a3reg, randBytes(newRand(1, "wrong-blind"), 48), w.a3.clientKey, w.anon) // refused: wrong blind
		if err := att.VerifyRequest(*w.a3reg, w.a3.blind, w.a3.clientKey, w.anon); err != nil {
			return "error"
		}
		_, err := att.FinalizeIndex(w.a3.clientKey, w.a3.blind, w.a3.blindedRK, w.anon)
		return resErr(err)
	case "attester.VerifyRequest/fields": // arbitrary field lengths (a decoded request need not come from Unmarshal)
		req := type3.RateLimitedTokenRequest{RequestKey: gB(aux, "request_key"), NameKeyID: gB(aux, "name_key_id"),
			EncryptedTokenRequest: gB(aux, "enc_req"), Signature: in}
		return resErr(w.attester.VerifyRequest(req, w.a3.blind, w.a3.clientKey, w.anon))
	case "attester.VerifyRequest/clientKey":
		return resErr(w.attester.VerifyRequest(*w.a3reg, w.a3.blind, in, w.anon))
	case "attester.VerifyRequest/blind":
		return resErr(w.attester.VerifyRequest(*w.a3reg, in, w.a3.clientKey, w.anon))
	case "attester.FinalizeIndex/blindedKey":
		_, err := w.attester.FinalizeIndex(w.a3.clientKey, w.a3.blind, in, w.anon)
		return resErr(err)
	case "attester.FinalizeIndex/clientKey":
		_, err := w.attester.FinalizeIndex(in, w.a3.blind, w.a3.blindedRK, w.anon)
		return resErr(err)
	case "attester.FinalizeIndex/blind":
		_, err := w.attester.FinalizeIndex(w.a3.clientKey, in, w.a3.blindedRK, w.anon)
		return resErr(err)
	case "batched.Unmarshal": // decoding alone (a long list is evaluated request by request; decoding it must stay cheap)
		return map[bool]string{true: "ok", false: "error"}[new(batched.BatchedTokenRequest).Unmarshal(in)]
	case "batched.UnmarshalResponses":
		_, err := batched.UnmarshalBatchedTokenResponses(in)
		return resErr(err)
	case "t5.UnmarshalRequest":
		return map[bool]string{true: "ok", false: "error"}[new(type5.BatchedPrivateTokenRequest).Unmarshal(in)]
	case "batched.EvaluateBatch":
		req := new(batched.BatchedTokenRequest)
		if !req.Unmarshal(in) {
			return "error"
		}
		resp, err := w.batchIss.EvaluateBatch(req)
		if err != nil {
			return "error"
		}
		if _, err := batched.UnmarshalBatchedTokenResponses(resp); err != nil {
			return "ok" // whether the list parses is property C05, not C03
		}
		return "ok"
	case "ecdsa.VerifyASN1":
		return resBool(ecdsa.VerifyASN1(w.ecPub, w.ecDigest, in))
	case "ecdsa.Verify": // in = r (big-endian magnitude), aux: s, signs
		r := new(big.Int).SetBytes(in)
		s := new(big.Int).SetBytes(gB(aux, "s"))
		if gBool(aux, "rneg") {
			r.Neg(r)
		}
		if gBool(aux, "sneg") {
			s.Neg(s)
		}
		return resBool(ecdsa.Verify(w.ecPub, gB(aux, "digest"), r, s))
	case "ed25519.Verify":
		return resBool(ed25519.Verify(w.edPub, w.edMsg, in))
	case "ed25519.Verify/key":
		if len(in) != 32 { // documented to panic on a wrong key length
			return "false"
		}
		return resBool(ed25519.Verify(ed25519.PublicKey(in), w.edMsg, w.edSig))
	case "util.UnmarshalTokenKey":
		_, err := util.UnmarshalTokenKey(in)
		return resErr(err)
	case "quicwire.ConsumeVarintBytes":
		_, n := quicwire.ConsumeVarintBytes(in)
		return map[bool]string{true: "ok", false: "error"}[n >= 0]
	case "quicwire.ConsumeUint8Bytes":
		_, n := quicwire.ConsumeUint8Bytes(in)
		return map[bool]string{true: "ok", false: "error"}[n >= 0]
	case "quicwire.ConsumeVarint":
		_, n := quicwire.ConsumeVarint(in)
		return map[bool]string{true: "ok", false: "error"}[n >= 0]
	}
	return "unknown-fn"
}

// craftRobust builds the authentic-but-odd type-3 requests in the world of the executing process
func craftRobust(c *ctx, w *robustWorld, craft map[string]any) []byte {
	r := newRand(c.seed, fmt.Sprintf("craft-%v-%v", craft["kind"], craft["n"]))
	iss := w.a3.w.issuer
	switch craft["kind"].(string) {
	case "mutation":
		ms := mutations(w.honestIn["t3.Evaluate"], []lenField{{jInt(craft["off"]), craft["fk"].(string)}}, newRand(c.seed, "mut-t3.Evaluate"), c.thorough())
		if k := jInt(craft["n"]); k < len(ms) {
			return ms[k]
		}
		return nil
	case "inner-padded": // a well-sealed, well-signed request whose padded origin name has n zero bytes (n = 0: none at all)
		inner := type3.VerifNewInnerTokenRequest(iss.TokenKeyID()[0], randBytes(r, 256), make([]byte, jInt(craft["n"]))).Marshal()
		q := &type3.RateLimitedTokenRequest{RequestKey: w.a3reg.RequestKey, NameKeyID: w.a3reg.NameKeyID}
		q.EncryptedTokenRequest = sealT3(iss.NameKey(), q.RequestKey, inner, true)
		q.Signature = signT3(p384Scalar(c.seed, "client1"), p384Scalar(c.seed, "blind1"), q)
		return q.Marshal()
	case "inner-padded-ones": // ... whose padded origin name is n non-zero bytes (no padding at all)
		inner := type3.VerifNewInnerTokenRequest(iss.TokenKeyID()[0], randBytes(r, 256), bytes.Repeat([]byte{'o'}, jInt(craft["n"]))).Marshal()
		q := &type3.RateLimitedTokenRequest{RequestKey: w.a3reg.RequestKey, NameKeyID: w.a3reg.NameKeyID}
		q.EncryptedTokenRequest = sealT3(iss.NameKey(), q.RequestKey, inner, true)
		q.Signature = signT3(p384Scalar(c.seed, "client1"), p384Scalar(c.seed, "blind1"), q)
		return q.Marshal()
	case "origin-name": // an honest client request for an odd origin name
		name := strings.Repeat("\x00", jInt(craft["n"]))
		st, err := type3.NewRateLimitedClientFromSecret(p384Scalar(c.seed, "client1")).CreateTokenRequest(randBytes(r, 8), randNonce(r),
			p384Scalar(c.seed, "blind-empty"), iss.TokenKeyID(), iss.TokenKey(), name, iss.NameKey())
		if err != nil {
			return nil
		}
		return st.Request().Marshal()
	}
	return nil
}

// where the varint-framed list starts in the honest input of the list decoders
var robustListOffset = map[string]int{"batched.Unmarshal": 0, "batched.UnmarshalResponses": 0, "t5.UnmarshalRequest": 3, "t5.FinalizeTokens/3": 0}

func execRobust(c *ctx, in ev) []ev {
	w := getRobustWorld(c.seed)
	fn := gS(in, "fn")
	b := gB(in, "in")
	big, _ := in["big"].(map[string]any)
	if big != nil {
		// a large input, described by a recipe (the trace carries its length, not its bytes)
		n := jInt(big["n"])
		b = make([]byte, n)
		h := w.honestIn[fn]
		switch big["kind"].(string) {
		case "ff":
			for i := range b {
				b[i] = 0xff
			}
		case "random":
			copy(b, randBytes(newRand(c.seed, fmt.Sprintf("big-%s-%d", fn, n)), n))
		case "honest+zeros":
			copy(b, h)
		case "honest-repeated":
			for i := 0; len(h) > 0 && i < n; i += len(h) {
				copy(b[i:], h)
			}
		case "honest+random":
			copy(b, randBytes(newRand(c.seed, fmt.Sprintf("big-%s-%d", fn, n)), n))
			copy(b, h)
		case "list":
			// a WELL-FORMED long list: the honest message's list body repeated until the message is about n bytes long,
			// under a matching length prefix (hundreds or thousands of honest elements)
			off := robustListOffset[fn]
			l, wdt := quicwire.ConsumeVarint(h[off:])
			if wdt < 0 || int(l) > len(h)-off-wdt || l == 0 {
				panic("harness: no list in the honest input of " + fn)
			}
			body, tail := h[off+wdt:off+wdt+int(l)], h[off+wdt+int(l):]
			reps := n / len(body)
			nb := bytes.Repeat(body, reps)
			b = append(append([]byte{}, h[:off]...), quicwire.AppendVarint(nil, uint64(len(nb)))...)
			b = append(append(b, nb...), tail...)
		}
	}
	if craft, _ := in["craft"].(map[string]any); craft != nil {
		// an input that must be AUTHENTIC towards this process's issuer (sealed to its name key, signed by the client the
		// world knows): built here, not in the generating process, whose issuer had another name key
		b = craftRobust(c, w, craft)
	}
	if gBool(in, "honest") {
		// honest inputs depend on this process's world (library randomness):
		// the case names the honest input, the world supplies it
		b = w.honestIn[fn]
	}
	buf := make([]byte, len(b), len(b)+16)
	copy(buf, b)
	var res string
	o := observe(true, func() { res = callConsumer(w, fn, buf[:len(b):len(b)], in) })
	e := ev{"op": "Call", "fn": fn, "in": B(b), "in_len": len(b), "big": big != nil, "honest": gBool(in, "honest"), "res": res}
	if big != nil {
		e["in"] = B(nil)
	}
	o.fill(e)
	return []ev{e}
}

func genRobust(c *ctx, emit func(ev)) {
	w := getRobustWorld(c.seed)
	r := newRand(c.seed, "robust")
	call := func(fn string, in []byte, honest bool) {
		emit(ev{"op": "Call", "fn": fn, "in": B(in), "honest": honest})
	}
	callAux := func(fn string, in []byte, aux ev) {
		e := ev{"op": "Call", "fn": fn, "in": B(in), "honest": false}
		for k, v := range aux {
			e[k] = v
		}
		emit(e)
	}
	nRand := c.tierInt(30, 300)
	suite := func(fn string, honest []byte, fields []lenField, honestOK bool) {
		w.honestIn[fn] = honest
		if honestOK {
			call(fn, nil, true)
		} else {
			call(fn, honest, false)
		}
		if fn == "t3.Evaluate" {
			// the issuer's name key is drawn per process: mutations of the GENERATING process's request would all fail at
			// decryption in the executing one. The case carries the index of the mutation; the executing process applies
			// the same (seeded) mutation closure to ITS honest request.
			for k := range mutations(honest, fields, newRand(c.seed, "mut-"+fn), c.thorough()) {
				emit(ev{"op": "Call", "fn": fn, "in": B(nil), "honest": false, "craft": ev{"kind": "mutation", "n": k, "off": fields[0].off, "fk": fields[0].kind}})
			}
		} else {
			for _, b := range mutations(honest, fields, r, c.thorough()) {
				call(fn, b, false)
			}
		}
		call(fn, nil, false)
		// every one-byte string a point / scalar / tag decoder treats specially (0x00 is SEC1's point at infinity)
		for _, b := range []byte{0x00, 0x01, 0x02, 0x03, 0x04, 0x05, 0x06, 0x07, 0x30, 0x80, 0xff} {
			call(fn, []byte{b}, false)
			call(fn, []byte{b, 0x00}, false)
		}
		for i := 0; i < nRand; i++ {
			n := r.Intn(2*len(honest) + 8)
			if i%3 == 0 {
				n = r.Intn(10)
			}
			call(fn, randBytes(r, n), false)
		}
		// large inputs (64 KiB and 1 MiB): memory and time must stay in proportion
		for _, n := range []int{1 << 16, 1 << 20} {
			for _, k := range []string{"zeros", "ff", "random", "honest+zeros", "honest-repeated", "honest+random"} {
				emit(ev{"op": "Call", "fn": fn, "in": B(nil), "honest": false, "big": ev{"n": n, "kind": k}})
			}
		}
		// all-zero / all-ones strings of the honest length and its neighbours
		for _, d := range []int{-1, 0, 1} {
			if n := len(honest) + d; n >= 0 {
				call(fn, make([]byte, n), false)
				call(fn, []byte(strings.Repeat("\xff", n)), false)
			}
		}
	}
	suite("t1.FinalizeToken", w.a1.resp, nil, true)
	suite("t2.FinalizeToken", w.a2.resp, nil, true)
	suite("t3.FinalizeToken", w.a3.resp, nil, true)
	suite("t5.FinalizeTokens/1", w.a5[1].resp, []lenField{{0, "varint"}}, true)
	suite("t5.FinalizeTokens/3", w.a5[3].resp, []lenField{{0, "varint"}}, true)
	suite("t1.Evaluate", w.a1.req, nil, true)
	suite("t1.EvaluateElem", w.a1.req[3:], nil, true)
	suite("t2.Evaluate", w.a2.req, nil, true)
	suite("t2.EvaluateMsg", w.a2.req[3:], nil, true)
	suite("t5.Evaluate", w.a5[3].req, []lenField{{3, "varint"}}, true)
	suite("t5.EvaluateElem", w.a5[1].req[4:], nil, true)
	suite("t1.Verify", w.a1.token.Marshal(), nil, true)
	suite("t5.Verify", w.a5[1].tokens[0].Marshal(), nil, true)
	suite("t3.Evaluate", w.a3.req, []lenField{{2 + 49 + 32, "u16"}}, true)
	suite("attester.VerifyRequest", w.a3.req, []lenField{{2 + 49 + 32, "u16"}}, true)
	suite("attester.Session", w.a3.req, []lenField{{2 + 49 + 32, "u16"}}, true)
	suite("attester.VerifyRequest/clientKey", w.a3.clientKey, nil, true)
	suite("attester.VerifyRequest/blind", w.a3.blind, nil, true)
	suite("attester.FinalizeIndex/blindedKey", w.a3.blindedRK, nil, true)
	suite("attester.FinalizeIndex/clientKey", w.a3.clientKey, nil, false)
	suite("attester.FinalizeIndex/blind", w.a3.blind, nil, true)
	suite("ecdsa.VerifyASN1", w.ecSig, []lenField{{1, "u8"}, {3, "u8"}}, false)
	suite("ed25519.Verify", w.edSig, nil, false)
	suite("ed25519.Verify/key", w.edPub, nil, false)
	suite("util.UnmarshalTokenKey", w.spki, []lenField{{1, "u8"}, {2, "u16"}, {5, "u8"}}, true)
	// type-5 requests / responses in which SEVERAL elements do not decode (positions 1 and 2, all, first and last)
	for _, fn := range []string{"t5.Evaluate", "t5.FinalizeTokens/3"} {
		h := w.honestIn[fn]
		off := robustListOffset[map[string]string{"t5.Evaluate": "t5.UnmarshalRequest", "t5.FinalizeTokens/3": "t5.FinalizeTokens/3"}[fn]]
		if l, wd := quicwire.ConsumeVarint(h[off:]); wd > 0 && int(l) == 96 {
			for _, bad := range [][]int{{1, 2}, {0, 1, 2}, {0, 2}, {0, 1}} {
				b := append([]byte{}, h...)
				for _, k := range bad {
					for j := 0; j < 32; j++ {
						b[off+wd+32*k+j] = 0xff
					}
				}
				call(fn, b, false)
			}
		}
	}
	// list decoders alone, on honest lists and on well-formed lists of thousands of honest elements
	for _, fn := range []string{"batched.Unmarshal", "batched.UnmarshalResponses", "t5.UnmarshalRequest"} {
		suite(fn, w.honestIn[fn], []lenField{{robustListOffset[fn], "varint"}}, true)
		for _, n := range []int{1 << 16, 1 << 18, 1 << 20} {
			emit(ev{"op": "Call", "fn": fn, "in": B(nil), "honest": false, "big": ev{"n": n, "kind": "list"}})
		}
	}
	for _, n := range []int{1 << 16, 1 << 20} {
		emit(ev{"op": "Call", "fn": "t5.FinalizeTokens/3", "in": B(nil), "honest": false, "big": ev{"n": n, "kind": "list"}})
	}
	// the wire primitives themselves: length-prefixed strings with every declared length
	for _, b := range mutations(quicwire.AppendVarintBytes(nil, randBytes(r, 40)), []lenField{{0, "varint"}}, r, true) {
		call("quicwire.ConsumeVarintBytes", b, false)
	}
	suite("quicwire.ConsumeVarintBytes", w.honestIn["quicwire.ConsumeVarintBytes"], []lenField{{0, "varint"}}, true)
	suite("quicwire.ConsumeUint8Bytes", w.honestIn["quicwire.ConsumeUint8Bytes"], []lenField{{0, "u8"}}, true)
	suite("quicwire.ConsumeVarint", w.honestIn["quicwire.ConsumeVarint"], nil, true)

	// a generic batch containing good and failing requests
	{
		k1 := p384Key(c.seed, "k1")
		x1, _ := honestT1(k1, randBytes(r, 9), randNonce(r), false)
		x2, _ := honestT2(rsaKey(0), randBytes(r, 9), randNonce(r), false)
		bad := &type1.BasicPrivateTokenRequest{TokenKeyID: x1.state.Request().TokenKeyID + 1, BlindedReq: x1.state.Request().BlindedReq}
		for _, reqs := range [][]tokens.TokenRequestWithDetails{{x1.state.Request()}, {x1.state.Request(), x2.state.Request()}, {x1.state.Request(), bad, x2.state.Request()}} {
			br, err := batched.NewBasicClient().CreateTokenRequest(reqs)
			if err == nil {
				suite("batched.EvaluateBatch", br.Marshal(), []lenField{{0, "varint"}}, false)
			}
		}
	}

	// rate-limited requests whose signature comes in another form: ASN.1 DER of (r, s), also with integers far too large
	if len(w.a3.req) > 96 {
		body, sig := w.a3.req[:len(w.a3.req)-96], w.a3.req[len(w.a3.req)-96:]
		rr, ss := new(big.Int).SetBytes(sig[:48]), new(big.Int).SetBytes(sig[48:])
		huge := new(big.Int).Lsh(big.NewInt(1), 400)
		for _, pair := range [][2]*big.Int{{rr, ss}, {huge, ss}, {rr, huge}, {new(big.Int).Lsh(rr, 8*200), ss}, {big.NewInt(0), big.NewInt(0)}} {
			der := derSig(pair[0], pair[1])
			for _, fn := range []string{"t3.Evaluate", "attester.VerifyRequest", "attester.Session"} {
				call(fn, append(append([]byte{}, body...), der...), false)
			}
		}
	}
	// rate-limited requests rebuilt around an encrypted part of every short length
	for _, n := range []int{1, 2, 15, 16, 31, 32, 33, 47, 48, 49, 64} {
		short := &type3.RateLimitedTokenRequest{RequestKey: w.a3reg.RequestKey, NameKeyID: w.a3reg.NameKeyID,
			EncryptedTokenRequest: randBytes(r, n), Signature: w.a3reg.Signature}
		call("t3.Evaluate", short.Marshal(), false)
		call("attester.VerifyRequest", short.Marshal(), false)
	}

	// honest client requests for the empty origin name (32 zero bytes of padding) and a crafted all-zero / empty padded origin
	// (built by the EXECUTING process: they must be sealed to its issuer's name key)
	for _, n := range []int{0, 1, 3} {
		emit(ev{"op": "Call", "fn": "t3.Evaluate", "in": B(nil), "honest": false, "craft": ev{"kind": "origin-name", "n": n}})
	}
	for _, n := range []int{0, 1, 31, 32, 33, 64} {
		emit(ev{"op": "Call", "fn": "t3.Evaluate", "in": B(nil), "honest": false, "craft": ev{"kind": "inner-padded", "n": n}})
		emit(ev{"op": "Call", "fn": "t3.Evaluate", "in": B(nil), "honest": false, "craft": ev{"kind": "inner-padded-ones", "n": n}})
	}

	// requests / tokens whose fields have arbitrary lengths
	rq := w.a3reg
	for _, n := range []int{0, 1, 47, 48, 49, 95, 96, 97, 200} {
		callAux("attester.VerifyRequest/fields", randBytes(r, n), ev{"request_key": B(rq.RequestKey), "name_key_id": B(rq.NameKeyID), "enc_req": B(rq.EncryptedTokenRequest)})
	}
	for _, n := range []int{0, 1, 48, 50} {
		callAux("attester.VerifyRequest/fields", rq.Signature, ev{"request_key": B(randBytes(r, n)), "name_key_id": B(rq.NameKeyID), "enc_req": B(rq.EncryptedTokenRequest)})
	}
	tk := w.a1.token
	for _, n := range []int{0, 1, 31, 33, 64} {
		callAux("t1.VerifyFields", randBytes(r, n), ev{"context": B(tk.Context), "key_id": B(tk.KeyID), "auth": B(tk.Authenticator)})
		callAux("t1.VerifyFields", tk.Nonce, ev{"context": B(tk.Context), "key_id": B(tk.KeyID), "auth": B(randBytes(r, n))})
	}
	// ECDSA (r, s) classes
	N := elliptic.P384().Params().N
	vals := [][]byte{{}, {1}, new(big.Int).Sub(N, big.NewInt(1)).Bytes(), N.Bytes(), new(big.Int).Add(N, big.NewInt(1)).Bytes(), randBytes(r, 48), randBytes(r, 200)}
	for _, rv := range vals {
		for _, sv := range vals {
			for _, neg := range []int{0, 1, 2} {
				for _, dl := range []int{0, 20, 48, 64, 128} {
					callAux("ecdsa.Verify", rv, ev{"s": B(sv), "rneg": neg == 1, "sneg": neg == 2, "digest": B(randBytes(r, dl))})
				}
			}
		}
	}
}

var _ = rand.Int
