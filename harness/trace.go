package main

import (
	"bufio"
	"bytes"
	"encoding/json"
	"fmt"
	"math/rand"
	"os"
	"runtime"
	"sync"
	"sync/atomic"
)

// ev is one trace event: a JSON object. Byte strings are logged as arrays of
// integers (TLC reads them as sequences over 0..255).
type ev map[string]any

// B converts a byte string to the JSON form TLC reads as Seq(0..255).
func B(b []byte) []int {
	out := make([]int, len(b))
	for i, x := range b {
		out[i] = int(x)
	}
	return out
}

// traceWriter writes events round-robin into N shard files so that N TLC
// processes can validate them in parallel. Events of stateful families are
// written with a fixed shard instead.
type traceWriter struct {
	files []*os.File
	bufs  []*bufio.Writer
	n     int
	count int
}

func newTraceWriter(path string, shards int) (*traceWriter, error) {
	if shards < 1 {
		shards = 1
	}
	w := &traceWriter{}
	for i := 0; i < shards; i++ {
		p := path
		if shards > 1 {
			p = fmt.Sprintf("%s.%d", path, i)
		}
		f, err := os.Create(p)
		if err != nil {
			return nil, err
		}
		w.files = append(w.files, f)
		w.bufs = append(w.bufs, bufio.NewWriterSize(f, 1<<20))
	}
	return w, nil
}

func (w *traceWriter) emitTo(shard int, e ev) {
	b, err := json.Marshal(e)
	if err != nil {
		panic(err)
	}
	bw := w.bufs[shard%len(w.bufs)]
	bw.Write(b)
	bw.WriteByte('\n')
	w.count++
}

func (w *traceWriter) emit(e ev) {
	w.emitTo(w.n, e)
	w.n++
}

func (w *traceWriter) close() error {
	for i := range w.files {
		if err := w.bufs[i].Flush(); err != nil {
			return err
		}
		if err := w.files[i].Close(); err != nil {
			return err
		}
	}
	return nil
}

// record generates (or reads back) the cases of a family, executes them on a
// worker pool and writes the events: all events of one case go to one shard, in
// order; cases are dealt round-robin to the shards.
// genOnly writes the family's case list (one JSON object per line) and executes nothing: when several harness
// processes share the work (-part i/n) they must all read ONE list - generators call randomised library code
// (honest requests, signatures), so two processes do not generate byte-identical lists.
func genOnly(f *family, c *ctx) error {
	var cases []ev
	f.gen(c, func(e ev) { cases = append(cases, roundTrip(e)) })
	cf, err := os.Create(c.out)
	if err != nil {
		return err
	}
	bw := bufio.NewWriterSize(cf, 1<<20)
	for _, cs := range cases {
		b, _ := json.Marshal(cs)
		bw.Write(b)
		bw.WriteByte('\n')
	}
	if err := bw.Flush(); err != nil {
		return err
	}
	return cf.Close()
}

func record(f *family, c *ctx) error {
	var cases []ev
	if c.in != "" {
		data, err := os.ReadFile(c.in)
		if err != nil {
			return err
		}
		dec := json.NewDecoder(bytes.NewReader(data))
		dec.UseNumber()
		for dec.More() {
			var e ev
			if err := dec.Decode(&e); err != nil {
				return err
			}
			cases = append(cases, e)
		}
	} else {
		f.gen(c, func(e ev) { cases = append(cases, roundTrip(e)) })
	}
	pi, pn := 0, 1
	if c.part != "" {
		fmt.Sscanf(c.part, "%d/%d", &pi, &pn)
		if pn < 1 || pi < 0 || pi >= pn {
			return fmt.Errorf("bad -part %q", c.part)
		}
	}
	results := make([][]ev, len(cases))
	// cases marked "serial" run first, one at a time, with nothing else of the library running in this process:
	// histories whose point is that NOTHING happens between two calls (package-level state of the library would
	// otherwise be refreshed by the other cases executing concurrently)
	for k := range cases {
		if cases[k]["serial"] == true && k%pn == pi {
			results[k] = f.exec(c, cases[k])
		}
	}
	workers := runtime.NumCPU()
	if f.serial || c.arg == "measure" {
		workers = 1
	}
	var wg sync.WaitGroup
	next := int64(-1)
	for i := 0; i < workers; i++ {
		wg.Add(1)
		go func() {
			defer wg.Done()
			for {
				k := int(atomic.AddInt64(&next, 1))
				if k >= len(cases) {
					return
				}
				if k%pn != pi || cases[k]["serial"] == true {
					continue
				}
				results[k] = f.exec(c, cases[k])
			}
		}()
	}
	wg.Wait()
	w, err := newTraceWriter(c.out, c.shards)
	if err != nil {
		return err
	}
	for k, evs := range results {
		for _, e := range evs {
			e["cid"] = k
			w.emitTo(k, e)
		}
	}
	if err := w.close(); err != nil {
		return err
	}
	// the cases, so that a rejected event can be traced back to its inputs and
	// re-executed
	if pi != 0 {
		return nil
	}
	cf, err := os.Create(c.out + ".cases")
	if err != nil {
		return err
	}
	bw := bufio.NewWriterSize(cf, 1<<20)
	for _, cs := range cases {
		b, _ := json.Marshal(cs)
		bw.Write(b)
		bw.WriteByte('\n')
	}
	if err := bw.Flush(); err != nil {
		return err
	}
	return cf.Close()
}

// roundTrip passes a generated case through JSON so that exec sees exactly
// what it would see when the case is read back from a replay file.
func roundTrip(e ev) ev {
	b, err := json.Marshal(e)
	if err != nil {
		panic(err)
	}
	dec := json.NewDecoder(bytes.NewReader(b))
	dec.UseNumber()
	var out ev
	if err := dec.Decode(&out); err != nil {
		panic(err)
	}
	return out
}

// accessors for case fields -------------------------------------------------

func gB(e ev, k string) []byte {
	v, ok := e[k]
	if !ok || v == nil {
		return nil
	}
	arr := v.([]any)
	out := make([]byte, len(arr))
	for i, x := range arr {
		n, _ := x.(json.Number).Int64()
		out[i] = byte(n)
	}
	return out
}

func gI(e ev, k string) int {
	v, ok := e[k]
	if !ok {
		return 0
	}
	n, _ := v.(json.Number).Int64()
	return int(n)
}

func gS(e ev, k string) string {
	v, ok := e[k]
	if !ok {
		return ""
	}
	s, _ := v.(string)
	return s
}

func gBool(e ev, k string) bool {
	v, _ := e[k].(bool)
	return v
}

func gL(e ev, k string) []any {
	v, _ := e[k].([]any)
	return v
}

func newRand(seed int64, salt string) *rand.Rand {
	h := int64(1469598103934665603)
	for _, c := range salt {
		h ^= int64(c)
		h *= 1099511628211
	}
	return rand.New(rand.NewSource(seed*7919 + h))
}

func randBytes(r *rand.Rand, n int) []byte {
	b := make([]byte, n)
	r.Read(b)
	return b
}

// guard runs f and converts a panic into its message ("" = no panic).
func guard(f func()) (msg string) {
	defer func() {
		if r := recover(); r != nil {
			msg = fmt.Sprint(r)
			if msg == "" {
				msg = "panic"
			}
		}
	}()
	f()
	return ""
}
