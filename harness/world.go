package main

import (
	"crypto"
	"crypto/elliptic"
	"crypto/rsa"
	"crypto/sha256"
	"crypto/sha512"
	"crypto/x509"
	"embed"
	"encoding/pem"
	"fmt"
	"math/big"
	"math/rand"
	"sync"

	"github.com/cloudflare/circl/oprf"
	"github.com/cloudflare/pat-go/ecdsa"
	"github.com/cloudflare/pat-go/tokens"
	"github.com/cloudflare/pat-go/tokens/type1"
	"github.com/cloudflare/pat-go/tokens/type2"
	"github.com/cloudflare/pat-go/tokens/type3"
	"github.com/cloudflare/pat-go/tokens/type5"
)

// The concretisation table: model values (issuer key k1/k2, client c1.., nonce,
// challenge class, origin ...) are turned into concrete keys and byte strings
// here, deterministically from the seed.

//go:embed testdata/*.pem
var testdata embed.FS

var (
	rsaOnce sync.Once
	rsaPool []*rsa.PrivateKey
)

func rsaKey(i int) *rsa.PrivateKey {
	rsaOnce.Do(func() {
		for k := 0; k < 4; k++ {
			data, err := testdata.ReadFile(fmt.Sprintf("testdata/rsa%d.pem", k))
			if err != nil {
				panic(err)
			}
			block, _ := pem.Decode(data)
			key, err := x509.ParsePKCS1PrivateKey(block.Bytes)
			if err != nil {
				panic(err)
			}
			key.Precompute()
			rsaPool = append(rsaPool, key)
		}
	})
	return rsaPool[i%len(rsaPool)]
}

var (
	rsaBigOnce sync.Once
	rsaBigKey  *rsa.PrivateKey
)

// rsaBig is a 3072-bit key (outside what token type 2 supports).
func rsaBig() *rsa.PrivateKey {
	rsaBigOnce.Do(func() {
		data, err := testdata.ReadFile("testdata/rsa3072.pem")
		if err != nil {
			panic(err)
		}
		block, _ := pem.Decode(data)
		key, err := x509.ParsePKCS1PrivateKey(block.Bytes)
		if err != nil {
			panic(err)
		}
		rsaBigKey = key
	})
	return rsaBigKey
}

func voprfKey(suite oprf.Suite, seed int64, name string) *oprf.PrivateKey {
	s := sha256.Sum256([]byte(fmt.Sprintf("verif-voprf-%d-%s", seed, name)))
	k, err := oprf.DeriveKey(suite, oprf.VerifiableMode, s[:], []byte("verif"))
	if err != nil {
		panic(err)
	}
	return k
}

func p384Key(seed int64, name string) *oprf.PrivateKey { return voprfKey(oprf.SuiteP384, seed, name) }
func ristrettoKey(seed int64, name string) *oprf.PrivateKey {
	return voprfKey(oprf.SuiteRistretto255, seed, name)
}

// p384Scalar returns a 48-byte big-endian scalar in [1, N-1] derived from a name.
func p384Scalar(seed int64, name string) []byte {
	h := sha512.Sum384([]byte(fmt.Sprintf("verif-scalar-%d-%s", seed, name)))
	n := new(big.Int).SetBytes(h[:])
	N := elliptic.P384().Params().N
	n.Mod(n, new(big.Int).Sub(N, big.NewInt(1)))
	n.Add(n, big.NewInt(1))
	out := make([]byte, 48)
	n.FillBytes(out)
	return out
}

func hashBytes(seed int64, name string, n int) []byte {
	out := []byte{}
	for i := 0; len(out) < n; i++ {
		h := sha256.Sum256([]byte(fmt.Sprintf("verif-bytes-%d-%s-%d", seed, name, i)))
		out = append(out, h[:]...)
	}
	return out[:n]
}

// verifyPSS is the oracle for token types 2 and 3: crypto/rsa directly.
func verifyPSS(pub *rsa.PublicKey, tok tokens.Token) error {
	h := sha512.New384()
	h.Write(authInput(tok))
	return rsa.VerifyPSS(pub, crypto.SHA384, h.Sum(nil), tok.Authenticator,
		&rsa.PSSOptions{Hash: crypto.SHA384, SaltLength: 48})
}

// fullEvaluate is the oracle for token types 1 and 5: circl's OPRF directly.
func fullEvaluate(suite oprf.Suite, key *oprf.PrivateKey, input []byte) []byte {
	out, err := oprf.NewVerifiableServer(suite, key).FullEvaluate(input)
	if err != nil {
		return nil
	}
	return out
}

// ---------------------------------------------------------------------------
// Honest runs (artefact producers). viaWire makes every message cross the wire
// as bytes, as property C01 demands; otherwise the request struct is handed
// over directly, which yields honest artefacts even where a decoder is broken.

type t1Art struct {
	key       *oprf.PrivateKey
	issuer    *type1.BasicPrivateIssuer
	state     type1.BasicPrivateTokenRequestState
	challenge []byte
	nonce     []byte
	req       []byte
	resp      []byte
	token     tokens.Token
}

func honestT1(key *oprf.PrivateKey, challenge, nonce []byte, viaWire bool) (*t1Art, error) {
	a := &t1Art{key: key, challenge: challenge, nonce: nonce}
	a.issuer = type1.NewBasicPrivateIssuer(key)
	st, err := type1.NewBasicPrivateClient().CreateTokenRequest(challenge, nonce, a.issuer.TokenKeyID(), a.issuer.TokenKey())
	if err != nil {
		return nil, fmt.Errorf("create: %w", err)
	}
	a.state = st
	a.req = append([]byte{}, st.Request().Marshal()...)
	req := st.Request()
	if viaWire {
		req = new(type1.BasicPrivateTokenRequest)
		if !req.Unmarshal(a.req) {
			return a, fmt.Errorf("issuer could not decode the client's request")
		}
	}
	resp, err := a.issuer.Evaluate(req)
	if err != nil {
		return a, fmt.Errorf("evaluate: %w", err)
	}
	a.resp = resp
	tok, err := st.FinalizeToken(append([]byte{}, resp...))
	if err != nil {
		return a, fmt.Errorf("finalize: %w", err)
	}
	a.token = tok
	return a, nil
}

type t2Art struct {
	key       *rsa.PrivateKey
	issuer    *type2.BasicPublicIssuer
	state     type2.BasicPublicTokenRequestState
	challenge []byte
	nonce     []byte
	req       []byte
	resp      []byte
	token     tokens.Token
}

func honestT2(key *rsa.PrivateKey, challenge, nonce []byte, viaWire bool) (*t2Art, error) {
	a := &t2Art{key: key, challenge: challenge, nonce: nonce}
	a.issuer = type2.NewBasicPublicIssuer(key)
	st, err := type2.NewBasicPublicClient().CreateTokenRequest(challenge, nonce, a.issuer.TokenKeyID(), a.issuer.TokenKey())
	if err != nil {
		return nil, fmt.Errorf("create: %w", err)
	}
	a.state = st
	a.req = append([]byte{}, st.Request().Marshal()...)
	req := st.Request()
	if viaWire {
		req = new(type2.BasicPublicTokenRequest)
		if !req.Unmarshal(a.req) {
			return a, fmt.Errorf("issuer could not decode the client's request")
		}
	}
	resp, err := a.issuer.Evaluate(req)
	if err != nil {
		return a, fmt.Errorf("evaluate: %w", err)
	}
	a.resp = resp
	tok, err := st.FinalizeToken(append([]byte{}, resp...))
	if err != nil {
		return a, fmt.Errorf("finalize: %w", err)
	}
	a.token = tok
	return a, nil
}

type t5Art struct {
	key       *oprf.PrivateKey
	issuer    *type5.BatchedPrivateIssuer
	state     type5.BatchedPrivateTokenRequestState
	challenge []byte
	nonces    [][]byte
	req       []byte
	resp      []byte
	tokens    []tokens.Token
}

func honestT5(key *oprf.PrivateKey, challenge []byte, nonces [][]byte, viaWire bool) (*t5Art, error) {
	a := &t5Art{key: key, challenge: challenge, nonces: nonces}
	a.issuer = type5.NewBatchedPrivateIssuer(key)
	st, err := type5.NewBatchedPrivateClient().CreateTokenRequest(challenge, nonces, a.issuer.TokenKeyID(), a.issuer.TokenKey())
	if err != nil {
		return nil, fmt.Errorf("create: %w", err)
	}
	a.state = st
	a.req = append([]byte{}, st.Request().Marshal()...)
	req := st.Request()
	if viaWire {
		req = new(type5.BatchedPrivateTokenRequest)
		if !req.Unmarshal(a.req) {
			return a, fmt.Errorf("issuer could not decode the client's request")
		}
	}
	resp, err := a.issuer.Evaluate(req)
	if err != nil {
		return a, fmt.Errorf("evaluate: %w", err)
	}
	a.resp = resp
	toks, err := st.FinalizeTokens(append([]byte{}, resp...))
	if err != nil {
		return a, fmt.Errorf("finalize: %w", err)
	}
	a.tokens = toks
	return a, nil
}

// t3World is one rate-limited issuer with registered origins, and clients.
type t3World struct {
	key    *rsa.PrivateKey
	issuer *type3.RateLimitedIssuer
}

func newT3World(key *rsa.PrivateKey, seed int64, origins map[string]string) *t3World {
	w := &t3World{key: key, issuer: type3.NewRateLimitedIssuer(key)}
	for name, ik := range origins {
		if ik == "" { // the issuer draws the index key itself
			if err := w.issuer.AddOrigin(name); err != nil {
				panic(err)
			}
			continue
		}
		sk, _ := rawKey(elliptic.P384(), p384Scalar(seed, "indexkey-"+ik))
		w.issuer.AddOriginWithIndexKey(name, sk)
	}
	return w
}

type t3Art struct {
	w         *t3World
	client    type3.RateLimitedClient
	secret    []byte
	clientKey []byte // compressed public key
	blind     []byte
	state     type3.RateLimitedTokenRequestState
	challenge []byte
	nonce     []byte
	origin    string
	req       []byte
	resp      []byte
	blindedRK []byte // Evaluate's second result
	token     tokens.Token
}

func clientPublic(secret []byte) []byte {
	c := elliptic.P384()
	x, y := c.ScalarBaseMult(secret)
	return elliptic.MarshalCompressed(c, x, y)
}

func honestT3(w *t3World, secret, blind, challenge, nonce []byte, origin string) (*t3Art, error) {
	a := &t3Art{w: w, secret: secret, blind: blind, challenge: challenge, nonce: nonce, origin: origin}
	a.client = type3.NewRateLimitedClientFromSecret(secret)
	a.clientKey = clientPublic(secret)
	st, err := a.client.CreateTokenRequest(challenge, nonce, blind, w.issuer.TokenKeyID(), w.issuer.TokenKey(), origin, w.issuer.NameKey())
	if err != nil {
		return nil, fmt.Errorf("create: %w", err)
	}
	a.state = st
	a.req = append([]byte{}, st.Request().Marshal()...)
	resp, brk, err := w.issuer.Evaluate(append([]byte{}, a.req...))
	if err != nil {
		return a, fmt.Errorf("evaluate: %w", err)
	}
	a.resp, a.blindedRK = resp, brk
	tok, err := st.FinalizeToken(append([]byte{}, resp...))
	if err != nil {
		return a, fmt.Errorf("finalize: %w", err)
	}
	a.token = tok
	return a, nil
}

func randNonce(r *rand.Rand) []byte { return randBytes(r, 32) }

func errStr(err error) string {
	if err == nil {
		return ""
	}
	return err.Error()
}

// adapters to the generic batch issuer's interface (the repository only has
// such adapters in its test files)
type batchIssuer1 struct{ *type1.BasicPrivateIssuer }

func (i batchIssuer1) Evaluate(req tokens.TokenRequest) ([]byte, error) {
	r, ok := req.(*type1.BasicPrivateTokenRequest)
	if !ok {
		return nil, fmt.Errorf("TokenRequest does not match issuer type")
	}
	return i.BasicPrivateIssuer.Evaluate(r)
}

type batchIssuer2 struct{ *type2.BasicPublicIssuer }

func (i batchIssuer2) Evaluate(req tokens.TokenRequest) ([]byte, error) {
	r, ok := req.(*type2.BasicPublicTokenRequest)
	if !ok {
		return nil, fmt.Errorf("TokenRequest does not match issuer type")
	}
	return i.BasicPublicIssuer.Evaluate(r)
}

type bigInt = big.Int

var attMu sync.Mutex

// authInput is the authenticator input of a token, concatenated here
// independently of the library: type || nonce || context || key id.
func authInput(tok tokens.Token) []byte {
	in := []byte{byte(tok.TokenType >> 8), byte(tok.TokenType)}
	in = append(in, tok.Nonce...)
	in = append(in, tok.Context...)
	return append(in, tok.KeyID...)
}

func sha256Sum(b []byte) []byte {
	h := sha256.Sum256(b)
	return h[:]
}

// rawKey builds an ECDSA key object of the fork from raw scalar bytes WITHOUT calling the library: D is the integer the
// bytes encode (not reduced - the blinding factor is a hash of D's bytes, so b and b + N are different blind keys), the
// public point is computed by crypto/elliptic. The harness's own expectations must not move when ecdsa.CreateKey does.
func rawKey(curve elliptic.Curve, b []byte) (*ecdsa.PrivateKey, error) {
	x, y := curve.ScalarBaseMult(b)
	return &ecdsa.PrivateKey{PublicKey: ecdsa.PublicKey{Curve: curve, X: x, Y: y}, D: new(big.Int).SetBytes(b)}, nil
}
