package main

import (
	stdecdsa "crypto/ecdsa"
	stded "crypto/ed25519"
	"crypto/elliptic"
	"encoding/json"
	"fmt"
	"math/big"
	"os"
	"strings"

	"github.com/cloudflare/circl/oprf"
	"github.com/cloudflare/pat-go/ecdsa"
	"github.com/cloudflare/pat-go/ed25519"
	"github.com/cloudflare/pat-go/quicwire"
	"github.com/cloudflare/pat-go/tokens"
	"github.com/cloudflare/pat-go/tokens/batched"
	"github.com/cloudflare/pat-go/tokens/type1"
	"github.com/cloudflare/pat-go/tokens/type2"
	"github.com/cloudflare/pat-go/tokens/type3"
	"github.com/cloudflare/pat-go/tokens/type5"
)

// Family "verdicts" (properties C06, C07, C10, C13, C14 over histories): every history of presentations that
// Verdicts.tla generates for a verifier kind is replayed on ONE long-lived real object. In a history each class of the
// model stands for one concrete value - the same bytes every time it is presented. Trace_Verdicts.tla requires the
// verdict of every step to be the class's validity, whatever came before.

func init() { register("verdicts", &family{gen: genVerdicts, exec: execVerdicts}) }

// a verifier object with the concrete value of every class
type verdictWorld struct {
	present map[string]func() (ok bool, ref string) // ref: "true"/"false" from an independent reference, "" if there is none
	sound   bool                                    // set by present: what the accepting call handed out passes the oracle
}

func tokCopy(t tokens.Token) tokens.Token {
	cp := func(b []byte) []byte { return append([]byte{}, b...) }
	out := t // the value as the library returned it
	out.Nonce, out.Context, out.KeyID, out.Authenticator = cp(t.Nonce), cp(t.Context), cp(t.KeyID), cp(t.Authenticator)
	return out
}

func refStr(b bool) string {
	if b {
		return "true"
	}
	return "false"
}

func newVerdictWorld(c *ctx, kind string, hid int) *verdictWorld {
	r := newRand(c.seed, fmt.Sprintf("verdicts-%s-%d", kind, hid))
	w := &verdictWorld{present: map[string]func() (bool, string){}}
	switch kind {
	case "t1verify", "t5verify":
		var suite oprf.Suite
		var key, other *oprf.PrivateKey
		var h1, h2, ho tokens.Token
		var verify func(tokens.Token) error
		if kind == "t1verify" {
			suite, key, other = oprf.SuiteP384, p384Key(c.seed, "k1"), p384Key(c.seed, "k2")
			mk := func(k *oprf.PrivateKey) tokens.Token {
				a, err := honestT1(k, randBytes(r, 12), randNonce(r), false)
				if err != nil {
					panic(err)
				}
				return a.token
			}
			h1, h2, ho = mk(key), mk(key), mk(other)
			iss := type1.NewBasicPrivateIssuer(freshVoprf(suite, key))
			verify = func(tok tokens.Token) error {
				// ... and every presentation is also made to an issuer constructed this very moment (its first call)
				errFresh := type1.NewBasicPrivateIssuer(freshVoprf(suite, key)).Verify(tok)
				err := iss.Verify(tok)
				if (errFresh == nil) != (err == nil) {
					panic(fmt.Sprintf("a freshly constructed issuer decides otherwise (fresh: %v, long-lived: %v)", errFresh, err))
				}
				return err
			}
		} else {
			suite, key, other = oprf.SuiteRistretto255, ristrettoKey(c.seed, "k1"), ristrettoKey(c.seed, "k2")
			mk := func(k *oprf.PrivateKey) tokens.Token {
				a, err := honestT5(k, randBytes(r, 12), [][]byte{randNonce(r), randNonce(r)}, false)
				if err != nil {
					panic(err)
				}
				return a.tokens[r.Intn(2)]
			}
			h1, h2, ho = mk(key), mk(key), mk(other)
			iss := type5.NewBatchedPrivateIssuer(freshVoprf(suite, key))
			verify = func(tok tokens.Token) error {
				errFresh := type5.NewBatchedPrivateIssuer(freshVoprf(suite, key)).Verify(tok)
				err := iss.Verify(tok)
				if (errFresh == nil) != (err == nil) {
					panic(fmt.Sprintf("a freshly constructed issuer decides otherwise (fresh: %v, long-lived: %v)", errFresh, err))
				}
				return err
			}
		}
		vals := map[string]tokens.Token{"honest": h1, "honest2": h2, "other": ho}
		t := tokCopy(h1)
		t.Nonce = append(t.Nonce, 0x00)
		vals["nonce+"] = t
		t = tokCopy(h1)
		t.KeyID = append(t.KeyID, 0x00)
		vals["keyid+"] = t
		t = tokCopy(h1)
		t.Authenticator = append([]byte{t.KeyID[31]}, t.Authenticator...)
		t.KeyID = t.KeyID[:31]
		vals["shift"] = t
		t = tokCopy(h1)
		t.Authenticator = flipBit(t.Authenticator, r.Intn(8*len(t.Authenticator)))
		vals["flip"] = t
		for name, v := range vals {
			v := v
			w.present[name] = func() (bool, string) {
				tok := tokCopy(v) // the same bytes every time, in storage of their own
				ref := bytesEq(fullEvaluate(suite, key, authInput(tok)), tok.Authenticator)
				return verify(tok) == nil, refStr(ref)
			}
		}
	case "rlissuer":
		x := newRLWorld(c)
		secret, secret2 := x.secret, p384Scalar(c.seed, "rl-client-2")
		mk := func(origin string, blind []byte) *type3.RateLimitedTokenRequest {
			st, err := type3.NewRateLimitedClientFromSecret(secret).CreateTokenRequest(randBytes(r, 9), randNonce(r), blind,
				x.w.issuer.TokenKeyID(), x.w.issuer.TokenKey(), origin, x.w.issuer.NameKey())
			if err != nil {
				panic(err)
			}
			out := new(type3.RateLimitedTokenRequest)
			if !out.Unmarshal(append([]byte{}, st.Request().Marshal()...)) {
				panic("honest request does not decode")
			}
			return out
		}
		enc := func(q *type3.RateLimitedTokenRequest) []byte {
			return (&type3.RateLimitedTokenRequest{RequestKey: q.RequestKey, NameKeyID: q.NameKeyID,
				EncryptedTokenRequest: q.EncryptedTokenRequest, Signature: q.Signature}).Marshal()
		}
		blind := randScalar(r)
		h := mk(x.origin, blind)
		he := enc(h)
		f := t3ReqFields(he)
		vals := map[string][]byte{"honest": he, "honest2": enc(mk(x.origin, randScalar(r))), "unreg": enc(mk("registered.exampl", randScalar(r)))}
		b := append([]byte{}, he...)
		bit := r.Intn(8 * 96)
		b[f["sig"][0]+bit/8] ^= 1 << uint(bit%8)
		vals["sigflip"] = b
		b = append([]byte{}, he...)
		bit = r.Intn(8 * (f["enc"][1] - f["enc"][0]))
		b[f["enc"][0]+bit/8] ^= 1 << uint(bit%8)
		vals["encflip"] = b
		vals["trailing"] = append(append([]byte{}, he...), 0)
		q := *h
		q.Signature = signT3(secret2, blind, &q)
		vals["signer"] = enc(&q)
		for name, v := range vals {
			v := v
			w.present[name] = func() (bool, string) {
				_, _, err := x.w.issuer.Evaluate(append([]byte{}, v...))
				return err == nil, ""
			}
		}
	case "rlorigins":
		x := newRLWorld(c)
		names := map[string]string{"reg": x.origin, "long": rlLongOrigin, "prefix32": rlLongOrigin[:32], "dot": x.origin + ".",
			"upper": strings.ToUpper(x.origin), "nul": x.origin + "\x00.attacker.example", "other": "unrelated.example", "comma": x.origin + ",unregistered.example"}
		// one client, and in every other history ONE request blind for all names (reusing a blind is the client's choice:
		// requests that share their request key are still requests for different origins)
		sharedBlind := randScalar(r)
		for name, origin := range names {
			blind := sharedBlind
			if hid%2 == 1 {
				blind = randScalar(r)
			}
			st, err := type3.NewRateLimitedClientFromSecret(x.secret).CreateTokenRequest(randBytes(r, 9), randNonce(r), blind,
				x.w.issuer.TokenKeyID(), x.w.issuer.TokenKey(), origin, x.w.issuer.NameKey())
			if err != nil {
				panic(err)
			}
			enc := append([]byte{}, st.Request().Marshal()...)
			w.present[name] = func() (bool, string) {
				_, _, err := x.w.issuer.Evaluate(append([]byte{}, enc...))
				return err == nil, ""
			}
		}
	case "attester":
		aw := newAttWorld(c.seed, false)
		cache := &recCache{m: map[string]*type3.ClientState{}}
		att := type3.NewRateLimitedAttester(cache)
		type call struct {
			req        type3.RateLimitedTokenRequest
			blind, key []byte
		}
		mk := func(cn, q, v string, bit int) call {
			req, blind, key, _, _, _ := buildVerify(aw, r, cn, q, v, bit)
			return call{req, blind, key}
		}
		vals := map[string]call{"good": mk("c1", "good", "", 0), "good2": mk("c2", "good", "", 0), "ckey+": mk("c1", "badcky", "trailing", 0),
			"sigflip": mk("c1", "badsig", "flip-sig", 2*r.Intn(384)), "blind": mk("c1", "badkey", "wrong-blind", 0), "cross": mk("c1", "badkey", "wrong-client", 0)}
		for name, v := range vals {
			v := v
			w.present[name] = func() (bool, string) {
				return att.VerifyRequest(v.req, append([]byte{}, v.blind...), append([]byte{}, v.key...), aw.anon("a1")) == nil, ""
			}
		}
	case "t1final", "t2final", "t5final", "t3final":
		// one request state, finalizing whatever responses it is handed
		var fin func(resp []byte) ([]tokens.Token, error)
		var oracle func(tokens.Token) bool
		vals := map[string][]byte{}
		derive := func(h []byte) {
			vals["honest"] = h
			vals["flip"] = flipBit(h, r.Intn(8*len(h)))
			vals["trailing"] = append(append([]byte{}, h...), 0)
			vals["short"] = append([]byte{}, h[:len(h)-1]...)
		}
		must := func(b []byte, err error) []byte {
			if err != nil {
				panic(err)
			}
			return b
		}
		switch kind {
		case "t1final":
			k, k2 := p384Key(c.seed, "k1"), p384Key(c.seed, "k2")
			a, err := honestT1(k, randBytes(r, 12), randNonce(r), false)
			if err != nil {
				panic(err)
			}
			b, err := honestT1(k, randBytes(r, 12), randNonce(r), false)
			if err != nil {
				panic(err)
			}
			derive(a.resp)
			vals["reissued"] = must(a.issuer.Evaluate(a.state.Request()))
			vals["foreign"] = must(type1.NewBasicPrivateIssuer(k2).Evaluate(a.state.Request()))
			vals["otherreq"] = b.resp
			fin = func(resp []byte) ([]tokens.Token, error) {
				t, err := a.state.FinalizeToken(resp)
				return []tokens.Token{t}, err
			}
			oracle = func(t tokens.Token) bool {
				return t.TokenType == 1 && bytesEq(fullEvaluate(oprf.SuiteP384, k, authInput(t)), t.Authenticator) && bytesEq(t.Nonce, a.nonce)
			}
		case "t5final":
			k, k2 := ristrettoKey(c.seed, "k1"), ristrettoKey(c.seed, "k2")
			nonces := [][]byte{randNonce(r), randNonce(r)}
			a, err := honestT5(k, randBytes(r, 12), nonces, false)
			if err != nil {
				panic(err)
			}
			b, err := honestT5(k, randBytes(r, 12), [][]byte{randNonce(r), randNonce(r)}, false)
			if err != nil {
				panic(err)
			}
			derive(a.resp)
			vals["reissued"] = must(a.issuer.Evaluate(a.state.Request()))
			vals["foreign"] = must(type5.NewBatchedPrivateIssuer(k2).Evaluate(a.state.Request()))
			vals["otherreq"] = b.resp
			fin = func(resp []byte) ([]tokens.Token, error) { return a.state.FinalizeTokens(resp) }
			oracle = func(t tokens.Token) bool {
				return t.TokenType == 5 && bytesEq(fullEvaluate(oprf.SuiteRistretto255, k, authInput(t)), t.Authenticator) &&
					(bytesEq(t.Nonce, nonces[0]) || bytesEq(t.Nonce, nonces[1]))
			}
		case "t2final":
			k, k2 := rsaKey(0), rsaKey(1)
			a, err := honestT2(k, randBytes(r, 12), randNonce(r), false)
			if err != nil {
				panic(err)
			}
			b, err := honestT2(k, randBytes(r, 12), randNonce(r), false)
			if err != nil {
				panic(err)
			}
			derive(a.resp)
			vals["reissued"] = must(a.issuer.Evaluate(a.state.Request()))
			// (the other key signs the same blinded message, reduced below its own modulus if need be)
			msg := new(big.Int).Mod(new(big.Int).SetBytes(a.state.Request().BlindedReq), k2.N).FillBytes(make([]byte, 256))
			vals["foreign"] = must(type2.NewBasicPublicIssuer(k2).Evaluate(&type2.BasicPublicTokenRequest{TokenKeyID: a.state.Request().TokenKeyID, BlindedReq: msg}))
			vals["otherreq"] = b.resp
			fin = func(resp []byte) ([]tokens.Token, error) {
				t, err := a.state.FinalizeToken(resp)
				return []tokens.Token{t}, err
			}
			oracle = func(t tokens.Token) bool {
				return t.TokenType == 2 && verifyPSS(&k.PublicKey, t) == nil && bytesEq(t.Nonce, a.nonce)
			}
		case "t3final":
			tw := newT3World(rsaKey(2), c.seed, map[string]string{"fin.example": "a"})
			secret := p384Scalar(c.seed, "fin-client")
			a, err := honestT3(tw, secret, randScalar(r), randBytes(r, 12), randNonce(r), "fin.example")
			if err != nil {
				panic(err)
			}
			b, err := honestT3(tw, secret, randScalar(r), randBytes(r, 12), randNonce(r), "fin.example")
			if err != nil {
				panic(err)
			}
			derive(a.resp)
			vals["otherreq"] = b.resp
			fin = func(resp []byte) ([]tokens.Token, error) {
				t, err := a.state.FinalizeToken(resp)
				return []tokens.Token{t}, err
			}
			oracle = func(t tokens.Token) bool {
				return t.TokenType == 3 && verifyPSS(tw.issuer.TokenKey(), t) == nil && bytesEq(t.Nonce, a.nonce)
			}
		}
		for name, v := range vals {
			v := v
			w.present[name] = func() (bool, string) {
				toks, err := fin(append([]byte{}, v...))
				if err != nil {
					return false, ""
				}
				for _, t := range toks {
					if !oracle(t) {
						w.sound = false
					}
				}
				return true, ""
			}
		}
	case "t1issue", "t2issue", "t5issue", "t3issue":
		// one long-lived issuer; every class is one encoded request, answered (or not) every time it is presented; an
		// answer is judged by the client state that made the request
		type reqv struct {
			enc   []byte
			judge func(resp, brk []byte) bool // nil for requests that must be refused
		}
		vals := map[string]reqv{}
		var evaluate func(enc []byte) (resp, brk []byte, err error)
		switch kind {
		case "t1issue":
			k := p384Key(c.seed, "k1")
			iss := type1.NewBasicPrivateIssuer(k)
			obj := new(type1.BasicPrivateTokenRequest) // ONE request object the issuer side decodes into
			evaluate = func(enc []byte) ([]byte, []byte, error) {
				if !obj.Unmarshal(enc) {
					return nil, nil, fmt.Errorf("does not decode")
				}
				resp, err := iss.Evaluate(obj)
				return resp, nil, err
			}
			mk := func() reqv {
				st, err := type1.NewBasicPrivateClient().CreateTokenRequest(randBytes(r, 9), randNonce(r), iss.TokenKeyID(), iss.TokenKey())
				if err != nil {
					panic(err)
				}
				return reqv{append([]byte{}, st.Request().Marshal()...), func(resp, _ []byte) bool {
					t, err := st.FinalizeToken(resp)
					return err == nil && bytesEq(fullEvaluate(oprf.SuiteP384, k, authInput(t)), t.Authenticator)
				}}
			}
			h := mk()
			vals["honest"], vals["honest2"] = h, mk()
			vals["bad"] = reqv{append(append([]byte{}, h.enc[:3]...), bytesRepeat(0xff, 49)...), nil}
			vals["short"] = reqv{append([]byte{}, h.enc[:len(h.enc)-1]...), nil}
		case "t2issue":
			k := rsaKey(1)
			iss := type2.NewBasicPublicIssuer(k)
			obj := new(type2.BasicPublicTokenRequest)
			evaluate = func(enc []byte) ([]byte, []byte, error) {
				if !obj.Unmarshal(enc) {
					return nil, nil, fmt.Errorf("does not decode")
				}
				resp, err := iss.Evaluate(obj)
				return resp, nil, err
			}
			mk := func() reqv {
				st, err := type2.NewBasicPublicClient().CreateTokenRequest(randBytes(r, 9), randNonce(r), iss.TokenKeyID(), iss.TokenKey())
				if err != nil {
					panic(err)
				}
				return reqv{append([]byte{}, st.Request().Marshal()...), func(resp, _ []byte) bool {
					t, err := st.FinalizeToken(resp)
					return err == nil && verifyPSS(&k.PublicKey, t) == nil
				}}
			}
			h := mk()
			vals["honest"], vals["honest2"] = h, mk()
			vals["bad"] = reqv{append(append([]byte{}, h.enc[:3]...), bytesRepeat(0xff, 256)...), nil}
			vals["short"] = reqv{append([]byte{}, h.enc[:len(h.enc)-1]...), nil}
		case "t5issue":
			k := ristrettoKey(c.seed, "k1")
			iss := type5.NewBatchedPrivateIssuer(k)
			obj := new(type5.BatchedPrivateTokenRequest)
			evaluate = func(enc []byte) ([]byte, []byte, error) {
				if !obj.Unmarshal(enc) {
					return nil, nil, fmt.Errorf("does not decode")
				}
				resp, err := iss.Evaluate(obj)
				return resp, nil, err
			}
			mk := func(n int) reqv {
				ns := [][]byte{}
				for i := 0; i < n; i++ {
					ns = append(ns, randNonce(r))
				}
				st, err := type5.NewBatchedPrivateClient().CreateTokenRequest(randBytes(r, 9), ns, iss.TokenKeyID(), iss.TokenKey())
				if err != nil {
					panic(err)
				}
				return reqv{append([]byte{}, st.Request().Marshal()...), func(resp, _ []byte) bool {
					ts, err := st.FinalizeTokens(resp)
					if err != nil || len(ts) != n {
						return false
					}
					for _, t := range ts {
						if !bytesEq(fullEvaluate(oprf.SuiteRistretto255, k, authInput(t)), t.Authenticator) {
							return false
						}
					}
					return true
				}}
			}
			h := mk(3)
			vals["honest"], vals["honest2"] = h, mk(1)
			_, lw := quicwire.ConsumeVarint(h.enc[3:]) // the list starts behind type, key id and the list length
			base := 3 + lw
			b2 := append([]byte{}, h.enc...)
			for j := 0; j < 64; j++ {
				b2[base+32+j] = 0xff // elements 2 and 3
			}
			b1 := append([]byte{}, h.enc...)
			for j := 0; j < 32; j++ {
				b1[base+64+j] = 0xff
			}
			vals["bad2"], vals["bad1"] = reqv{b2, nil}, reqv{b1, nil}
		case "t3issue":
			x := newRLWorld(c)
			evaluate = func(enc []byte) ([]byte, []byte, error) { return x.w.issuer.Evaluate(enc) }
			blind := randScalar(r)
			mk := func(origin, ik string, b []byte) reqv {
				st, err := type3.NewRateLimitedClientFromSecret(x.secret).CreateTokenRequest(randBytes(r, 9), randNonce(r), b,
					x.w.issuer.TokenKeyID(), x.w.issuer.TokenKey(), origin, x.w.issuer.NameKey())
				if err != nil {
					panic(err)
				}
				return reqv{append([]byte{}, st.Request().Marshal()...), func(resp, brk []byte) bool {
					t, err := st.FinalizeToken(resp)
					return err == nil && verifyPSS(x.w.issuer.TokenKey(), t) == nil &&
						bytesEq(brk, refIssuerBlinded(x.secret, b, p384Scalar(c.seed, "indexkey-"+ik)))
				}}
			}
			h := mk(x.origin, "a", blind)
			vals["honest"], vals["sameblind"], vals["honest2"] = h, mk(rlLongOrigin, "b", blind), mk(x.origin, "a", randScalar(r))
			vals["sigflip"] = reqv{flipBit(h.enc, 8*len(h.enc)-3), nil}
			vals["unreg"] = reqv{mk("nobody.example", "a", randScalar(r)).enc, nil}
			vals["cut"] = reqv{append([]byte{}, h.enc[:len(h.enc)-1]...), nil}
		}
		for name, v := range vals {
			v := v
			w.present[name] = func() (bool, string) {
				resp, brk, err := evaluate(append([]byte{}, v.enc...))
				if err != nil {
					return false, ""
				}
				if v.judge == nil || !v.judge(resp, brk) {
					w.sound = false
				}
				return true, ""
			}
		}
	case "batchissuer":
		k1, rsa0 := p384Key(c.seed, "k1"), rsaKey(0)
		iss1, iss2 := type1.NewBasicPrivateIssuer(k1), type2.NewBasicPublicIssuer(rsa0)
		for n := 0; iss1.TokenKeyID()[31] == iss2.TokenKeyID()[31]; n++ {
			k1 = p384Key(c.seed, fmt.Sprintf("k1-alt-%d", n))
			iss1 = type1.NewBasicPrivateIssuer(k1)
		}
		bi := batched.NewBasicBatchedIssuer(batchIssuer1{iss1}, batchIssuer2{iss2}) // ONE batch issuer for the whole history
		unknown := byte(0)
		for unknown == iss1.TokenKeyID()[31] || unknown == iss2.TokenKeyID()[31] {
			unknown++
		}
		type fin func([]byte) (tokens.Token, error)
		type val struct {
			enc  []byte
			fins []fin
			ok   []func(tokens.Token) bool
		}
		or1 := func(t tokens.Token) bool {
			return bytesEq(fullEvaluate(oprf.SuiteP384, k1, authInput(t)), t.Authenticator)
		}
		or2 := func(t tokens.Token) bool { return verifyPSS(&rsa0.PublicKey, t) == nil }
		mk := func(names ...string) val {
			var v val
			var reqs []tokens.TokenRequestWithDetails
			for _, n := range names {
				if n[len(n)-1] == '1' {
					st, err := type1.NewBasicPrivateClient().CreateTokenRequest(randBytes(r, 10), randNonce(r), iss1.TokenKeyID(), iss1.TokenKey())
					if err != nil {
						panic(err)
					}
					req := st.Request()
					switch n {
					case "bad1":
						req = &type1.BasicPrivateTokenRequest{TokenKeyID: req.TokenKeyID, BlindedReq: append([]byte{0x02}, bytesRepeat(0xff, 48)...)}
					case "unk1":
						req = &type1.BasicPrivateTokenRequest{TokenKeyID: unknown, BlindedReq: req.BlindedReq}
					}
					reqs, v.fins, v.ok = append(reqs, req), append(v.fins, st.FinalizeToken), append(v.ok, or1)
				} else {
					st, err := type2.NewBasicPublicClient().CreateTokenRequest(randBytes(r, 10), randNonce(r), iss2.TokenKeyID(), iss2.TokenKey())
					if err != nil {
						panic(err)
					}
					req := st.Request()
					if n == "bad2" {
						req = &type2.BasicPublicTokenRequest{TokenKeyID: req.TokenKeyID, BlindedReq: bytesRepeat(0xff, 256)}
					}
					reqs, v.fins, v.ok = append(reqs, req), append(v.fins, st.FinalizeToken), append(v.ok, or2)
				}
			}
			br, err := batched.NewBasicClient().CreateTokenRequest(reqs)
			if err != nil {
				panic(err)
			}
			v.enc = append([]byte{}, br.Marshal()...)
			return v
		}
		vals := map[string]val{"ok1": mk("ok1"), "ok2": mk("ok2"), "pair": mk("ok1", "ok2"), "bad1": mk("bad1"), "bad2": mk("bad2"), "unk": mk("unk1")}
		for name, v := range vals {
			v := v
			w.present[name] = func() (bool, string) {
				dec := new(batched.BatchedTokenRequest) // the issuer side decodes what arrives
				if !dec.Unmarshal(append([]byte{}, v.enc...)) {
					panic("harness: batch request does not decode")
				}
				resp, err := bi.EvaluateBatch(dec)
				if err != nil {
					return false, ""
				}
				rs, err := batched.UnmarshalBatchedTokenResponses(append([]byte{}, resp...))
				if err != nil || len(rs) != len(v.fins) {
					return false, ""
				}
				all := true
				for j, rj := range rs {
					if len(rj) == 0 {
						all = false
						continue
					}
					tok, err := v.fins[j](rj)
					if err != nil || !v.ok[j](tok) {
						w.sound = false
					}
				}
				return all, ""
			}
		}
	case "ecdsa":
		curve := []elliptic.Curve{elliptic.P256(), elliptic.P384(), elliptic.P521(), elliptic.P224()}[hid%4]
		key := sfKey(c.seed, curve, "k")
		N := curve.Params().N
		ob := (N.BitLen() + 7) / 8
		type triple struct{ d, r, s []byte }
		sign := func(d []byte) triple {
			for {
				rr, ss, err := stdecdsa.Sign(r, stdPriv(key), d) // made by the standard library
				if err != nil {
					panic(err)
				}
				// (full-length r with a second byte that is not zero, so that the shifted triple is what it is meant to be)
				if len(rr.Bytes()) == ob && rr.Bytes()[1] != 0 && len(ss.Bytes()) == ob {
					return triple{d, rr.Bytes(), ss.Bytes()}
				}
			}
		}
		d1, d2 := randBytes(r, ob), randBytes(r, ob)
		v1, v2 := sign(d1), sign(d2)
		s1 := new(big.Int).SetBytes(v1.s)
		vals := map[string]triple{"valid": v1, "valid2": v2,
			"negs":   {d1, v1.r, new(big.Int).Sub(N, s1).Bytes()},
			"shift":  {append(append([]byte{}, d1...), v1.r[0]), v1.r[1:], v1.s},
			"swap":   {d1, v1.s, v1.r},
			"sflip":  {d1, v1.r, flipBit(v1.s, 8*(ob-1)+r.Intn(8))},
			"digest": {d2, v1.r, v1.s}}
		for name, v := range vals {
			v := v
			w.present[name] = func() (bool, string) {
				d := append([]byte{}, v.d...)
				ref := stdecdsa.Verify(stdPub(&key.PublicKey), d, new(big.Int).SetBytes(v.r), new(big.Int).SetBytes(v.s))
				return ecdsa.Verify(&key.PublicKey, d, new(big.Int).SetBytes(v.r), new(big.Int).SetBytes(v.s)), refStr(ref)
			}
		}
	case "ed25519":
		seed, seed2 := randBytes(r, 32), randBytes(r, 32)
		priv, priv2 := ed25519.NewKeyFromSeed(seed), ed25519.NewKeyFromSeed(seed2)
		pub, pub2 := priv.Public().(ed25519.PublicKey), priv2.Public().(ed25519.PublicKey)
		m1, m2 := randBytes(r, 1+r.Intn(80)), randBytes(r, 1+r.Intn(80))
		sg1 := stded.Sign(stded.NewKeyFromSeed(seed), m1) // made by the standard library
		sg2 := stded.Sign(stded.NewKeyFromSeed(seed), m2)
		type call struct{ pub, msg, sig []byte }
		// S + L, little endian
		L, _ := new(big.Int).SetString("7237005577332262213973186563042994240857116359379907606001950938285454250989", 10)
		sLE := append([]byte{}, sg1[32:]...)
		for i, j := 0, 31; i < j; i, j = i+1, j-1 {
			sLE[i], sLE[j] = sLE[j], sLE[i]
		}
		sp := new(big.Int).Add(new(big.Int).SetBytes(sLE), L)
		spb := make([]byte, 32)
		sp.FillBytes(spb)
		for i, j := 0, 31; i < j; i, j = i+1, j-1 {
			spb[i], spb[j] = spb[j], spb[i]
		}
		vals := map[string]call{"valid": {pub, m1, sg1}, "valid2": {pub, m2, sg2},
			"s+L":   {pub, m1, append(append([]byte{}, sg1[:32]...), spb...)},
			"sflip": {pub, m1, flipBit(sg1, 8*32+r.Intn(8))},
			"msg+":  {pub, append(append([]byte{}, m1...), 0), sg1},
			"key":   {pub2, m1, sg1}}
		for name, v := range vals {
			v := v
			w.present[name] = func() (bool, string) {
				p, m, s := append([]byte{}, v.pub...), append([]byte{}, v.msg...), append([]byte{}, v.sig...)
				ref := stded.Verify(stded.PublicKey(p), m, s)
				return ed25519.Verify(ed25519.PublicKey(p), m, s), refStr(ref)
			}
		}
	default:
		panic("unknown verifier kind " + kind)
	}
	return w
}

func bytesEq(a, b []byte) bool { return string(a) == string(b) }

func bytesRepeat(b byte, n int) []byte {
	out := make([]byte, n)
	for i := range out {
		out[i] = b
	}
	return out
}

func execVerdicts(c *ctx, in ev) []ev {
	kind, hid := gS(in, "kind"), gI(in, "hid")
	var w *verdictWorld
	if p := guard(func() { w = newVerdictWorld(c, kind, hid) }); p != "" {
		return []ev{{"op": "Present", "kind": kind, "x": "setup", "i": 1, "ok": false, "ref": "", "sound": true, "panic": "setup: " + p}}
	}
	out := []ev{}
	for i, xs := range gL(in, "hist") {
		x := xs.(string)
		e := ev{"op": "Present", "kind": kind, "x": x, "i": i + 1, "ok": false, "ref": "", "sound": true, "panic": ""}
		w.sound = true
		e["panic"] = guard(func() {
			f := w.present[x]
			if f == nil {
				panic("harness: no value for class " + x)
			}
			ok, ref := f()
			e["ok"], e["ref"], e["sound"] = ok, ref, w.sound
		})
		out = append(out, e)
	}
	return out
}

func genVerdicts(c *ctx, emit func(ev)) {
	path := os.Getenv("VERIF_VERDICT_BEHAVIOURS")
	if path == "" {
		return
	}
	data, err := os.ReadFile(path)
	if err != nil {
		panic(err)
	}
	var beh []struct {
		Kind string   `json:"kind"`
		Hist []string `json:"hist"`
	}
	if err := json.Unmarshal(data, &beh); err != nil {
		panic(err)
	}
	for i, b := range beh {
		h := []any{}
		for _, x := range b.Hist {
			h = append(h, x)
		}
		e := ev{"op": "Hist", "kind": b.Kind, "hid": i, "hist": h}
		if b.Kind == "ecdsa" || b.Kind == "ed25519" {
			// a package-level memo would be shared by all histories of the process: a share of them runs alone
			if i%16 == 0 {
				e["serial"] = true
			}
		}
		emit(e)
	}
}
