package main

import (
	"crypto/sha512"
	"math/big"
)

// A small math/big reference for edwards25519, independent of the fork under
// test and of the standard library's implementation: point decoding/encoding
// (RFC 8032 section 5.1.2 / 5.1.3), affine addition and double-and-add scalar
// multiplication. Slow but simple.

var (
	edP, _ = new(big.Int).SetString("7fffffffffffffffffffffffffffffffffffffffffffffffffffffffffffffed", 16)
	edL, _ = new(big.Int).SetString("1000000000000000000000000000000014def9dea2f79cd65812631a5cf5d3ed", 16)
	edD    = func() *big.Int {
		// d = -121665 / 121666 mod p
		n := new(big.Int).Neg(big.NewInt(121665))
		inv := new(big.Int).ModInverse(big.NewInt(121666), edP)
		return n.Mul(n, inv).Mod(n, edP)
	}()
)

type edPoint struct{ x, y *big.Int }

func leToInt(b []byte) *big.Int {
	r := make([]byte, len(b))
	for i := range b {
		r[len(b)-1-i] = b[i]
	}
	return new(big.Int).SetBytes(r)
}

func intToLE(n *big.Int, size int) []byte {
	be := make([]byte, size)
	n.FillBytes(be)
	for i, j := 0, size-1; i < j; i, j = i+1, j-1 {
		be[i], be[j] = be[j], be[i]
	}
	return be
}

// edDecode decodes a 32-byte point encoding; ok is false if no point has that y.
// Non-canonical y (>= p) is reduced, as permissive decoders do.
func edDecode(enc []byte) (pt edPoint, ok bool) {
	if len(enc) != 32 {
		return pt, false
	}
	b := append([]byte{}, enc...)
	sign := b[31] >> 7
	b[31] &= 0x7f
	y := leToInt(b)
	y.Mod(y, edP)
	// x^2 = (y^2 - 1) / (d y^2 + 1)
	y2 := new(big.Int).Mul(y, y)
	y2.Mod(y2, edP)
	u := new(big.Int).Sub(y2, big.NewInt(1))
	u.Mod(u, edP)
	v := new(big.Int).Mul(edD, y2)
	v.Add(v, big.NewInt(1)).Mod(v, edP)
	vinv := new(big.Int).ModInverse(v, edP)
	if vinv == nil {
		return pt, false
	}
	x2 := new(big.Int).Mul(u, vinv)
	x2.Mod(x2, edP)
	x := new(big.Int).ModSqrt(x2, edP)
	if x == nil {
		return pt, false
	}
	if x.Sign() == 0 && sign == 1 {
		// RFC 8032 rejects this; permissive decoders accept x = 0 with the sign bit set
		return edPoint{x, y}, true
	}
	if uint(x.Bit(0)) != uint(sign) {
		x.Sub(edP, x)
	}
	return edPoint{x, y}, true
}

func edEncode(p edPoint) []byte {
	out := intToLE(p.y, 32)
	out[31] |= byte(p.x.Bit(0)) << 7
	return out
}

func edAdd(a, b edPoint) edPoint {
	// x3 = (x1y2 + x2y1) / (1 + d x1x2y1y2), y3 = (y1y2 + x1x2) / (1 - d x1x2y1y2)
	x1y2 := new(big.Int).Mul(a.x, b.y)
	x2y1 := new(big.Int).Mul(b.x, a.y)
	y1y2 := new(big.Int).Mul(a.y, b.y)
	x1x2 := new(big.Int).Mul(a.x, b.x)
	t := new(big.Int).Mul(x1x2, y1y2)
	t.Mul(t, edD).Mod(t, edP)
	nx := new(big.Int).Add(x1y2, x2y1)
	ny := new(big.Int).Add(y1y2, x1x2)
	dx := new(big.Int).Add(big.NewInt(1), t)
	dy := new(big.Int).Sub(big.NewInt(1), t)
	dx.Mod(dx, edP)
	dy.Mod(dy, edP)
	x := nx.Mul(nx, new(big.Int).ModInverse(dx, edP))
	y := ny.Mul(ny, new(big.Int).ModInverse(dy, edP))
	return edPoint{x.Mod(x, edP), y.Mod(y, edP)}
}

func edScalarMult(k *big.Int, p edPoint) edPoint {
	r := edPoint{big.NewInt(0), big.NewInt(1)}
	q := p
	for i := 0; i < k.BitLen(); i++ {
		if k.Bit(i) == 1 {
			r = edAdd(r, q)
		}
		q = edAdd(q, q)
	}
	return r
}

// refEdBlindScalar is the Ed25519 key-blinding factor of the draft:
// SHA-512(blind || 0x00 || context)[0:32] as a little-endian integer mod L.
func refEdBlindScalar(blind, ctx []byte) *big.Int {
	h := sha512.New()
	h.Write(blind)
	h.Write([]byte{0})
	h.Write(ctx)
	d := h.Sum(nil)
	s := leToInt(d[:32])
	return s.Mod(s, edL)
}

// refEdBlind multiplies an encoded public key by the blinding factor.
func refEdBlind(pub, blind, ctx []byte) ([]byte, bool) {
	p, ok := edDecode(pub)
	if !ok {
		return nil, false
	}
	return edEncode(edScalarMult(refEdBlindScalar(blind, ctx), p)), true
}
