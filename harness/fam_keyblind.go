package main

import (
	"bytes"
	stdecdsa "crypto/ecdsa"
	stded "crypto/ed25519"
	"crypto/elliptic"
	cryptorand "crypto/rand"
	"crypto/sha512"
	"encoding/binary"
	"fmt"
	"math/big"
	"strings"
	"sync"

	"github.com/cloudflare/pat-go/ecdsa"
	"github.com/cloudflare/pat-go/ed25519"
)

// Family "keyblind" (properties C12 and C15): seeded random sequences of
// key-blinding operations on real keys. Every public key and signature that
// appears is interned by its bytes, so the trace records exactly which
// results were equal; Trace_KeyBlind.tla requires those equalities to be the
// equalities of the KeyBlind/Algebra terms and both verifiers to agree with
// the specification.

func init() { register("keyblind", &family{gen: genKeyBlind, exec: execKeyBlind}) }

var kbCurves = map[string]elliptic.Curve{"P224": elliptic.P224(), "P256": elliptic.P256(), "P384": elliptic.P384(), "P521": elliptic.P521()}

func kbScalar(seed int64, curve elliptic.Curve, name string) *big.Int {
	N := curve.Params().N
	h := sha512.Sum512([]byte(fmt.Sprintf("kb-%d-%s-%s", seed, curve.Params().Name, name)))
	h2 := sha512.Sum512(h[:])
	n := new(big.Int).SetBytes(append(h[:], h2[:8]...))
	n.Mod(n, new(big.Int).Sub(N, big.NewInt(1)))
	return n.Add(n, big.NewInt(1))
}

// kbBlindBytes is the byte string handed to CreateKey for a named blind key,
// including the edge encodings the property names.
func kbBlindBytes(seed int64, curve elliptic.Curve, name string) []byte {
	size := (curve.Params().BitSize + 7) / 8
	out := make([]byte, size)
	switch name {
	case "one":
		out[size-1] = 1
	case "lead0": // a value with two leading zero bytes
		v := kbScalar(seed, curve, name)
		v.Rsh(v, 17)
		v.FillBytes(out)
	case "geN": // an encoding of a value >= N (N + a small number), one byte longer if needed
		v := new(big.Int).Add(curve.Params().N, big.NewInt(5))
		return v.Bytes()
	default:
		kbScalar(seed, curve, name).FillBytes(out)
	}
	return out
}

// ctxBuf is one buffer that is rewritten in place for every call (callers reuse buffers)
type ctxBuf struct{ buf []byte }

func (cb *ctxBuf) get(name string) []byte {
	c := kbContext(name)
	if c == nil {
		return nil
	}
	if cap(cb.buf) < 512 {
		cb.buf = make([]byte, 0, 512)
	}
	cb.buf = append(cb.buf[:0], c...)
	return cb.buf
}

func (cb *ctxBuf) get2(c []byte) []byte {
	if cap(cb.buf) < 512 {
		cb.buf = make([]byte, 0, 512)
	}
	cb.buf = append(cb.buf[:0], c...)
	return cb.buf
}

// noCtxChooser: every other step with the empty context uses the API variant WITHOUT a context argument
// (BlindPublicKey, UnblindPublicKey, BlindKeySign); it must reproduce the empty context's results - the trace
// records context "" either way, so the tables of Trace_KeyBlind compare the two variants with each other.
func noCtxChooser() func(s map[string]any) bool {
	n := 0
	return func(s map[string]any) bool {
		if c, _ := s["ctx"].(string); c != "" {
			return false
		}
		n++
		return n%2 == 0
	}
}

func kbContext(name string) []byte {
	switch name {
	case "":
		return nil
	case "rare1", "rare2", "rare3":
		return []byte(name) // placeholder; the Ed25519 driver substitutes a searched context (edRareContext)
	case "long":
		return []byte(strings.Repeat("context-", 40))
	case "ctxB": // a context that STARTS WITH A ZERO BYTE - as the protocol's own contexts do (0x0003 || "ClientBlind")
		return append([]byte{0x00, 0x03}, []byte("ClientBlind")...)
	}
	return []byte(name)
}

// kbDigestFor: digests whose length is relative to the byte length of the group order (ob): exactly as long (where
// the excess-bit shift of hashToInt starts to matter on P-521), one byte more, and all-ones digests (as an integer not
// below the order).
func kbDigestFor(seed int64, ob int, name string) []byte {
	switch name {
	case "dord": // exactly as long as the order, leading bits set
		return append([]byte{0xff}, hashBytes(seed, "kb-digest-ord", ob-1)...)
	case "dord0": // exactly as long as the order, leading byte small
		return append([]byte{0x01}, hashBytes(seed, "kb-digest-ord0", ob-1)...)
	case "dord+1":
		return append([]byte{0x80}, hashBytes(seed, "kb-digest-ord1", ob)...)
	case "dff": // (nearly) all ones, twice the length of the order; its leading order-length part differs from "dffo"
		// in one bit: digests that agree in that part are the same integer to ECDSA, i.e. the same message (a signature
		// over one verifies over the other - seeds 21 and 22 paired the two in one history, a false alarm of this driver)
		d := bytes.Repeat([]byte{0xff}, 2*ob)
		d[ob-2] = 0xfe // (not the last byte of that part: on P-521 its low bits are shifted out)
		return d
	case "dffo": // all ones, exactly the length of the order
		return bytes.Repeat([]byte{0xff}, ob)
	}
	return kbDigest(seed, name)
}

func kbDigest(seed int64, name string) []byte {
	switch name {
	case "d0":
		return []byte{}
	case "dlong":
		return hashBytes(seed, "kb-digest-long", 128)
	case "dlong0": // longer than any curve order, leading bits zero
		return append([]byte{0x01}, hashBytes(seed, "kb-digest-long0", 127)...)
	case "dlongf":
		return append([]byte{0xff}, hashBytes(seed, "kb-digest-longf", 127)...)
	case "dhuge": // a message of several kilobytes (Ed25519 signs messages, not digests)
		return hashBytes(seed, "kb-digest-huge", 5000)
	}
	return hashBytes(seed, "kb-digest-"+name, 48)
}

type kbStep struct {
	op  string
	in  int // index into the key pool
	sk  string
	b   string
	ctx string
	d   string
	sig int
}

// execKStress: the key-blinding operations are functions of their arguments - also when many goroutines call them at
// once (the functions keep no state a caller could see). Every (key, blind, context) combination is evaluated alone
// against the independent reference and then by G goroutines concurrently; the event counts results that differ.
func execKStress(c *ctx, in ev) []ev {
	scheme := gS(in, "scheme")
	G, rounds := gI(in, "g"), gI(in, "rounds")
	type combo struct {
		blind, ctx []byte
		blinded    []byte // reference
	}
	e := ev{"op": "KStress", "scheme": scheme, "goroutines": G, "calls": 0, "wrong": 0, "detail": "", "panic": ""}
	var mu sync.Mutex
	wrong := func(format string, a ...any) {
		mu.Lock()
		e["wrong"] = e["wrong"].(int) + 1
		if e["detail"] == "" {
			e["detail"] = fmt.Sprintf(format, a...)
		}
		mu.Unlock()
	}
	e["panic"] = guard(func() {
		var one func(k int)
		calls := 0
		if scheme == "ed25519" {
			priv := ed25519.NewKeyFromSeed(hashBytes(c.seed, "kstress-ed", 32))
			pub := append([]byte{}, priv[32:]...)
			combos := []combo{}
			for i := 0; i < 6; i++ {
				b, cx := edBlindBytes(c.seed, fmt.Sprintf("b%d", 1+i%3)), []byte(fmt.Sprintf("stress-ctx-%d", i/2))
				ref, ok := refEdBlind(pub, b, cx)
				if !ok {
					panic("reference")
				}
				combos = append(combos, combo{b, cx, ref})
			}
			msg := []byte("stress message")
			one = func(k int) {
				cb := combos[k%len(combos)]
				bl, err := ed25519.BlindPublicKeyWithContext(append([]byte{}, pub...), append([]byte{}, cb.blind...), append([]byte{}, cb.ctx...))
				if err != nil || !bytes.Equal(bl, cb.blinded) {
					wrong("blind: combination %d differs from the reference", k%len(combos))
					return
				}
				back, err := ed25519.UnblindPublicKeyWithContext(append([]byte{}, bl...), append([]byte{}, cb.blind...), append([]byte{}, cb.ctx...))
				if err != nil || !bytes.Equal(back, pub) {
					wrong("unblind: combination %d does not give the original key back", k%len(combos))
					return
				}
				sig := ed25519.BlindKeySignWithContext(priv, msg, append([]byte{}, cb.blind...), append([]byte{}, cb.ctx...))
				if !stded.Verify(stded.PublicKey(cb.blinded), msg, sig) {
					wrong("blind signature of combination %d does not verify under the blinded key", k%len(combos))
				}
			}
			calls = 3
			if gBool(in, "volume") {
				// volume: a fresh random blind in every round - unblinding inverts blinding for ALL of them (the modular
				// inversion behind it is exercised on as many values as the tier affords; no reference, no signature)
				one = func(k int) {
					var b [32]byte
					binary.LittleEndian.PutUint64(b[:], uint64(k))
					h := sha512.Sum512(append(b[:8], hashBytes(c.seed, "kvolume", 16)...))
					copy(b[:], h[:32])
					cx := h[32 : 32+k%5]
					bl, err := ed25519.BlindPublicKeyWithContext(pub, b[:], cx)
					if err != nil {
						wrong("blind: %v", err)
						return
					}
					back, err := ed25519.UnblindPublicKeyWithContext(bl, b[:], cx)
					if err != nil || !bytes.Equal(back, pub) {
						wrong("unblind does not invert blind for blind %x context %x", b, cx)
					}
				}
				calls = 2
			}
		} else {
			curve := kbCurves[strings.TrimPrefix(scheme, "ecdsa-")]
			sk, _ := rawKey(curve, kbScalar(c.seed, curve, "kstress-sk").Bytes())
			type ecCombo struct {
				bk       *ecdsa.PrivateKey
				ctx      []byte
				refX, rY *big.Int
			}
			combos := []ecCombo{}
			for i := 0; i < 6; i++ {
				bb := kbBlindBytes(c.seed, curve, fmt.Sprintf("b%d", 1+i%3))
				bk, _ := rawKey(curve, bb)
				cx := []byte(fmt.Sprintf("stress-ctx-%d", i/2))
				f := refBlindScalar(curve, new(big.Int).SetBytes(bb), cx)
				x, y := curve.ScalarMult(sk.X, sk.Y, f.Bytes())
				combos = append(combos, ecCombo{bk, cx, x, y})
			}
			digest := hashBytes(c.seed, "kstress-digest", 32)
			one = func(k int) {
				cb := combos[k%len(combos)]
				bl, err := ecdsa.BlindPublicKeyWithContext(curve, &sk.PublicKey, cb.bk, append([]byte{}, cb.ctx...))
				if err != nil || bl.X.Cmp(cb.refX) != 0 || bl.Y.Cmp(cb.rY) != 0 {
					wrong("blind: combination %d differs from the reference", k%len(combos))
					return
				}
				back, err := ecdsa.UnblindPublicKeyWithContext(curve, bl, cb.bk, append([]byte{}, cb.ctx...))
				if err != nil || back.X.Cmp(sk.X) != 0 || back.Y.Cmp(sk.Y) != 0 {
					wrong("unblind: combination %d does not give the original key back", k%len(combos))
					return
				}
				r, sv, err := ecdsa.BlindKeySignWithContext(cryptorand.Reader, sk, cb.bk, digest, append([]byte{}, cb.ctx...))
				if err != nil || !stdecdsa.Verify(&stdecdsa.PublicKey{Curve: curve, X: cb.refX, Y: cb.rY}, digest, r, sv) {
					wrong("blind signature of combination %d does not verify under the blinded key", k%len(combos))
					return
				}
				// ... nor under this package's own Verify, called by all goroutines at once
				if !ecdsa.Verify(&ecdsa.PublicKey{Curve: curve, X: cb.refX, Y: cb.rY}, digest, r, sv) {
					wrong("this package's Verify rejects the valid blind signature of combination %d", k%len(combos))
				}
			}
			calls = 3
		}
		for k := 0; k < 6; k++ { // alone first
			one(k)
		}
		var wg sync.WaitGroup
		start := make(chan struct{})
		for g := 0; g < G; g++ {
			g := g
			wg.Add(1)
			go func() {
				defer wg.Done()
				defer func() {
					if p := recover(); p != nil {
						wrong("panic in goroutine: %v", p)
					}
				}()
				<-start
				for r := 0; r < rounds; r++ {
					if gBool(in, "volume") {
						one(6 + g*rounds + r) // every round another value
					} else {
						one(g + r)
					}
				}
			}()
		}
		close(start)
		wg.Wait()
		e["calls"] = calls * (6 + G*rounds)
	})
	return []ev{e}
}

func execKeyBlind(c *ctx, in ev) []ev {
	if gS(in, "op") == "KStress" {
		return execKStress(c, in)
	}
	scheme := gS(in, "scheme")
	if scheme == "ed25519" {
		return execKeyBlindEd(c, in)
	}
	curve := kbCurves[strings.TrimPrefix(scheme, "ecdsa-")]
	ob := (curve.Params().N.BitLen() + 7) / 8 // byte length of the group order
	out := []ev{{"op": "KNew", "scheme": scheme, "deterministic": false}}
	keyIDs := &interner{m: map[string]string{}, p: "K"}
	sigIDs := &interner{m: map[string]string{}, p: "S"}
	type pk struct{ k *ecdsa.PublicKey }
	pool := []*ecdsa.PublicKey{}
	sigs := []struct{ r, s *big.Int }{}
	enc := func(k *ecdsa.PublicKey) []byte { return elliptic.Marshal(curve, k.X, k.Y) }
	cb := &ctxBuf{}
	noCtx := noCtxChooser()
	// blind keys are long-lived objects of the caller: ONE key object per blind for the whole history (so that
	// anything the library might remember inside a key object is carried from call to call)
	bks := map[string]*ecdsa.PrivateKey{}
	blindKey := func(name string) *ecdsa.PrivateKey {
		if k, ok := bks[name]; ok {
			return k
		}
		// made the way callers make them - with the library's constructor, from raw bytes (the REFERENCE derives the
		// factor from those bytes itself; if the constructor alters the integer, e.g. reduces it, the two part ways)
		k, err := ecdsa.CreateKey(curve, kbBlindBytes(c.seed, curve, name))
		if err != nil || k == nil {
			k, _ = rawKey(curve, kbBlindBytes(c.seed, curve, name))
		}
		bks[name] = k
		return k
	}
	sks := map[string]*ecdsa.PrivateKey{}
	for _, name := range []string{"s1", "s2", "s3"} {
		sk, _ := rawKey(curve, kbScalar(c.seed, curve, "sk-"+name).Bytes())
		sks[name] = sk
		pool = append(pool, &sk.PublicKey)
		out = append(out, ev{"op": "Pub", "sk": name, "out": keyIDs.id(enc(&sk.PublicKey))})
	}
	for _, st := range gL(in, "steps") {
		s := st.(map[string]any)
		op := s["op"].(string)
		switch op {
		case "Blind", "Unblind":
			idx := jInt(s["in"]) % len(pool)
			bname, cname := s["b"].(string), s["ctx"].(string)
			bk := blindKey(bname)
			ctx := cb.get(cname)
			var res *ecdsa.PublicKey
			var err error
			p := guard(func() {
				switch {
				case op == "Blind" && noCtx(s):
					res, err = ecdsa.BlindPublicKey(curve, pool[idx], bk) // the API without a context = the empty context
				case op == "Blind":
					res, err = ecdsa.BlindPublicKeyWithContext(curve, pool[idx], bk, ctx)
				case noCtx(s):
					res, err = ecdsa.UnblindPublicKey(curve, pool[idx], bk)
				default:
					res, err = ecdsa.UnblindPublicKeyWithContext(curve, pool[idx], bk, ctx)
				}
			})
			e := ev{"op": op, "in": keyIDs.id(enc(pool[idx])), "b": bname, "ctx": cname, "ok": err == nil && p == "" && res != nil, "panic": p, "out": "", "ref_ok": false}
			if err == nil && p == "" && res != nil {
				e["out"] = keyIDs.id(enc(res))
				if op == "Blind" {
					// the blind key as the caller passed it (not the library's key object)
					f := refBlindScalar(curve, new(big.Int).SetBytes(kbBlindBytes(c.seed, curve, bname)), ctx)
					x, y := curve.ScalarMult(pool[idx].X, pool[idx].Y, f.Bytes())
					e["ref_ok"] = x.Cmp(res.X) == 0 && y.Cmp(res.Y) == 0
				}
				pool = append(pool, res)
			}
			out = append(out, e)
		case "BSign", "Sign":
			skn, dname := s["sk"].(string), s["d"].(string)
			var r, sv *big.Int
			var err error
			e := ev{"op": op, "sk": skn, "d": dname, "b": "", "ctx": "", "ok": false, "sig": "", "panic": ""}
			e["panic"] = guard(func() {
				if op == "BSign" {
					bname, cname := s["b"].(string), s["ctx"].(string)
					e["b"], e["ctx"] = bname, cname
					bk := blindKey(bname)
					if noCtx(s) {
						r, sv, err = ecdsa.BlindKeySign(cryptorand.Reader, sks[skn], bk, kbDigestFor(c.seed, ob, dname))
					} else {
						r, sv, err = ecdsa.BlindKeySignWithContext(cryptorand.Reader, sks[skn], bk, kbDigestFor(c.seed, ob, dname), cb.get(cname))
					}
				} else {
					r, sv, err = ecdsa.Sign(cryptorand.Reader, sks[skn], kbDigestFor(c.seed, ob, dname))
				}
			})
			if err == nil && e["panic"] == "" && r != nil {
				e["ok"] = true
				e["sig"] = sigIDs.id(append(r.Bytes(), append([]byte{0xff, 0x00}, sv.Bytes()...)...))
				sigs = append(sigs, struct{ r, s *big.Int }{r, sv})
			}
			out = append(out, e)
		case "BlindLen": // context of a given length: compared with the reference only (no term)
			n := jInt(s["n"])
			bname := s["b"].(string)
			bk := blindKey(bname)
			ctxv := hashBytes(c.seed, fmt.Sprintf("kb-ctx-len-%d", n), n)
			e := ev{"op": "BlindRef", "n": n, "b": bname, "ok": false, "ref_ok": false, "last_byte_matters": false, "panic": ""}
			e["panic"] = guard(func() {
				res, err := ecdsa.BlindPublicKeyWithContext(curve, pool[0], bk, cb.get2(ctxv))
				if err != nil || res == nil {
					return
				}
				e["ok"] = true
				f := refBlindScalar(curve, new(big.Int).SetBytes(kbBlindBytes(c.seed, curve, bname)), ctxv)
				x, y := curve.ScalarMult(pool[0].X, pool[0].Y, f.Bytes())
				e["ref_ok"] = x.Cmp(res.X) == 0 && y.Cmp(res.Y) == 0
				if n > 0 {
					c2 := append([]byte{}, ctxv...)
					c2[n-1] ^= 1
					res2, err2 := ecdsa.BlindPublicKeyWithContext(curve, pool[0], bk, c2)
					e["last_byte_matters"] = err2 == nil && (res2.X.Cmp(res.X) != 0 || res2.Y.Cmp(res.Y) != 0)
				} else {
					e["last_byte_matters"] = true
				}
			})
			out = append(out, e)
		case "Verify":
			if len(sigs) == 0 {
				continue
			}
			idx, si := jInt(s["in"])%len(pool), jInt(s["sig"])%len(sigs)
			dname := s["d"].(string)
			d := kbDigestFor(c.seed, ob, dname)
			var fork, std bool
			p := guard(func() {
				fork = ecdsa.Verify(pool[idx], d, sigs[si].r, sigs[si].s)
				std = stdecdsa.Verify(&stdecdsa.PublicKey{Curve: curve, X: pool[idx].X, Y: pool[idx].Y}, d, sigs[si].r, sigs[si].s)
			})
			out = append(out, ev{"op": "Verify", "key": keyIDs.id(enc(pool[idx])), "d": dname, "fork": fork, "std": std, "panic": p,
				"sig": sigIDs.id(append(sigs[si].r.Bytes(), append([]byte{0xff, 0x00}, sigs[si].s.Bytes()...)...))})
		}
	}
	return out
}

func edBlindBytes(seed int64, name string) []byte {
	b := hashBytes(seed, "kb-ed-blind-"+name, 32)
	switch name {
	case "one":
		b = make([]byte, 32)
		b[0] = 1
	case "lead0":
		b[0], b[1] = 0, 0
	case "geN":
		for i := range b {
			b[i] = 0xff
		}
	case "bzero": // 32 zero bytes: a blind like any other (its factor is the hash of 32 zero bytes, a zero byte and the context)
		b = make([]byte, 32)
	}
	// exact capacity: the blinding functions must not be given room to scribble
	// (that they do is property C16, not C15)
	return append(make([]byte, 0, 32), b...)
}

// edRareContext searches a context for which the INVERSE of the Ed25519 blinding factor of blind b1 has
// leading zero bytes (below 2^240 resp. 2^248): the rare carry / padding cases of the inversion.
func edRareContext(seed int64, name string) []byte {
	limit := 240
	if name == "rare2" {
		limit = 248
	}
	blind := edBlindBytes(seed, "b1")
	if name == "rare3" {
		// the 32 hash bytes, read as a little-endian integer, lie just above 2^252 (top two bytes 00 10): the value
		// is not reduced modulo L - the boundary case of turning the hash into a scalar
		for i := 0; ; i++ {
			ctx := []byte(fmt.Sprintf("%s-%d", name, i))
			h := sha512.Sum512(append(append(append([]byte{}, blind...), 0), ctx...))
			if h[31] == 0x10 && h[30] == 0x00 {
				return ctx
			}
		}
	}
	for i := 0; ; i++ {
		ctx := []byte(fmt.Sprintf("%s-%d", name, i))
		f := refEdBlindScalar(blind, ctx)
		inv := new(big.Int).ModInverse(f, edL)
		if inv != nil && inv.BitLen() <= limit && (name == "rare1" || inv.BitLen() > 240) {
			return ctx
		}
	}
}

func edCtx(seed int64, name string) []byte {
	if name == "rare1" || name == "rare2" || name == "rare3" {
		return edRareContext(seed, name)
	}
	return kbContext(name)
}

func execKeyBlindEd(c *ctx, in ev) []ev {
	out := []ev{{"op": "KNew", "scheme": "ed25519", "deterministic": true}}
	keyIDs := &interner{m: map[string]string{}, p: "K"}
	sigIDs := &interner{m: map[string]string{}, p: "S"}
	pool := [][]byte{}
	sigs := [][]byte{}
	noCtx := noCtxChooser()
	// the caller's ONE context buffer, rewritten in place for every call (the reference gets its own copy)
	cbE := &ctxBuf{}
	ectx := func(name string) []byte {
		cx := edCtx(c.seed, name)
		if cx == nil {
			return nil
		}
		return cbE.get2(cx)
	}
	sks := map[string]ed25519.PrivateKey{}
	for _, name := range []string{"s1", "s2", "s3"} {
		sk := ed25519.NewKeyFromSeed(hashBytes(c.seed, "kb-ed-seed-"+name, 32))
		sks[name] = sk
		pub := append([]byte{}, sk[32:]...)
		pool = append(pool, pub)
		out = append(out, ev{"op": "Pub", "sk": name, "out": keyIDs.id(pub)})
	}
	for _, st := range gL(in, "steps") {
		s := st.(map[string]any)
		op := s["op"].(string)
		switch op {
		case "Blind", "Unblind":
			idx := jInt(s["in"]) % len(pool)
			bname, cname := s["b"].(string), s["ctx"].(string)
			var res ed25519.PublicKey
			var err error
			p := guard(func() {
				switch {
				case op == "Blind" && noCtx(s):
					res, err = ed25519.BlindPublicKey(append([]byte{}, pool[idx]...), edBlindBytes(c.seed, bname))
				case op == "Blind":
					res, err = ed25519.BlindPublicKeyWithContext(append([]byte{}, pool[idx]...), edBlindBytes(c.seed, bname), ectx(cname))
				case noCtx(s):
					res, err = ed25519.UnblindPublicKey(append([]byte{}, pool[idx]...), edBlindBytes(c.seed, bname))
				default:
					res, err = ed25519.UnblindPublicKeyWithContext(append([]byte{}, pool[idx]...), edBlindBytes(c.seed, bname), ectx(cname))
				}
			})
			e := ev{"op": op, "in": keyIDs.id(pool[idx]), "b": bname, "ctx": cname, "ok": err == nil && p == "" && len(res) == 32, "panic": p, "out": "", "ref_ok": false}
			if err == nil && p == "" && len(res) == 32 {
				e["out"] = keyIDs.id(res)
				if op == "Blind" {
					ref, ok := refEdBlind(pool[idx], edBlindBytes(c.seed, bname), edCtx(c.seed, cname))
					e["ref_ok"] = ok && bytes.Equal(ref, res)
				}
				pool = append(pool, append([]byte{}, res...))
			}
			out = append(out, e)
		case "BlindBad": // an invalid public key is refused, and the refusal leaves no trace in later calls
			bad := bytes.Repeat([]byte{0xff}, 32)
			bad[0] = byte(2 + jInt(s["in"])%200)
			bad[31] = 0x7f
			var err error
			var res ed25519.PublicKey
			p := guard(func() {
				if jInt(s["in"])%2 == 0 {
					res, err = ed25519.BlindPublicKeyWithContext(bad, edBlindBytes(c.seed, "b1"), edCtx(c.seed, "ctxA"))
				} else {
					res, err = ed25519.UnblindPublicKeyWithContext(bad, edBlindBytes(c.seed, "b1"), edCtx(c.seed, "ctxA"))
				}
			})
			_, decodable := edDecode(bad)
			out = append(out, ev{"op": "BlindBad", "refused": err != nil && res == nil, "decodable": decodable, "panic": p})
		case "BSign", "Sign":
			skn, dname := s["sk"].(string), s["d"].(string)
			var sig []byte
			e := ev{"op": op, "sk": skn, "d": dname, "b": "", "ctx": "", "ok": false, "sig": "", "panic": ""}
			e["panic"] = guard(func() {
				// the caller has used what the key handed out before: it appended to the seed it was given, and wiped the
				// public key it was given (both were its own values)
				callerAppends(sks[skn].Seed())
				if pk, ok := sks[skn].Public().(ed25519.PublicKey); ok {
					for i := range pk {
						pk[i] = 0
					}
				}
				if op == "BSign" {
					bname, cname := s["b"].(string), s["ctx"].(string)
					e["b"], e["ctx"] = bname, cname
					if noCtx(s) {
						sig = ed25519.BlindKeySign(sks[skn], kbDigestFor(c.seed, 32, dname), edBlindBytes(c.seed, bname))
					} else {
						sig = ed25519.BlindKeySignWithContext(sks[skn], kbDigestFor(c.seed, 32, dname), edBlindBytes(c.seed, bname), ectx(cname))
					}
				} else {
					sig = ed25519.Sign(sks[skn], kbDigestFor(c.seed, 32, dname))
				}
			})
			if e["panic"] == "" && len(sig) == 64 {
				e["ok"] = true
				e["sig"] = sigIDs.id(sig)
				sigs = append(sigs, sig)
			}
			out = append(out, e)
		case "Verify":
			if len(sigs) == 0 {
				continue
			}
			idx, si := jInt(s["in"])%len(pool), jInt(s["sig"])%len(sigs)
			dname := s["d"].(string)
			d := kbDigestFor(c.seed, 32, dname)
			var fork, std bool
			p := guard(func() {
				fork = ed25519.Verify(pool[idx], d, sigs[si])
				std = stded.Verify(stded.PublicKey(pool[idx]), d, sigs[si])
			})
			out = append(out, ev{"op": "Verify", "key": keyIDs.id(pool[idx]), "d": dname, "fork": fork, "std": std, "panic": p, "sig": sigIDs.id(sigs[si])})
		}
	}
	return out
}

func genKeyBlind(c *ctx, emit func(ev)) {
	r := newRand(c.seed, "keyblind")
	blinds := []string{"b1", "b2", "b3", "b4", "lead0", "geN", "one", "bzero"}
	ctxs := []string{"", "ctxA", "ctxB", "long"}
	digests := []string{"d0", "d1", "d2", "dlong", "dlong0", "dlongf", "dord", "dord0", "dord+1", "dff", "dffo", "dhuge"}
	sks := []string{"s1", "s2", "s3"}
	want := func(s string) bool { return c.arg == "" || strings.Contains(","+c.arg+",", ","+s+",") }
	mkSeq := func(n int) []any {
		steps := []any{}
		nsig := 0
		for i := 0; i < n; i++ {
			switch k := r.Intn(10); {
			case k < 3:
				steps = append(steps, ev{"op": "Blind", "in": r.Intn(1000), "b": blinds[r.Intn(len(blinds))], "ctx": ctxs[r.Intn(len(ctxs))]})
			case k < 5:
				steps = append(steps, ev{"op": "Unblind", "in": r.Intn(1000), "b": blinds[r.Intn(len(blinds))], "ctx": ctxs[r.Intn(len(ctxs))]})
			case k < 7:
				steps = append(steps, ev{"op": "BSign", "sk": sks[r.Intn(3)], "b": blinds[r.Intn(len(blinds))], "ctx": ctxs[r.Intn(len(ctxs))], "d": digests[r.Intn(len(digests))]})
				nsig++
			case k < 8:
				steps = append(steps, ev{"op": "Sign", "sk": sks[r.Intn(3)], "d": digests[r.Intn(len(digests))]})
				nsig++
			default:
				if nsig > 0 {
					steps = append(steps, ev{"op": "Verify", "in": r.Intn(1000), "sig": r.Intn(1000), "d": digests[r.Intn(len(digests))]})
				}
			}
		}
		return steps
	}
	// structured: for each (sk, blind, ctx): blind the key, sign, verify under blinded / unblinded / other keys, unblind back, commute
	structured := func() []any {
		steps := []any{}
		for si := range sks {
			for bi, b := range blinds {
				cx := ctxs[(si+bi)%len(ctxs)]
				d := digests[(si+2*bi)%len(digests)]
				steps = append(steps, ev{"op": "Blind", "in": si, "b": b, "ctx": cx}) // pool grows by one: index = 3 + #blinds so far
				steps = append(steps, ev{"op": "BSign", "sk": sks[si], "b": b, "ctx": cx, "d": d})
			}
		}
		// every signature against every key in the pool (right digest and a wrong one)
		nk, ns := 3+len(sks)*len(blinds), len(sks)*len(blinds)
		for k := 0; k < nk; k++ {
			for s := 0; s < ns; s++ {
				if (k+s)%3 == 0 || k == 3+s || k == s/len(blinds) {
					si, bi := s/len(blinds), s%len(blinds)
					steps = append(steps, ev{"op": "Verify", "in": k, "sig": s, "d": digests[(si+2*bi)%len(digests)]})
				}
			}
		}
		// consecutive blind signatures with the same key pair and blind but different contexts (and back),
		// each verified under the key blinded with its own context and under the other one
		ns0 := ns
		for si := range sks {
			for _, cx := range []string{"ctxA", "ctxB", "ctxA", "", "long"} {
				steps = append(steps, ev{"op": "BSign", "sk": sks[si], "b": "b1", "ctx": cx, "d": "d1"})
				ns++
			}
		}
		np := nk // pool size so far
		for si := range sks {
			for _, cx := range []string{"ctxA", "ctxB", "", "long"} {
				steps = append(steps, ev{"op": "Blind", "in": si, "b": "b1", "ctx": cx})
				for k := 0; k < 5; k++ {
					steps = append(steps, ev{"op": "Verify", "in": np, "sig": ns0 + si*5 + k, "d": "d1"})
				}
				np++
			}
		}
		// unblind each blinded key back
		for si := range sks {
			for bi, b := range blinds {
				cx := ctxs[(si+bi)%len(ctxs)]
				steps = append(steps, ev{"op": "Unblind", "in": 3 + si*len(blinds) + bi, "b": b, "ctx": cx})
				np++
			}
		}
		// blind with two blinds in both orders: the results must be the same key
		for bi := 0; bi+1 < len(blinds); bi++ {
			b1, b2 := blinds[bi], blinds[bi+1]
			steps = append(steps, ev{"op": "Blind", "in": 1, "b": b1, "ctx": "ctxA"}) // index np
			steps = append(steps, ev{"op": "Blind", "in": 1, "b": b2, "ctx": "ctxB"}) // index np+1
			steps = append(steps, ev{"op": "Blind", "in": np, "b": b2, "ctx": "ctxB"})
			steps = append(steps, ev{"op": "Blind", "in": np + 1, "b": b1, "ctx": "ctxA"})
			// same blind, other context / same context, other blind: different keys
			steps = append(steps, ev{"op": "Blind", "in": 1, "b": b1, "ctx": "ctxB"})
			np += 5
		}
		return steps
	}
	// contexts for which the inverse of the Ed25519 blinding factor has leading zero bytes: blind and unblind back
	rareEd := func() []any {
		steps := []any{}
		np := 3
		for _, cx := range []string{"rare1", "rare2", "rare3"} {
			for si := 0; si < 3; si++ {
				if cx == "rare3" {
					steps = append(steps, ev{"op": "BSign", "sk": sks[si], "b": "b1", "ctx": cx, "d": "d1"})
				}
				steps = append(steps, ev{"op": "Blind", "in": si, "b": "b1", "ctx": cx})
				steps = append(steps, ev{"op": "Unblind", "in": np, "b": "b1", "ctx": cx}) // must give the original key back
				steps = append(steps, ev{"op": "Unblind", "in": si, "b": "b1", "ctx": cx})
				steps = append(steps, ev{"op": "Blind", "in": np + 2, "b": "b1", "ctx": cx}) // and the other way round
				np += 4
			}
		}
		// refused calls in between must not influence later ones
		for k := 0; k < 6; k++ {
			steps = append(steps, ev{"op": "BlindBad", "in": k})
			steps = append(steps, ev{"op": "Blind", "in": k % 3, "b": "b2", "ctx": "ctxA"})
			steps = append(steps, ev{"op": "BSign", "sk": sks[k%3], "b": "b2", "ctx": "ctxA", "d": "d1"})
		}
		return steps
	}
	lenSweep := func(lo, hi int) []any {
		steps := []any{}
		for n := lo; n <= hi; n++ {
			steps = append(steps, ev{"op": "BlindLen", "n": n, "b": []string{"b1", "lead0"}[n%2]})
		}
		return steps
	}
	schemes := []string{}
	if want("ecdsa") {
		schemes = append(schemes, "ecdsa-P224", "ecdsa-P256", "ecdsa-P384", "ecdsa-P521")
	}
	if want("ed25519") {
		schemes = append(schemes, "ed25519")
	}
	for _, sc := range schemes {
		emit(ev{"op": "KSeq", "scheme": sc, "steps": structured(), "kind": "structured"})
		emit(ev{"op": "KStress", "scheme": sc, "g": 16, "rounds": c.tierInt(400, 2000), "kind": "stress"})
		if sc == "ed25519" {
			vr := c.tierInt(6000, 125000)
			if vr > 1000000 { // (16 million round trips are about two minutes on 16 cores)
				vr = 1000000
			}
			emit(ev{"op": "KStress", "scheme": sc, "g": 16, "rounds": vr, "kind": "stress", "volume": true})
		}
		if sc == "ed25519" {
			emit(ev{"op": "KSeq", "scheme": sc, "steps": rareEd(), "kind": "rare-inverse"})
		} else {
			emit(ev{"op": "KSeq", "scheme": sc, "steps": lenSweep(0, c.tierFixed(140, 300)), "kind": "context-lengths"})
		}
		nseq, n := c.tierInt(6, 40), c.tierFixed(50, 125)
		if sc == "ed25519" {
			nseq = c.tierInt(12, 160)
		}
		for i := 0; i < nseq; i++ {
			emit(ev{"op": "KSeq", "scheme": sc, "steps": mkSeq(n), "kind": "random"})
		}
	}
}
