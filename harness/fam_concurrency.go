package main

import (
	"bytes"
	stdecdsa "crypto/ecdsa"
	stded "crypto/ed25519"
	"crypto/elliptic"
	cryptorand "crypto/rand"
	"crypto/rsa"
	"encoding/json"
	"fmt"
	"math/big"
	"os"
	"os/exec"
	"runtime/debug"
	"strings"
	"sync"

	"github.com/cloudflare/circl/oprf"
	"github.com/cloudflare/pat-go/ecdsa"
	"github.com/cloudflare/pat-go/ed25519"
	"github.com/cloudflare/pat-go/tokens"
	"github.com/cloudflare/pat-go/tokens/batched"
	"github.com/cloudflare/pat-go/tokens/type1"
	"github.com/cloudflare/pat-go/tokens/type2"
	"github.com/cloudflare/pat-go/tokens/type3"
	"github.com/cloudflare/pat-go/tokens/type5"
)

// Family "concurrency" (property C17): every program that Concurrency.tla
// generates - which operations run concurrently, in which per-goroutine order,
// on one freshly constructed shared object - is executed on real goroutines
// released together by a barrier, in a harness built with -race. After each
// program the race detector's log is inspected, and every result is compared
// with the result of a sequential call with the same arguments.

func init() {
	register("concurrency", &family{gen: genConcurrency, exec: execConcurrency, serial: true})
}

func raceLogSize() (int64, string) {
	base := os.Getenv("VERIF_RACE_LOG")
	if base == "" {
		return 0, ""
	}
	// the race runtime writes to <log_path>.<pid>; only this process's own file counts
	b, err := os.ReadFile(fmt.Sprintf("%s.%d", base, os.Getpid()))
	if err != nil {
		return 0, ""
	}
	return int64(len(b)), string(b)
}

// freshVoprf returns a new key OBJECT (nothing cached in it) for the same key material.
func freshVoprf(suite oprf.Suite, k *oprf.PrivateKey) *oprf.PrivateKey {
	b, err := k.MarshalBinary()
	if err != nil {
		panic(err)
	}
	nk := new(oprf.PrivateKey)
	if err := nk.UnmarshalBinary(suite, b); err != nil {
		panic(err)
	}
	return nk
}

type concOp struct {
	run  func() []byte       // the concurrent call on the shared object; returns its raw result
	noise func()             // optional ("long" kinds): a quick refused call on the same shared object, made in bursts between the runs
	post func([]byte) []byte // optional: executed after all goroutines have finished (sequentially): derives the
	// deterministic value that is compared with the sequential reference (e.g. the finalized token)
}

// buildConc constructs the fresh shared object of a kind and, for every
// (goroutine, position), the operation to run with its own per-call arguments.
// The same function run with shared=false gives the sequential reference.
//
// concPrelude is set by buildConc: calls on the freshly built shared object that FAIL (malformed request, invalid
// signature). In every other repetition they run, one after the other, before the goroutines start: an error path
// must leave the object as fit for concurrent use as it was.
var concPrelude []func()

func buildConc(seed int64, kind string, prog [][]string) [][]concOp {
	ops := make([][]concOp, len(prog))
	concPrelude = nil
	fail := func(err error) []byte { return []byte("error: " + err.Error()) }
	switch kind {
	case "t1issuer", "t5issuer", "t1odd", "t1warm", "t1long":
		// "t1long": the same programs in LONG use - every call is made 40 times, with bursts of 300 quickly refused calls
		// between them (thousands of calls on the one issuer, those of a later hundred overtaking those of an earlier one)
		// "t1odd": the same programs with requests whose element comes in ANOTHER form (uncompressed SEC1): the issuer
		// refuses them - or, should it ever accept them, handles them like the others - without sharing anything
		// "t1warm": the caller has already used the key object (published its public key) before building the issuer
		t1 := kind == "t1issuer" || kind == "t1odd" || kind == "t1warm" || kind == "t1long"
		var key *oprf.PrivateKey
		if t1 {
			key = freshVoprf(oprf.SuiteP384, p384Key(seed, "k1"))
		} else {
			key = freshVoprf(oprf.SuiteRistretto255, ristrettoKey(seed, "k1"))
		}
		// the client side needs the public key: taken from ANOTHER key object, so that the shared one stays untouched until the goroutines start
		var pubSide *oprf.PrivateKey
		if t1 {
			pubSide = freshVoprf(oprf.SuiteP384, p384Key(seed, "k1"))
		} else {
			pubSide = freshVoprf(oprf.SuiteRistretto255, ristrettoKey(seed, "k1"))
		}
		pkBytes, _ := pubSide.Public().MarshalBinary()
		var iss1 *type1.BasicPrivateIssuer
		var iss5 *type5.BatchedPrivateIssuer
		if kind == "t1warm" {
			key.Public()
			type1.NewBasicPrivateIssuer(key) // (and built another issuer from the same key object before)
		}
		if t1 {
			iss1 = type1.NewBasicPrivateIssuer(key)
		} else {
			iss5 = type5.NewBatchedPrivateIssuer(key)
		}
		keyID := sha256Sum(pkBytes)
		for k := 0; k < 3; k++ {
			k := k
			concPrelude = append(concPrelude, func() {
				if t1 {
					bad := &type1.BasicPrivateTokenRequest{TokenKeyID: keyID[31], BlindedReq: bytes.Repeat([]byte{0xff}, 49)}
					if _, err := iss1.Evaluate(bad); err == nil {
						panic("prelude: a non-point element was evaluated")
					}
					iss1.Verify(tokens.Token{TokenType: 1, Nonce: make([]byte, 32), Context: make([]byte, 32), KeyID: keyID, Authenticator: make([]byte, 48+k)})
				} else {
					bad := &type5.BatchedPrivateTokenRequest{TokenKeyID: keyID[31], BlindedReq: [][]byte{bytes.Repeat([]byte{0xff}, 32)}}
					if _, err := iss5.Evaluate(bad); err == nil {
						panic("prelude: a non-point element was evaluated")
					}
					iss5.Verify(tokens.Token{TokenType: 5, Nonce: make([]byte, 32), Context: make([]byte, 32), KeyID: keyID, Authenticator: make([]byte, 64+k)})
				}
			})
		}
		for g := range prog {
			for i, name := range prog[g] {
				challenge, nonce := hashBytes(seed, fmt.Sprintf("conc-ch-%d-%d", g, i), 16), hashBytes(seed, fmt.Sprintf("conc-n-%d-%d", g, i), 32)
				var op concOp
				switch name {
				case "Evaluate":
					if t1 {
						st, err := type1.NewBasicPrivateClient().CreateTokenRequest(challenge, nonce, keyID, pubSide.Public())
						if err != nil {
							panic(err)
						}
						req1 := st.Request()
						if kind == "t1long" {
							badReq := &type1.BasicPrivateTokenRequest{TokenKeyID: req1.TokenKeyID, BlindedReq: append([]byte{0x02}, bytes.Repeat([]byte{0xff}, 48)...)}
							op.noise = func() { iss1.Evaluate(badReq) }
						}
						if kind == "t1odd" {
							if x, y := elliptic.UnmarshalCompressed(elliptic.P384(), req1.BlindedReq); x != nil {
								req1 = &type1.BasicPrivateTokenRequest{TokenKeyID: req1.TokenKeyID, BlindedReq: elliptic.Marshal(elliptic.P384(), x, y)}
							}
						}
						op.run = func() []byte {
							resp, err := iss1.Evaluate(req1)
							if err != nil {
								return []byte("error: refused") // (only THAT it is refused is compared, not the wording)
							}
							return []byte(fmt.Sprintf("answered with %d bytes", len(resp)))
						}
						if kind != "t1odd" {
							op.run = func() []byte {
								resp, err := iss1.Evaluate(req1)
								if err != nil {
									return fail(err)
								}
								return resp
							}
							op.post = func(resp []byte) []byte {
								tok, err := st.FinalizeToken(resp)
								if err != nil {
									return fail(err)
								}
								return tok.Marshal()
							}
						}
					} else {
						st, err := type5.NewBatchedPrivateClient().CreateTokenRequest(challenge, [][]byte{nonce}, keyID, pubSide.Public())
						if err != nil {
							panic(err)
						}
						op.run = func() []byte {
							resp, err := iss5.Evaluate(st.Request())
							if err != nil {
								return fail(err)
							}
							return resp
						}
						op.post = func(resp []byte) []byte {
							toks, err := st.FinalizeTokens(resp)
							if err != nil {
								return fail(err)
							}
							return toks[0].Marshal()
						}
					}
				case "Verify":
					var tok tokens.Token
					if t1 {
						a, _ := honestT1(pubSide, challenge, nonce, false)
						tok = a.token
					} else {
						a, _ := honestT5(pubSide, challenge, [][]byte{nonce}, false)
						tok = a.tokens[0]
					}
					if i%2 == 1 {
						tok.Authenticator = flipBit(tok.Authenticator, 9)
					}
					op.run = func() []byte {
						if t1 {
							return []byte(resErr(iss1.Verify(tok)))
						}
						return []byte(resErr(iss5.Verify(tok)))
					}
				case "TokenKeyID":
					op.run = func() []byte {
						if t1 {
							return iss1.TokenKeyID()
						}
						return iss5.TokenKeyID()
					}
				case "TokenKey":
					op.run = func() []byte {
						var pk *oprf.PublicKey
						if t1 {
							pk = iss1.TokenKey()
						} else {
							pk = iss5.TokenKey()
						}
						b, _ := pk.MarshalBinary()
						return b
					}
				}
				ops[g] = append(ops[g], op)
			}
		}
	case "t2issuer", "t2raw":
		// "raw": the issuer's key was assembled from its components (as after an import from JWK) and carries no
		// precomputed CRT values - whatever the library derives from it, it derives during the first concurrent calls
		iss := type2.NewBasicPublicIssuer(rawRSA(rsaKey(0), kind == "t2raw"))
		issB := type2.NewBasicPublicIssuer(rsaKey(1))
		concPrelude = append(concPrelude, func() {
			bad := &type2.BasicPublicTokenRequest{TokenKeyID: iss.TokenKeyID()[31], BlindedReq: bytes.Repeat([]byte{0xff}, 256)}
			if _, err := iss.Evaluate(bad); err == nil {
				panic("prelude: a message above the modulus was signed")
			}
		})
		for g := range prog {
			for i, name := range prog[g] {
				challenge, nonce := hashBytes(seed, fmt.Sprintf("conc-ch-%d-%d", g, i), 16), hashBytes(seed, fmt.Sprintf("conc-n-%d-%d", g, i), 32)
				var op concOp
				switch name {
				case "Evaluate":
					st, err := type2.NewBasicPublicClient().CreateTokenRequestWithBlind(challenge, nonce, iss.TokenKeyID(), iss.TokenKey(),
						detBlind(seed, 2, fmt.Sprintf("conc-%d-%d", g, i)), hashBytes(seed, "conc-salt", 48))
					if err != nil {
						panic(err)
					}
					op.run = func() []byte {
						resp, err := iss.Evaluate(st.Request())
						if err != nil {
							return fail(err)
						}
						return resp
					}
					op.post = func(resp []byte) []byte {
						tok, err := st.FinalizeToken(resp)
						if err != nil {
							return fail(err)
						}
						return tok.Marshal()
					}
				case "TokenKeyID":
					// odd goroutines work on ANOTHER issuer object with another key: objects of one type share no state
					ki := iss
					if g%2 == 1 {
						ki = issB
					}
					op.run = func() []byte { return ki.TokenKeyID() }
				default: // TokenKey
					op.run = func() []byte { return iss.TokenKey().N.Bytes() }
				}
				ops[g] = append(ops[g], op)
			}
		}
	case "t3issuer", "t3raw":
		w := newT3World(rawRSA(rsaKey(1), kind == "t3raw"), seed, map[string]string{"origin.example": "a"})
		concPrelude = append(concPrelude, func() {
			w.issuer.Evaluate([]byte{0, 3, 1, 2, 3})
			st, err := type3.NewRateLimitedClientFromSecret(p384Scalar(seed, "conc-client")).CreateTokenRequest([]byte("c"), make([]byte, 32),
				p384Scalar(seed, "conc-blind-p"), w.issuer.TokenKeyID(), w.issuer.TokenKey(), "unknown.example", w.issuer.NameKey())
			if err == nil {
				w.issuer.Evaluate(st.Request().Marshal())                                           // unknown origin
				w.issuer.Evaluate(flipBit(st.Request().Marshal(), 8*len(st.Request().Marshal())-3)) // bad signature
			}
		})
		for g := range prog {
			for i, name := range prog[g] {
				var op concOp
				switch name {
				case "Evaluate":
					st, err := type3.NewRateLimitedClientFromSecret(p384Scalar(seed, "conc-client")).CreateTokenRequest(
						hashBytes(seed, fmt.Sprintf("conc-ch-%d-%d", g, i), 16), hashBytes(seed, fmt.Sprintf("conc-n-%d-%d", g, i), 32),
						p384Scalar(seed, fmt.Sprintf("conc-blind-%d-%d", g, i)), w.issuer.TokenKeyID(), w.issuer.TokenKey(), "origin.example", w.issuer.NameKey())
					if err != nil {
						panic(err)
					}
					enc := append([]byte{}, st.Request().Marshal()...)
					var blindedKey []byte
					op.run = func() []byte {
						resp, key, err := w.issuer.Evaluate(enc)
						if err != nil {
							return fail(err)
						}
						blindedKey = key
						return resp
					}
					op.post = func(resp []byte) []byte {
						tok, err := st.FinalizeToken(resp)
						if err != nil {
							return fail(err)
						}
						// the token itself is randomised (PSS salt); its validity and the issuer-blinded key are not
						return append([]byte(resErr(verifyPSS(w.issuer.TokenKey(), tok))), blindedKey...)
					}
				case "TokenKeyID":
					op.run = func() []byte { return w.issuer.TokenKeyID() }
				default: // NameKey (generated randomly per issuer object: only its shape is comparable)
					op.run = func() []byte { return []byte(fmt.Sprint(len(w.issuer.NameKey().Marshal()))) }
				}
				ops[g] = append(ops[g], op)
			}
		}
	case "batch", "batchcollide":
		// two type-1 issuers with different truncated key ids and one type-2 issuer; requests alternate between the type-1 keys
		mkKey := func(name string) (*oprf.PrivateKey, *oprf.PrivateKey, []byte) {
			k := freshVoprf(oprf.SuiteP384, p384Key(seed, name))
			side := freshVoprf(oprf.SuiteP384, p384Key(seed, name))
			b, _ := side.Public().MarshalBinary()
			return k, side, sha256Sum(b)
		}
		kA, sideA, idA := mkKey("k1")
		kB, sideB, idB := mkKey("k2")
		if kind == "batchcollide" {
			// two type-1 issuers whose key ids END IN THE SAME BYTE: the first configured one answers - whichever
			// goroutine is faster (requests made for B are answered by A and refused by the client: part of the result)
			ck := collidingP384Key(seed, idA[31])
			kB, sideB = freshVoprf(oprf.SuiteP384, ck), freshVoprf(oprf.SuiteP384, ck)
			b, _ := sideB.Public().MarshalBinary()
			idB = sha256Sum(b)
		} else {
			for n := 0; idB[31] == idA[31]; n++ {
				kB, sideB, idB = mkKey(fmt.Sprintf("k2-%d", n))
			}
		}
		i2 := type2.NewBasicPublicIssuer(rsaKey(0))
		iss := batched.NewBasicBatchedIssuer(batchIssuer1{type1.NewBasicPrivateIssuer(kA)}, batchIssuer1{type1.NewBasicPrivateIssuer(kB)}, batchIssuer2{i2})
		for g := range prog {
			for i := range prog[g] {
				side, id := sideA, idA
				if (g+i)%2 == 1 {
					side, id = sideB, idB
				}
				s1, err := type1.NewBasicPrivateClient().CreateTokenRequest(hashBytes(seed, fmt.Sprintf("conc-ch-%d-%d", g, i), 16),
					hashBytes(seed, fmt.Sprintf("conc-n-%d-%d", g, i), 32), id, side.Public())
				if err != nil {
					panic(err)
				}
				s2, err := type2.NewBasicPublicClient().CreateTokenRequestWithBlind(hashBytes(seed, fmt.Sprintf("conc-ch2-%d-%d", g, i), 16),
					hashBytes(seed, fmt.Sprintf("conc-n2-%d-%d", g, i), 32), i2.TokenKeyID(), i2.TokenKey(),
					detBlind(seed, 2, fmt.Sprintf("conc-b-%d-%d", g, i)), hashBytes(seed, "conc-salt", 48))
				if err != nil {
					panic(err)
				}
				br, err := batched.NewBasicClient().CreateTokenRequest([]tokens.TokenRequestWithDetails{s1.Request(), s2.Request()})
				if err != nil {
					panic(err)
				}
				ops[g] = append(ops[g], concOp{run: func() []byte {
					resp, err := iss.EvaluateBatch(br)
					if err != nil {
						return fail(err)
					}
					return resp
				}, post: func(resp []byte) []byte {
					rs, err := batched.UnmarshalBatchedTokenResponses(resp)
					if err != nil || len(rs) != 2 {
						return []byte("error: response list")
					}
					t1, e1 := s1.FinalizeToken(rs[0])
					t2, e2 := s2.FinalizeToken(rs[1])
					if e1 != nil || e2 != nil {
						return []byte("error: finalize")
					}
					return append(t1.Marshal(), t2.Marshal()...)
				}})
			}
		}
	case "eckey", "ecfirst", "eczero":
		// "eczero": the same programs with a blind key whose scalar begins with a zero byte (one key in 256), every call
		// made 40 times
		curve := elliptic.P256()
		// key objects are assembled by hand (standard library arithmetic): in the "first" kinds nothing of the fork
		// has run in this process before the concurrent phase
		mk := func(label string) *ecdsa.PrivateKey {
			d := kbScalar(seed, curve, label)
			x, y := curve.ScalarBaseMult(d.Bytes())
			return &ecdsa.PrivateKey{PublicKey: ecdsa.PublicKey{Curve: curve, X: x, Y: y}, D: d}
		}
		sk, bk, sk2 := mk("conc-sk"), mk("conc-bk"), mk("conc-sk2")
		for n := 0; kind == "eczero" && bk.D.BitLen() > 248; n++ {
			bk = mk(fmt.Sprintf("conc-bk-%d", n))
		}
		// the shared signing key holds an UNREDUCED scalar (d + N, as CreateKey from raw bytes can produce): the same
		// key, and nothing may "tidy" it in place while other goroutines use it
		sk.D = new(big.Int).Add(sk.D, curve.Params().N)
		// ... and so does the shared BLIND key (its bytes, not its residue, are what the blinding factor is derived from)
		if kind != "eczero" {
			bk.D = new(big.Int).Add(bk.D, curve.Params().N)
		}
		concPrelude = append(concPrelude, func() {
			ecdsa.Verify(&sk.PublicKey, []byte("digest"), big.NewInt(1), big.NewInt(1))
			ecdsa.VerifyASN1(&sk.PublicKey, []byte("digest"), []byte{0x30, 0x03, 0x02, 0x01})
		})
		for g := range prog {
			for i, name := range prog[g] {
				d := hashBytes(seed, fmt.Sprintf("conc-d-%d-%d", g, i), 32)
				ctx := []byte(fmt.Sprintf("ctx-%d-%d", g, i))
				var op concOp
				switch name {
				case "EcSign":
					op.run = func() []byte {
						r, s, err := ecdsa.Sign(cryptorand.Reader, sk, d)
						if err != nil {
							return fail(err)
						}
						return []byte(resBool(stdecdsa.Verify(stdPub(&sk.PublicKey), d, r, s)))
					}
				case "EcVerify":
					vk := sk
					if g%2 == 1 { // odd goroutines verify under another key: calls under different keys run at the same time
						vk = sk2
					}
					// (the standard library insists on a reduced scalar)
					r0, s0, serr := stdecdsa.Sign(cryptorand.Reader, &stdecdsa.PrivateKey{PublicKey: *stdPub(&vk.PublicKey), D: new(big.Int).Mod(vk.D, curve.Params().N)}, d)
					if serr != nil {
						panic("harness: reference signature: " + serr.Error())
					}
					op.run = func() []byte { return []byte(resBool(ecdsa.Verify(&vk.PublicKey, d, r0, s0))) }
				case "EcBlind":
					op.run = func() []byte {
						p, err := ecdsa.BlindPublicKeyWithContext(curve, &sk.PublicKey, bk, ctx)
						if err != nil {
							return fail(err)
						}
						return elliptic.Marshal(curve, p.X, p.Y)
					}
				case "EcBlindSign":
					op.run = func() []byte {
						r, s, err := ecdsa.BlindKeySignWithContext(cryptorand.Reader, sk, bk, d, ctx)
						if err != nil {
							return fail(err)
						}
						p, _ := ecdsa.BlindPublicKeyWithContext(curve, &sk.PublicKey, bk, ctx)
						return []byte(resBool(stdecdsa.Verify(stdPub(p), d, r, s)))
					}
				}
				ops[g] = append(ops[g], op)
			}
		}
	case "edkey", "edfirst":
		priv := ed25519.PrivateKey(stded.NewKeyFromSeed(hashBytes(seed, "conc-ed-seed", 32)))
		pub := ed25519.PublicKey(append([]byte{}, priv[32:]...))
		pub2 := ed25519.PublicKey(append([]byte{}, stded.NewKeyFromSeed(hashBytes(seed, "conc-ed-seed2", 32))[32:]...))
		if kind == "edkey" { // (not in the first-use kind: nothing of the package may run before the goroutines)
			concPrelude = append(concPrelude, func() {
				ed25519.Verify(pub, []byte("m"), make([]byte, 64))
				ed25519.Verify(bytes.Repeat([]byte{0xff}, 32), []byte("m"), make([]byte, 64))
			})
		}
		blind := hashBytes(seed, "conc-ed-blind", 32)
		for g := range prog {
			for i, name := range prog[g] {
				msg := hashBytes(seed, fmt.Sprintf("conc-m-%d-%d", g, i), 40)
				ctx := []byte(fmt.Sprintf("ctx-%d-%d", g, i))
				var op concOp
				switch name {
				case "EdSign":
					op.run = func() []byte { return ed25519.Sign(priv, msg) }
				case "EdVerify":
					seedName, vpub := "conc-ed-seed", pub
					if g%2 == 1 { // odd goroutines verify under another key
						seedName, vpub = "conc-ed-seed2", pub2
					}
					sig := stded.Sign(stded.NewKeyFromSeed(hashBytes(seed, seedName, 32)), msg)
					op.run = func() []byte { return []byte(resBool(ed25519.Verify(vpub, msg, sig))) }
				case "EdBlind":
					op.run = func() []byte {
						p, err := ed25519.BlindPublicKeyWithContext(pub, blind[:32:32], ctx)
						if err != nil {
							return fail(err)
						}
						return p
					}
				case "EdBlindSign":
					op.run = func() []byte { return ed25519.BlindKeySignWithContext(priv, msg, blind[:32:32], ctx) }
				}
				ops[g] = append(ops[g], op)
			}
		}
	}
	return ops
}

// rawRSA returns the key itself, or (raw) a fresh key object with the same components and nothing precomputed
func rawRSA(k *rsa.PrivateKey, raw bool) *rsa.PrivateKey {
	if !raw {
		return k
	}
	out := &rsa.PrivateKey{PublicKey: rsa.PublicKey{N: new(big.Int).Set(k.N), E: k.E}, D: new(big.Int).Set(k.D)}
	for _, p := range k.Primes {
		out.Primes = append(out.Primes, new(big.Int).Set(p))
	}
	return out
}

func execConcurrency(c *ctx, in ev) []ev {
	kind := gS(in, "kind")
	var prog [][]string
	for _, g := range gL(in, "prog") {
		var seq []string
		for _, o := range g.([]any) {
			seq = append(seq, o.(string))
		}
		prog = append(prog, seq)
	}
	reps := gI(in, "reps")
	if reps < 1 {
		reps = 1
	}
	first := strings.HasSuffix(kind, "first")
	long := 1
	if kind == "t1long" || kind == "eczero" {
		long = 40
	}
	if first && os.Getenv("VERIF_CONC_CHILD") == "" {
		return concChild(c, in)
	}
	if first {
		reps = 1
	}
	e := ev{"op": "Conc", "kind": kind, "prog": in["prog"], "reps": reps, "races": 0, "race_text": "", "results_ok": true, "detail": "", "panic": ""}
	before, _ := raceLogSize()
	e["panic"] = guard(func() {
		// sequential reference on its own fresh object
		var want [][][]byte
		reference := func() {
			want = nil
			ref := buildConc(c.seed, kind, prog)
			for g := range ref {
				var rs [][]byte
				for _, op := range ref[g] {
					v := op.run()
					if op.post != nil && !bytes.HasPrefix(v, []byte("error: ")) {
						v = op.post(v)
					}
					rs = append(rs, v)
				}
				want = append(want, rs)
			}
		}
		if !first {
			reference()
		}
		for rep := 0; rep < reps; rep++ {
			ops := buildConc(c.seed, kind, prog) // a freshly constructed shared object, first use is concurrent
			if rep%2 == 1 && !first {
				for _, f := range concPrelude { // ... in every other repetition after a few failing calls
					f()
				}
			}
			got := make([][][]byte, len(ops))
			var gpMu sync.Mutex
			gp := ""
			start := make(chan struct{})
			var wg sync.WaitGroup
			for g := range ops {
				g := g
				got[g] = make([][]byte, len(ops[g]))
				wg.Add(1)
				go func() {
					defer wg.Done()
					defer func() { // a panic in a concurrent call is a result of the program, not the end of the driver
						if r := recover(); r != nil {
							gpMu.Lock()
							if gp == "" {
								gp = fmt.Sprintf("goroutine %d: %v\n%.1200s", g, r, debug.Stack())
							}
							gpMu.Unlock()
						}
					}()
					<-start
					for i, op := range ops[g] {
						got[g][i] = op.run()
						for k := 1; k < long; k++ { // long use: the call again and again, quick refusals in between
							for x := 0; x < 300 && op.noise != nil; x++ {
								op.noise()
							}
							if v := op.run(); op.post == nil && !bytes.Equal(v, got[g][i]) {
								got[g][i] = v // (a deterministic call that answers differently later on: the later answer is compared)
							}
						}
					}
				}()
			}
			close(start)
			wg.Wait()
			if gp != "" {
				panic(gp)
			}
			if first {
				reference() // only now: the concurrent calls above were the first use of the package in this process
			}
			// client-side post-processing happens after the concurrent phase, sequentially
			for g := range got {
				for i := range got[g] {
					if ops[g][i].post != nil && !bytes.HasPrefix(got[g][i], []byte("error: ")) {
						got[g][i] = ops[g][i].post(got[g][i])
					}
				}
			}
			for g := range got {
				for i := range got[g] {
					if !bytes.Equal(got[g][i], want[g][i]) {
						e["results_ok"] = false
						e["detail"] = fmt.Sprintf("goroutine %d op %d (%s): concurrent result differs from the sequential result (%.40q vs %.40q)", g, i, prog[g][i], got[g][i], want[g][i])
					}
				}
			}
		}
	})
	after, text := raceLogSize()
	if after > before {
		if int64(len(text)) >= before {
			text = text[before:]
		}
		e["races"] = strings.Count(text, "WARNING: DATA RACE")
		if e["races"] == 0 {
			e["races"] = 1
		}
		// keep the part of the log that names the conflicting accesses
		idx := strings.LastIndex(text, "WARNING: DATA RACE")
		if idx < 0 {
			idx = 0
		}
		tail := text[idx:]
		if len(tail) > 1800 {
			tail = tail[:1800]
		}
		e["race_text"] = tail
	}
	return []ev{e}
}

// concChild executes one "first use" program in a process of its own (this binary, same race log settings), so that
// the program's concurrent calls are the first thing the process does with the package under test: whatever the
// package initialises lazily (tables behind sync.Once) is initialised by racing goroutines.
func concChild(c *ctx, in ev) []ev {
	e := ev{"op": "Conc", "kind": in["kind"], "prog": in["prog"], "reps": 1, "races": 0, "race_text": "", "results_ok": true, "detail": "", "panic": ""}
	dir, err := os.MkdirTemp("", "verif-conc-child-")
	if err != nil {
		panic(err)
	}
	defer os.RemoveAll(dir)
	b, _ := json.Marshal(in)
	inPath, outPath := dir+"/case.ndjson", dir+"/out.ndjson"
	if err := os.WriteFile(inPath, append(b, '\n'), 0o644); err != nil {
		panic(err)
	}
	cmd := exec.Command(os.Args[0], "record", "concurrency", "-seed", fmt.Sprint(c.seed), "-tier", c.tier, "-in", inPath, "-out", outPath, "-shards", "1")
	cmd.Env = append(os.Environ(), "VERIF_CONC_CHILD=1")
	out, err := cmd.CombinedOutput()
	data, rerr := os.ReadFile(outPath)
	if err != nil || rerr != nil {
		// the child died: a crash of the concurrent first use (the library's, if the stack says so)
		e["panic"] = fmt.Sprintf("child process failed: %v\n%.1500s", err, out)
		return []ev{e}
	}
	var got ev
	dec := json.NewDecoder(bytes.NewReader(data))
	dec.UseNumber()
	if err := dec.Decode(&got); err != nil {
		panic(fmt.Sprintf("child output unreadable: %v", err))
	}
	delete(got, "cid")
	return []ev{got}
}

func genConcurrency(c *ctx, emit func(ev)) {
	path := os.Getenv("VERIF_CONC_BEHAVIOURS")
	if path == "" {
		return
	}
	data, err := os.ReadFile(path)
	if err != nil {
		panic(err)
	}
	var beh []struct {
		Kind string     `json:"kind"`
		Prog [][]string `json:"prog"`
	}
	if err := json.Unmarshal(data, &beh); err != nil {
		panic(err)
	}
	for _, b := range beh {
		reps := c.tierInt(2, 4)
		if b.Kind == "batch" {
			reps = c.tierInt(12, 30) // few programs, cheap: repeat more often
		}
		emit(ev{"op": "Conc", "kind": b.Kind, "prog": b.Prog, "reps": reps})
	}
}
