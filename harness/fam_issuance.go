package main

import (
	"bytes"
	"crypto/elliptic"
	cryptorand "crypto/rand"
	"crypto/rsa"
	"crypto/sha256"
	"crypto/sha512"
	"encoding/json"
	"fmt"
	"os"
	"strings"

	hpke "github.com/cisco/go-hpke"
	"github.com/cloudflare/circl/oprf"
	"github.com/cloudflare/pat-go/ecdsa"
	"github.com/cloudflare/pat-go/quicwire"
	"github.com/cloudflare/pat-go/tokens"
	"github.com/cloudflare/pat-go/tokens/batched"
	"github.com/cloudflare/pat-go/tokens/type1"
	"github.com/cloudflare/pat-go/tokens/type2"
	"github.com/cloudflare/pat-go/tokens/type3"
	"github.com/cloudflare/pat-go/tokens/type5"
	"github.com/cloudflare/pat-go/util"
)

// Family "issuance" (properties C01, C02, C07, C10, C11): complete issuance
// runs of every token type with every message crossing the wire as bytes, one
// mutation of the alphabet of Issuance.tla (or an unlisted one) applied to the
// response; issuer-side verification of altered tokens; the rate-limited
// issuer on altered requests; deterministic issuance with supplied blinds.
// Trace_Issuance.tla rebuilds the symbolic run and compares verdicts.

func init() { register("issuance", &family{gen: genIssuance, exec: execIssuance}) }

// one outstanding request of one client, with everything needed to drive it
type outReq struct {
	t         int
	n         int
	nonces    [][]byte
	challenge []byte
	pubBytes  []byte // serialized pinned public key (key id = SHA-256 of it)
	reqBytes  []byte
	createErr error
	finalize  func(resp []byte) ([]tokens.Token, error)
	oracle    func(tok tokens.Token) bool // independent verification under the pinned key
	iverify   func(tok tokens.Token) bool // issuer-side Verify (types 1, 5)
}

type issuerSet struct {
	seed int64
	t3w  map[string]*t3World
	// one client object per token type, constructed once and used for every
	// request of a run (clients are meant to be long-lived objects)
	c1 *type1.BasicPrivateClient
	c2 *type2.BasicPublicClient
	c5 *type5.BatchedPrivateClient
}

func (s *issuerSet) client1() type1.BasicPrivateClient {
	if s.c1 == nil {
		c := type1.NewBasicPrivateClient()
		s.c1 = &c
	}
	return *s.c1
}
func (s *issuerSet) client2() type2.BasicPublicClient {
	if s.c2 == nil {
		c := type2.NewBasicPublicClient()
		s.c2 = &c
	}
	return *s.c2
}
func (s *issuerSet) client5() type5.BatchedPrivateClient {
	if s.c5 == nil {
		c := type5.NewBatchedPrivateClient()
		s.c5 = &c
	}
	return *s.c5
}

// voprf returns the VOPRF key of a named issuer. "kc" is a key whose key id
// ends in the same byte as k1's (a colliding truncated key id).
func (s *issuerSet) voprf(t int, key string) *oprf.PrivateKey {
	mk := func(name string) *oprf.PrivateKey {
		if t == 1 {
			return p384Key(s.seed, name)
		}
		return ristrettoKey(s.seed, name)
	}
	if key != "kc" {
		return mk(key)
	}
	last := func(k *oprf.PrivateKey) byte {
		b, _ := k.Public().MarshalBinary()
		h := sha256.Sum256(b)
		return h[31]
	}
	want := last(mk("k1"))
	for i := 0; ; i++ {
		k := mk(fmt.Sprintf("kc-%d", i))
		if last(k) == want {
			return k
		}
	}
}

func rsaByName(key string) *rsa.PrivateKey {
	if key == "big" {
		return rsaBig()
	}
	return rsaKey(rsaIdx(key))
}

func (s *issuerSet) world(key string, origin string) *t3World {
	id := key + "/" + origin
	if w, ok := s.t3w[id]; ok {
		return w
	}
	idx := map[string]int{"k1": 0, "k2": 1}[key]
	w := newT3World(rsaKey(idx), s.seed, map[string]string{origin: "a"})
	s.t3w[id] = w
	return w
}

func rsaIdx(key string) int { return map[string]int{"k1": 0, "k2": 1}[key] }

// create builds a request of type t pinned to issuer key `key`.
func (s *issuerSet) create(t, n int, key string, challenge []byte, nonces [][]byte, origin string, clientName string) *outReq {
	o := &outReq{t: t, n: n, nonces: nonces, challenge: challenge}
	// The client is handed private copies of every argument, and the copies
	// are overwritten as soon as the call returns: a request state that kept
	// an alias of its caller's buffers instead of its own bytes shows up as a
	// token with the wrong nonce / context / key id.
	challenge = append([]byte{}, challenge...)
	cn := make([][]byte, len(nonces))
	for i := range nonces {
		cn[i] = append([]byte{}, nonces[i]...)
	}
	nonces = cn
	var keyIDArg []byte
	defer func() {
		poison(challenge)
		for _, x := range nonces {
			poison(x)
		}
		poison(keyIDArg)
	}()
	switch t {
	case 1:
		k := s.voprf(1, key)
		iss := type1.NewBasicPrivateIssuer(k)
		o.pubBytes, _ = iss.TokenKey().MarshalBinary()
		keyIDArg = iss.TokenKeyID()
		st, err := s.client1().CreateTokenRequest(challenge, nonces[0], keyIDArg, iss.TokenKey())
		o.createErr = err
		if err == nil {
			o.reqBytes = append([]byte{}, st.Request().Marshal()...)
			o.finalize = func(resp []byte) ([]tokens.Token, error) {
				tok, err := st.FinalizeToken(resp)
				if err != nil {
					return nil, err
				}
				return []tokens.Token{tok}, nil
			}
		}
		o.oracle = func(tok tokens.Token) bool {
			return bytes.Equal(fullEvaluate(oprf.SuiteP384, k, authInput(tok)), tok.Authenticator) && len(tok.Authenticator) == 48
		}
		o.iverify = func(tok tokens.Token) bool { return iss.Verify(tok) == nil }
	case 5:
		k := s.voprf(5, key)
		iss := type5.NewBatchedPrivateIssuer(k)
		o.pubBytes, _ = iss.TokenKey().MarshalBinary()
		keyIDArg = iss.TokenKeyID()
		st, err := s.client5().CreateTokenRequest(challenge, nonces, keyIDArg, iss.TokenKey())
		o.createErr = err
		if err == nil {
			o.reqBytes = append([]byte{}, st.Request().Marshal()...)
			o.finalize = func(resp []byte) ([]tokens.Token, error) { return st.FinalizeTokens(resp) }
		}
		o.oracle = func(tok tokens.Token) bool {
			return bytes.Equal(fullEvaluate(oprf.SuiteRistretto255, k, authInput(tok)), tok.Authenticator) && len(tok.Authenticator) == 64
		}
		o.iverify = func(tok tokens.Token) bool { return iss.Verify(tok) == nil }
	case 2:
		k := rsaKey(rsaIdx(key))
		iss := type2.NewBasicPublicIssuer(k)
		o.pubBytes, _ = util.MarshalTokenKeyPSSOID(iss.TokenKey())
		st, err := type2.NewBasicPublicClient().CreateTokenRequest(challenge, nonces[0], iss.TokenKeyID(), iss.TokenKey())
		o.createErr = err
		if err == nil {
			o.reqBytes = append([]byte{}, st.Request().Marshal()...)
			o.finalize = func(resp []byte) ([]tokens.Token, error) {
				tok, err := st.FinalizeToken(resp)
				if err != nil {
					return nil, err
				}
				return []tokens.Token{tok}, nil
			}
		}
		o.oracle = func(tok tokens.Token) bool {
			return verifyPSS(&k.PublicKey, tok) == nil && len(tok.Authenticator) == 256
		}
	case 3:
		w := s.world(key, origin)
		o.pubBytes, _ = util.MarshalTokenKeyPSSOID(w.issuer.TokenKey())
		cl := type3.NewRateLimitedClientFromSecret(p384Scalar(s.seed, "iss-client-"+clientName))
		keyIDArg = w.issuer.TokenKeyID()
		blindArg := p384Scalar(s.seed, "iss-blind-"+clientName+fmt.Sprint(len(challenge)))
		st, err := cl.CreateTokenRequest(challenge, nonces[0], blindArg, keyIDArg, w.issuer.TokenKey(), origin, w.issuer.NameKey())
		poison(blindArg)
		o.createErr = err
		if err == nil {
			o.reqBytes = append([]byte{}, st.Request().Marshal()...)
			o.finalize = func(resp []byte) ([]tokens.Token, error) {
				tok, err := st.FinalizeToken(resp)
				if err != nil {
					return nil, err
				}
				return []tokens.Token{tok}, nil
			}
		}
		o.oracle = func(tok tokens.Token) bool {
			return verifyPSS(w.issuer.TokenKey(), tok) == nil && len(tok.Authenticator) == 256
		}
	}
	return o
}

// evaluate: the issuer holding key `key` decodes the request bytes and evaluates.
func (s *issuerSet) evaluate(t int, key string, reqBytes []byte, origin string) (resp []byte, decodeOK bool, err error) {
	switch t {
	case 1:
		req := new(type1.BasicPrivateTokenRequest)
		if !req.Unmarshal(reqBytes) {
			return nil, false, fmt.Errorf("decode")
		}
		resp, err = type1.NewBasicPrivateIssuer(s.voprf(1, key)).Evaluate(req)
		return resp, true, err
	case 5:
		req := new(type5.BatchedPrivateTokenRequest)
		if !req.Unmarshal(reqBytes) {
			return nil, false, fmt.Errorf("decode")
		}
		resp, err = type5.NewBatchedPrivateIssuer(s.voprf(5, key)).Evaluate(req)
		return resp, true, err
	case 2:
		req := new(type2.BasicPublicTokenRequest)
		if !req.Unmarshal(reqBytes) {
			return nil, false, fmt.Errorf("decode")
		}
		resp, err = type2.NewBasicPublicIssuer(rsaByName(key)).Evaluate(req)
		return resp, true, err
	case 3:
		resp, _, err = s.world(key, origin).issuer.Evaluate(reqBytes)
		return resp, err == nil || !strings.Contains(errStr(err), "malformed"), err
	}
	return nil, false, fmt.Errorf("type")
}

func respFields(t int, resp []byte) map[string][2]int {
	switch t {
	case 1:
		return map[string][2]int{"elem": {0, 49}, "proof": {49, len(resp)}}
	case 5:
		_, vl := quicwire.ConsumeVarint(resp)
		return map[string][2]int{"len": {0, vl}, "elem": {vl, len(resp) - 64}, "proof": {len(resp) - 64, len(resp)}}
	case 2:
		return map[string][2]int{"sig": {0, len(resp)}}
	case 3:
		return map[string][2]int{"rnonce": {0, 16}, "ct": {16, len(resp)}}
	}
	return nil
}

func reframeT5(elems [][]byte, proof []byte) []byte {
	body := bytes.Join(elems, nil)
	out := quicwire.AppendVarint(nil, uint64(len(body)))
	out = append(out, body...)
	return append(out, proof...)
}

func splitT5(resp []byte) (elems [][]byte, proof []byte) {
	l, vl := quicwire.ConsumeVarint(resp)
	body := resp[vl : vl+int(l)]
	for i := 0; i+32 <= len(body); i += 32 {
		elems = append(elems, body[i:i+32])
	}
	return elems, resp[vl+int(l):]
}

func execIssuance(c *ctx, in ev) []ev {
	switch gS(in, "op") {
	case "Run":
		return []ev{execRun(c, in)}
	case "Verify":
		return []ev{execVerify(c, in)}
	case "RLEval":
		return []ev{execRLEval(c, in)}
	case "DetMatrix":
		return execDet(c, in)
	case "Vectors":
		return execVectors(c, in)
	}
	return []ev{{"op": "unknown"}}
}

func execRun(c *ctx, in ev) ev {
	t, n, chlen, olen := gI(in, "t"), gI(in, "n"), gI(in, "chlen"), gI(in, "olen")
	mut, _ := in["mut"].(map[string]any)
	kind, _ := mut["kind"].(string)
	r := newRand(c.seed, fmt.Sprintf("run-%v", in["rid"]))
	s := &issuerSet{seed: c.seed, t3w: map[string]*t3World{}}
	origin := strings.Repeat("o", olen)
	if t != 5 {
		n = 1
	}
	nonceLen := 32
	if kind == "OddNonce" {
		nonceLen = jInt(mut["len"])
	}
	mkNonces := func() [][]byte {
		ns := [][]byte{}
		for i := 0; i < n; i++ {
			ns = append(ns, randBytes(r, nonceLen))
		}
		return ns
	}
	pinned := "k1"
	switch kind {
	case "ForeignKeyCollide":
		pinned = "kc" // key id ends in the same byte as k1's; the response will come from k1
	case "BigKey":
		pinned = "big"
	}
	e := ev{"op": "Run", "t": t, "n": n, "chlen": chlen, "olen": olen, "mut": mut, "create_ok": false, "decode_ok": false, "eval_ok": false,
		"fin_ok": false, "err": "", "tokens": []any{}, "nonces": []any{}, "ctx": B(nil), "keyid": B(nil), "oracle": []any{}, "iverify": []any{}, "panic": "",
		"req": B(nil), "resp": B(nil)}
	e["panic"] = guard(func() {
		challenge := randBytes(r, chlen)
		if kind == "ForeignKeyCollide" {
			// the same client object has served a complete run for issuer k1 before
			r0 := s.create(t, n, "k1", randBytes(r, chlen), mkNonces(), origin, "c1")
			if resp0, _, err := s.evaluate(t, "k1", r0.reqBytes, origin); err == nil {
				r0.finalize(resp0)
			}
		}
		r1 := s.create(t, n, pinned, challenge, mkNonces(), origin, "c1")
		e["nonces"] = list(r1.nonces)
		cx := sha256.Sum256(challenge)
		kid := sha256.Sum256(r1.pubBytes)
		e["ctx"], e["keyid"] = B(cx[:]), B(kid[:])
		if r1.createErr != nil {
			e["err"] = "create: " + r1.createErr.Error()
			return
		}
		e["create_ok"] = true
		if kind == "Id" {
			e["req"] = B(r1.reqBytes)
		}
		evalKey, evalReq, evalOrigin := pinned, r1.reqBytes, origin
		switch kind {
		case "ForeignKeyCollide":
			evalKey = "k1"
		case "ForeignKey":
			evalKey = "k2"
			if t == 3 {
				// a response of the other issuer can only exist for a request sealed to it
				r2 := s.create(t, n, "k2", randBytes(r, chlen), mkNonces(), origin, "c1")
				evalReq = r2.reqBytes
			}
		case "ForeignReq":
			r2 := s.create(t, n, "k1", randBytes(r, chlen), mkNonces(), origin, "c1")
			if r2.createErr != nil {
				e["err"] = "create2: " + r2.createErr.Error()
				return
			}
			evalReq = r2.reqBytes
		}
		resp, decOK, err := s.evaluate(t, evalKey, evalReq, evalOrigin)
		e["decode_ok"] = decOK
		if err != nil {
			e["err"] = "evaluate: " + err.Error()
			return
		}
		e["eval_ok"] = true
		resp = append([]byte{}, resp...)
		if kind == "Id" {
			e["resp"] = B(resp)
		}
		// the attacker's mutation
		switch kind {
		case "Flip":
			f := respFields(t, resp)[mut["f"].(string)]
			bits := (f[1] - f[0]) * 8
			bit := jInt(mut["bit"]) % bits
			resp[f[0]+bit/8] ^= 1 << uint(bit%8)
		case "Drop", "Dup", "Swap", "Perm":
			el, proof := splitT5(resp)
			switch kind {
			case "Drop":
				i := jInt(mut["i"]) - 1
				el = append(append([][]byte{}, el[:i]...), el[i+1:]...)
			case "Dup":
				i := jInt(mut["i"]) - 1
				el = append(append(append([][]byte{}, el[:i+1]...), el[i]), el[i+1:]...)
			case "Swap":
				el = append([][]byte{el[1], el[0]}, el[2:]...)
			case "Perm":
				p := mut["p"].([]any)
				ne := make([][]byte, len(el))
				for j := range ne {
					ne[j] = el[jInt(p[j])-1]
				}
				el = ne
			}
			resp = reframeT5(el, proof)
		case "Truncate":
			resp = resp[:jInt(mut["k"])%(len(resp)+1)]
		case "Extend":
			resp = append(resp, randBytes(r, jInt(mut["k"]))...)
		case "Random":
			resp = randBytes(r, len(resp))
		case "OtherBatchElem": // an element of another batch of the same key spliced in, proof kept
			r2 := s.create(t, n, "k1", randBytes(r, chlen), mkNonces(), origin, "c1")
			resp2, _, err2 := s.evaluate(t, "k1", r2.reqBytes, origin)
			if err2 == nil {
				el, proof := splitT5(resp)
				el2, _ := splitT5(resp2)
				el[0] = el2[0]
				resp = reframeT5(el, proof)
			}
		}
		toks, err := r1.finalize(resp)
		if err != nil {
			e["err"] = "finalize: " + err.Error()
			return
		}
		e["fin_ok"] = true
		tb, oc, iv := []any{}, []any{}, []any{}
		for _, tok := range toks {
			tb = append(tb, B(tok.Marshal()))
			oc = append(oc, r1.oracle(tok))
			if r1.iverify != nil {
				iv = append(iv, r1.iverify(tok))
			}
		}
		e["tokens"], e["oracle"], e["iverify"] = tb, oc, iv
	})
	return e
}

// ---------------------------------------------------------------------------
// C10: issuer-side verification of altered tokens

func execVerify(c *ctx, in ev) ev {
	t := gI(in, "t")
	tm, _ := in["tmut"].(map[string]any)
	kind, _ := tm["kind"].(string)
	r := newRand(c.seed, fmt.Sprintf("verify-%v", in["rid"]))
	e := ev{"op": "Verify", "t": t, "tmut": tm, "ok": false, "ref_ok": false, "panic": ""}
	e["panic"] = guard(func() {
		var tok tokens.Token
		var suite oprf.Suite
		var key, other *oprf.PrivateKey
		var verify func(k *oprf.PrivateKey, tok tokens.Token) error
		if t == 1 {
			suite, key, other = oprf.SuiteP384, p384Key(c.seed, "k1"), p384Key(c.seed, "k2")
			a, err := honestT1(key, randBytes(r, 12), randNonce(r), false)
			if err != nil {
				panic(err)
			}
			tok = a.token
			verify = func(k *oprf.PrivateKey, tok tokens.Token) error { return type1.NewBasicPrivateIssuer(k).Verify(tok) }
		} else {
			suite, key, other = oprf.SuiteRistretto255, ristrettoKey(c.seed, "k1"), ristrettoKey(c.seed, "k2")
			a, err := honestT5(key, randBytes(r, 12), [][]byte{randNonce(r), randNonce(r)}, false)
			if err != nil {
				panic(err)
			}
			tok = a.tokens[1]
			verify = func(k *oprf.PrivateKey, tok tokens.Token) error { return type5.NewBatchedPrivateIssuer(k).Verify(tok) }
		}
		cp := func(b []byte) []byte { return append([]byte{}, b...) }
		tok = tokens.Token{TokenType: tok.TokenType, Nonce: cp(tok.Nonce), Context: cp(tok.Context), KeyID: cp(tok.KeyID), Authenticator: cp(tok.Authenticator)}
		vkey := key
		switch kind {
		case "Id":
		case "Flip":
			bit := jInt(tm["bit"])
			switch tm["f"].(string) {
			case "nonce":
				tok.Nonce = flipBit(tok.Nonce, bit)
			case "context":
				tok.Context = flipBit(tok.Context, bit)
			case "key_id":
				tok.KeyID = flipBit(tok.KeyID, bit)
			case "auth":
				tok.Authenticator = flipBit(tok.Authenticator, bit)
			}
		case "TypeField":
			tok.TokenType ^= uint16(1) << uint(jInt(tm["bit"])%16)
		case "OtherKey":
			vkey = other
		case "OtherType": // a token of the other VOPRF type presented to this issuer
			if t == 1 {
				a, _ := honestT5(ristrettoKey(c.seed, "k1"), randBytes(r, 12), [][]byte{randNonce(r)}, false)
				tok = a.tokens[0]
			} else {
				a, _ := honestT1(p384Key(c.seed, "k1"), randBytes(r, 12), randNonce(r), false)
				tok = a.token
			}
		case "ShiftNonceContext": // same concatenation, different field split
			tok.Context = append([]byte{tok.Nonce[31]}, tok.Context...)
			tok.Nonce = tok.Nonce[:31]
		case "ShiftContextKeyID":
			tok.KeyID = append([]byte{tok.Context[31]}, tok.KeyID...)
			tok.Context = tok.Context[:31]
		case "NonceShort":
			tok.Nonce = tok.Nonce[:31]
		case "NonceLong":
			tok.Nonce = append(tok.Nonce, 0)
		case "EmptyNonce":
			tok.Nonce = nil
		case "EmptyAll":
			tok.Nonce, tok.Context, tok.KeyID = nil, nil, nil
		case "AuthShort":
			tok.Authenticator = tok.Authenticator[:len(tok.Authenticator)-1]
		case "AuthLong":
			tok.Authenticator = append(tok.Authenticator, 0)
		case "AuthEmpty":
			tok.Authenticator = nil
		case "AuthPrefix":
			tok.Authenticator = tok.Authenticator[:jInt(tm["k"])%len(tok.Authenticator)]
		}
		// independent reference: FullEvaluate over the concatenation the token carries
		input := append([]byte{byte(tok.TokenType >> 8), byte(tok.TokenType)}, tok.Nonce...)
		input = append(append(input, tok.Context...), tok.KeyID...)
		e["ref_ok"] = bytes.Equal(fullEvaluate(suite, vkey, input), tok.Authenticator)
		e["ok"] = verify(vkey, tok) == nil
	})
	return e
}

// ---------------------------------------------------------------------------
// C07: the rate-limited issuer on altered requests

func t3ReqFields(req []byte) map[string][2]int {
	encLen := int(req[83])<<8 | int(req[84])
	return map[string][2]int{"type": {0, 2}, "request_key": {2, 51}, "name_key_id": {51, 83}, "enc_len": {83, 85},
		"enc": {85, 85 + encLen}, "sig": {85 + encLen, len(req)}}
}

func execRLEval(c *ctx, in ev) ev {
	cls, _ := in["cls"].(map[string]any)
	kind, _ := cls["kind"].(string)
	r := newRand(c.seed, fmt.Sprintf("rleval-%v", in["rid"]))
	e := ev{"op": "RLEval", "cls": cls, "ok": false, "resp_len": 0, "key_len": 0, "err": "", "panic": ""}
	e["panic"] = guard(func() {
		origin := "registered.example"
		w := newT3World(rsaKey(0), c.seed, map[string]string{origin: "a"})
		other := newT3World(rsaKey(1), c.seed, map[string]string{origin: "a"})
		secret := p384Scalar(c.seed, "rl-client")
		blind := randScalar(r)
		mk := func(w *t3World, origin string) *type3.RateLimitedTokenRequest {
			st, err := type3.NewRateLimitedClientFromSecret(secret).CreateTokenRequest(randBytes(r, 9), randNonce(r), blind,
				w.issuer.TokenKeyID(), w.issuer.TokenKey(), origin, w.issuer.NameKey())
			if err != nil {
				panic(err)
			}
			out := new(type3.RateLimitedTokenRequest)
			if !out.Unmarshal(append([]byte{}, st.Request().Marshal()...)) {
				panic("honest request does not decode")
			}
			return out
		}
		remarshal := func(q *type3.RateLimitedTokenRequest) []byte {
			return (&type3.RateLimitedTokenRequest{RequestKey: q.RequestKey, NameKeyID: q.NameKeyID,
				EncryptedTokenRequest: q.EncryptedTokenRequest, Signature: q.Signature}).Marshal()
		}
		req := mk(w, origin)
		enc := remarshal(req)
		switch kind {
		case "Id":
		case "Flip":
			f := t3ReqFields(enc)[cls["f"].(string)]
			bit := jInt(cls["bit"]) % ((f[1] - f[0]) * 8)
			enc[f[0]+bit/8] ^= 1 << uint(bit%8)
		case "Unregistered":
			name := map[string]string{"last-byte": "registered.examplf", "prefix": "registered.exampl", "suffix": "registered.example.", "inner-nul": "registered\x00example",
				"case": "Registered.example", "empty": "", "long": strings.Repeat("registered.example", 9),
				"nul-suffix": "registered.example\x00.attacker.example", "nul-suffix-short": "registered.example\x00a", "nul-prefix": "\x00registered.example"}[cls["variant"].(string)]
			enc = remarshal(mk(w, name))
		case "ForeignIssuer": // sealed to another issuer's name key
			enc = remarshal(mk(other, origin))
		case "OtherSigner": // the same contents re-signed by a different (blinded) key
			req.Signature = signT3(p384Scalar(c.seed, "rl-client-2"), blind, req)
			enc = remarshal(req)
		case "OtherContents": // a valid signature by the right key, but over another request
			q2 := mk(w, origin)
			req.Signature = q2.Signature
			enc = remarshal(req)
		case "BadInner": // authentic and correctly sealed, but the plaintext is not an InnerTokenRequest
			req.EncryptedTokenRequest = sealT3(w.issuer.NameKey(), req.RequestKey, randBytes(r, jInt(cls["k"])), true)
			req.Signature = signT3(secret, blind, req)
			enc = remarshal(req)
		case "WrongAAD": // a well-formed inner request sealed without the request key in the AAD
			inner := type3.VerifNewInnerTokenRequest(1, randBytes(r, 256), type3.VerifPadOriginName(origin)).Marshal()
			req.EncryptedTokenRequest = sealT3(w.issuer.NameKey(), req.RequestKey, inner, false)
			req.Signature = signT3(secret, blind, req)
			enc = remarshal(req)
		case "ResealedHonest": // control: the harness's own sealing and signing of a well-formed inner request is accepted
			inner := type3.VerifNewInnerTokenRequest(w.issuer.TokenKeyID()[0], randBytes(r, 256), type3.VerifPadOriginName(origin)).Marshal()
			req.EncryptedTokenRequest = sealT3(w.issuer.NameKey(), req.RequestKey, inner, true)
			req.Signature = signT3(secret, blind, req)
			enc = remarshal(req)
		case "NoSig":
			enc = enc[:len(enc)-96]
		case "Trailing":
			enc = append(enc, 0)
		case "BadKey": // request key replaced by another valid point: AAD and signature no longer match
			q2 := type3.NewRateLimitedClientFromSecret(p384Scalar(c.seed, "rl-client-2"))
			st, _ := q2.CreateTokenRequest(randBytes(r, 9), randNonce(r), blind, w.issuer.TokenKeyID(), w.issuer.TokenKey(), origin, w.issuer.NameKey())
			req.RequestKey = st.Request().RequestKey
			enc = remarshal(req)
		}
		resp, key, err := w.issuer.Evaluate(enc)
		e["ok"] = err == nil
		e["err"] = errStr(err)
		e["resp_len"], e["key_len"] = len(resp), len(key)
	})
	return e
}

// signT3 signs a rate-limited request with the secret key blinded by blind
// (the signature the client would produce), using the ECDSA fork directly.
func signT3(secret, blind []byte, req *type3.RateLimitedTokenRequest) []byte {
	curve := elliptic.P384()
	sk, _ := ecdsa.CreateKey(curve, secret)
	bk, _ := ecdsa.CreateKey(curve, blind)
	msg := []byte{0x00, 0x03}
	msg = append(msg, req.RequestKey...)
	msg = append(msg, req.NameKeyID...)
	msg = append(msg, byte(len(req.EncryptedTokenRequest)>>8), byte(len(req.EncryptedTokenRequest)))
	msg = append(msg, req.EncryptedTokenRequest...)
	d := sha512.Sum384(msg)
	rr, ss, err := ecdsa.BlindKeySignWithContext(cryptorand.Reader, sk, bk, d[:], ctxType3("ClientBlind"))
	if err != nil {
		panic(err)
	}
	out := make([]byte, 96)
	rr.FillBytes(out[:48])
	ss.FillBytes(out[48:])
	return out
}

// sealT3 HPKE-seals an arbitrary plaintext to the issuer's name key with the
// AAD the protocol prescribes (or, with bindKey false, one that leaves the
// request key out), using go-hpke directly.
func sealT3(nameKey type3.EncapKey, requestKey, plaintext []byte, bindKey bool) []byte {
	id, kem, kdf, aead, pkBytes := nameKey.VerifFields()
	suite, err := hpke.AssembleCipherSuite(hpke.KEMID(kem), hpke.KDFID(kdf), hpke.AEADID(aead))
	if err != nil {
		panic(err)
	}
	pk, err := suite.KEM.DeserializePublicKey(pkBytes)
	if err != nil {
		panic(err)
	}
	enc, ctx, err := hpke.SetupBaseS(suite, cryptorand.Reader, pk, []byte("TokenRequest"))
	if err != nil {
		panic(err)
	}
	keyID := sha256.Sum256(nameKey.Marshal())
	aad := []byte{id, byte(kem >> 8), byte(kem), byte(kdf >> 8), byte(kdf), byte(aead >> 8), byte(aead), 0x00, 0x03}
	if bindKey {
		aad = append(aad, requestKey...)
	}
	aad = append(aad, keyID[:]...)
	return append(enc, ctx.Seal(aad, plaintext)...)
}

// ---------------------------------------------------------------------------
// C11: issuance with caller-supplied blinds

type interner struct {
	m map[string]string
	p string
}

func (i *interner) id(b []byte) string {
	k := string(b)
	if v, ok := i.m[k]; ok {
		return v
	}
	v := fmt.Sprintf("%s%d", i.p, len(i.m)+1)
	i.m[k] = v
	return v
}

func detBlind(seed int64, t int, name string) []byte {
	switch t {
	case 1: // P-384 scalar, 48 bytes big-endian
		switch name {
		case "one":
			b := make([]byte, 48)
			b[47] = 1
			return b
		case "n-1":
			N := elliptic.P384().Params().N
			b := make([]byte, 48)
			new(bigInt).Sub(N, new(bigInt).SetInt64(1)).FillBytes(b)
			return b
		case "lead0":
			b := p384Scalar(seed, "det-lead0")
			b[0], b[1] = 0, 0
			return b
		}
		return p384Scalar(seed, "det-blind-"+name)
	case 5: // ristretto255 scalar, 32 bytes little-endian, reduced
		b := hashBytes(seed, "det-blind5-"+name, 32)
		b[31] &= 0x0f
		switch name {
		case "one":
			b = make([]byte, 32)
			b[0] = 1
		case "lead0":
			b[31], b[30] = 0, 0
		}
		return b
	default: // blind RSA: r < n, 256 bytes
		b := hashBytes(seed, "det-blind2-"+name, 256)
		b[0] &= 0x3f
		switch name {
		case "one":
			b = make([]byte, 256)
			b[255] = 1
		case "lead0":
			b[0], b[1] = 0, 0
		}
		return b
	}
}

func execDet(c *ctx, in ev) []ev {
	out := []ev{{"op": "DetNew"}}
	reqs, toks := &interner{m: map[string]string{}, p: "q"}, &interner{m: map[string]string{}, p: "t"}
	elems := &interner{m: map[string]string{}, p: "e"}
	// Phase 1 creates every request of the matrix, phase 2 evaluates and
	// finalizes them in reverse order: request states must not share blinds
	// or buffers with requests created later.
	type pending struct {
		e   ev
		fin func() ([]byte, error)
	}
	var pend []pending
	for _, row := range gL(in, "rows") {
		rw := row.(map[string]any)
		t, key, nc, blind, salt := jInt(rw["t"]), rw["key"].(string), rw["nc"].(string), rw["blind"].(string), rw["salt"].(string)
		e := ev{"op": "Det", "t": t, "key": key, "nc": nc, "blind": blind, "salt": salt, "ok": false, "req": "", "tok": "", "err": "", "elems": []any{}}
		var fin func() ([]byte, error)
		p := guard(func() {
			challenge := hashBytes(c.seed, "det-ch-"+nc, 24)
			nonce := hashBytes(c.seed, "det-nonce-"+nc, 32)
			switch t {
			case 1:
				k := p384Key(c.seed, key)
				iss := type1.NewBasicPrivateIssuer(k)
				st, err := type1.NewBasicPrivateClient().CreateTokenRequestWithBlind(challenge, nonce, iss.TokenKeyID(), iss.TokenKey(), detBlind(c.seed, 1, blind))
				if err != nil {
					e["err"] = err.Error()
					return
				}
				e["req"] = reqs.id(st.Request().Marshal())
				fin = func() ([]byte, error) {
					resp, err := iss.Evaluate(st.Request())
					if err != nil {
						return nil, err
					}
					tok, err := st.FinalizeToken(resp)
					if err != nil {
						return nil, err
					}
					if iss.Verify(tok) != nil {
						return nil, fmt.Errorf("token does not verify")
					}
					return tok.Marshal(), nil
				}
			case 2:
				k := rsaKey(rsaIdx(key))
				iss := type2.NewBasicPublicIssuer(k)
				st, err := type2.NewBasicPublicClient().CreateTokenRequestWithBlind(challenge, nonce, iss.TokenKeyID(), iss.TokenKey(),
					detBlind(c.seed, 2, blind), hashBytes(c.seed, "det-salt-"+salt, 48))
				if err != nil {
					e["err"] = err.Error()
					return
				}
				e["req"] = reqs.id(st.Request().Marshal())
				fin = func() ([]byte, error) {
					resp, err := iss.Evaluate(st.Request())
					if err != nil {
						return nil, err
					}
					tok, err := st.FinalizeToken(resp)
					if err != nil {
						return nil, err
					}
					return tok.Marshal(), nil
				}
			case 5:
				k := ristrettoKey(c.seed, key)
				iss := type5.NewBatchedPrivateIssuer(k)
				// the row's nonce/blind lists: "n1+n2" style names select the batch composition
				var nonces, blinds [][]byte
				var names []any
				bnames := strings.Split(blind, "+")
				for i, nn := range strings.Split(nc, "+") {
					nonces = append(nonces, hashBytes(c.seed, "det-nonce-"+nn, 32))
					blinds = append(blinds, detBlind(c.seed, 5, bnames[i]))
					names = append(names, []any{nn, bnames[i]})
				}
				challenge = hashBytes(c.seed, "det-ch-t5", 24)
				st, err := type5.NewBatchedPrivateClient().CreateTokenRequestWithBlinds(challenge, nonces, iss.TokenKeyID(), iss.TokenKey(), blinds)
				if err != nil {
					e["err"] = err.Error()
					return
				}
				e["req"] = reqs.id(st.Request().Marshal())
				el := []any{}
				for i, x := range st.Request().BlindedReq {
					el = append(el, []any{names[i].([]any)[0], names[i].([]any)[1], elems.id(x)})
				}
				e["elems"] = el
				fin = func() ([]byte, error) {
					resp, err := iss.Evaluate(st.Request())
					if err != nil {
						return nil, err
					}
					ts, err := st.FinalizeTokens(resp)
					if err != nil {
						return nil, err
					}
					var all []byte
					for _, tk := range ts {
						if iss.Verify(tk) != nil {
							return nil, fmt.Errorf("token does not verify")
						}
						all = append(all, tk.Marshal()...)
					}
					return all, nil
				}
			}
		})
		if p != "" {
			e["err"] = "panic: " + p
		}
		pend = append(pend, pending{e, fin})
	}
	for i := len(pend) - 1; i >= 0; i-- {
		pe := pend[i]
		if pe.fin == nil {
			continue
		}
		p := guard(func() {
			tb, err := pe.fin()
			if err != nil {
				pe.e["err"] = err.Error()
				return
			}
			pe.e["tok"], pe.e["ok"] = toks.id(tb), true
		})
		if p != "" {
			pe.e["err"] = "panic: " + p
		}
	}
	for _, pe := range pend {
		out = append(out, pe.e)
	}
	return out
}

// shipped vector files of the pinned library version (requests, responses and tokens as recorded bytes)
type goVector struct {
	SkS       string   `json:"skS"`
	PkS       string   `json:"pkS"`
	Challenge string   `json:"token_challenge"`
	Nonce     string   `json:"nonce"`
	Nonces    []string `json:"nonces"`
	Blind     string   `json:"blind"`
	Blinds    []string `json:"blinds"`
	Salt      string   `json:"salt"`
	Request   string   `json:"token_request"`
	Response  string   `json:"token_response"`
	Token     string   `json:"token"`
	Tokens    []string `json:"tokens"`
}

func loadGoVectors(rel string) []goVector {
	data, err := os.ReadFile(repoPath(rel))
	if err != nil {
		return nil
	}
	var v []goVector
	if json.Unmarshal(data, &v) != nil {
		return nil
	}
	return v
}

// execShippedVectors replays the repository's own recorded vectors: the
// request must be reproduced byte for byte and the recorded response must
// finalize to the recorded token(s).
func execShippedVectors(c *ctx) []ev {
	out := []ev{}
	add := func(name string, i int, f func() (bool, bool)) {
		e := ev{"op": "Vector", "index": name + fmt.Sprint(i), "req_eq": false, "tok_eq": false, "batch_eq": true, "err": ""}
		p := guard(func() { e["req_eq"], e["tok_eq"] = f() })
		if p != "" {
			e["err"] = "panic: " + p
		}
		out = append(out, e)
	}
	for i, v := range loadGoVectors("tokens/type1/type1-issuance-test-vectors.json") {
		v := v
		add("type1-", i, func() (bool, bool) {
			iss := type1.NewBasicPrivateIssuer(util.MustUnmarshalPrivateOPRFKey(unhex(v.SkS)))
			st, err := type1.NewBasicPrivateClient().CreateTokenRequestWithBlind(unhex(v.Challenge), unhex(v.Nonce), iss.TokenKeyID(), iss.TokenKey(), unhex(v.Blind))
			if err != nil {
				return false, false
			}
			tok, err := st.FinalizeToken(unhex(v.Response))
			return bytes.Equal(st.Request().Marshal(), unhex(v.Request)), err == nil && bytes.Equal(tok.Marshal(), unhex(v.Token))
		})
	}
	for i, v := range loadGoVectors("tokens/type2/type2-issuance-test-vectors.json") {
		v := v
		add("type2-", i, func() (bool, bool) {
			iss := type2.NewBasicPublicIssuer(util.MustUnmarshalPrivateKey(unhex(v.SkS)))
			st, err := type2.NewBasicPublicClient().CreateTokenRequestWithBlind(unhex(v.Challenge), unhex(v.Nonce), iss.TokenKeyID(), iss.TokenKey(), unhex(v.Blind), unhex(v.Salt))
			if err != nil {
				return false, false
			}
			tok, err := st.FinalizeToken(unhex(v.Response))
			return bytes.Equal(st.Request().Marshal(), unhex(v.Request)), err == nil && bytes.Equal(tok.Marshal(), unhex(v.Token))
		})
	}
	for i, v := range loadGoVectors("tokens/type5/type5-issuance-test-vectors.json") {
		v := v
		add("type5-", i, func() (bool, bool) {
			iss := type5.NewBatchedPrivateIssuer(util.MustUnmarshalBatchedPrivateOPRFKey(unhex(v.SkS)))
			var nonces, blinds [][]byte
			for _, x := range v.Nonces {
				nonces = append(nonces, unhex(x))
			}
			for _, x := range v.Blinds {
				blinds = append(blinds, unhex(x))
			}
			st, err := type5.NewBatchedPrivateClient().CreateTokenRequestWithBlinds(unhex(v.Challenge), nonces, iss.TokenKeyID(), iss.TokenKey(), blinds)
			if err != nil {
				return false, false
			}
			toks, err := st.FinalizeTokens(unhex(v.Response))
			ok := err == nil && len(toks) == len(v.Tokens)
			for k := range toks {
				ok = ok && k < len(v.Tokens) && bytes.Equal(toks[k].Marshal(), unhex(v.Tokens[k]))
			}
			return bytes.Equal(st.Request().Marshal(), unhex(v.Request)), ok
		})
	}
	return out
}

func execVectors(c *ctx, in ev) []ev {
	out := execShippedVectors(c)
	for vi, v := range loadRustVectors() {
		e := ev{"op": "Vector", "index": vi, "req_eq": false, "tok_eq": false, "batch_eq": false, "err": ""}
		p := guard(func() {
			reqEq, tokEq := true, true
			var reqs []tokens.TokenRequestWithDetails
			var issuers []batched.Issuer
			var fins []func([]byte) (tokens.Token, error)
			for _, is := range v.Issuance {
				challenge, nonce := unhex(is.Challenge), unhex(is.Nonce)
				switch is.Type {
				case "0001":
					sk := util.MustUnmarshalPrivateOPRFKey(unhex(is.SkS))
					iss := type1.NewBasicPrivateIssuer(sk)
					pk, _ := iss.TokenKey().MarshalBinary()
					reqEq = reqEq && bytes.Equal(pk, unhex(is.PkS))
					st, err := type1.NewBasicPrivateClient().CreateTokenRequestWithBlind(challenge, nonce, iss.TokenKeyID(), iss.TokenKey(), unhex(is.Blind))
					if err != nil {
						panic(err)
					}
					reqs = append(reqs, st.Request())
					issuers = append(issuers, batchIssuer1{iss})
					fins = append(fins, st.FinalizeToken)
				case "0002":
					sk := util.MustUnmarshalPrivateKey(unhex(is.SkS))
					iss := type2.NewBasicPublicIssuer(sk)
					pk, _ := util.MarshalTokenKeyPSSOID(iss.TokenKey())
					reqEq = reqEq && bytes.Equal(pk, unhex(is.PkS))
					st, err := type2.NewBasicPublicClient().CreateTokenRequestWithBlind(challenge, nonce, iss.TokenKeyID(), iss.TokenKey(), unhex(is.Blind), unhex(is.Salt))
					if err != nil {
						panic(err)
					}
					reqs = append(reqs, st.Request())
					issuers = append(issuers, batchIssuer2{iss})
					fins = append(fins, st.FinalizeToken)
				}
			}
			br, err := batched.NewBasicClient().CreateTokenRequest(reqs)
			if err != nil {
				panic(err)
			}
			e["batch_eq"] = bytes.Equal(br.Marshal(), unhex(v.TokenRequest))
			// the Rust request bytes, decoded by this library, evaluated and finalized
			dec := new(batched.BatchedTokenRequest)
			if !dec.Unmarshal(unhex(v.TokenRequest)) {
				e["err"] = "rust token_request does not decode"
				reqEq = false
			} else {
				resp, err := batched.NewBasicBatchedIssuer(issuers...).EvaluateBatch(dec)
				if err != nil {
					panic(err)
				}
				rs, err := batched.UnmarshalBatchedTokenResponses(resp)
				if err != nil || len(rs) != len(fins) {
					e["err"] = "response list: " + errStr(err)
					tokEq = false
				} else {
					for i, f := range fins {
						tok, err := f(rs[i])
						if err != nil || !bytes.Equal(tok.Marshal(), unhex(v.Issuance[i].Token)) {
							tokEq = false
						}
					}
				}
			}
			// the Rust response bytes finalize to the Rust tokens as well (fresh states needed: finalize again)
			e["req_eq"], e["tok_eq"] = reqEq, tokEq
		})
		if p != "" {
			e["err"] = "panic: " + p
		}
		out = append(out, e)
	}
	return out
}

// ---------------------------------------------------------------------------

func genIssuance(c *ctx, emit func(ev)) {
	r := newRand(c.seed, "issuance")
	want := func(kind string) bool { return c.arg == "" || strings.Contains(","+c.arg+",", ","+kind+",") }
	rid := 0
	run := func(t, n, chlen, olen int, mut ev) {
		rid++
		emit(ev{"op": "Run", "rid": rid, "t": t, "n": n, "chlen": chlen, "olen": olen, "mut": mut})
	}
	id := ev{"kind": "Id"}
	if want("honest") { // C01: the configuration space, honest network
		chl := []int{0, 1, 32, 33, 1000}
		ns := []int{1, 2, 3, 8, 513}
		ols := []int{0, 1, 14, 31, 32, 33, 64}
		if c.thorough() {
			chl = append(chl, 31, 255, 4096, 70000)
			ns = []int{}
			for i := 1; i <= 64; i++ {
				ns = append(ns, i)
			}
			ns = append(ns, 100, 255, 513)
			ols = []int{}
			for i := 0; i <= 130; i++ {
				ols = append(ols, i)
			}
		}
		reps := c.tierInt(4, 6)
		for rep := 0; rep < reps; rep++ {
			for _, ch := range chl {
				run(1, 1, ch, 0, id)
				run(2, 1, ch, 0, id)
				run(3, 1, ch, 14, id)
				run(5, 2, ch, 0, id)
			}
			for _, n := range ns {
				run(5, n, 32, 0, id)
			}
			for _, ol := range ols {
				run(3, 1, 32, ol, id)
			}
		}
	}
	if want("mutations") { // C02
		sizes := map[int]map[string]int{1: {"elem": 49, "proof": 96}, 2: {"sig": 256}, 3: {"rnonce": 16, "ct": 272}, 5: {"len": 1, "elem": 96, "proof": 64}}
		for _, t := range []int{1, 2, 3, 5} {
			n := 1
			if t == 5 {
				n = 3
			}
			for f, sz := range sizes[t] {
				step := 8
				if c.thorough() || f == "proof" || f == "rnonce" || f == "len" {
					step = 1 // every bit
				}
				for b := 0; b < sz*8; b += step {
					bit := b
					if step > 1 {
						bit = b + r.Intn(step)
					}
					run(t, n, 16, 14, ev{"kind": "Flip", "f": f, "bit": bit})
				}
			}
			for rep := 0; rep < c.tierInt(2, 6); rep++ {
				if t == 1 || t == 5 {
					run(t, n, 16, 14, ev{"kind": "ForeignKeyCollide"})
				}
				for _, nl := range []int{0, 31, 33, 64} {
					run(t, n, 16, 14, ev{"kind": "OddNonce", "len": nl})
				}
				if t == 2 {
					run(t, n, 16, 14, ev{"kind": "BigKey"})
				}
				run(t, n, 16, 14, ev{"kind": "ForeignKey"})
				run(t, n, 16, 14, ev{"kind": "ForeignReq"})
				run(t, n, 16, 14, ev{"kind": "Random"})
				run(t, n, 16, 14, ev{"kind": "Extend", "k": 1})
				run(t, n, 16, 14, ev{"kind": "Extend", "k": 32})
			}
			rl := map[int]int{1: 145, 2: 256, 3: 288, 5: 1 + 96 + 64}[t]
			for k := 0; k < rl; k += c.tierInt(3, 1) {
				run(t, n, 16, 14, ev{"kind": "Truncate", "k": k})
			}
		}
		// type 5 list mutations
		maxN := c.tierInt(3, 5)
		for n := 1; n <= maxN; n++ {
			for i := 1; i <= n; i++ {
				run(5, n, 16, 0, ev{"kind": "Drop", "i": i})
				run(5, n, 16, 0, ev{"kind": "Dup", "i": i})
			}
			if n >= 2 {
				run(5, n, 16, 0, ev{"kind": "Swap"})
				run(5, n, 16, 0, ev{"kind": "OtherBatchElem"})
			}
			if n >= 2 && n <= 4 || (n == 5 && c.thorough()) {
				for _, p := range permutations(n) {
					run(5, n, 16, 0, ev{"kind": "Perm", "p": p})
				}
			}
		}
	}
	if want("verify") { // C10
		vid := 0
		ver := func(t int, tm ev) {
			vid++
			emit(ev{"op": "Verify", "rid": vid, "t": t, "tmut": tm})
		}
		for _, t := range []int{1, 5} {
			authLen := map[int]int{1: 48, 5: 64}[t]
			for rep := 0; rep < c.tierInt(3, 10); rep++ {
				ver(t, ev{"kind": "Id"})
				ver(t, ev{"kind": "OtherKey"})
				ver(t, ev{"kind": "OtherType"})
			}
			for f, sz := range map[string]int{"nonce": 32, "context": 32, "key_id": 32, "auth": authLen} {
				step := c.tierInt(8, 1)
				for b := 0; b < sz*8; b += step {
					bit := b
					if step > 1 {
						bit = b + r.Intn(step)
					}
					ver(t, ev{"kind": "Flip", "f": f, "bit": bit})
				}
			}
			for b := 0; b < 16; b++ {
				ver(t, ev{"kind": "TypeField", "bit": b})
			}
			for _, k := range []string{"ShiftNonceContext", "ShiftContextKeyID", "NonceShort", "NonceLong", "EmptyNonce", "EmptyAll", "AuthShort", "AuthLong", "AuthEmpty"} {
				ver(t, ev{"kind": k})
			}
			for k := 0; k < authLen; k += c.tierInt(5, 1) {
				ver(t, ev{"kind": "AuthPrefix", "k": k})
			}
		}
	}
	if want("rl") { // C07
		qid := 0
		rl := func(cls ev) {
			qid++
			emit(ev{"op": "RLEval", "rid": qid, "cls": cls})
		}
		for rep := 0; rep < c.tierInt(3, 8); rep++ {
			rl(ev{"kind": "Id"})
			rl(ev{"kind": "ResealedHonest"})
			rl(ev{"kind": "ForeignIssuer"})
			rl(ev{"kind": "OtherSigner"})
			rl(ev{"kind": "OtherContents"})
			rl(ev{"kind": "NoSig"})
			rl(ev{"kind": "Trailing"})
			rl(ev{"kind": "BadKey"})
			rl(ev{"kind": "WrongAAD"})
			for _, k := range []int{0, 1, 100, 256, 257, 258, 300} {
				rl(ev{"kind": "BadInner", "k": k})
			}
			for _, v := range []string{"last-byte", "prefix", "suffix", "inner-nul", "case", "empty", "long", "nul-suffix", "nul-suffix-short", "nul-prefix"} {
				rl(ev{"kind": "Unregistered", "variant": v})
			}
		}
		// every bit of an encoded request (both tiers; rejections are cheap)
		sizes := map[string]int{"type": 2, "request_key": 49, "name_key_id": 32, "enc_len": 2, "enc": 32 + 259 + 32 + 16, "sig": 96}
		for f, sz := range sizes {
			for b := 0; b < sz*8; b++ {
				rl(ev{"kind": "Flip", "f": f, "bit": b})
			}
		}
	}
	if want("det") { // C11
		names := []string{"b1", "b2", "one", "lead0"}
		if c.thorough() {
			names = append(names, "n-1", "b3", "b4", "b5", "b6", "b7", "b8", "b9", "b10", "b11", "b12", "b13")
		}
		rows := []any{}
		// type 5: batch compositions - an element is a function of (key, nonce, blind) wherever it stands
		for _, key := range []string{"k1", "k2"} {
			for _, comp := range [][2]string{{"n1+n2", "b1+b2"}, {"n1+n2", "b2+b1"}, {"n2+n1", "b2+b1"}, {"n1", "b1"}, {"n2", "b2"}, {"n1", "b2"},
				{"n1+n2+n3", "b1+b2+one"}, {"n3+n1", "one+b1"}, {"n1+n2", "b1+b1"}, {"n1+n2", "b1+b2"}, {"n1+n2", "lead0+b2"}, {"n1+n2", "b3+b4"}} {
				rows = append(rows, ev{"t": 5, "key": key, "nc": comp[0], "blind": comp[1], "salt": "s1"})
			}
		}
		for _, t := range []int{1, 2} {
			for _, key := range []string{"k1", "k2"} {
				for _, nc := range []string{"n1", "n2"} {
					for _, salt := range []string{"s1", "s2"} {
						if t != 2 && salt == "s2" {
							continue
						}
						for _, b := range names {
							rows = append(rows, ev{"t": t, "key": key, "nc": nc, "blind": b, "salt": salt})
						}
						// repeat one: request creation must be a pure function of its arguments
						rows = append(rows, ev{"t": t, "key": key, "nc": nc, "blind": names[0], "salt": salt})
					}
				}
			}
		}
		emit(ev{"op": "DetMatrix", "rows": rows})
		emit(ev{"op": "Vectors"})
	}
}

func permutations(n int) [][]int {
	var out [][]int
	var rec func(cur []int, used []bool)
	rec = func(cur []int, used []bool) {
		if len(cur) == n {
			out = append(out, append([]int{}, cur...))
			return
		}
		for i := 1; i <= n; i++ {
			if !used[i] {
				used[i] = true
				rec(append(cur, i), used)
				used[i] = false
			}
		}
	}
	rec(nil, make([]bool, n+1))
	return out
}

// poison overwrites a buffer the library was given (after the call returned).
func poison(b []byte) {
	for i := range b {
		b[i] ^= 0xa5
	}
}
