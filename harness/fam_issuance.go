package main

import (
	"bytes"
	"crypto/elliptic"
	cryptorand "crypto/rand"
	"crypto/rsa"
	"crypto/sha256"
	"crypto/sha512"
	"encoding/base64"
	"encoding/hex"
	"encoding/json"
	"fmt"
	"math/rand"
	"os"
	"strconv"
	"strings"
	"sync"

	hpke "github.com/cisco/go-hpke"
	"github.com/cloudflare/circl/oprf"
	"github.com/cloudflare/pat-go/ecdsa"
	"github.com/cloudflare/pat-go/quicwire"
	"github.com/cloudflare/pat-go/tokens"
	"github.com/cloudflare/pat-go/tokens/batched"
	"github.com/cloudflare/pat-go/tokens/type1"
	"github.com/cloudflare/pat-go/tokens/type2"
	"github.com/cloudflare/pat-go/tokens/type3"
	"github.com/cloudflare/pat-go/tokens/type5"
	"github.com/cloudflare/pat-go/util"
)

// Family "issuance" (properties C01, C02, C07, C10, C11): complete issuance
// runs of every token type with every message crossing the wire as bytes, one
// mutation of the alphabet of Issuance.tla (or an unlisted one) applied to the
// response; issuer-side verification of altered tokens; the rate-limited
// issuer on altered requests; deterministic issuance with supplied blinds.
// Trace_Issuance.tla rebuilds the symbolic run and compares verdicts.

func init() { register("issuance", &family{gen: genIssuance, exec: execIssuance}) }

// one outstanding request of one client, with everything needed to drive it
type outReq struct {
	t         int
	n         int
	nonces    [][]byte
	challenge []byte
	pubBytes  []byte // serialized pinned public key (key id = SHA-256 of it)
	reqBytes  []byte
	createErr error
	finalize  func(resp []byte) ([]tokens.Token, error)
	oracle    func(tok tokens.Token) bool // independent verification under the pinned key
	iverify   func(tok tokens.Token) bool // issuer-side Verify (types 1, 5)
	direct    func() ([]byte, error)      // the request OBJECT handed to a co-located issuer (for requests that have no wire form)
}

type issuerSet struct {
	seed           int64
	t3w            map[string]*t3World
	keyIDLen       int    // != 0: requests are created with a key id argument of this length (kind OddKeyID)
	plainAddOrigin bool   // type 3: the origin is registered through AddOrigin instead of AddOriginWithIndexKey
	scalarForm     int    // type 3: which encoding of the client secret / request blind an honest run uses (0: reduced 48-byte scalars)
	withBlinds     bool   // requests are created through the ...WithBlind(s) entry points
	saltLen        int    // type 2: >= 0: caller-supplied salt of this length (kind OddSalt)
	zeroBlindLen   int    // length of that first blind (32: the zero scalar; other lengths: malformed)
	zeroBlindForm  string // "order", "top", "order-top": non-canonical encodings of the zero blind (type 5)
	zeroBlind      bool   // type 5: the request is created with caller-supplied blinds, the first of them zero (kind ZeroBlind)
	// one client object per token type, constructed once and used for every
	// request of a run (clients are meant to be long-lived objects)
	c1 *type1.BasicPrivateClient
	c2 *type2.BasicPublicClient
	c5 *type5.BatchedPrivateClient
}

func (s *issuerSet) client1() type1.BasicPrivateClient {
	if s.c1 == nil {
		c := type1.NewBasicPrivateClient()
		s.c1 = &c
	}
	return *s.c1
}
func (s *issuerSet) client2() type2.BasicPublicClient {
	if s.c2 == nil {
		c := type2.NewBasicPublicClient()
		s.c2 = &c
	}
	return *s.c2
}
func (s *issuerSet) client5() type5.BatchedPrivateClient {
	if s.c5 == nil {
		c := type5.NewBatchedPrivateClient()
		s.c5 = &c
	}
	return *s.c5
}

// voprf returns the VOPRF key of a named issuer. "kc" is a key whose key id
// ends in the same byte as k1's (a colliding truncated key id).
func (s *issuerSet) voprf(t int, key string) *oprf.PrivateKey {
	mk := func(name string) *oprf.PrivateKey {
		if t == 1 {
			return p384Key(s.seed, name)
		}
		return ristrettoKey(s.seed, name)
	}
	if key != "kc" {
		return mk(key)
	}
	last := func(k *oprf.PrivateKey) byte {
		b, _ := k.Public().MarshalBinary()
		h := sha256.Sum256(b)
		return h[31]
	}
	want := last(mk("k1"))
	for i := 0; ; i++ {
		k := mk(fmt.Sprintf("kc-%d", i))
		if last(k) == want {
			return k
		}
	}
}

func rsaByName(key string) *rsa.PrivateKey {
	if key == "big" {
		return rsaBig()
	}
	return rsaKey(rsaIdx(key))
}

func (s *issuerSet) world(key string, origin string) *t3World {
	id := key + "/" + origin
	if w, ok := s.t3w[id]; ok {
		return w
	}
	idx := map[string]int{"k1": 0, "k2": 1}[key]
	ik := "a"
	if s.plainAddOrigin {
		ik = "" // registered through AddOrigin (the issuer draws the index key itself)
	}
	w := newT3World(rsaKey(idx), s.seed, map[string]string{origin: ik})
	s.t3w[id] = w
	return w
}

func rsaIdx(key string) int { return map[string]int{"k1": 0, "k2": 1}[key] }

// create builds a request of type t pinned to issuer key `key`.
// oddKeyID: the key id argument in an unusual length (s.keyIDLen != 0): the true id with leading zero bytes, or only
// its last bytes - the byte the request carries (the last one) stays the issuer's.
func (s *issuerSet) oddKeyID(id []byte) []byte {
	if s.keyIDLen == 0 || s.keyIDLen == len(id) {
		return id
	}
	if s.keyIDLen > len(id) {
		return append(make([]byte, s.keyIDLen-len(id)), id...)
	}
	return append([]byte{}, id[len(id)-s.keyIDLen:]...)
}

func (s *issuerSet) create(t, n int, key string, challenge []byte, nonces [][]byte, origin string, clientName string) *outReq {
	o := &outReq{t: t, n: n, nonces: nonces, challenge: challenge}
	// The client is handed private copies of every argument, and the copies
	// are overwritten as soon as the call returns: a request state that kept
	// an alias of its caller's buffers instead of its own bytes shows up as a
	// token with the wrong nonce / context / key id.
	challenge = append([]byte{}, challenge...)
	cn := make([][]byte, len(nonces))
	for i := range nonces {
		cn[i] = append([]byte{}, nonces[i]...)
	}
	nonces = cn
	var keyIDArg []byte
	defer func() {
		poison(challenge)
		for _, x := range nonces {
			poison(x)
		}
		poison(keyIDArg)
	}()
	switch t {
	case 1:
		k := s.voprf(1, key)
		iss := type1.NewBasicPrivateIssuer(k)
		o.pubBytes, _ = iss.TokenKey().MarshalBinary()
		keyIDArg = s.oddKeyID(iss.TokenKeyID())
		var st type1.BasicPrivateTokenRequestState
		var err error
		if s.zeroBlind { // the degenerate blind (all zero, or the group order itself): the element is the identity
			zb := make([]byte, 48)
			if s.zeroBlindLen != 32 {
				elliptic.P384().Params().N.FillBytes(zb)
			}
			st, err = s.client1().CreateTokenRequestWithBlind(challenge, nonces[0], keyIDArg, iss.TokenKey(), zb)
			if err == nil {
				o.direct = func() ([]byte, error) { return iss.Evaluate(st.Request()) }
			}
		} else if s.withBlinds { // the sibling entry point with a caller-supplied blind
			st, err = s.client1().CreateTokenRequestWithBlind(challenge, nonces[0], keyIDArg, iss.TokenKey(), detBlind(s.seed, 1, "wb"))
		} else {
			st, err = s.client1().CreateTokenRequest(challenge, nonces[0], keyIDArg, iss.TokenKey())
		}
		o.createErr = err
		if err == nil {
			o.reqBytes = append([]byte{}, st.Request().Marshal()...)
			o.finalize = func(resp []byte) ([]tokens.Token, error) {
				tok, err := st.FinalizeToken(resp)
				if err != nil {
					return nil, err
				}
				return []tokens.Token{tok}, nil
			}
		}
		o.oracle = func(tok tokens.Token) bool {
			return bytes.Equal(fullEvaluate(oprf.SuiteP384, k, authInput(tok)), tok.Authenticator) && len(tok.Authenticator) == 48
		}
		o.iverify = func(tok tokens.Token) bool { return iss.Verify(tok) == nil }
	case 5:
		k := s.voprf(5, key)
		iss := type5.NewBatchedPrivateIssuer(k)
		o.pubBytes, _ = iss.TokenKey().MarshalBinary()
		keyIDArg = s.oddKeyID(iss.TokenKeyID())
		var st type5.BatchedPrivateTokenRequestState
		var err error
		if s.withBlinds && !s.zeroBlind {
			blinds := [][]byte{}
			for i := range nonces {
				blinds = append(blinds, detBlind(s.seed, 5, fmt.Sprintf("wb%d", i)))
			}
			st, err = s.client5().CreateTokenRequestWithBlinds(challenge, nonces, keyIDArg, iss.TokenKey(), blinds)
		} else if s.zeroBlind {
			blinds := [][]byte{make([]byte, s.zeroBlindLen)}
			if s.zeroBlindForm != "" { // another ENCODING of the zero scalar: the group order, the top bit, both
				blinds[0] = detBlind(s.seed, 5, "zero-"+s.zeroBlindForm)
			}
			for i := 1; i < len(nonces); i++ {
				blinds = append(blinds, detBlind(s.seed, 5, fmt.Sprintf("zb%d", i)))
			}
			st, err = s.client5().CreateTokenRequestWithBlinds(challenge, nonces, keyIDArg, iss.TokenKey(), blinds)
		} else {
			st, err = s.client5().CreateTokenRequest(challenge, nonces, keyIDArg, iss.TokenKey())
		}
		o.createErr = err
		if err == nil {
			o.reqBytes = append([]byte{}, st.Request().Marshal()...)
			o.finalize = func(resp []byte) ([]tokens.Token, error) { return st.FinalizeTokens(resp) }
		}
		o.oracle = func(tok tokens.Token) bool {
			return bytes.Equal(fullEvaluate(oprf.SuiteRistretto255, k, authInput(tok)), tok.Authenticator) && len(tok.Authenticator) == 64
		}
		o.iverify = func(tok tokens.Token) bool { return iss.Verify(tok) == nil }
	case 2:
		k := rsaKey(rsaIdx(key))
		iss := type2.NewBasicPublicIssuer(k)
		o.pubBytes, _ = util.MarshalTokenKeyPSSOID(iss.TokenKey())
		var st type2.BasicPublicTokenRequestState
		var err error
		if s.withBlinds || s.saltLen >= 0 { // caller-supplied blind and salt (a salt of another length than 48 bytes included)
			sl := 48
			if s.saltLen >= 0 {
				sl = s.saltLen
			}
			st, err = type2.NewBasicPublicClient().CreateTokenRequestWithBlind(challenge, nonces[0], s.oddKeyID(iss.TokenKeyID()), iss.TokenKey(),
				detBlind(s.seed, 2, "wb"), hashBytes(s.seed, "wb-salt", sl))
		} else {
			st, err = type2.NewBasicPublicClient().CreateTokenRequest(challenge, nonces[0], s.oddKeyID(iss.TokenKeyID()), iss.TokenKey())
		}
		o.createErr = err
		if err == nil {
			o.reqBytes = append([]byte{}, st.Request().Marshal()...)
			o.finalize = func(resp []byte) ([]tokens.Token, error) {
				tok, err := st.FinalizeToken(resp)
				if err != nil {
					return nil, err
				}
				return []tokens.Token{tok}, nil
			}
		}
		o.oracle = func(tok tokens.Token) bool {
			return verifyPSS(&k.PublicKey, tok) == nil && len(tok.Authenticator) == 256
		}
	case 3:
		w := s.world(key, origin)
		o.pubBytes, _ = util.MarshalTokenKeyPSSOID(w.issuer.TokenKey())
		secretArg := p384Scalar(s.seed, "iss-client-"+clientName)
		blindArg := p384Scalar(s.seed, "iss-blind-"+clientName+fmt.Sprint(len(challenge)))
		// client secrets and request blinds are byte strings, not reduced scalars: every form of them works
		N384 := elliptic.P384().Params().N
		switch s.scalarForm % 6 {
		case 1:
			blindArg = bytes.Repeat([]byte{0xff}, 48) // >= N
		case 2:
			blindArg = new(bigInt).Add(new(bigInt).SetBytes(blindArg), N384).Bytes() // b + N: 49 bytes
		case 3:
			blindArg = hashBytes(s.seed, "iss-blind64-"+clientName, 64) // 64 bytes of entropy
		case 4:
			secretArg = new(bigInt).Add(new(bigInt).SetBytes(secretArg), N384).Bytes() // secret + N
		case 5:
			secretArg = hashBytes(s.seed, "iss-secret64-"+clientName, 64)
		}
		cl := type3.NewRateLimitedClientFromSecret(secretArg)
		keyIDArg = w.issuer.TokenKeyID()
		st, err := cl.CreateTokenRequest(challenge, nonces[0], blindArg, keyIDArg, w.issuer.TokenKey(), origin, w.issuer.NameKey())
		poison(blindArg)
		o.createErr = err
		if err == nil {
			o.reqBytes = append([]byte{}, st.Request().Marshal()...)
			o.finalize = func(resp []byte) ([]tokens.Token, error) {
				tok, err := st.FinalizeToken(resp)
				if err != nil {
					return nil, err
				}
				return []tokens.Token{tok}, nil
			}
		}
		o.oracle = func(tok tokens.Token) bool {
			return verifyPSS(w.issuer.TokenKey(), tok) == nil && len(tok.Authenticator) == 256
		}
	}
	return o
}

// evaluate: the issuer holding key `key` decodes the request bytes and evaluates.
func (s *issuerSet) evaluate(t int, key string, reqBytes []byte, origin string) (resp []byte, decodeOK bool, err error) {
	switch t {
	case 1:
		req := new(type1.BasicPrivateTokenRequest)
		if !req.Unmarshal(reqBytes) {
			return nil, false, fmt.Errorf("decode")
		}
		resp, err = type1.NewBasicPrivateIssuer(s.voprf(1, key)).Evaluate(req)
		return resp, true, err
	case 5:
		req := new(type5.BatchedPrivateTokenRequest)
		if !req.Unmarshal(reqBytes) {
			return nil, false, fmt.Errorf("decode")
		}
		resp, err = type5.NewBatchedPrivateIssuer(s.voprf(5, key)).Evaluate(req)
		return resp, true, err
	case 2:
		req := new(type2.BasicPublicTokenRequest)
		if !req.Unmarshal(reqBytes) {
			return nil, false, fmt.Errorf("decode")
		}
		resp, err = type2.NewBasicPublicIssuer(rsaByName(key)).Evaluate(req)
		return resp, true, err
	case 3:
		resp, _, err = s.world(key, origin).issuer.Evaluate(reqBytes)
		return resp, err == nil || !strings.Contains(errStr(err), "malformed"), err
	}
	return nil, false, fmt.Errorf("type")
}

func respFields(t int, resp []byte) map[string][2]int {
	switch t {
	case 1:
		return map[string][2]int{"elem": {0, 49}, "proof": {49, len(resp)}}
	case 5:
		_, vl := quicwire.ConsumeVarint(resp)
		return map[string][2]int{"len": {0, vl}, "elem": {vl, len(resp) - 64}, "proof": {len(resp) - 64, len(resp)}}
	case 2:
		return map[string][2]int{"sig": {0, len(resp)}}
	case 3:
		return map[string][2]int{"rnonce": {0, 16}, "ct": {16, len(resp)}}
	}
	return nil
}

func reframeT5(elems [][]byte, proof []byte) []byte {
	body := bytes.Join(elems, nil)
	out := quicwire.AppendVarint(nil, uint64(len(body)))
	out = append(out, body...)
	return append(out, proof...)
}

func splitT5(resp []byte) (elems [][]byte, proof []byte) {
	l, vl := quicwire.ConsumeVarint(resp)
	body := resp[vl : vl+int(l)]
	for i := 0; i+32 <= len(body); i += 32 {
		elems = append(elems, body[i:i+32])
	}
	return elems, resp[vl+int(l):]
}

func execIssuance(c *ctx, in ev) []ev {
	switch gS(in, "op") {
	case "Run":
		return []ev{execRun(c, in)}
	case "Verify":
		return []ev{execVerify(c, in)}
	case "VerifySeq":
		return execVerifySeq(c, in)
	case "TypeSweep":
		return []ev{execTypeSweep(c, in)}
	case "Endure":
		return []ev{execEndure(c, in)}
	case "RLSeq":
		return execRLSeq(c, in)
	case "RLEval":
		return []ev{execRLEval(c, in)}
	case "DetMatrix":
		return execDet(c, in)
	case "Vectors":
		return execVectors(c, in)
	case "DetStress":
		return execDetStress(c, in)
	case "RunSeq":
		return execRunSeq(c, in)
	}
	return []ev{{"op": "unknown"}}
}

func execRun(c *ctx, in ev) ev {
	t, n, chlen, olen := gI(in, "t"), gI(in, "n"), gI(in, "chlen"), gI(in, "olen")
	mut, _ := in["mut"].(map[string]any)
	kind, _ := mut["kind"].(string)
	r := newRand(c.seed, fmt.Sprintf("run-%v", in["rid"]))
	s := &issuerSet{seed: c.seed, t3w: map[string]*t3World{}, saltLen: -1}
	origin := strings.Repeat("o", olen)
	if kind == "Id" {
		s.scalarForm = jInt(in["rid"]) / 2 // (independent of the origin-name alternation below)
	}
	if jInt(in["rid"])%2 == 1 && olen > 0 {
		// every other run: a mixed-case name, registered through the other entry point (AddOrigin)
		origin = "O" + strings.Repeat("o", olen-1)
		if olen > 2 {
			origin = "Oo" + strings.ToUpper(origin[2:3]) + origin[3:]
		}
		s.plainAddOrigin = true
	}
	// names in every style an origin can have (always olen bytes): a trailing dot, a last character of several bytes,
	// surrounding white space - to the issuer a name is a byte string, and the honest run must complete for each
	if ob := []byte(origin); kind == "Id" {
		switch (jInt(in["rid"]) / 2) % 4 {
		case 1:
			if olen >= 2 {
				ob[olen-1] = '.'
			}
		case 2:
			if olen >= 4 && jInt(in["rid"])%4 < 2 {
				copy(ob[olen-3:], "\u30c8") // 3 bytes
			} else if olen >= 3 {
				copy(ob[olen-2:], "\u00e9") // 2 bytes
			}
		case 3:
			if olen >= 3 {
				ob[0], ob[olen-1] = ' ', ' '
			}
		}
		origin = string(ob)
	}
	if t != 5 {
		n = 1
	}
	nonceLen := 32
	if kind == "OddNonce" {
		nonceLen = jInt(mut["len"])
	}
	if kind == "OddKeyID" {
		s.keyIDLen = jInt(mut["len"])
	}
	if kind == "OddSalt" {
		s.saltLen = jInt(mut["len"])
	}
	if wb, _ := mut["with_blinds"].(bool); wb {
		s.withBlinds = true
	}
	s.zeroBlind = kind == "ZeroBlind"
	s.zeroBlindLen = 32
	if l, ok := mut["len"]; ok && s.zeroBlind {
		s.zeroBlindLen = jInt(l)
	}
	if f, ok := mut["form"].(string); ok && s.zeroBlind {
		s.zeroBlindForm = f
	}
	mkNonces := func() [][]byte {
		ns := [][]byte{}
		for i := 0; i < n; i++ {
			l := nonceLen
			if at, ok := mut["at"]; ok && jInt(at) != i+1 { // only the nonce at this position has the odd length
				l = 32
			}
			ns = append(ns, randBytes(r, l))
		}
		return ns
	}
	pinned := "k1"
	switch kind {
	case "ForeignKeyCollide":
		pinned = "kc" // key id ends in the same byte as k1's; the response will come from k1
	case "BigKey":
		pinned = "big"
	}
	e := ev{"op": "Run", "t": t, "n": n, "chlen": chlen, "olen": olen, "mut": mut, "create_ok": false, "decode_ok": false, "eval_ok": false,
		"fin_ok": false, "err": "", "tokens": []any{}, "nonces": []any{}, "ctx": B(nil), "keyid": B(nil), "oracle": []any{}, "iverify": []any{}, "panic": "",
		"req": B(nil), "resp": B(nil)}
	e["panic"] = guard(func() {
		challenge := randBytes(r, chlen)
		if st := gS(in, "chstyle"); st != "" {
			// the challenge in the forms it travels in: the TokenChallenge structure, its base64url text from the
			// WWW-Authenticate header (unpadded, padded, quoted) - to the client all of them are just the bytes to hash
			tc := tokens.TokenChallenge{TokenType: uint16(t), IssuerName: "issuer.example", RedemptionNonce: randBytes(r, 32), OriginInfo: []string{"origin.example"}}
			raw := tc.Marshal()
			switch st {
			case "tc":
				challenge = raw
			case "tc-b64url":
				challenge = []byte(base64.RawURLEncoding.EncodeToString(raw))
			case "tc-b64url-pad":
				challenge = []byte(base64.URLEncoding.EncodeToString(raw))
			case "tc-b64-std":
				challenge = []byte(base64.StdEncoding.EncodeToString(raw))
			case "tc-quoted":
				challenge = []byte("\"" + base64.RawURLEncoding.EncodeToString(raw) + "\"")
			case "tc-hex":
				challenge = []byte(hex.EncodeToString(raw))
			}
			e["chlen"] = len(challenge)
		}
		if kind == "ForeignKeyCollide" {
			// the same client object has served a complete run for issuer k1 before
			r0 := s.create(t, n, "k1", randBytes(r, chlen), mkNonces(), origin, "c1")
			if resp0, _, err := s.evaluate(t, "k1", r0.reqBytes, origin); err == nil {
				r0.finalize(resp0)
			}
		}
		r1 := s.create(t, n, pinned, challenge, mkNonces(), origin, "c1")
		e["nonces"] = list(r1.nonces)
		cx := sha256.Sum256(challenge)
		kid := sha256.Sum256(r1.pubBytes)
		e["ctx"], e["keyid"] = B(cx[:]), B(kid[:])
		if r1.createErr != nil {
			e["err"] = "create: " + r1.createErr.Error()
			return
		}
		e["create_ok"] = true
		if kind == "Id" {
			e["req"] = B(r1.reqBytes)
		}
		evalKey, evalReq, evalOrigin := pinned, r1.reqBytes, origin
		switch kind {
		case "ForeignKeyCollide":
			evalKey = "k1"
		case "ForeignKey":
			evalKey = "k2"
			if t == 3 {
				// a response of the other issuer can only exist for a request sealed to it
				r2 := s.create(t, n, "k2", randBytes(r, chlen), mkNonces(), origin, "c1")
				evalReq = r2.reqBytes
			}
		case "ForeignReq":
			r2 := s.create(t, n, "k1", randBytes(r, chlen), mkNonces(), origin, "c1")
			if r2.createErr != nil {
				e["err"] = "create2: " + r2.createErr.Error()
				return
			}
			evalReq = r2.reqBytes
		}
		resp, decOK, err := s.evaluate(t, evalKey, evalReq, evalOrigin)
		e["decode_ok"] = decOK
		if err != nil && !decOK && r1.direct != nil {
			// no wire form: an issuer in the same process (or the batch issuer) is handed the object itself
			resp, err = r1.direct()
		}
		if err != nil {
			e["err"] = "evaluate: " + err.Error()
			return
		}
		e["eval_ok"] = true
		resp = append([]byte{}, resp...)
		if kind == "Id" {
			e["resp"] = B(resp)
		}
		// the attacker's mutation
		switch kind {
		case "Flip":
			f := respFields(t, resp)[mut["f"].(string)]
			bits := (f[1] - f[0]) * 8
			bit := jInt(mut["bit"]) % bits
			resp[f[0]+bit/8] ^= 1 << uint(bit%8)
		case "Drop", "Dup", "Swap", "Perm":
			el, proof := splitT5(resp)
			switch kind {
			case "Drop":
				i := jInt(mut["i"]) - 1
				el = append(append([][]byte{}, el[:i]...), el[i+1:]...)
			case "Dup":
				i := jInt(mut["i"]) - 1
				el = append(append(append([][]byte{}, el[:i+1]...), el[i]), el[i+1:]...)
			case "Swap":
				el = append([][]byte{el[1], el[0]}, el[2:]...)
			case "Perm":
				p := mut["p"].([]any)
				ne := make([][]byte, len(el))
				for j := range ne {
					ne[j] = el[jInt(p[j])-1]
				}
				el = ne
			}
			resp = reframeT5(el, proof)
		case "Truncate":
			resp = resp[:jInt(mut["k"])%(len(resp)+1)]
		case "Extend":
			resp = append(resp, randBytes(r, jInt(mut["k"]))...)
		case "Random":
			resp = randBytes(r, len(resp))
		case "SubsetProof":
			// the issuer's honest answer to the request WITHOUT element i (a proof over the remaining elements), with a
			// filler spliced into the missing slot: the identity element, or a copy of a neighbour
			i := jInt(mut["i"]) - 1
			sub := new(type5.BatchedPrivateTokenRequest)
			if sub.Unmarshal(append([]byte{}, r1.reqBytes...)) && i < len(sub.BlindedReq) && len(sub.BlindedReq) >= 2 {
				sub.BlindedReq = append(append([][]byte{}, sub.BlindedReq[:i]...), sub.BlindedReq[i+1:]...)
				fresh := &type5.BatchedPrivateTokenRequest{TokenKeyID: sub.TokenKeyID, BlindedReq: sub.BlindedReq}
				if resp2, _, err2 := s.evaluate(t, "k1", fresh.Marshal(), origin); err2 == nil {
					el2, proof2 := splitT5(resp2)
					filler := make([]byte, 32)
					if mut["fill"] == "neighbour" {
						filler = append([]byte{}, el2[0]...)
					}
					el := append(append(append([][]byte{}, el2[:i]...), filler), el2[i:]...)
					resp = reframeT5(el, proof2)
				}
			}
		case "OtherBatchElem": // an element of another batch of the same key spliced in, proof kept
			r2 := s.create(t, n, "k1", randBytes(r, chlen), mkNonces(), origin, "c1")
			resp2, _, err2 := s.evaluate(t, "k1", r2.reqBytes, origin)
			if err2 == nil {
				el, proof := splitT5(resp)
				el2, _ := splitT5(resp2)
				el[0] = el2[0]
				resp = reframeT5(el, proof)
			}
		}
		toks, err := r1.finalize(resp)
		if err != nil {
			e["err"] = "finalize: " + err.Error()
			return
		}
		e["fin_ok"] = true
		tb, oc, iv := []any{}, []any{}, []any{}
		for _, tok := range toks {
			tb = append(tb, B(tok.Marshal()))
			oc = append(oc, r1.oracle(tok))
			if r1.iverify != nil {
				iv = append(iv, r1.iverify(tok))
			}
		}
		e["tokens"], e["oracle"], e["iverify"] = tb, oc, iv
	})
	return e
}

// ---------------------------------------------------------------------------
// C10: issuer-side verification of altered tokens

// verifyWorld: one honest token and the issuer OBJECTS that verify it (kept for a whole sequence)
type verifyWorld struct {
	t          int
	suite      oprf.Suite
	key, other *oprf.PrivateKey
	tok        tokens.Token
	verify     func(other bool, tok tokens.Token) error
}

func newVerifyWorld(c *ctx, t int, r *rand.Rand) *verifyWorld {
	w := &verifyWorld{t: t}
	if t == 1 {
		w.suite, w.key, w.other = oprf.SuiteP384, p384Key(c.seed, "k1"), p384Key(c.seed, "k2")
		a, err := honestT1(w.key, randBytes(r, 12), randNonce(r), false)
		if err != nil {
			panic(err)
		}
		w.tok = a.token
		iss, issOther := type1.NewBasicPrivateIssuer(w.key), type1.NewBasicPrivateIssuer(w.other)
		w.verify = func(o bool, tok tokens.Token) error {
			// the caller uses what the issuer hands out: it appends to the key id it was given (its slice now)
			callerAppends(iss.TokenKeyID())
			callerAppends(issOther.TokenKeyID())
			if o {
				return issOther.Verify(tok)
			}
			return iss.Verify(tok)
		}
	} else {
		w.suite, w.key, w.other = oprf.SuiteRistretto255, ristrettoKey(c.seed, "k1"), ristrettoKey(c.seed, "k2")
		a, err := honestT5(w.key, randBytes(r, 12), [][]byte{randNonce(r), randNonce(r)}, false)
		if err != nil {
			panic(err)
		}
		w.tok = a.tokens[1]
		iss, issOther := type5.NewBatchedPrivateIssuer(w.key), type5.NewBatchedPrivateIssuer(w.other)
		w.verify = func(o bool, tok tokens.Token) error {
			callerAppends(iss.TokenKeyID())
			callerAppends(issOther.TokenKeyID())
			if o {
				return issOther.Verify(tok)
			}
			return iss.Verify(tok)
		}
	}
	return w
}

// callerAppends: a caller that was handed a slice may append to it; whatever lies in the slice's spare capacity is
// then overwritten. Nothing the library relies on may live there.
func callerAppends(b []byte) {
	if cap(b) > len(b) {
		_ = append(b, bytes.Repeat([]byte{0xEE}, cap(b)-len(b))...)
	}
}

func (w *verifyWorld) step(c *ctx, tm map[string]any, r *rand.Rand) ev {
	kind, _ := tm["kind"].(string)
	t := w.t
	e := ev{"op": "Verify", "t": t, "tmut": tm, "ok": false, "ref_ok": false, "panic": ""}
	e["panic"] = guard(func() {
		cp := func(b []byte) []byte { return append([]byte{}, b...) }
		// the token VALUE as the library returned it (a struct copy keeps whatever the library keeps inside it), with
		// private copies of the field slices so that alterations never touch the shared honest token
		tok := w.tok
		tok.Nonce, tok.Context, tok.KeyID, tok.Authenticator = cp(w.tok.Nonce), cp(w.tok.Context), cp(w.tok.KeyID), cp(w.tok.Authenticator)
		useOther := false
		switch kind {
		case "Id":
		case "Flip":
			bit := jInt(tm["bit"])
			switch tm["f"].(string) {
			case "nonce":
				tok.Nonce = flipBit(tok.Nonce, bit)
			case "context":
				tok.Context = flipBit(tok.Context, bit)
			case "key_id":
				tok.KeyID = flipBit(tok.KeyID, bit)
			case "auth":
				tok.Authenticator = flipBit(tok.Authenticator, bit)
			}
		case "TypeField":
			tok.TokenType ^= uint16(1) << uint(jInt(tm["bit"])%16)
		case "OtherKey":
			useOther = true
		case "OtherType": // a token of the other VOPRF type presented to this issuer
			if t == 1 {
				a, _ := honestT5(ristrettoKey(c.seed, "k1"), randBytes(r, 12), [][]byte{randNonce(r)}, false)
				tok = a.tokens[0]
			} else {
				a, _ := honestT1(p384Key(c.seed, "k1"), randBytes(r, 12), randNonce(r), false)
				tok = a.token
			}
		case "ShiftNonceContext": // same concatenation, different field split
			tok.Context = append([]byte{tok.Nonce[31]}, tok.Context...)
			tok.Nonce = tok.Nonce[:31]
		case "ShiftContextKeyID":
			tok.KeyID = append([]byte{tok.Context[31]}, tok.KeyID...)
			tok.Context = tok.Context[:31]
		case "NonceShort":
			tok.Nonce = tok.Nonce[:31]
		case "NonceLong":
			tok.Nonce = append(tok.Nonce, 0)
		case "KeyIDShort":
			tok.KeyID = tok.KeyID[1:]
		case "KeyIDLong":
			tok.KeyID = append([]byte{0}, tok.KeyID...)
		case "KeyIDLastByteOnly":
			tok.KeyID = tok.KeyID[31:]
		case "NonceAppend": // the honest 32 bytes followed by more
			tok.Nonce = append(tok.Nonce, 0x00, 0x01)
		case "ContextAppend":
			tok.Context = append(tok.Context, 0x00)
		case "KeyIDAppend":
			tok.KeyID = append(tok.KeyID, 0x7f)
		case "NonceTrimZero": // the nonce without its last byte (the same bytes when that byte is zero and fields are padded)
			tok.Nonce = tok.Nonce[:31]
		case "ShiftKeyIDAuth": // same concatenation, different split between key id and authenticator
			tok.Authenticator = append([]byte{tok.KeyID[31]}, tok.Authenticator...)
			tok.KeyID = tok.KeyID[:31]
		case "ShiftAuthKeyID":
			tok.KeyID = append(tok.KeyID, tok.Authenticator[0])
			tok.Authenticator = tok.Authenticator[1:]
		case "EmptyNonce":
			tok.Nonce = nil
		case "EmptyAll":
			tok.Nonce, tok.Context, tok.KeyID = nil, nil, nil
		case "AuthShort":
			tok.Authenticator = tok.Authenticator[:len(tok.Authenticator)-1]
		case "AuthLong":
			tok.Authenticator = append(tok.Authenticator, 0)
		case "AuthEmpty":
			tok.Authenticator = nil
		case "AuthPrefix":
			tok.Authenticator = tok.Authenticator[:jInt(tm["k"])%len(tok.Authenticator)]
		}
		// independent reference: FullEvaluate over the concatenation the token carries
		vkey := w.key
		if useOther {
			vkey = w.other
		}
		e["ref_ok"] = bytes.Equal(fullEvaluate(w.suite, vkey, authInput(tok)), tok.Authenticator)
		e["ok"] = w.verify(useOther, tok) == nil
	})
	return e
}

// execEndure: MANY honest issuances through the same long-lived objects (one issuer, one request object on its side,
// one client), a refused request every few runs: run number 256, 257, 65 536 is like run number 1 - nothing counts
// down, fills up or wraps around.
func execEndure(c *ctx, in ev) ev {
	t, n := gI(in, "t"), gI(in, "n")
	r := newRand(c.seed, fmt.Sprintf("endure-%d", t))
	e := ev{"op": "Endure", "t": t, "n": n, "done": 0, "first_bad": -1, "err": "", "panic": ""}
	e["panic"] = guard(func() {
		var run func(i int) error
		switch t {
		case 1:
			k := p384Key(c.seed, "k1")
			iss := type1.NewBasicPrivateIssuer(k)
			obj := new(type1.BasicPrivateTokenRequest)
			cl := type1.NewBasicPrivateClient()
			run = func(i int) error {
				if i%7 == 3 {
					iss.Evaluate(&type1.BasicPrivateTokenRequest{TokenKeyID: iss.TokenKeyID()[31], BlindedReq: bytes.Repeat([]byte{0xff}, 49)})
				}
				st, err := cl.CreateTokenRequest(randBytes(r, 8), randNonce(r), iss.TokenKeyID(), iss.TokenKey())
				if err != nil {
					return err
				}
				if !obj.Unmarshal(append([]byte{}, st.Request().Marshal()...)) {
					return fmt.Errorf("request does not decode")
				}
				resp, err := iss.Evaluate(obj)
				if err != nil {
					return err
				}
				tok, err := st.FinalizeToken(resp)
				if err != nil {
					return err
				}
				if iss.Verify(tok) != nil || !bytes.Equal(fullEvaluate(oprf.SuiteP384, k, authInput(tok)), tok.Authenticator) {
					return fmt.Errorf("token does not verify")
				}
				return nil
			}
		case 5:
			k := ristrettoKey(c.seed, "k1")
			iss := type5.NewBatchedPrivateIssuer(k)
			obj := new(type5.BatchedPrivateTokenRequest)
			cl := type5.NewBatchedPrivateClient()
			run = func(i int) error {
				if i%7 == 3 {
					bad := bytes.Repeat([]byte{0xff}, 32)
					iss.Evaluate(&type5.BatchedPrivateTokenRequest{TokenKeyID: iss.TokenKeyID()[31], BlindedReq: [][]byte{bad, bad}})
				}
				nonces := [][]byte{randNonce(r)}
				if i%5 == 0 {
					nonces = append(nonces, randNonce(r), randNonce(r))
				}
				st, err := cl.CreateTokenRequest(randBytes(r, 8), nonces, iss.TokenKeyID(), iss.TokenKey())
				if err != nil {
					return err
				}
				if !obj.Unmarshal(append([]byte{}, st.Request().Marshal()...)) {
					return fmt.Errorf("request does not decode")
				}
				resp, err := iss.Evaluate(obj)
				if err != nil {
					return err
				}
				toks, err := st.FinalizeTokens(resp)
				if err != nil || len(toks) != len(nonces) {
					return fmt.Errorf("finalize: %v (%d tokens)", err, len(toks))
				}
				for _, tok := range toks {
					if iss.Verify(tok) != nil {
						return fmt.Errorf("token does not verify")
					}
				}
				return nil
			}
		case 2:
			k := rsaKey(1)
			iss := type2.NewBasicPublicIssuer(k)
			obj := new(type2.BasicPublicTokenRequest)
			cl := type2.NewBasicPublicClient()
			run = func(i int) error {
				if i%7 == 3 {
					iss.Evaluate(&type2.BasicPublicTokenRequest{TokenKeyID: iss.TokenKeyID()[31], BlindedReq: bytes.Repeat([]byte{0xff}, 256)})
				}
				st, err := cl.CreateTokenRequest(randBytes(r, 8), randNonce(r), iss.TokenKeyID(), iss.TokenKey())
				if err != nil {
					return err
				}
				if !obj.Unmarshal(append([]byte{}, st.Request().Marshal()...)) {
					return fmt.Errorf("request does not decode")
				}
				resp, err := iss.Evaluate(obj)
				if err != nil {
					return err
				}
				tok, err := st.FinalizeToken(resp)
				if err != nil {
					return err
				}
				return verifyPSS(&k.PublicKey, tok)
			}
		case 3:
			w := newT3World(rsaKey(2), c.seed, map[string]string{"endure.example": "a", "other.example": "b"})
			cache := &recCache{m: map[string]*type3.ClientState{}}
			att := type3.NewRateLimitedAttester(cache)
			secret := p384Scalar(c.seed, "endure-client")
			var firstIdx []byte
			run = func(i int) error {
				if i%7 == 3 {
					w.issuer.Evaluate([]byte{0, 3, 1, 2, 3})
				}
				blind := randScalar(r)
				art, err := honestT3(w, secret, blind, randBytes(r, 8), randNonce(r), "endure.example")
				if err != nil {
					return err
				}
				if verifyPSS(w.issuer.TokenKey(), art.token) != nil {
					return fmt.Errorf("token does not verify")
				}
				// the attester, too, sees every request: same client, same origin - the same ID every time
				reg := new(type3.RateLimitedTokenRequest)
				if !reg.Unmarshal(append([]byte{}, art.req...)) {
					return fmt.Errorf("request does not decode")
				}
				if err := att.VerifyRequest(*reg, blind, art.clientKey, []byte("anon")); err != nil {
					return fmt.Errorf("attester: %v", err)
				}
				idx, err := att.FinalizeIndex(art.clientKey, blind, art.blindedRK, []byte("anon"))
				if err != nil {
					return fmt.Errorf("attester index: %v", err)
				}
				if firstIdx == nil {
					firstIdx = append([]byte{}, idx...)
				} else if !bytes.Equal(idx, firstIdx) {
					return fmt.Errorf("the anonymous issuer origin ID changed")
				}
				return nil
			}
		}
		for i := 0; i < n; i++ {
			if err := run(i); err != nil {
				e["first_bad"], e["err"] = i, err.Error()
				return
			}
			e["done"] = i + 1
		}
	})
	return e
}

// execTypeSweep: an honest value presented under EVERY other 16-bit token type (an alias of the type - a draft code
// point, a private-use number - is one value among 65535; flipping single bits of the type never reaches it)
func execTypeSweep(c *ctx, in ev) ev {
	what, lo, hi, stride := gS(in, "what"), gI(in, "lo"), gI(in, "hi"), gI(in, "stride")
	r := newRand(c.seed, fmt.Sprintf("typesweep-%s-%d", what, lo))
	e := ev{"op": "TypeSweep", "what": what, "lo": lo, "hi": hi, "tried": 0, "accepted": 0, "first": -1, "panic": ""}
	e["panic"] = guard(func() {
		var own int
		var present func(t uint16) bool
		switch what {
		case "rl":
			own = 3
			x := newRLWorld(c)
			st, err := type3.NewRateLimitedClientFromSecret(x.secret).CreateTokenRequest(randBytes(r, 9), randNonce(r), randScalar(r),
				x.w.issuer.TokenKeyID(), x.w.issuer.TokenKey(), x.origin, x.w.issuer.NameKey())
			if err != nil {
				panic(err)
			}
			enc := append([]byte{}, st.Request().Marshal()...)
			present = func(t uint16) bool {
				b := append([]byte{}, enc...)
				b[0], b[1] = byte(t>>8), byte(t)
				_, _, err := x.w.issuer.Evaluate(b)
				return err == nil
			}
		case "t1verify", "t5verify":
			own = map[string]int{"t1verify": 1, "t5verify": 5}[what]
			w := newVerifyWorld(c, own, r)
			present = func(t uint16) bool {
				tok := w.tok
				tok.TokenType = t
				return w.verify(false, tok) == nil
			}
		}
		if stride < 1 {
			stride = 1
		}
		for t := lo + r.Intn(stride); t < hi; t += stride {
			if t == own {
				continue
			}
			e["tried"] = e["tried"].(int) + 1
			if present(uint16(t)) {
				e["accepted"] = e["accepted"].(int) + 1
				if e["first"].(int) < 0 {
					e["first"] = t
				}
			}
		}
	})
	return e
}

func execVerify(c *ctx, in ev) ev {
	r := newRand(c.seed, fmt.Sprintf("verify-%v", in["rid"]))
	tm, _ := in["tmut"].(map[string]any)
	var e ev
	if p := guard(func() { e = newVerifyWorld(c, gI(in, "t"), r).step(c, tm, r) }); p != "" {
		return ev{"op": "Verify", "t": gI(in, "t"), "tmut": tm, "ok": false, "ref_ok": false, "panic": "setup: " + p}
	}
	return e
}

// execVerifySeq: a history of Verify calls on the SAME issuer objects and the same honest token
func execVerifySeq(c *ctx, in ev) []ev {
	r := newRand(c.seed, fmt.Sprintf("verifyseq-%v", in["rid"]))
	var w *verifyWorld
	if p := guard(func() { w = newVerifyWorld(c, gI(in, "t"), r) }); p != "" {
		return []ev{{"op": "Verify", "t": gI(in, "t"), "tmut": ev{"kind": "Id"}, "ok": false, "ref_ok": false, "panic": "setup: " + p}}
	}
	out := []ev{}
	for _, st := range gL(in, "steps") {
		out = append(out, w.step(c, st.(map[string]any), r))
	}
	return out
}

// ---------------------------------------------------------------------------
// C07: the rate-limited issuer on altered requests

func t3ReqFields(req []byte) map[string][2]int {
	encLen := int(req[83])<<8 | int(req[84])
	return map[string][2]int{"type": {0, 2}, "request_key": {2, 51}, "name_key_id": {51, 83}, "enc_len": {83, 85},
		"enc": {85, 85 + encLen}, "sig": {85 + encLen, len(req)}}
}

// rlWorld: one rate-limited issuer (and a foreign one) kept for a whole sequence of Evaluate calls
type rlWorld struct {
	origin    string
	w, other  *t3World
	secret    []byte
	prev      *type3.RateLimitedTokenRequest // the last honest request this issuer answered
	prevBlind []byte
	saved     map[string][]byte // bytes submitted by earlier steps, by label
}

func newRLWorld(c *ctx) *rlWorld {
	origin := "registered.example"
	// a second registered origin, longer than two padding blocks (its block-length prefixes are NOT registered)
	return &rlWorld{origin: origin, w: newT3World(rsaKey(0), c.seed, map[string]string{origin: "a", rlLongOrigin: "b"}),
		// (the other issuer of the process serves one more origin: issuers share nothing)
		other: newT3World(rsaKey(1), c.seed, map[string]string{origin: "a", "only-the-other-issuer.example": "c"}), secret: p384Scalar(c.seed, "rl-client")}
}

const rlLongOrigin = "a-registered-origin-name-that-is-longer-than-two-blocks-of-padding.example" // 73 bytes

func (x *rlWorld) step(c *ctx, cls map[string]any, r *rand.Rand) ev {
	kind, _ := cls["kind"].(string)
	e := ev{"op": "RLEval", "cls": cls, "ok": false, "resp_len": 0, "key_len": 0, "err": "", "panic": ""}
	e["panic"] = guard(func() {
		origin, w, other, secret := x.origin, x.w, x.other, x.secret
		blind := randScalar(r)
		mkWith := func(w *t3World, origin string, secret, blind []byte) *type3.RateLimitedTokenRequest {
			st, err := type3.NewRateLimitedClientFromSecret(secret).CreateTokenRequest(randBytes(r, 9), randNonce(r), blind,
				w.issuer.TokenKeyID(), w.issuer.TokenKey(), origin, w.issuer.NameKey())
			if err != nil {
				panic(err)
			}
			out := new(type3.RateLimitedTokenRequest)
			if !out.Unmarshal(append([]byte{}, st.Request().Marshal()...)) {
				panic("honest request does not decode")
			}
			return out
		}
		mk := func(w *t3World, origin string) *type3.RateLimitedTokenRequest {
			return mkWith(w, origin, secret, blind)
		}
		remarshal := func(q *type3.RateLimitedTokenRequest) []byte {
			return (&type3.RateLimitedTokenRequest{RequestKey: q.RequestKey, NameKeyID: q.NameKeyID,
				EncryptedTokenRequest: q.EncryptedTokenRequest, Signature: q.Signature}).Marshal()
		}
		req := mk(w, origin)
		enc := remarshal(req)
		switch kind {
		case "Id":
			x.prev, x.prevBlind = req, blind
		case "IdLong": // an honest request for the long registered origin
			enc = remarshal(mk(w, rlLongOrigin))
		case "ReplaySame": // the request answered before, again (the issuer keeps no per-request state)
			if x.prev != nil {
				enc = remarshal(x.prev)
			}
		case "ReplayEncOtherKey": // the ciphertext answered before, under another client's request key, consistently re-signed
			if x.prev != nil {
				secret2 := p384Scalar(c.seed, "rl-client-2")
				q2 := mkWith(w, origin, secret2, x.prevBlind)
				q2.NameKeyID, q2.EncryptedTokenRequest = x.prev.NameKeyID, x.prev.EncryptedTokenRequest
				q2.Signature = signT3(secret2, x.prevBlind, q2)
				enc = remarshal(q2)
			}
		case "ReplayEncFlipped": // the ciphertext answered before with one bit changed, consistently re-signed
			if x.prev != nil {
				q2 := &type3.RateLimitedTokenRequest{RequestKey: x.prev.RequestKey, NameKeyID: x.prev.NameKeyID,
					EncryptedTokenRequest: flipBit(x.prev.EncryptedTokenRequest, jInt(cls["bit"]))}
				q2.Signature = signT3(secret, x.prevBlind, q2)
				enc = remarshal(q2)
			}
		case "Flip":
			f := t3ReqFields(enc)[cls["f"].(string)]
			bit := jInt(cls["bit"]) % ((f[1] - f[0]) * 8)
			enc[f[0]+bit/8] ^= 1 << uint(bit%8)
		case "Unregistered":
			name := map[string]string{"last-byte": "registered.examplf", "prefix": "registered.exampl", "suffix": "registered.example.", "inner-nul": "registered\x00example",
				"case": "Registered.example", "empty": "", "long": strings.Repeat("registered.example", 9),
				"other-issuers-origin": "only-the-other-issuer.example", "comma-suffix": "registered.example,unregistered.example", "comma-only": "registered.example,", "comma-prefix": "unregistered.example,registered.example",
				"block-prefix-32": rlLongOrigin[:32], "block-prefix-64": rlLongOrigin[:64], "block-prefix-31": rlLongOrigin[:31], "long-last-byte": rlLongOrigin[:72] + "f",
				"space-suffix": "registered.example ", "space-prefix": " registered.example", "tab-suffix": "registered.example\t", "upper": "REGISTERED.EXAMPLE",
				"nul-suffix": "registered.example\x00.attacker.example", "nul-suffix-short": "registered.example\x00a", "nul-prefix": "\x00registered.example"}[cls["variant"].(string)]
			enc = remarshal(mk(w, name))
		case "ForeignIssuer": // sealed to another issuer's name key
			enc = remarshal(mk(other, origin))
		case "OtherSigner": // the same contents re-signed by a different (blinded) key
			req.Signature = signT3(p384Scalar(c.seed, "rl-client-2"), blind, req)
			enc = remarshal(req)
		case "OtherContents": // a valid signature by the right key, but over another request
			q2 := mk(w, origin)
			req.Signature = q2.Signature
			enc = remarshal(req)
		case "BadInner": // authentic and correctly sealed, but the plaintext is not an InnerTokenRequest
			req.EncryptedTokenRequest = sealT3(w.issuer.NameKey(), req.RequestKey, randBytes(r, jInt(cls["k"])), true)
			req.Signature = signT3(secret, blind, req)
			enc = remarshal(req)
		case "WrongAAD": // a well-formed inner request sealed without the request key in the AAD
			inner := type3.VerifNewInnerTokenRequest(1, randBytes(r, 256), type3.VerifPadOriginName(origin)).Marshal()
			req.EncryptedTokenRequest = sealT3(w.issuer.NameKey(), req.RequestKey, inner, false)
			req.Signature = signT3(secret, blind, req)
			enc = remarshal(req)
		case "ResealedHonest": // control: the harness's own sealing and signing of a well-formed inner request is accepted
			msg := randBytes(r, 256)
			msg[0] = 0 // a blinded message is an integer below the modulus; a random 256-byte string is not always one
			inner := type3.VerifNewInnerTokenRequest(w.issuer.TokenKeyID()[0], msg, type3.VerifPadOriginName(origin)).Marshal()
			req.EncryptedTokenRequest = sealT3(w.issuer.NameKey(), req.RequestKey, inner, true)
			req.Signature = signT3(secret, blind, req)
			enc = remarshal(req)
		case "NoSig":
			enc = enc[:len(enc)-96]
		case "Trailing":
			enc = append(enc, 0)
			if nv, ok := cls["n"]; ok && jInt(nv) > 1 { // (lengths at which a 16-bit length comparison wraps around)
				enc = append(enc, randBytes(r, jInt(nv)-1)...)
			}
		case "BadKey": // request key replaced by another valid point: AAD and signature no longer match
			q2 := type3.NewRateLimitedClientFromSecret(p384Scalar(c.seed, "rl-client-2"))
			st, _ := q2.CreateTokenRequest(randBytes(r, 9), randNonce(r), blind, w.issuer.TokenKeyID(), w.issuer.TokenKey(), origin, w.issuer.NameKey())
			req.RequestKey = st.Request().RequestKey
			enc = remarshal(req)
		}
		if l, _ := cls["again"].(string); l != "" && x.saved[l] != nil {
			// the very bytes of an earlier step once more: the issuer's answer to a request does not depend on
			// what it was shown before (no verdict of an earlier submission may be remembered in its place)
			enc = append([]byte{}, x.saved[l]...)
		}
		if l, _ := cls["save"].(string); l != "" {
			if x.saved == nil {
				x.saved = map[string][]byte{}
			}
			x.saved[l] = append([]byte{}, enc...)
		}
		resp, key, err := w.issuer.Evaluate(enc)
		e["ok"] = err == nil
		e["err"] = errStr(err)
		e["resp_len"], e["key_len"] = len(resp), len(key)
	})
	return e
}

func execRLEval(c *ctx, in ev) ev {
	cls, _ := in["cls"].(map[string]any)
	r := newRand(c.seed, fmt.Sprintf("rleval-%v", in["rid"]))
	var e ev
	if p := guard(func() { e = newRLWorld(c).step(c, cls, r) }); p != "" {
		return ev{"op": "RLEval", "cls": cls, "ok": false, "resp_len": 0, "key_len": 0, "err": "", "panic": "setup: " + p}
	}
	return e
}

// execRLSeq: a history of Evaluate calls on ONE issuer object
func execRLSeq(c *ctx, in ev) []ev {
	r := newRand(c.seed, fmt.Sprintf("rlseq-%v", in["rid"]))
	x := newRLWorld(c)
	out := []ev{}
	for _, st := range gL(in, "steps") {
		out = append(out, x.step(c, st.(map[string]any), r))
	}
	return out
}

// signT3 signs a rate-limited request with the secret key blinded by blind
// (the signature the client would produce), using the ECDSA fork directly.
func signT3(secret, blind []byte, req *type3.RateLimitedTokenRequest) []byte {
	return signT3Ctx(secret, blind, req, ctxType3("ClientBlind"))
}

// signT3Ctx: the same with the key blind bound to another context string (what a client of another draft would do)
func signT3Ctx(secret, blind []byte, req *type3.RateLimitedTokenRequest, blindCtx []byte) []byte {
	curve := elliptic.P384()
	sk, _ := rawKey(curve, secret)
	bk, _ := rawKey(curve, blind)
	msg := []byte{0x00, 0x03}
	msg = append(msg, req.RequestKey...)
	msg = append(msg, req.NameKeyID...)
	msg = append(msg, byte(len(req.EncryptedTokenRequest)>>8), byte(len(req.EncryptedTokenRequest)))
	msg = append(msg, req.EncryptedTokenRequest...)
	d := sha512.Sum384(msg)
	rr, ss, err := ecdsa.BlindKeySignWithContext(cryptorand.Reader, sk, bk, d[:], blindCtx)
	if err != nil {
		panic(err)
	}
	out := make([]byte, 96)
	rr.FillBytes(out[:48])
	ss.FillBytes(out[48:])
	return out
}

// sealT3 HPKE-seals an arbitrary plaintext to the issuer's name key with the
// AAD the protocol prescribes (or, with bindKey false, one that leaves the
// request key out), using go-hpke directly.
func sealT3(nameKey type3.EncapKey, requestKey, plaintext []byte, bindKey bool) []byte {
	id, kem, kdf, aead, pkBytes := nameKey.VerifFields()
	suite, err := hpke.AssembleCipherSuite(hpke.KEMID(kem), hpke.KDFID(kdf), hpke.AEADID(aead))
	if err != nil {
		panic(err)
	}
	pk, err := suite.KEM.DeserializePublicKey(pkBytes)
	if err != nil {
		panic(err)
	}
	enc, ctx, err := hpke.SetupBaseS(suite, cryptorand.Reader, pk, []byte("TokenRequest"))
	if err != nil {
		panic(err)
	}
	keyID := sha256.Sum256(nameKey.Marshal())
	aad := []byte{id, byte(kem >> 8), byte(kem), byte(kdf >> 8), byte(kdf), byte(aead >> 8), byte(aead), 0x00, 0x03}
	if bindKey {
		aad = append(aad, requestKey...)
	}
	aad = append(aad, keyID[:]...)
	return append(enc, ctx.Seal(aad, plaintext)...)
}

// ---------------------------------------------------------------------------
// C11: issuance with caller-supplied blinds

type interner struct {
	m map[string]string
	p string
}

func (i *interner) id(b []byte) string {
	k := string(b)
	if v, ok := i.m[k]; ok {
		return v
	}
	v := fmt.Sprintf("%s%d", i.p, len(i.m)+1)
	i.m[k] = v
	return v
}

func detBlind(seed int64, t int, name string) []byte {
	if name == "short" { // a malformed blind (one byte missing): refused, or at least never the source of a wrong token
		b := detBlind(seed, t, "b1")
		return b[:len(b)-1]
	}
	if name == "zero" { // the degenerate blind: not invertible, so no token can come of it - least of all a wrong one
		return make([]byte, map[int]int{1: 48, 5: 32, 2: 256}[t])
	}
	if strings.HasPrefix(name, "zero-") { // other ENCODINGS of the degenerate blind: the group order / modulus itself, ...
		switch t {
		case 1:
			b := make([]byte, 48)
			elliptic.P384().Params().N.FillBytes(b)
			return b
		case 2:
			b := make([]byte, 256)
			rsaKey(0).N.FillBytes(b) // (for key k1; under k2 just another blind that is refused or harmless)
			return b
		default: // ristretto255: l little-endian; the decoder ignores the top bit
			l, _ := new(bigInt).SetString("7237005577332262213973186563042994240857116359379907606001950938285454250989", 10)
			be := make([]byte, 32)
			if name != "zero-top" {
				l.FillBytes(be)
			}
			b := make([]byte, 32)
			for i := range be {
				b[i] = be[31-i]
			}
			if name == "zero-top" || name == "zero-order-top" {
				b[31] |= 0x80
			}
			return b
		}
	}
	switch t {
	case 1: // P-384 scalar, 48 bytes big-endian
		switch name {
		case "one":
			b := make([]byte, 48)
			b[47] = 1
			return b
		case "n-1":
			N := elliptic.P384().Params().N
			b := make([]byte, 48)
			new(bigInt).Sub(N, new(bigInt).SetInt64(1)).FillBytes(b)
			return b
		case "lead0":
			b := p384Scalar(seed, "det-lead0")
			b[0], b[1] = 0, 0
			return b
		}
		return p384Scalar(seed, "det-blind-"+name)
	case 5: // ristretto255 scalar, 32 bytes little-endian, reduced
		b := hashBytes(seed, "det-blind5-"+name, 32)
		b[31] &= 0x0f
		switch name {
		case "one":
			b = make([]byte, 32)
			b[0] = 1
		case "lead0":
			b[31], b[30] = 0, 0
		}
		return b
	default: // blind RSA: r < n, 256 bytes
		b := hashBytes(seed, "det-blind2-"+name, 256)
		b[0] &= 0x3f
		switch name {
		case "one":
			b = make([]byte, 256)
			b[255] = 1
		case "lead0":
			b[0], b[1] = 0, 0
		}
		return b
	}
}

// detSalt: the salt argument of a matrix row. "empty" and "nil" are the zero-length salts (the request is still a
// function of the arguments; such a request cannot be finalized, which Trace_Issuance knows).
func detSalt(seed int64, name string, arg func([]byte) []byte) []byte {
	switch name {
	case "nil":
		return nil
	case "empty":
		return []byte{}
	}
	return arg(hashBytes(seed, "det-salt-"+name, 48))
}

var errBadToken = fmt.Errorf("finalization returned a token that does not verify")

func execDet(c *ctx, in ev) []ev {
	out := []ev{{"op": "DetNew"}}
	reqs, toks := &interner{m: map[string]string{}, p: "q"}, &interner{m: map[string]string{}, p: "t"}
	elems := &interner{m: map[string]string{}, p: "e"}
	// Phase 1 creates every request of the matrix, phase 2 evaluates and
	// finalizes them in reverse order: request states must not share blinds
	// or buffers with requests created later.
	// mode "shared": the caller keeps ONE buffer per argument (nonce, challenge, blind, salt) and refills it for every
	// request, as a client looping over requests does; mode "par": requests are created (and later finalized) by
	// several goroutines at once, each from buffers of its own that are overwritten as soon as creation returns.
	mode := gS(in, "mode")
	type pending struct {
		e      ev
		req    []byte
		elems  [][]byte
		enames []any
		fin    func() ([]byte, error)
		tok    []byte
	}
	shared := map[string][]byte{}
	var mine [][]byte // par mode: this call's argument buffers
	arg := func(own *[][]byte, name string, data []byte) []byte {
		if mode == "shared" {
			if b, ok := shared[name]; ok && len(b) == len(data) {
				copy(b, data)
				return b
			}
			shared[name] = append(make([]byte, 0, len(data)), data...)
			return shared[name]
		}
		b := append(make([]byte, 0, len(data)), data...)
		*own = append(*own, b)
		return b
	}
	_ = mine
	create := func(rw map[string]any) *pending {
		t, key, nc, blind, salt := jInt(rw["t"]), rw["key"].(string), rw["nc"].(string), rw["blind"].(string), rw["salt"].(string)
		pe := &pending{e: ev{"op": "Det", "t": t, "key": key, "nc": nc, "blind": blind, "salt": salt, "ok": false, "req": "", "tok": "", "err": "", "elems": []any{},
			"bad_token": false, "refin": "none", "degenerate": strings.Contains(blind, "zero") || strings.Contains(blind, "short")}}
		e := pe.e
		var own [][]byte
		p := guard(func() {
			challenge := arg(&own, "challenge", hashBytes(c.seed, "det-ch-"+nc, 24))
			nonce := arg(&own, "nonce", hashBytes(c.seed, "det-nonce-"+nc, 32))
			switch t {
			case 1:
				k := p384Key(c.seed, key)
				iss := type1.NewBasicPrivateIssuer(k)
				st, err := type1.NewBasicPrivateClient().CreateTokenRequestWithBlind(challenge, nonce, iss.TokenKeyID(), iss.TokenKey(), arg(&own, "blind1", detBlind(c.seed, 1, blind)))
				if err != nil {
					e["err"] = err.Error()
					return
				}
				pe.req = st.Request().Marshal()
				pe.fin = func() ([]byte, error) {
					wire := new(type1.BasicPrivateTokenRequest) // the issuer sees the request's bytes
					if !wire.Unmarshal(append([]byte{}, st.Request().Marshal()...)) {
						// (a degenerate blind: the element is the identity, which has no wire form) - an issuer in the same
						// process is handed the request object itself: still no token may come of it that does not verify
						wire = st.Request()
						if resp, err := iss.Evaluate(wire); err == nil {
							if tok, err := st.FinalizeToken(resp); err == nil && iss.Verify(tok) != nil {
								return nil, errBadToken
							}
						}
						return nil, fmt.Errorf("the request's own encoding does not decode")
					}
					resp, err := iss.Evaluate(wire)
					if err != nil {
						return nil, err
					}
					tok, err := st.FinalizeToken(resp)
					if err != nil {
						return nil, err
					}
					if iss.Verify(tok) != nil {
						return nil, errBadToken
					}
					return tok.Marshal(), nil
				}
			case 2:
				k := rsaKey(rsaIdx(key))
				iss := type2.NewBasicPublicIssuer(k)
				st, err := type2.NewBasicPublicClient().CreateTokenRequestWithBlind(challenge, nonce, iss.TokenKeyID(), iss.TokenKey(),
					arg(&own, "blind2", detBlind(c.seed, 2, blind)), detSalt(c.seed, salt, func(b []byte) []byte { return arg(&own, "salt", b) }))
				if err != nil {
					e["err"] = err.Error()
					return
				}
				pe.req = st.Request().Marshal()
				pe.fin = func() ([]byte, error) {
					wire := new(type2.BasicPublicTokenRequest)
					if !wire.Unmarshal(append([]byte{}, st.Request().Marshal()...)) {
						return nil, fmt.Errorf("the request's own encoding does not decode")
					}
					resp, err := iss.Evaluate(wire)
					if err != nil {
						return nil, err
					}
					tok, err := st.FinalizeToken(resp)
					if err != nil {
						return nil, err
					}
					if verifyPSS(&k.PublicKey, tok) != nil {
						return nil, errBadToken
					}
					return tok.Marshal(), nil
				}
			case 5:
				k := ristrettoKey(c.seed, key)
				iss := type5.NewBatchedPrivateIssuer(k)
				// the row's nonce/blind lists: "n1+n2" style names select the batch composition
				var nonces, blinds [][]byte
				bnames := strings.Split(blind, "+")
				ncs := strings.Split(nc, "+")
				if strings.HasPrefix(nc, "many") { // a large batch: "many512" = 512 nonces, each with its own blind
					cnt, _ := strconv.Atoi(strings.TrimPrefix(nc, "many"))
					ncs, bnames = nil, nil
					for i := 0; i < cnt; i++ {
						ncs = append(ncs, fmt.Sprintf("m%d", i))
						bnames = append(bnames, fmt.Sprintf("%s-%d", blind, i))
					}
				}
				for i, nn := range ncs {
					nonces = append(nonces, arg(&own, fmt.Sprintf("nonce5-%d", i), hashBytes(c.seed, "det-nonce-"+nn, 32)))
					blinds = append(blinds, arg(&own, fmt.Sprintf("blind5-%d", i), detBlind(c.seed, 5, bnames[i])))
					pe.enames = append(pe.enames, []any{nn, bnames[i]})
				}
				challenge = arg(&own, "challenge5", hashBytes(c.seed, "det-ch-t5", 24))
				st, err := type5.NewBatchedPrivateClient().CreateTokenRequestWithBlinds(challenge, nonces, iss.TokenKeyID(), iss.TokenKey(), blinds)
				if err != nil {
					e["err"] = err.Error()
					return
				}
				pe.req = st.Request().Marshal()
				for _, x := range st.Request().BlindedReq {
					pe.elems = append(pe.elems, append([]byte{}, x...))
				}
				pe.fin = func() ([]byte, error) {
					wire := new(type5.BatchedPrivateTokenRequest)
					if !wire.Unmarshal(append([]byte{}, st.Request().Marshal()...)) || len(wire.BlindedReq) != len(nonces) {
						return nil, fmt.Errorf("the request's own encoding does not decode to the request")
					}
					resp, err := iss.Evaluate(wire)
					if err != nil {
						return nil, err
					}
					ts, err := st.FinalizeTokens(resp)
					if err != nil {
						return nil, err
					}
					var all []byte
					for _, tk := range ts {
						if iss.Verify(tk) != nil {
							return nil, errBadToken
						}
						all = append(all, tk.Marshal()...)
					}
					return all, nil
				}
			}
		})
		if p != "" {
			e["err"] = "panic: " + p
			pe.fin = nil
		}
		for _, b := range own { // the arguments were the caller's: it reuses them
			poison(b)
		}
		return pe
	}
	finish := func(pe *pending) {
		if pe.fin == nil {
			return
		}
		p := guard(func() {
			tb, err := pe.fin()
			if err != nil {
				pe.e["err"] = err.Error()
				pe.e["bad_token"] = err == errBadToken
				return
			}
			pe.tok, pe.e["ok"] = tb, true
			// the state finalized once more (a retry, a stored response finalized again): the token is a function of
			// the request's arguments, so the second call returns the same token (or refuses)
			tb2, err := pe.fin()
			switch {
			case err == errBadToken:
				pe.e["refin"], pe.e["bad_token"] = "invalid", true
			case err != nil:
				pe.e["refin"] = "error"
			case bytes.Equal(tb, tb2):
				pe.e["refin"] = "same"
			default:
				pe.e["refin"] = "differs"
			}
		})
		if p != "" {
			pe.e["err"], pe.e["ok"] = "panic: "+p, false
		}
	}
	rows := gL(in, "rows")
	pend := make([]*pending, len(rows))
	if mode == "par" {
		const G = 8
		var wg sync.WaitGroup
		for phase := 0; phase < 2; phase++ {
			start := make(chan struct{})
			for g := 0; g < G; g++ {
				g := g
				wg.Add(1)
				go func() {
					defer wg.Done()
					<-start
					for i := g; i < len(rows); i += G {
						if phase == 0 {
							pend[i] = create(rows[i].(map[string]any))
						} else {
							finish(pend[len(rows)-1-i])
						}
					}
				}()
			}
			close(start)
			wg.Wait()
		}
	} else {
		for i, row := range rows {
			pend[i] = create(row.(map[string]any))
		}
		for _, b := range shared {
			poison(b)
		}
		for i := len(pend) - 1; i >= 0; i-- {
			finish(pend[i])
		}
	}
	for _, pe := range pend {
		if pe.req != nil {
			pe.e["req"] = reqs.id(pe.req)
		}
		el := []any{}
		for i, x := range pe.elems {
			el = append(el, []any{pe.enames[i].([]any)[0], pe.enames[i].([]any)[1], elems.id(x)})
		}
		pe.e["elems"] = el
		if pe.e["ok"] == true {
			pe.e["tok"] = toks.id(pe.tok)
		}
		out = append(out, pe.e)
	}
	return out
}

// execRunSeq: a sequence of honest issuances of one type through LONG-LIVED objects, as a deployment has them: one
// issuer, ONE request object on the issuer side that every incoming request is decoded into (types 1, 2, 5), the
// client's tokens kept until the end. Every run must complete with tokens that pass the independent oracle, and the
// tokens handed out earlier must still read and verify as they did when they were returned.
func execRunSeq(c *ctx, in ev) []ev {
	t := gI(in, "t")
	r := newRand(c.seed, fmt.Sprintf("runseq-%v", in["sid"]))
	out := []ev{}
	var kept []tokens.Token
	var keptBytes [][]byte
	var oracle func(tokens.Token) bool
	// one prepares a complete honest exchange and returns the client's finalization as a function, so that the
	// sequence can finalize the same response more than once (a retry)
	var one func(n int, challenge []byte) (func() ([]tokens.Token, error), error)
	// between two honest runs the long-lived issuer is shown requests it must refuse: whatever a refusal leaves behind
	// (a sticky error, a queued result, a half-filled object) must not reach the next honest run
	noise := func() {}
	switch t {
	case 1:
		k := p384Key(c.seed, "k1")
		iss := type1.NewBasicPrivateIssuer(k)
		reqObj := new(type1.BasicPrivateTokenRequest)
		noise = func() {
			iss.Evaluate(&type1.BasicPrivateTokenRequest{TokenKeyID: iss.TokenKeyID()[31], BlindedReq: bytes.Repeat([]byte{0xff}, 49)})
			reqObj.Unmarshal([]byte{0, 1, 2, 3})
		}
		oracle = func(tok tokens.Token) bool {
			return tok.TokenType == 1 && bytes.Equal(fullEvaluate(oprf.SuiteP384, k, authInput(tok)), tok.Authenticator)
		}
		one = func(n int, challenge []byte) (func() ([]tokens.Token, error), error) {
			st, err := type1.NewBasicPrivateClient().CreateTokenRequest(challenge, randNonce(r), iss.TokenKeyID(), iss.TokenKey())
			if err != nil {
				return nil, err
			}
			if !reqObj.Unmarshal(append([]byte{}, st.Request().Marshal()...)) {
				return nil, fmt.Errorf("request does not decode")
			}
			resp, err := iss.Evaluate(reqObj)
			if err != nil {
				return nil, err
			}
			return func() ([]tokens.Token, error) {
				tok, err := st.FinalizeToken(append([]byte{}, resp...))
				return []tokens.Token{tok}, err
			}, nil
		}
	case 2:
		k := rsaKey(1)
		iss := type2.NewBasicPublicIssuer(k)
		reqObj := new(type2.BasicPublicTokenRequest)
		noise = func() {
			iss.Evaluate(&type2.BasicPublicTokenRequest{TokenKeyID: iss.TokenKeyID()[31], BlindedReq: bytes.Repeat([]byte{0xff}, 256)})
			reqObj.Unmarshal([]byte{0, 2, 2, 3})
		}
		oracle = func(tok tokens.Token) bool { return tok.TokenType == 2 && verifyPSS(&k.PublicKey, tok) == nil }
		one = func(n int, challenge []byte) (func() ([]tokens.Token, error), error) {
			st, err := type2.NewBasicPublicClient().CreateTokenRequest(challenge, randNonce(r), iss.TokenKeyID(), iss.TokenKey())
			if err != nil {
				return nil, err
			}
			if !reqObj.Unmarshal(append([]byte{}, st.Request().Marshal()...)) {
				return nil, fmt.Errorf("request does not decode")
			}
			resp, err := iss.Evaluate(reqObj)
			if err != nil {
				return nil, err
			}
			return func() ([]tokens.Token, error) {
				tok, err := st.FinalizeToken(append([]byte{}, resp...))
				return []tokens.Token{tok}, err
			}, nil
		}
	case 3:
		w := newT3World(rsaKey(2), c.seed, map[string]string{"seq.example": "a", "": "b", "a-much-longer-origin-name-than-one-block.example": "c"})
		origins := []string{"seq.example", "a-much-longer-origin-name-than-one-block.example", "", "seq.example"}
		i := 0
		var lastReq []byte
		noise = func() {
			if lastReq != nil { // the request answered last, with one signature bit flipped; and for an origin nobody registered
				w.issuer.Evaluate(flipBit(lastReq, 8*len(lastReq)-5))
			}
			if st, err := type3.NewRateLimitedClientFromSecret(p384Scalar(c.seed, "seq-client")).CreateTokenRequest([]byte("c"), make([]byte, 32),
				p384Scalar(c.seed, "seq-noise-blind"), w.issuer.TokenKeyID(), w.issuer.TokenKey(), "nobody.example", w.issuer.NameKey()); err == nil {
				w.issuer.Evaluate(st.Request().Marshal())
			}
		}
		oracle = func(tok tokens.Token) bool { return tok.TokenType == 3 && verifyPSS(w.issuer.TokenKey(), tok) == nil }
		one = func(n int, challenge []byte) (func() ([]tokens.Token, error), error) {
			i++
			art, err := honestT3(w, p384Scalar(c.seed, "seq-client"), p384Scalar(c.seed, fmt.Sprintf("seq-blind-%d", i)), challenge, randNonce(r), origins[i%len(origins)])
			if art != nil {
				lastReq = art.req
			}
			if err != nil {
				return nil, err
			}
			return func() ([]tokens.Token, error) {
				tok, err := art.state.FinalizeToken(append([]byte{}, art.resp...))
				return []tokens.Token{tok}, err
			}, nil
		}
	case 5:
		k := ristrettoKey(c.seed, "k1")
		iss := type5.NewBatchedPrivateIssuer(k)
		reqObj := new(type5.BatchedPrivateTokenRequest)
		noise = func() {
			bad := bytes.Repeat([]byte{0xff}, 32)
			iss.Evaluate(&type5.BatchedPrivateTokenRequest{TokenKeyID: iss.TokenKeyID()[31], BlindedReq: [][]byte{bad, bad, bad}})
			reqObj.Unmarshal([]byte{0, 5, 2, 3})
		}
		oracle = func(tok tokens.Token) bool {
			return tok.TokenType == 5 && bytes.Equal(fullEvaluate(oprf.SuiteRistretto255, k, authInput(tok)), tok.Authenticator)
		}
		one = func(n int, challenge []byte) (func() ([]tokens.Token, error), error) {
			nonces := [][]byte{}
			for j := 0; j < n; j++ {
				nonces = append(nonces, randNonce(r))
			}
			st, err := type5.NewBatchedPrivateClient().CreateTokenRequest(challenge, nonces, iss.TokenKeyID(), iss.TokenKey())
			if err != nil {
				return nil, err
			}
			if !reqObj.Unmarshal(append([]byte{}, st.Request().Marshal()...)) {
				return nil, fmt.Errorf("request does not decode")
			}
			resp, err := iss.Evaluate(reqObj)
			if err != nil {
				return nil, err
			}
			return func() ([]tokens.Token, error) { return st.FinalizeTokens(append([]byte{}, resp...)) }, nil
		}
	}
	for i, nv := range gL(in, "ns") {
		n := jInt(nv)
		e := ev{"op": "SeqRun", "t": t, "i": i, "n": n, "ok": false, "count": 0, "valid": false, "again_ok": true, "err": "", "panic": ""}
		e["panic"] = guard(func() {
			if i > 0 {
				guard(noise)
			}
			fin, err := one(n, randBytes(r, 8+i))
			if err != nil {
				e["err"] = err.Error()
				return
			}
			toks, err := fin()
			if err != nil {
				e["err"] = err.Error()
				return
			}
			e["ok"], e["count"] = true, len(toks)
			valid := true
			for _, tok := range toks {
				valid = valid && oracle(tok)
				kept = append(kept, tok)
				keptBytes = append(keptBytes, append([]byte{}, tok.Marshal()...))
			}
			e["valid"] = valid
			if i%2 == 1 {
				// a retry: the caller has used (and wiped) what the first finalization returned - those values are
				// its own - and finalizes the same response again. Whatever that call returns must again be the
				// request's valid tokens (or an error).
				first, err := fin()
				if err != nil {
					return
				}
				for _, tok := range first {
					for _, f := range [][]byte{tok.Nonce, tok.Context, tok.KeyID, tok.Authenticator} {
						for k := range f {
							f[k] ^= 0xa5
						}
					}
				}
				second, err := fin()
				if err == nil {
					for _, tok := range second {
						if !oracle(tok) {
							e["again_ok"] = false
						}
					}
					if len(second) != n && t == 5 {
						e["again_ok"] = false
					}
				}
			}
		})
		out = append(out, e)
	}
	same, valid := true, true
	for i, tok := range kept {
		same = same && bytes.Equal(tok.Marshal(), keptBytes[i])
		valid = valid && oracle(tok)
	}
	out = append(out, ev{"op": "SeqRetained", "t": t, "tokens": len(kept), "same": same, "valid": valid})
	return out
}

// execDetStress: request creation with caller-supplied blinds is a pure function - also when many goroutines create
// requests under the same key object at once (a client issuing requests in parallel). Every argument set is evaluated
// once alone and then `rounds` times by each of G goroutines; the event reports how many distinct requests / tokens
// were seen per argument set.
func execDetStress(c *ctx, in ev) []ev {
	t, G, rounds, nsets := gI(in, "t"), gI(in, "g"), gI(in, "rounds"), gI(in, "sets")
	type set struct {
		nonce, blind, salt []byte
		mu                 sync.Mutex
		reqs, toks         map[string]bool
		calls, errs        int
		firstErr           string
	}
	challenge := hashBytes(c.seed, "stress-ch", 24)
	var create func(s *set, finalize bool) ([]byte, []byte, error)
	switch t {
	case 1:
		iss := type1.NewBasicPrivateIssuer(p384Key(c.seed, "k1"))
		kid, pk := iss.TokenKeyID(), iss.TokenKey()
		create = func(s *set, finalize bool) ([]byte, []byte, error) {
			st, err := type1.NewBasicPrivateClient().CreateTokenRequestWithBlind(challenge, s.nonce, kid, pk, s.blind)
			if err != nil || !finalize {
				if err != nil {
					return nil, nil, err
				}
				return st.Request().Marshal(), nil, nil
			}
			resp, err := iss.Evaluate(st.Request())
			if err != nil {
				return nil, nil, err
			}
			tok, err := st.FinalizeToken(resp)
			if err != nil {
				return nil, nil, err
			}
			return st.Request().Marshal(), tok.Marshal(), nil
		}
	case 2:
		iss := type2.NewBasicPublicIssuer(rsaKey(0))
		kid, pk := iss.TokenKeyID(), iss.TokenKey() // ONE key object shared by all requests
		create = func(s *set, finalize bool) ([]byte, []byte, error) {
			st, err := type2.NewBasicPublicClient().CreateTokenRequestWithBlind(challenge, s.nonce, kid, pk, s.blind, s.salt)
			if err != nil || !finalize {
				if err != nil {
					return nil, nil, err
				}
				return st.Request().Marshal(), nil, nil
			}
			resp, err := iss.Evaluate(st.Request())
			if err != nil {
				return nil, nil, err
			}
			tok, err := st.FinalizeToken(resp)
			if err != nil {
				return nil, nil, err
			}
			return st.Request().Marshal(), tok.Marshal(), nil
		}
	case 5:
		iss := type5.NewBatchedPrivateIssuer(ristrettoKey(c.seed, "k1"))
		kid, pk := iss.TokenKeyID(), iss.TokenKey()
		create = func(s *set, finalize bool) ([]byte, []byte, error) {
			nonces := [][]byte{s.nonce, s.salt[:32]}
			blinds := [][]byte{s.blind[:32], s.blind[32:64]}
			st, err := type5.NewBatchedPrivateClient().CreateTokenRequestWithBlinds(challenge, nonces, kid, pk, blinds)
			if err != nil || !finalize {
				if err != nil {
					return nil, nil, err
				}
				return st.Request().Marshal(), nil, nil
			}
			resp, err := iss.Evaluate(st.Request())
			if err != nil {
				return nil, nil, err
			}
			ts, err := st.FinalizeTokens(resp)
			if err != nil {
				return nil, nil, err
			}
			var all []byte
			for _, tk := range ts {
				all = append(all, tk.Marshal()...)
			}
			return st.Request().Marshal(), all, nil
		}
	}
	sets := make([]*set, nsets)
	for i := range sets {
		s := &set{nonce: hashBytes(c.seed, fmt.Sprintf("stress-nonce-%d", i), 32), salt: hashBytes(c.seed, fmt.Sprintf("stress-salt-%d", i), 48),
			reqs: map[string]bool{}, toks: map[string]bool{}}
		switch t {
		case 1:
			s.blind = detBlind(c.seed, 1, fmt.Sprintf("sb%d", i))
		case 2:
			s.blind = hashBytes(c.seed, fmt.Sprintf("stress-blind-%d", i), 255)
			s.blind[0] |= 1
		case 5:
			s.blind = append(detBlind(c.seed, 5, fmt.Sprintf("sb%d", i)), detBlind(c.seed, 5, fmt.Sprintf("sc%d", i))...)
		}
		sets[i] = s
	}
	one := func(s *set, finalize bool) {
		var req, tok []byte
		var err error
		if p := guard(func() { req, tok, err = create(s, finalize) }); p != "" {
			err = fmt.Errorf("panic: %s", p)
		}
		s.mu.Lock()
		defer s.mu.Unlock()
		s.calls++
		if err != nil {
			s.errs++
			if s.firstErr == "" {
				s.firstErr = err.Error()
			}
			return
		}
		s.reqs[string(req)] = true
		if tok != nil {
			s.toks[string(tok)] = true
		}
	}
	for _, s := range sets { // alone, one call at a time
		one(s, true)
	}
	var wg sync.WaitGroup
	start := make(chan struct{})
	for w := 0; w < G; w++ {
		w := w
		wg.Add(1)
		go func() {
			defer wg.Done()
			<-start
			for r := 0; r < rounds; r++ {
				for i := range sets {
					one(sets[(i+w)%len(sets)], (i+r+w)%8 == 0)
				}
			}
		}()
	}
	close(start)
	wg.Wait()
	out := []ev{}
	for i, s := range sets {
		out = append(out, ev{"op": "DetStress", "t": t, "set": i, "goroutines": G, "calls": s.calls, "errors": s.errs, "err": s.firstErr,
			"distinct_req": len(s.reqs), "distinct_tok": len(s.toks)})
	}
	return out
}

// shipped vector files of the pinned library version (requests, responses and tokens as recorded bytes)
type goVector struct {
	SkS       string   `json:"skS"`
	PkS       string   `json:"pkS"`
	Challenge string   `json:"token_challenge"`
	Nonce     string   `json:"nonce"`
	Nonces    []string `json:"nonces"`
	Blind     string   `json:"blind"`
	Blinds    []string `json:"blinds"`
	Salt      string   `json:"salt"`
	Request   string   `json:"token_request"`
	Response  string   `json:"token_response"`
	Token     string   `json:"token"`
	Tokens    []string `json:"tokens"`
}

func loadGoVectors(rel string) []goVector {
	data, err := os.ReadFile(repoPath(rel))
	if err != nil {
		return nil
	}
	var v []goVector
	if json.Unmarshal(data, &v) != nil {
		return nil
	}
	return v
}

// execShippedVectors replays the repository's own recorded vectors: the
// request must be reproduced byte for byte and the recorded response must
// finalize to the recorded token(s).
func execShippedVectors(c *ctx) []ev {
	out := []ev{}
	add := func(name string, i int, f func() (bool, bool)) {
		e := ev{"op": "Vector", "index": name + fmt.Sprint(i), "req_eq": false, "tok_eq": false, "batch_eq": true, "err": ""}
		p := guard(func() { e["req_eq"], e["tok_eq"] = f() })
		if p != "" {
			e["err"] = "panic: " + p
		}
		out = append(out, e)
	}
	for i, v := range loadGoVectors("tokens/type1/type1-issuance-test-vectors.json") {
		v := v
		add("type1-", i, func() (bool, bool) {
			iss := type1.NewBasicPrivateIssuer(util.MustUnmarshalPrivateOPRFKey(unhex(v.SkS)))
			st, err := type1.NewBasicPrivateClient().CreateTokenRequestWithBlind(unhex(v.Challenge), unhex(v.Nonce), iss.TokenKeyID(), iss.TokenKey(), unhex(v.Blind))
			if err != nil {
				return false, false
			}
			tok, err := st.FinalizeToken(unhex(v.Response))
			return bytes.Equal(st.Request().Marshal(), unhex(v.Request)), err == nil && bytes.Equal(tok.Marshal(), unhex(v.Token))
		})
	}
	for i, v := range loadGoVectors("tokens/type2/type2-issuance-test-vectors.json") {
		v := v
		add("type2-", i, func() (bool, bool) {
			iss := type2.NewBasicPublicIssuer(util.MustUnmarshalPrivateKey(unhex(v.SkS)))
			st, err := type2.NewBasicPublicClient().CreateTokenRequestWithBlind(unhex(v.Challenge), unhex(v.Nonce), iss.TokenKeyID(), iss.TokenKey(), unhex(v.Blind), unhex(v.Salt))
			if err != nil {
				return false, false
			}
			tok, err := st.FinalizeToken(unhex(v.Response))
			return bytes.Equal(st.Request().Marshal(), unhex(v.Request)), err == nil && bytes.Equal(tok.Marshal(), unhex(v.Token))
		})
	}
	for i, v := range loadGoVectors("tokens/type5/type5-issuance-test-vectors.json") {
		v := v
		add("type5-", i, func() (bool, bool) {
			iss := type5.NewBatchedPrivateIssuer(util.MustUnmarshalBatchedPrivateOPRFKey(unhex(v.SkS)))
			var nonces, blinds [][]byte
			for _, x := range v.Nonces {
				nonces = append(nonces, unhex(x))
			}
			for _, x := range v.Blinds {
				blinds = append(blinds, unhex(x))
			}
			st, err := type5.NewBatchedPrivateClient().CreateTokenRequestWithBlinds(unhex(v.Challenge), nonces, iss.TokenKeyID(), iss.TokenKey(), blinds)
			if err != nil {
				return false, false
			}
			toks, err := st.FinalizeTokens(unhex(v.Response))
			ok := err == nil && len(toks) == len(v.Tokens)
			for k := range toks {
				ok = ok && k < len(v.Tokens) && bytes.Equal(toks[k].Marshal(), unhex(v.Tokens[k]))
			}
			return bytes.Equal(st.Request().Marshal(), unhex(v.Request)), ok
		})
	}
	return out
}

func execVectors(c *ctx, in ev) []ev {
	out := execShippedVectors(c)
	for vi, v := range loadRustVectors() {
		e := ev{"op": "Vector", "index": vi, "req_eq": false, "tok_eq": false, "batch_eq": false, "err": ""}
		p := guard(func() {
			reqEq, tokEq := true, true
			var reqs []tokens.TokenRequestWithDetails
			var issuers []batched.Issuer
			var fins []func([]byte) (tokens.Token, error)
			for _, is := range v.Issuance {
				challenge, nonce := unhex(is.Challenge), unhex(is.Nonce)
				switch is.Type {
				case "0001":
					sk := util.MustUnmarshalPrivateOPRFKey(unhex(is.SkS))
					iss := type1.NewBasicPrivateIssuer(sk)
					pk, _ := iss.TokenKey().MarshalBinary()
					reqEq = reqEq && bytes.Equal(pk, unhex(is.PkS))
					st, err := type1.NewBasicPrivateClient().CreateTokenRequestWithBlind(challenge, nonce, iss.TokenKeyID(), iss.TokenKey(), unhex(is.Blind))
					if err != nil {
						panic(err)
					}
					reqs = append(reqs, st.Request())
					issuers = append(issuers, batchIssuer1{iss})
					fins = append(fins, st.FinalizeToken)
				case "0002":
					sk := util.MustUnmarshalPrivateKey(unhex(is.SkS))
					iss := type2.NewBasicPublicIssuer(sk)
					pk, _ := util.MarshalTokenKeyPSSOID(iss.TokenKey())
					reqEq = reqEq && bytes.Equal(pk, unhex(is.PkS))
					st, err := type2.NewBasicPublicClient().CreateTokenRequestWithBlind(challenge, nonce, iss.TokenKeyID(), iss.TokenKey(), unhex(is.Blind), unhex(is.Salt))
					if err != nil {
						panic(err)
					}
					reqs = append(reqs, st.Request())
					issuers = append(issuers, batchIssuer2{iss})
					fins = append(fins, st.FinalizeToken)
				}
			}
			br, err := batched.NewBasicClient().CreateTokenRequest(reqs)
			if err != nil {
				panic(err)
			}
			e["batch_eq"] = bytes.Equal(br.Marshal(), unhex(v.TokenRequest))
			// the Rust request bytes, decoded by this library, evaluated and finalized
			dec := new(batched.BatchedTokenRequest)
			if !dec.Unmarshal(unhex(v.TokenRequest)) {
				e["err"] = "rust token_request does not decode"
				reqEq = false
			} else {
				resp, err := batched.NewBasicBatchedIssuer(issuers...).EvaluateBatch(dec)
				if err != nil {
					panic(err)
				}
				rs, err := batched.UnmarshalBatchedTokenResponses(resp)
				if err != nil || len(rs) != len(fins) {
					e["err"] = "response list: " + errStr(err)
					tokEq = false
				} else {
					for i, f := range fins {
						tok, err := f(rs[i])
						if err != nil || !bytes.Equal(tok.Marshal(), unhex(v.Issuance[i].Token)) {
							tokEq = false
						}
					}
				}
			}
			// the Rust response bytes finalize to the Rust tokens as well (fresh states needed: finalize again)
			e["req_eq"], e["tok_eq"] = reqEq, tokEq
		})
		if p != "" {
			e["err"] = "panic: " + p
		}
		out = append(out, e)
	}
	return out
}

// ---------------------------------------------------------------------------

func genIssuance(c *ctx, emit func(ev)) {
	r := newRand(c.seed, "issuance")
	want := func(kind string) bool { return c.arg == "" || strings.Contains(","+c.arg+",", ","+kind+",") }
	rid := 0
	run := func(t, n, chlen, olen int, mut ev) {
		rid++
		emit(ev{"op": "Run", "rid": rid, "t": t, "n": n, "chlen": chlen, "olen": olen, "mut": mut})
	}
	id := ev{"kind": "Id"}
	if want("honest") { // C01: the configuration space, honest network
		chl := []int{0, 1, 32, 33, 1000}
		ns := []int{1, 2, 3, 8, 511, 512, 513} // 512 elements are 16384 bytes: the first length needing a four-byte varint
		ols := []int{0, 1, 14, 31, 32, 33, 64}
		if c.thorough() {
			chl = append(chl, 31, 255, 4096, 70000)
			ns = []int{}
			for i := 1; i <= 64; i++ {
				ns = append(ns, i)
			}
			ns = append(ns, 100, 255, 511, 512, 513)
			ols = []int{}
			for i := 0; i <= 130; i++ {
				ols = append(ols, i)
			}
		}
		reps := c.tierInt(4, 6)
		for rep := 0; rep < reps; rep++ {
			for _, ch := range chl {
				run(1, 1, ch, 0, id)
				run(2, 1, ch, 0, id)
				run(3, 1, ch, 14, id)
				run(5, 2, ch, 0, id)
			}
			for _, n := range ns {
				run(5, n, 32, 0, id)
			}
			for _, st := range []string{"tc", "tc-b64url", "tc-b64url-pad", "tc-b64-std", "tc-quoted", "tc-hex"} {
				for _, t := range []int{1, 2, 3, 5} {
					rid++
					emit(ev{"op": "Run", "rid": rid, "t": t, "n": 1, "chlen": 0, "olen": 14, "mut": id, "chstyle": st})
				}
			}
			for _, ol := range ols {
				run(3, 1, 32, ol, id)
			}
		}
	}
	if want("honest") { // C01: endurance - hundreds (thorough: tens of thousands) of honest runs through the same objects
		for _, tn := range [][3]int{{1, 300, 66000}, {5, 300, 66000}, {2, 270, 3000}, {3, 1200, 3000}} {
			emit(ev{"op": "Endure", "t": tn[0], "n": c.tierFixed(tn[1], tn[2])})
		}
	}
	if want("honest") || want("mutations") { // C01, C02: sequences through long-lived objects
		sid := 0
		for rep := 0; rep < c.tierInt(2, 6); rep++ {
			for _, t := range []int{1, 2, 3, 5} {
				ns := []any{1, 1, 1, 1, 1, 1}
				if t == 5 {
					ns = []any{3, 5, 2, 1, 4, 4, 1, 6, 2}
				}
				sid++
				emit(ev{"op": "RunSeq", "t": t, "ns": ns, "sid": sid})
			}
		}
	}
	if want("mutations") { // C02
		sizes := map[int]map[string]int{1: {"elem": 49, "proof": 96}, 2: {"sig": 256}, 3: {"rnonce": 16, "ct": 272}, 5: {"len": 1, "elem": 96, "proof": 64}}
		for _, t := range []int{1, 2, 3, 5} {
			n := 1
			if t == 5 {
				n = 3
			}
			for f, sz := range sizes[t] {
				step := 8
				if c.thorough() || f == "proof" || f == "rnonce" || f == "len" {
					step = 1 // every bit
				}
				for b := 0; b < sz*8; b += step {
					bit := b
					if step > 1 {
						bit = b + r.Intn(step)
					}
					run(t, n, 16, 14, ev{"kind": "Flip", "f": f, "bit": bit})
				}
			}
			if t == 5 {
				// every bit of the list's length prefix, for every width of that prefix that occurs (one and two bytes)
				for _, n5 := range []int{1, 2, 3, c.tierFixed(4, 8)} {
					for b := 0; b < 16; b++ {
						run(5, n5, 16, 0, ev{"kind": "Flip", "f": "len", "bit": b})
					}
				}
			}
			for rep := 0; rep < c.tierInt(2, 6); rep++ {
				if t == 1 || t == 5 {
					run(t, n, 16, 14, ev{"kind": "ForeignKeyCollide"})
				}
				for _, nl := range []int{0, 31, 33, 64} {
					run(t, n, 16, 14, ev{"kind": "OddNonce", "len": nl})
				}
				for _, kl := range []int{1, 31, 33, 64} {
					run(t, n, 16, 14, ev{"kind": "OddKeyID", "len": kl})
				}
				if t == 5 { // one odd nonce deep inside a larger batch (beyond any chunk a batch may be processed in)
					for _, at := range [][2]int{{20, 17}, {40, 33}, {70, 70}} {
						run(5, at[0], 16, 0, ev{"kind": "OddNonce", "len": 31, "at": at[1]})
						run(5, at[0], 16, 0, ev{"kind": "OddNonce", "len": 33, "at": at[1], "with_blinds": true})
					}
				}
				if t != 3 { // the same through the ...WithBlind(s) entry points
					for _, nl := range []int{0, 31, 33, 64} {
						run(t, n, 16, 14, ev{"kind": "OddNonce", "len": nl, "with_blinds": true})
					}
					run(t, n, 16, 14, ev{"kind": "OddKeyID", "len": 33, "with_blinds": true})
				}
				if t == 2 {
					for _, sl := range []int{0, 20, 32, 47, 49, 64} {
						run(2, 1, 16, 0, ev{"kind": "OddSalt", "len": sl})
					}
				}
				if t == 5 {
					run(1, 1, 16, 0, ev{"kind": "ZeroBlind"})
					run(1, 1, 16, 0, ev{"kind": "ZeroBlind", "len": 48})
					run(5, 1, 16, 0, ev{"kind": "ZeroBlind"})
					run(5, 3, 16, 0, ev{"kind": "ZeroBlind"})
					for _, f := range []string{"order", "top", "order-top"} {
						run(5, 1, 16, 0, ev{"kind": "ZeroBlind", "form": f})
						run(5, 2, 16, 0, ev{"kind": "ZeroBlind", "form": f})
					}
					for _, bl := range []int{0, 31, 33} { // malformed first blind
						run(5, 2, 16, 0, ev{"kind": "ZeroBlind", "len": bl})
					}
				}
				if t == 2 {
					run(t, n, 16, 14, ev{"kind": "BigKey"})
				}
				run(t, n, 16, 14, ev{"kind": "ForeignKey"})
				run(t, n, 16, 14, ev{"kind": "ForeignReq"})
				run(t, n, 16, 14, ev{"kind": "Random"})
				run(t, n, 16, 14, ev{"kind": "Extend", "k": 1})
				run(t, n, 16, 14, ev{"kind": "Extend", "k": 32})
			}
			rl := map[int]int{1: 145, 2: 256, 3: 288, 5: 1 + 96 + 64}[t]
			for k := 0; k < rl; k += c.tierInt(3, 1) {
				run(t, n, 16, 14, ev{"kind": "Truncate", "k": k})
			}
		}
		// type 5 list mutations
		maxN := c.tierFixed(3, 5)
		for n := 1; n <= maxN; n++ {
			for i := 1; i <= n; i++ {
				run(5, n, 16, 0, ev{"kind": "Drop", "i": i})
				run(5, n, 16, 0, ev{"kind": "Dup", "i": i})
			}
			if n >= 2 {
				run(5, n, 16, 0, ev{"kind": "Swap"})
				run(5, n, 16, 0, ev{"kind": "OtherBatchElem"})
				for i := 1; i <= n; i++ {
					run(5, n, 16, 0, ev{"kind": "SubsetProof", "i": i, "fill": "identity"})
					run(5, n, 16, 0, ev{"kind": "SubsetProof", "i": i, "fill": "neighbour"})
				}
			}
			if n >= 2 && n <= 4 || (n == 5 && c.thorough()) {
				for _, p := range permutations(n) {
					run(5, n, 16, 0, ev{"kind": "Perm", "p": p})
				}
			}
		}
	}
	if want("verify") { // C10
		// the honest token under other token types: all 65535 of them, in 32 chunks
		for _, what := range []string{"t1verify", "t5verify"} {
			for lo := 0; lo < 65536; lo += 2048 {
				emit(ev{"op": "TypeSweep", "what": what, "lo": lo, "hi": lo + 2048, "stride": 1})
			}
		}
		vid := 0
		ver := func(t int, tm ev) {
			vid++
			emit(ev{"op": "Verify", "rid": vid, "t": t, "tmut": tm})
		}
		for _, t := range []int{1, 5} {
			authLen := map[int]int{1: 48, 5: 64}[t]
			for rep := 0; rep < c.tierInt(3, 10); rep++ {
				ver(t, ev{"kind": "Id"})
				ver(t, ev{"kind": "OtherKey"})
				ver(t, ev{"kind": "OtherType"})
			}
			for f, sz := range map[string]int{"nonce": 32, "context": 32, "key_id": 32, "auth": authLen} {
				step := c.tierInt(8, 1)
				for b := 0; b < sz*8; b += step {
					bit := b
					if step > 1 {
						bit = b + r.Intn(step)
					}
					ver(t, ev{"kind": "Flip", "f": f, "bit": bit})
				}
			}
			for b := 0; b < 16; b++ {
				ver(t, ev{"kind": "TypeField", "bit": b})
			}
			for _, k := range []string{"ShiftNonceContext", "ShiftContextKeyID", "NonceShort", "NonceLong", "KeyIDShort", "KeyIDLong", "KeyIDLastByteOnly",
				"EmptyNonce", "EmptyAll", "AuthShort", "AuthLong", "AuthEmpty",
				"NonceAppend", "ContextAppend", "KeyIDAppend", "NonceTrimZero", "ShiftKeyIDAuth", "ShiftAuthKeyID"} {
				ver(t, ev{"kind": k})
			}
			// histories on ONE issuer object: an honest token first, then variants that share its nonce / authenticator
			for rep := 0; rep < c.tierInt(3, 12); rep++ {
				steps := []any{ev{"kind": "Id"}}
				for _, f := range []string{"context", "key_id", "nonce", "auth"} {
					steps = append(steps, ev{"kind": "Flip", "f": f, "bit": r.Intn(256)}, ev{"kind": "Id"})
				}
				steps = append(steps, ev{"kind": "TypeField", "bit": r.Intn(16)}, ev{"kind": "OtherKey"}, ev{"kind": "Id"},
					ev{"kind": "ShiftNonceContext"}, ev{"kind": "KeyIDLastByteOnly"}, ev{"kind": "AuthPrefix", "k": 5}, ev{"kind": "Id"},
					// after the honest token was accepted by this issuer object: the same fields with bytes appended / moved
					ev{"kind": "NonceAppend"}, ev{"kind": "ContextAppend"}, ev{"kind": "KeyIDAppend"}, ev{"kind": "AuthLong"},
					ev{"kind": "ShiftKeyIDAuth"}, ev{"kind": "ShiftAuthKeyID"}, ev{"kind": "NonceTrimZero"}, ev{"kind": "Id"})
				vid++
				emit(ev{"op": "VerifySeq", "rid": vid, "t": t, "steps": steps})
			}
			for k := 0; k < authLen; k += c.tierInt(5, 1) {
				ver(t, ev{"kind": "AuthPrefix", "k": k})
			}
		}
	}
	if want("rl") { // C07
		qid := 0
		rl := func(cls ev) {
			qid++
			emit(ev{"op": "RLEval", "rid": qid, "cls": cls})
		}
		for rep := 0; rep < c.tierInt(3, 8); rep++ {
			rl(ev{"kind": "Id"})
			rl(ev{"kind": "IdLong"})
			rl(ev{"kind": "ResealedHonest"})
			rl(ev{"kind": "ForeignIssuer"})
			rl(ev{"kind": "OtherSigner"})
			rl(ev{"kind": "OtherContents"})
			rl(ev{"kind": "NoSig"})
			rl(ev{"kind": "Trailing"})
			rl(ev{"kind": "Trailing", "n": 65536})
			rl(ev{"kind": "Trailing", "n": 65536 * (2 + rep%3)})
			rl(ev{"kind": "BadKey"})
			rl(ev{"kind": "WrongAAD"})
			for _, k := range []int{0, 1, 100, 256, 257, 258, 300} {
				rl(ev{"kind": "BadInner", "k": k})
			}
			for _, v := range []string{"last-byte", "prefix", "suffix", "inner-nul", "case", "empty", "long", "nul-suffix", "nul-suffix-short", "nul-prefix",
				"space-suffix", "space-prefix", "tab-suffix", "upper", "other-issuers-origin", "comma-suffix", "comma-only", "comma-prefix", "block-prefix-32", "block-prefix-64", "block-prefix-31", "long-last-byte"} {
				rl(ev{"kind": "Unregistered", "variant": v})
			}
		}
		// histories on ONE issuer object: answered requests followed by replays of their parts
		seqReps := c.tierInt(4, 16)
		if seqReps > 240 { // (these histories are long and full of answered requests: the depth factor of C07 is calibrated on cheap refusals)
			seqReps = 240
		}
		for rep := 0; rep < seqReps; rep++ {
			steps := []any{ev{"kind": "Id"}, ev{"kind": "ReplaySame"}, ev{"kind": "ReplayEncOtherKey"}, ev{"kind": "Id"},
				ev{"kind": "ReplayEncFlipped", "bit": r.Intn(2000)}, ev{"kind": "Flip", "f": "sig", "bit": r.Intn(768)}, ev{"kind": "Id"},
				ev{"kind": "Unregistered", "variant": "long"}, ev{"kind": "Unregistered", "variant": "empty"}, ev{"kind": "Id"},
				ev{"kind": "ReplayEncOtherKey"}, ev{"kind": "BadKey"}, ev{"kind": "ReplaySame"}}
			qid++
			emit(ev{"op": "RLSeq", "rid": qid, "steps": steps})
			// every altered request submitted twice (and a third time after an honest one) to the same issuer object
			var alts []ev
			for _, f := range []string{"type", "request_key", "name_key_id", "enc_len", "enc", "sig"} {
				alts = append(alts, ev{"kind": "Flip", "f": f, "bit": r.Intn(4000)})
			}
			alts = append(alts, ev{"kind": "OtherSigner"}, ev{"kind": "OtherContents"}, ev{"kind": "BadKey"}, ev{"kind": "WrongAAD"},
				ev{"kind": "BadInner", "k": 100}, ev{"kind": "ForeignIssuer"}, ev{"kind": "Unregistered", "variant": "prefix"},
				ev{"kind": "NoSig"}, ev{"kind": "Trailing"}, ev{"kind": "ReplayEncOtherKey"})
			steps = []any{ev{"kind": "Id"}}
			for i, a := range alts {
				l := fmt.Sprintf("s%d", i)
				first, again := ev{"save": l}, ev{"again": l}
				for k, v := range a {
					first[k], again[k] = v, v
				}
				steps = append(steps, first, again)
				if r.Intn(3) == 0 {
					steps = append(steps, ev{"kind": "Id", "save": "h"}, ev{"kind": "Id", "again": "h"})
				}
				steps = append(steps, again)
			}
			qid++
			emit(ev{"op": "RLSeq", "rid": qid, "steps": steps})
		}
		// the honest request under every other token type (refused at the first check: cheap)
		for lo := 0; lo < 65536; lo += 8192 {
			emit(ev{"op": "TypeSweep", "what": "rl", "lo": lo, "hi": lo + 8192, "stride": 1})
		}
		// every bit of an encoded request (both tiers; rejections are cheap)
		sizes := map[string]int{"type": 2, "request_key": 49, "name_key_id": 32, "enc_len": 2, "enc": 32 + 259 + 32 + 16, "sig": 96}
		for f, sz := range sizes {
			for b := 0; b < sz*8; b++ {
				rl(ev{"kind": "Flip", "f": f, "bit": b})
			}
		}
	}
	if want("det") { // C11
		names := []string{"b1", "b2", "one", "lead0"}
		if c.thorough() {
			names = append(names, "n-1", "b3", "b4", "b5", "b6", "b7", "b8", "b9", "b10", "b11", "b12", "b13")
		}
		rows := []any{}
		// type 5: batch compositions - an element is a function of (key, nonce, blind) wherever it stands
		for _, key := range []string{"k1", "k2"} {
			for _, comp := range [][2]string{{"n1+n2", "b1+b2"}, {"n1+n2", "b2+b1"}, {"n2+n1", "b2+b1"}, {"n1", "b1"}, {"n2", "b2"}, {"n1", "b2"},
				{"n1+n2+n3", "b1+b2+one"}, {"n3+n1", "one+b1"}, {"n1+n2", "b1+b1"}, {"n1+n2", "b1+b2"}, {"n1+n2", "lead0+b2"}, {"n1+n2", "b3+b4"},
				{"many511", "mb"}, {"many512", "mb"}, {"many512", "mb"}, {"many512", "mc"},
				{"many512", "mb"}, {"many512", "mb"}, {"many512", "mb"}, {"many512", "mb"}, {"many64", "mb"}, {"many64", "mb"}, {"many64", "mb"}, {"many64", "mb"},
				{"n1", "zero"}, {"n1+n2", "b1+zero"}, {"n1+n2", "zero+b2"}, {"n1", "zero-order"}, {"n1", "zero-top"}, {"n1", "zero-order-top"},
				{"n1+n2", "b1+zero-order"}, {"n1+n2", "zero-top+b2"},
				// batches in which a nonce is repeated, each row twice: the request is a function of the arguments (order included)
				{"n1+n1+n2", "b1+b1+b2"}, {"n1+n1+n2", "b1+b1+b2"}, {"n1+n2+n1+n3", "b1+b2+b3+b4"}, {"n1+n2+n1+n3", "b1+b2+b3+b4"}, {"n2+n1+n3+n1", "b2+b1+b4+b3"}, {"n1", "short"}, {"n1+n2", "short+b2"}, {"n1+n2+n3", "b1+short+b2"}} {
				rows = append(rows, ev{"t": 5, "key": key, "nc": comp[0], "blind": comp[1], "salt": "s1"})
			}
		}
		for _, t := range []int{1, 2} {
			for _, key := range []string{"k1", "k2"} {
				for _, nc := range []string{"n1", "n2"} {
					for _, salt := range []string{"s1", "s2"} {
						if t != 2 && salt == "s2" {
							continue
						}
						for _, b := range names {
							rows = append(rows, ev{"t": t, "key": key, "nc": nc, "blind": b, "salt": salt})
						}
						// repeat one: request creation must be a pure function of its arguments
						rows = append(rows, ev{"t": t, "key": key, "nc": nc, "blind": names[0], "salt": salt})
						if salt == "s1" && nc == "n1" {
							rows = append(rows, ev{"t": t, "key": key, "nc": nc, "blind": "zero", "salt": salt})
							rows = append(rows, ev{"t": t, "key": key, "nc": nc, "blind": "zero-order", "salt": salt})
						}
						if t == 2 && salt == "s1" && nc == "n1" {
							// zero-length salts (twice each, and under two blinds): still a function of the arguments
							for _, z := range []string{"empty", "nil", "empty", "nil"} {
								rows = append(rows, ev{"t": 2, "key": key, "nc": nc, "blind": names[0], "salt": z})
							}
							rows = append(rows, ev{"t": 2, "key": key, "nc": nc, "blind": names[1], "salt": "empty"})
						}
					}
				}
			}
		}
		emit(ev{"op": "DetMatrix", "rows": rows, "mode": "shared"})
		for rep := 0; rep < c.tierInt(3, 12); rep++ {
			emit(ev{"op": "DetMatrix", "rows": rows, "mode": "par", "rep": rep})
		}
		for _, t := range []int{1, 2, 5} {
			emit(ev{"op": "DetStress", "t": t, "g": 16, "rounds": c.tierInt(10, 60), "sets": 12})
		}
		emit(ev{"op": "Vectors"})
	}
}

func permutations(n int) [][]int {
	var out [][]int
	var rec func(cur []int, used []bool)
	rec = func(cur []int, used []bool) {
		if len(cur) == n {
			out = append(out, append([]int{}, cur...))
			return
		}
		for i := 1; i <= n; i++ {
			if !used[i] {
				used[i] = true
				rec(append(cur, i), used)
				used[i] = false
			}
		}
	}
	rec(nil, make([]bool, n+1))
	return out
}

// poison overwrites a buffer the library was given (after the call returned).
func poison(b []byte) {
	for i := range b {
		b[i] ^= 0xa5
	}
}
