package main

import (
	"bytes"
	"crypto"
	stdecdsa "crypto/ecdsa"
	stded "crypto/ed25519"
	"crypto/elliptic"
	cryptorand "crypto/rand"
	"crypto/sha512"
	"encoding/hex"
	"errors"
	"fmt"
	"io"
	"math/big"
	"runtime"
	"strings"

	"github.com/cloudflare/pat-go/ecdsa"
	"github.com/cloudflare/pat-go/ed25519"
	"golang.org/x/crypto/cryptobyte"
	"golang.org/x/crypto/cryptobyte/asn1"
)

// Family "sigforks" (properties C13 and C14): the ECDSA and Ed25519 forks
// against the Go standard library on adversarial verification inputs, cross
// signing, and scripted failing entropy readers. Trace_SigForks.tla checks
// the decision structure (range / DER strictness / canonical S) itself and
// requires fork = reference everywhere.

func init() { register("sigforks", &family{gen: genSigForks, exec: execSigForks}) }

// scriptReader delivers avail bytes in chunks and then fails.
type scriptReader struct {
	avail       int // -1: never fails
	chunk       int // 0: as much as asked
	errWithData bool
	err         error
	consumed    int
	calls       int
	transient   bool // the failure happens ONCE; a caller that reads on afterwards gets bytes again
	failed      bool
}

func (s *scriptReader) Read(p []byte) (int, error) {
	s.calls++
	n := len(p)
	if s.chunk > 0 && n > s.chunk {
		n = s.chunk
	}
	if s.avail >= 0 && !(s.transient && s.failed) {
		left := s.avail - s.consumed
		if left <= 0 {
			s.failed = true
			return 0, s.err
		}
		if n >= left {
			n = left
			for i := 0; i < n; i++ {
				p[i] = byte(0x5a + s.consumed + i)
			}
			s.consumed += n
			if s.errWithData {
				s.failed = true
				return n, s.err
			}
			return n, nil
		}
	}
	for i := 0; i < n; i++ {
		p[i] = byte(0x5a + s.consumed + i)
	}
	s.consumed += n
	return n, nil
}

var errCustom = errors.New("entropy source failed")

func errOf(kind string) error {
	switch kind {
	case "eof":
		return io.EOF
	case "unexpected":
		return io.ErrUnexpectedEOF
	}
	return errCustom
}

func sfKey(seed int64, curve elliptic.Curve, name string) *ecdsa.PrivateKey {
	k, _ := rawKey(curve, kbScalar(seed, curve, "sf-"+name).Bytes())
	return k
}

func stdPub(k *ecdsa.PublicKey) *stdecdsa.PublicKey {
	return &stdecdsa.PublicKey{Curve: k.Curve, X: k.X, Y: k.Y}
}

func stdPriv(k *ecdsa.PrivateKey) *stdecdsa.PrivateKey {
	return &stdecdsa.PrivateKey{PublicKey: *stdPub(&k.PublicKey), D: k.D}
}

func derSig(r, s *big.Int) []byte {
	var b cryptobyte.Builder
	b.AddASN1(asn1.SEQUENCE, func(b *cryptobyte.Builder) {
		b.AddASN1BigInt(r)
		b.AddASN1BigInt(s)
	})
	return b.BytesOrPanic()
}

func execSigForks(c *ctx, in ev) []ev {
	op := gS(in, "op")
	switch op {
	case "VerifyRS":
		curve := kbCurves[gS(in, "curve")]
		key := sfKey(c.seed, curve, "k")
		if kd := gB(in, "d"); len(kd) > 0 { // a key made for this signature
			key, _ = rawKey(curve, kd)
		}
		if qx := gB(in, "qx"); len(qx) > 0 { // a public key given by its coordinates (no private key known)
			key = &ecdsa.PrivateKey{PublicKey: ecdsa.PublicKey{Curve: curve, X: new(big.Int).SetBytes(qx), Y: new(big.Int).SetBytes(gB(in, "qy"))}}
		}
		d := gB(in, "digest")
		r := new(big.Int).SetBytes(gB(in, "r"))
		s := new(big.Int).SetBytes(gB(in, "s"))
		if gBool(in, "rneg") {
			r.Neg(r)
		}
		if gBool(in, "sneg") {
			s.Neg(s)
		}
		r0, s0, d0 := new(big.Int).Set(r), new(big.Int).Set(s), append([]byte{}, d...)
		var fork, fork2, std bool
		argsSame := false
		p := guard(func() {
			fork = ecdsa.Verify(&key.PublicKey, d, r, s)
			argsSame = r.Cmp(r0) == 0 && s.Cmp(s0) == 0 && bytes.Equal(d, d0)
			fork2 = ecdsa.Verify(&key.PublicKey, d, r, s) // the same call again, on the same argument objects
			std = stdecdsa.Verify(stdPub(&key.PublicKey), d0, r0, s0)
		})
		return []ev{{"op": op, "curve": gS(in, "curve"), "digest": B(d0), "r": in["r"], "s": in["s"], "rneg": gBool(in, "rneg"), "sneg": gBool(in, "sneg"),
			"valid": gBool(in, "valid"), "fork": fork, "fork2": fork2, "args_same": argsSame, "std": std, "panic": p}}
	case "VerifyASN1":
		curve := kbCurves[gS(in, "curve")]
		key := sfKey(c.seed, curve, "k")
		d, sig := gB(in, "digest"), gB(in, "sig")
		var fork, std bool
		p := guard(func() {
			fork = ecdsa.VerifyASN1(&key.PublicKey, d, sig)
			std = stdecdsa.VerifyASN1(stdPub(&key.PublicKey), d, sig)
		})
		return []ev{{"op": op, "curve": gS(in, "curve"), "digest": B(d), "sig": B(sig), "valid": gBool(in, "valid"), "fork": fork, "std": std, "panic": p}}
	case "Cross":
		curve := kbCurves[gS(in, "curve")]
		key := sfKey(c.seed, curve, "k")
		d := gB(in, "digest")
		ok := false
		p := guard(func() {
			switch gS(in, "kind") {
			case "fork-sign/std-verify":
				r, s, err := ecdsa.Sign(cryptorand.Reader, key, d)
				ok = err == nil && stdecdsa.Verify(stdPub(&key.PublicKey), d, r, s) && ecdsa.Verify(&key.PublicKey, d, r, s)
			case "std-sign/fork-verify":
				r, s, err := stdecdsa.Sign(cryptorand.Reader, stdPriv(key), d)
				ok = err == nil && ecdsa.Verify(&key.PublicKey, d, r, s)
			case "fork-signasn1/std-verifyasn1":
				sig, err := ecdsa.SignASN1(cryptorand.Reader, key, d)
				ok = err == nil && stdecdsa.VerifyASN1(stdPub(&key.PublicKey), d, sig) && ecdsa.VerifyASN1(&key.PublicKey, d, sig)
			case "std-signasn1/fork-verifyasn1":
				sig, err := stdecdsa.SignASN1(cryptorand.Reader, stdPriv(key), d)
				ok = err == nil && ecdsa.VerifyASN1(&key.PublicKey, d, sig)
			case "signer-interface/std-verifyasn1":
				sig, err := key.Sign(cryptorand.Reader, d, crypto.SHA256)
				ok = err == nil && stdecdsa.VerifyASN1(stdPub(&key.PublicKey), d, sig)
			case "blind-sign/std-verify":
				bk, _ := rawKey(curve, kbBlindBytes(c.seed, curve, "b1"))
				r, s, err := ecdsa.BlindKeySignWithContext(cryptorand.Reader, key, bk, d, []byte("ctx"))
				pub, err2 := ecdsa.BlindPublicKeyWithContext(curve, &key.PublicKey, bk, []byte("ctx"))
				ok = err == nil && err2 == nil && stdecdsa.Verify(stdPub(pub), d, r, s) && !stdecdsa.Verify(stdPub(&key.PublicKey), d, r, s)
			case "generated-key":
				k, err := ecdsa.GenerateKey(curve, cryptorand.Reader)
				if err == nil {
					r, s, err := ecdsa.Sign(cryptorand.Reader, k, d)
					ok = err == nil && curve.IsOnCurve(k.X, k.Y) && stdecdsa.Verify(stdPub(&k.PublicKey), d, r, s)
				}
			}
		})
		return []ev{{"op": op, "curve": gS(in, "curve"), "kind": gS(in, "kind"), "dlen": len(d), "ok": ok, "panic": p}}
	case "Entropy":
		curve := kbCurves[gS(in, "curve")]
		key := sfKey(c.seed, curve, "k")
		rd := &scriptReader{avail: gI(in, "avail"), chunk: gI(in, "chunk"), errWithData: gBool(in, "err_with_data"), err: errOf(gS(in, "errkind")),
			transient: gBool(in, "transient")}
		fn := gS(in, "fn")
		d := hashBytes(c.seed, "entropy-digest", 32)
		e := ev{"op": op, "curve": gS(in, "curve"), "fn": fn, "avail": rd.avail, "chunk": rd.chunk, "err_with_data": rd.errWithData, "errkind": gS(in, "errkind"),
			"need": 32, "coin": true, "outcome": "error", "nil_out": false, "valid_out": false, "transient": rd.transient}
		e["panic"] = guard(func() {
			switch fn {
			case "GenerateKey":
				e["need"], e["coin"] = curve.Params().BitSize/8+8, false
				k, err := ecdsa.GenerateKey(curve, rd)
				if err == nil {
					e["outcome"] = "ok"
					e["valid_out"] = k != nil && k.D != nil && k.D.Sign() > 0 && k.D.Cmp(curve.Params().N) < 0 && curve.IsOnCurve(k.X, k.Y)
				}
				e["nil_out"] = k == nil
			case "Sign":
				r, s, err := ecdsa.Sign(rd, key, d)
				if err == nil {
					e["outcome"] = "ok"
					e["valid_out"] = r != nil && s != nil && stdecdsa.Verify(stdPub(&key.PublicKey), d, r, s)
				}
				e["nil_out"] = r == nil && s == nil
			case "SignASN1":
				sig, err := ecdsa.SignASN1(rd, key, d)
				if err == nil {
					e["outcome"] = "ok"
					e["valid_out"] = stdecdsa.VerifyASN1(stdPub(&key.PublicKey), d, sig)
				}
				e["nil_out"] = sig == nil
			case "Signer.Sign":
				sig, err := key.Sign(rd, d, crypto.SHA256)
				if err == nil {
					e["outcome"] = "ok"
					e["valid_out"] = stdecdsa.VerifyASN1(stdPub(&key.PublicKey), d, sig)
				}
				e["nil_out"] = sig == nil
			case "BlindKeySign":
				bk, _ := rawKey(curve, kbBlindBytes(c.seed, curve, "b1"))
				r, s, err := ecdsa.BlindKeySignWithContext(rd, key, bk, d, []byte("ctx"))
				if err == nil {
					pub, _ := ecdsa.BlindPublicKeyWithContext(curve, &key.PublicKey, bk, []byte("ctx"))
					e["outcome"] = "ok"
					e["valid_out"] = r != nil && s != nil && stdecdsa.Verify(stdPub(pub), d, r, s)
				}
				e["nil_out"] = r == nil && s == nil
			}
		})
		e["consumed"] = rd.consumed
		return []ev{e}
	case "EdKey":
		seed := gB(in, "seed")
		var same bool
		p := guard(func() {
			a, b := ed25519.NewKeyFromSeed(seed), stded.NewKeyFromSeed(seed)
			same = bytes.Equal(a, b) && bytes.Equal(a.Public().(ed25519.PublicKey), b.Public().(stded.PublicKey)) && bytes.Equal(a.Seed(), seed)
		})
		return []ev{{"op": op, "seed": B(seed), "same": same, "panic": p}}
	case "EdSign":
		seed, msg := gB(in, "seed"), gB(in, "msg")
		var same, ver bool
		p := guard(func() {
			a, b := ed25519.NewKeyFromSeed(seed), stded.NewKeyFromSeed(seed)
			sa, sb := ed25519.Sign(a, msg), stded.Sign(b, msg)
			sc, err := a.Sign(nil, msg, crypto.Hash(0))
			same = bytes.Equal(sa, sb) && err == nil && bytes.Equal(sc, sb)
			ver = ed25519.Verify(a.Public().(ed25519.PublicKey), msg, sa) && stded.Verify(b.Public().(stded.PublicKey), msg, sa)
		})
		return []ev{{"op": op, "seed": B(seed), "msglen": len(msg), "same": same, "verifies": ver, "panic": p}}
	case "EdVerify":
		A, sig, msg := gB(in, "A"), gB(in, "sig"), gB(in, "msg")
		var fork, std bool
		p := guard(func() {
			fork = ed25519.Verify(ed25519.PublicKey(A), msg, sig)
			std = stded.Verify(stded.PublicKey(A), msg, sig)
		})
		return []ev{{"op": op, "A": B(A), "sig": B(sig), "msglen": len(msg), "cls": in["cls"], "valid": gBool(in, "valid"), "fork": fork, "std": std, "panic": p}}
	case "EdVerifyTorsion":
		// A' = A + T for a small-order T; the signature is made by hand for the honest secret scalar against A'
		seed, A, msg := gB(in, "seed"), gB(in, "A"), gB(in, "msg")
		var fork, std bool
		var sig []byte
		p := guard(func() {
			h := sha512.Sum512(seed)
			ab := append([]byte{}, h[:32]...)
			ab[0] &= 248
			ab[31] &= 63
			ab[31] |= 64
			a := leToInt(ab)
			hr := sha512.New()
			hr.Write(h[32:])
			hr.Write(msg)
			rr := leToInt(hr.Sum(nil))
			rr.Mod(rr, edL)
			bp, _ := edDecode(mustHex("5866666666666666666666666666666666666666666666666666666666666666"))
			R := edEncode(edScalarMult(rr, bp))
			hk := sha512.New()
			hk.Write(R)
			hk.Write(A)
			hk.Write(msg)
			k := leToInt(hk.Sum(nil))
			k.Mod(k, edL)
			S := new(big.Int).Mul(k, a)
			S.Add(S, rr).Mod(S, edL)
			sig = append(append([]byte{}, R...), intToLE(S, 32)...)
			fork = ed25519.Verify(ed25519.PublicKey(A), msg, sig)
			std = stded.Verify(stded.PublicKey(A), msg, sig)
		})
		return []ev{{"op": "EdVerify", "A": B(A), "sig": B(sig), "msglen": len(msg), "cls": in["cls"], "valid": false, "fork": fork, "std": std, "panic": p}}
	case "KeyApi":
		// the key types' Equal / Public methods next to the standard library's (beyond the listed properties: observed)
		pair := gS(in, "pair")
		e := ev{"op": op, "scheme": gS(in, "scheme"), "pair": pair, "fork_pub_eq": false, "std_pub_eq": false, "fork_priv_eq": false, "std_priv_eq": false,
			"public_ok": false, "foreign_eq": false}
		e["panic"] = guard(func() {
			if gS(in, "scheme") == "ed25519" {
				s1, s2 := hashBytes(c.seed, "keyapi-ed-1", 32), hashBytes(c.seed, "keyapi-ed-2", 32)
				if pair == "same" {
					s2 = append([]byte{}, s1...)
				}
				a, b := ed25519.NewKeyFromSeed(s1), ed25519.NewKeyFromSeed(s2)
				sa, sb := stded.NewKeyFromSeed(s1), stded.NewKeyFromSeed(s2)
				e["fork_pub_eq"], e["std_pub_eq"] = a.Public().(ed25519.PublicKey).Equal(b.Public()), sa.Public().(stded.PublicKey).Equal(sb.Public())
				e["fork_priv_eq"], e["std_priv_eq"] = a.Equal(b), sa.Equal(sb)
				e["public_ok"] = bytes.Equal(a.Public().(ed25519.PublicKey), sa.Public().(stded.PublicKey))
				e["foreign_eq"] = a.Public().(ed25519.PublicKey).Equal(sa.Public()) || a.Equal(sa) // a key of another TYPE is never equal
				return
			}
			c1, c2 := elliptic.P256(), elliptic.P256()
			d1, d2 := kbScalar(c.seed, c1, "keyapi-1").Bytes(), kbScalar(c.seed, c1, "keyapi-2").Bytes()
			switch pair {
			case "same":
				d2 = d1
			case "diffCurve":
				c2, d2 = elliptic.P384(), d1
			}
			a, _ := rawKey(c1, d1)
			b, _ := rawKey(c2, d2)
			e["fork_pub_eq"], e["std_pub_eq"] = a.PublicKey.Equal(&b.PublicKey), stdPub(&a.PublicKey).Equal(stdPub(&b.PublicKey))
			e["fork_priv_eq"], e["std_priv_eq"] = a.Equal(b), stdPriv(a).Equal(stdPriv(b))
			pk, ok := a.Public().(*ecdsa.PublicKey)
			e["public_ok"] = ok && pk.X.Cmp(a.X) == 0 && pk.Y.Cmp(a.Y) == 0 && pk.Curve == a.Curve
			e["foreign_eq"] = a.PublicKey.Equal(stdPub(&a.PublicKey)) || a.Equal(stdPriv(a))
		})
		return []ev{e}
	case "EdSeq":
		// a history of calls made one after the other by one goroutine
		out := []ev{}
		for _, st := range gL(in, "steps") {
			step := st.(map[string]any)
			sub := ev{}
			for k, v := range step {
				sub[k] = v
			}
			out = append(out, execSigForks(c, sub)...)
		}
		return out
	case "EdEntropy":
		mk := func() *scriptReader {
			return &scriptReader{avail: gI(in, "avail"), chunk: gI(in, "chunk"), errWithData: gBool(in, "err_with_data"), err: errOf(gS(in, "errkind"))}
		}
		r1, r2 := mk(), mk()
		e := ev{"op": op, "avail": r1.avail, "chunk": r1.chunk, "err_with_data": r1.errWithData, "errkind": gS(in, "errkind"), "outcome": "error", "independent": true}
		e["panic"] = guard(func() {
			pa, ka, ea := ed25519.GenerateKey(r1)
			pb, kb, eb := stded.GenerateKey(r2)
			if ea == nil {
				e["outcome"] = "ok"
			}
			e["same_outcome"] = (ea == nil) == (eb == nil)
			e["same_error"] = ea == eb || (ea != nil && eb != nil && ea.Error() == eb.Error())
			e["same_consumed"] = r1.consumed == r2.consumed && r1.calls == r2.calls
			e["same_keys"] = bytes.Equal(pa, pb) && bytes.Equal(ka, kb)
			e["independent"] = true
			if ea == nil && eb == nil {
				// the caller wipes the private key it was handed; the public key it was handed is another value
				pubBefore := append([]byte{}, pa...)
				for i := range ka {
					ka[i] = 0
				}
				e["independent"] = bytes.Equal(pa, pubBefore) && bytes.Equal(pa, pb)
			}
			e["nil_out"] = pa == nil && ka == nil
		})
		return []ev{e}
	}
	return []ev{{"op": "unknown"}}
}

// ---------------------------------------------------------------------------

func mustHex(s string) []byte {
	b, err := hex.DecodeString(s)
	if err != nil {
		panic(err)
	}
	return b
}

// the eight small-order points of edwards25519 (canonical encodings)
var edSmallOrder = []string{
	"0100000000000000000000000000000000000000000000000000000000000000",
	"ecffffffffffffffffffffffffffffffffffffffffffffffffffffffffffff7f",
	"0000000000000000000000000000000000000000000000000000000000000000",
	"0000000000000000000000000000000000000000000000000000000000000080",
	"26e8958fc2b227b045c3f489f2ef98f0d5dfac05d3c63339b13802886d53fc05",
	"26e8958fc2b227b045c3f489f2ef98f0d5dfac05d3c63339b13802886d53fc85",
	"c7176a703d4dd84fba3c0b760d10670f2a2053fa2c39ccc64ec7fd7792ac037a",
	"c7176a703d4dd84fba3c0b760d10670f2a2053fa2c39ccc64ec7fd7792ac03fa",
}

// non-canonical encodings: y >= p (from the repository's own TestNonCanonicalPoints table,
// which lists every y in [p, 2^255) that has a point) and x = 0 with the sign bit set
var edNonCanonical = []string{
	"edffffffffffffffffffffffffffffffffffffffffffffffffffffffffffff7f", // y = p (= 0)
	"edffffffffffffffffffffffffffffffffffffffffffffffffffffffffffffff",
	"eeffffffffffffffffffffffffffffffffffffffffffffffffffffffffffff7f", // y = p+1 (= 1)
	"eeffffffffffffffffffffffffffffffffffffffffffffffffffffffffffffff",
	"f0ffffffffffffffffffffffffffffffffffffffffffffffffffffffffffff7f", // p+3
	"f0ffffffffffffffffffffffffffffffffffffffffffffffffffffffffffffff",
	"f1ffffffffffffffffffffffffffffffffffffffffffffffffffffffffffff7f", // p+4
	"f2ffffffffffffffffffffffffffffffffffffffffffffffffffffffffffff7f", // p+5
	"f3ffffffffffffffffffffffffffffffffffffffffffffffffffffffffffff7f", // p+6
	"f6ffffffffffffffffffffffffffffffffffffffffffffffffffffffffffff7f", // p+9
	"f7ffffffffffffffffffffffffffffffffffffffffffffffffffffffffffff7f", // p+10
	"fbffffffffffffffffffffffffffffffffffffffffffffffffffffffffffff7f", // p+14
	"fcffffffffffffffffffffffffffffffffffffffffffffffffffffffffffff7f", // p+15
	"fdffffffffffffffffffffffffffffffffffffffffffffffffffffffffffff7f", // p+16
	"ffffffffffffffffffffffffffffffffffffffffffffffffffffffffffffff7f", // p+18
	"ffffffffffffffffffffffffffffffffffffffffffffffffffffffffffffffff",
	"0100000000000000000000000000000000000000000000000000000000000080", // y = 1, x = 0, sign bit set
	"ecffffffffffffffffffffffffffffffffffffffffffffffffffffffffffffff", // y = -1, x = 0, sign bit set
}

// wrapCase builds, for one curve, a VALID signature whose point u1*G + u2*Q has an x-coordinate in [N, p): the
// verifier must reduce x modulo N before comparing it with r (= x - N, a small number). Such points are reached by
// honest signatures with probability about 2^-128, so the key is made for the signature: pick R with x = N + i on the
// curve, a digest and s, and solve Q = u2^-1 * (R - u1*G).
func wrapCase(curve elliptic.Curve, digest []byte, sv *big.Int, start int64) (qx, qy, r *big.Int, ok bool) {
	P, N, B := curve.Params().P, curve.Params().N, curve.Params().B
	for i := start; i < start+4000; i++ {
		x := new(big.Int).Add(N, big.NewInt(i))
		if x.Cmp(P) >= 0 {
			return nil, nil, nil, false
		}
		// y^2 = x^3 - 3x + b
		y2 := new(big.Int).Exp(x, big.NewInt(3), P)
		y2.Sub(y2, new(big.Int).Mul(big.NewInt(3), x))
		y2.Add(y2, B)
		y2.Mod(y2, P)
		y := new(big.Int).ModSqrt(y2, P)
		if y == nil {
			continue
		}
		r = big.NewInt(i)
		e := new(big.Int).SetBytes(digest) // the digest is shorter than the order: no truncation
		sInv := new(big.Int).ModInverse(sv, N)
		u1 := new(big.Int).Mod(new(big.Int).Mul(e, sInv), N)
		u2 := new(big.Int).Mod(new(big.Int).Mul(r, sInv), N)
		u2Inv := new(big.Int).ModInverse(u2, N)
		ax, ay := curve.ScalarMult(x, y, u2Inv.Bytes())
		k := new(big.Int).Mod(new(big.Int).Neg(new(big.Int).Mul(u1, u2Inv)), N)
		bx, by := curve.ScalarBaseMult(k.Bytes())
		qx, qy = curve.Add(ax, ay, bx, by)
		return qx, qy, r, true
	}
	return nil, nil, nil, false
}

// xZeroCase: a valid (digest, r, s) under the public key (0, sqrt(b)) - a point of the curve whose x coordinate is zero
// (P-256, P-384, P-521 have one). Nobody knows its private key: the signature is made by choosing u1, u2.
func xZeroCase(curve elliptic.Curve, seed int64, k int) (qy *big.Int, digest []byte, r, s *big.Int, ok bool) {
	pr := curve.Params()
	if new(big.Int).Mod(pr.P, big.NewInt(4)).Int64() != 3 {
		return nil, nil, nil, nil, false
	}
	y := new(big.Int).Exp(pr.B, new(big.Int).Rsh(new(big.Int).Add(pr.P, big.NewInt(1)), 2), pr.P)
	if new(big.Int).Mod(new(big.Int).Mul(y, y), pr.P).Cmp(new(big.Int).Mod(pr.B, pr.P)) != 0 {
		return nil, nil, nil, nil, false
	}
	if k%2 == 1 {
		y.Sub(pr.P, y)
	}
	u1, u2 := kbScalar(seed, curve, fmt.Sprintf("xzero-u1-%d", k)), kbScalar(seed, curve, fmt.Sprintf("xzero-u2-%d", k))
	ax, ay := curve.ScalarBaseMult(u1.Bytes())
	bx, by := curve.ScalarMult(big.NewInt(0), y, u2.Bytes())
	rx, _ := curve.Add(ax, ay, bx, by)
	r = new(big.Int).Mod(rx, pr.N)
	if r.Sign() == 0 {
		return nil, nil, nil, nil, false
	}
	s = new(big.Int).Mul(r, new(big.Int).ModInverse(u2, pr.N))
	s.Mod(s, pr.N)
	e := new(big.Int).Mul(u1, s)
	e.Mod(e, pr.N)
	ob := (pr.N.BitLen() + 7) / 8
	if excess := ob*8 - pr.N.BitLen(); excess > 0 { // hashToInt shifts the excess bits out
		e.Lsh(e, uint(excess))
	}
	return y, e.FillBytes(make([]byte, ob)), r, s, true
}

func genSigForks(c *ctx, emit func(ev)) {
	r := newRand(c.seed, "sigforks")
	want := func(s string) bool { return c.arg == "" || strings.Contains(","+c.arg+",", ","+s+",") }
	if want("ecdsa") {
		for _, p := range []string{"same", "diffD", "diffCurve"} {
			emit(ev{"op": "KeyApi", "scheme": "ecdsa", "pair": p})
		}
		dlens := []int{0, 1, 20, 32, 48, 64, 66, 128}
		for cname, curve := range kbCurves {
			key := sfKey(c.seed, curve, "k")
			N := curve.Params().N
			for rep := 0; rep < c.tierInt(3, 12); rep++ {
				d := randBytes(r, dlens[(rep+len(cname))%len(dlens)])
				rr, ss, err := ecdsa.Sign(r, key, d)
				if err != nil {
					panic(err)
				}
				add := func(a, b *big.Int) *big.Int { return new(big.Int).Add(a, b) }
				sub := func(a, b *big.Int) *big.Int { return new(big.Int).Sub(a, b) }
				one := big.NewInt(1)
				type val struct {
					v     *big.Int
					valid bool
					name  string
				}
				rvals := []val{{rr, true, "r"}, {big.NewInt(0), false, "0"}, {new(big.Int).Neg(rr), false, "-r"}, {N, false, "N"}, {add(rr, N), false, "r+N"},
					{sub(N, one), false, "N-1"}, {one, false, "1"}, {new(big.Int).Lsh(rr, 520), false, "r<<520"}, {add(N, one), false, "N+1"}}
				svals := []val{{ss, true, "s"}, {sub(N, ss), true, "N-s"}, {big.NewInt(0), false, "0"}, {new(big.Int).Neg(ss), false, "-s"}, {N, false, "N"},
					{add(ss, N), false, "s+N"}, {one, false, "1"}, {sub(N, one), false, "N-1"}, {new(big.Int).Lsh(ss, 520), false, "s<<520"}}
				for _, rv := range rvals {
					for _, sv := range svals {
						emit(ev{"op": "VerifyRS", "curve": cname, "digest": B(d), "r": B(new(big.Int).Abs(rv.v).Bytes()), "rneg": rv.v.Sign() < 0,
							"s": B(new(big.Int).Abs(sv.v).Bytes()), "sneg": sv.v.Sign() < 0, "valid": rv.valid && sv.valid, "cls": rv.name + "," + sv.name})
					}
				}
				// signatures with a tiny s, made by solving for the key: (r, s + N) is then below the field prime
				for _, sv := range []int64{1, 2, 3} {
					k := kbScalar(c.seed, curve, fmt.Sprintf("tiny-k-%d-%d", rep, sv))
					kx, _ := curve.ScalarBaseMult(k.Bytes())
					rt := new(big.Int).Mod(kx, N)
					dg := randBytes(r, 20) // shorter than every group order: e is the digest as an integer
					e0 := new(big.Int).SetBytes(dg)
					rinv := new(big.Int).ModInverse(rt, N)
					if rinv == nil {
						continue
					}
					dk := new(big.Int).Mul(big.NewInt(sv), k)
					dk.Sub(dk, e0).Mul(dk, rinv).Mod(dk, N)
					if dk.Sign() == 0 {
						continue
					}
					st := big.NewInt(sv)
					emit(ev{"op": "VerifyRS", "curve": cname, "digest": B(dg), "d": B(dk.Bytes()), "r": B(rt.Bytes()), "rneg": false, "s": B(st.Bytes()), "sneg": false, "valid": true, "cls": "tiny-s"})
					emit(ev{"op": "VerifyRS", "curve": cname, "digest": B(dg), "d": B(dk.Bytes()), "r": B(rt.Bytes()), "rneg": false, "s": B(add(st, N).Bytes()), "sneg": false, "valid": false, "cls": "tiny-s+N"})
					emit(ev{"op": "VerifyRS", "curve": cname, "digest": B(dg), "d": B(dk.Bytes()), "r": B(add(rt, N).Bytes()), "rneg": false, "s": B(st.Bytes()), "sneg": false, "valid": false, "cls": "r+N,tiny-s"})
				}
				// valid signatures whose point has an x-coordinate in [N, p): r = x - N
				for wi := int64(1); wi <= 3; wi++ {
					wd := randBytes(r, 20)
					ws := new(big.Int).Add(new(big.Int).Mod(new(big.Int).SetBytes(randBytes(r, 40)), new(big.Int).Sub(N, big.NewInt(2))), big.NewInt(1))
					if qx, qy, wr, ok := wrapCase(curve, wd, ws, wi*5000); ok {
						emit(ev{"op": "VerifyRS", "curve": cname, "digest": B(wd), "qx": B(qx.Bytes()), "qy": B(qy.Bytes()), "r": B(wr.Bytes()), "rneg": false,
							"s": B(ws.Bytes()), "sneg": false, "valid": true, "cls": "x-wraps-N"})
					}
				}
				// a valid signature under the curve point with x = 0 (a coordinate that is zero is not the point at infinity)
				if qy, xd, xr, xs, ok := xZeroCase(curve, c.seed, rep); ok {
					emit(ev{"op": "VerifyRS", "curve": cname, "digest": B(xd), "qx": B([]byte{0}), "qy": B(qy.Bytes()), "r": B(xr.Bytes()), "rneg": false,
						"s": B(xs.Bytes()), "sneg": false, "valid": true, "cls": "key-x-zero"})
				}
				// the same signature against another digest
				emit(ev{"op": "VerifyRS", "curve": cname, "digest": B(randBytes(r, 32)), "r": B(rr.Bytes()), "rneg": false, "s": B(ss.Bytes()), "sneg": false, "valid": false, "cls": "other-digest"})
				// after the valid triple was accepted, in one history: triples with bytes moved across the boundaries between
				// digest, r and s (the same concatenation, other values) and with zero bytes added or dropped at the ends
				if len(d) > 0 {
					rb, sb := rr.Bytes(), ss.Bytes()
					vr := func(dg, rv, sv []byte, valid bool, cls string) ev {
						return ev{"op": "VerifyRS", "curve": cname, "digest": B(dg), "r": B(rv), "rneg": false, "s": B(sv), "sneg": false, "valid": valid, "cls": cls}
					}
					cat := func(a []byte, b ...byte) []byte { return append(append([]byte{}, a...), b...) }
					steps := []any{vr(d, rb, sb, true, "seq/valid"),
						vr(cat(d, rb[0]), rb[1:], sb, false, "seq/digest+r0"),
						vr(d[:len(d)-1], cat(d[len(d)-1:], rb...), sb, false, "seq/r+dlast"),
						vr(d, rb[:len(rb)-1], cat(rb[len(rb)-1:], sb...), false, "seq/s+rlast"),
						vr(d, cat(rb, sb[0]), sb[1:], false, "seq/r+s0"),
						vr(d, sb, rb, false, "seq/swapped"),
						vr(cat(d, 0), rb, sb, false, "seq/digest+0"),
						vr(cat([]byte{0}, d...), rb, sb, len(d) < (N.BitLen()+7)/8, "seq/0+digest"),
						vr(d, rb, sb, true, "seq/valid-again")}
					emit(ev{"op": "EdSeq", "steps": steps})
				}
				// ASN.1
				der := derSig(rr, ss)
				emit(ev{"op": "VerifyASN1", "curve": cname, "digest": B(d), "sig": B(der), "valid": true})
				// the same valid signature in other serialisations (fixed-width r || s as JOSE / WebCrypto write it, minimal
				// r || s, the DER inside an OCTET STRING): not ASN.1 signatures
				{
					ob := (N.BitLen() + 7) / 8
					raw := append(rr.FillBytes(make([]byte, ob)), ss.FillBytes(make([]byte, ob))...)
					emit(ev{"op": "VerifyASN1", "curve": cname, "digest": B(d), "sig": B(raw), "valid": false})
					emit(ev{"op": "VerifyASN1", "curve": cname, "digest": B(d), "sig": B(append(append([]byte{}, rr.Bytes()...), ss.Bytes()...)), "valid": false})
					emit(ev{"op": "VerifyASN1", "curve": cname, "digest": B(d), "sig": B(append([]byte{0x04, byte(len(der))}, der...)), "valid": false})
				}
				rl := int(der[len(der)-len(ss.Bytes())-2-0]) // not used for offsets below; offsets are found structurally
				_ = rl
				hdr := 2
				if der[1] >= 0x80 {
					hdr = 2 + int(der[1]&0x7f)
				}
				fields := []lenField{{1, "u8"}, {hdr + 1, "u8"}, {hdr + 2 + int(der[hdr+1]) + 1, "u8"}}
				for _, b := range mutations(der, fields, r, c.thorough()) {
					emit(ev{"op": "VerifyASN1", "curve": cname, "digest": B(d), "sig": B(b), "valid": false})
				}
				// hand-made DER deviations around a valid (r, s)
				rb, sb := rr.Bytes(), ss.Bytes()
				pos := func(b []byte) []byte { // minimal positive INTEGER content
					if b[0] >= 0x80 {
						return append([]byte{0}, b...)
					}
					return b
				}
				tlv := func(tag byte, content []byte) []byte {
					if len(content) < 128 {
						return append([]byte{tag, byte(len(content))}, content...)
					}
					return append([]byte{tag, 0x81, byte(len(content))}, content...)
				}
				seq := func(parts ...[]byte) []byte { return tlv(0x30, bytes.Join(parts, nil)) }
				ri, si := tlv(2, pos(rb)), tlv(2, pos(sb))
				dev := [][]byte{
					seq(tlv(2, append([]byte{0}, pos(rb)...)), si), // non-minimal r (extra leading zero)
					seq(ri, tlv(2, append([]byte{0}, pos(sb)...))), // non-minimal s
					seq(tlv(2, append([]byte{0x80}, rb...)), si),   // negative r
					seq(ri, si, []byte{0}),                         // trailing data inside the sequence
					append(seq(ri, si), 0),                         // trailing data after the sequence
					seq(ri),                                        // one integer only
					seq(ri, si, si),                                // three integers
					seq(tlv(2, nil), si),                           // empty integer
					seq(tlv(3, pos(rb)), si),                       // wrong tag
					tlv(0x31, bytes.Join([][]byte{ri, si}, nil)),   // SET instead of SEQUENCE
					append([]byte{0x30, 0x80}, append(bytes.Join([][]byte{ri, si}, nil), 0, 0)...),            // indefinite length
					append([]byte{0x30, 0x81, byte(len(ri) + len(si))}, bytes.Join([][]byte{ri, si}, nil)...), // long-form length (non-minimal when < 128)
					seq(append([]byte{2, 0x81, byte(len(pos(rb)))}, pos(rb)...), si),                          // long-form integer length
					seq(tlv(2, []byte{0}), si),                            // r = 0
					seq(ri, tlv(2, []byte{0})),                            // s = 0
					seq(tlv(2, pos(N.Bytes())), si),                       // r = N
					seq(ri, tlv(2, pos(new(big.Int).Add(ss, N).Bytes()))), // s + N
					seq(ri, tlv(2, pos(new(big.Int).Sub(N, ss).Bytes()))), // N - s: valid
				}
				for i, b := range dev {
					valid := i == len(dev)-1 || (i == 11 && len(ri)+len(si) >= 128)
					emit(ev{"op": "VerifyASN1", "curve": cname, "digest": B(d), "sig": B(b), "valid": valid})
				}
				for i := 0; i < c.tierInt(20, 200); i++ {
					emit(ev{"op": "VerifyASN1", "curve": cname, "digest": B(d), "sig": B(randBytes(r, r.Intn(150))), "valid": false})
				}
			}
			for _, kind := range []string{"fork-sign/std-verify", "std-sign/fork-verify", "fork-signasn1/std-verifyasn1", "std-signasn1/fork-verifyasn1",
				"signer-interface/std-verifyasn1", "blind-sign/std-verify", "generated-key"} {
				for _, dl := range dlens {
					for rep := 0; rep < c.tierInt(1, 6); rep++ {
						emit(ev{"op": "Cross", "curve": cname, "kind": kind, "digest": B(randBytes(r, dl))})
					}
					if dl > 0 { // digests with a forced leading byte (all-zero top bits / all-one top bits)
						for _, top := range []byte{0x00, 0x01, 0x7f, 0x80, 0xff} {
							d := randBytes(r, dl)
							d[0] = top
							emit(ev{"op": "Cross", "curve": cname, "kind": kind, "digest": B(d)})
						}
					}
				}
			}
			// entropy scripts: every failure position x chunking x error delivery x error kind
			for _, fn := range []string{"GenerateKey", "Sign", "SignASN1", "Signer.Sign", "BlindKeySign"} {
				need := 32
				if fn == "GenerateKey" {
					need = curve.Params().BitSize/8 + 8
				}
				avails := []int{-1}
				for a := 0; a <= need+2; a++ {
					avails = append(avails, a)
				}
				for _, a := range avails {
					for _, chunk := range []int{0, 1, 7} {
						for _, ewd := range []bool{false, true} {
							kinds := []string{"custom"}
							if c.thorough() || a%5 == 0 {
								kinds = []string{"custom", "eof", "unexpected"}
							}
							for _, k := range kinds {
								emit(ev{"op": "Entropy", "curve": cname, "fn": fn, "avail": a, "chunk": chunk, "err_with_data": ewd, "errkind": k})
								if k == "custom" && a >= 0 {
									// the same failure happening ONCE (the source recovers): an error all the same
									emit(ev{"op": "Entropy", "curve": cname, "fn": fn, "avail": a, "chunk": chunk, "err_with_data": ewd, "errkind": k, "transient": true})
								}
							}
						}
					}
				}
			}
		}
	}
	if want("ed25519") {
		for _, p := range []string{"same", "diffD"} {
			emit(ev{"op": "KeyApi", "scheme": "ed25519", "pair": p})
		}
		seeds := [][]byte{make([]byte, 32), bytes.Repeat([]byte{0xff}, 32)}
		for i := 0; i < c.tierInt(200, 4000); i++ {
			seeds = append(seeds, randBytes(r, 32))
		}
		for i, s := range seeds {
			emit(ev{"op": "EdKey", "seed": B(s)})
			ml := []int{0, 1, 31, 32, 33, 63, 64, 65, 127, 128, 129, 1000, 2000}[i%13]
			if i%3 == 0 {
				ml = r.Intn(2000)
			}
			emit(ev{"op": "EdSign", "seed": B(s), "msg": B(randBytes(r, ml))})
		}
		// verification: S classes x R classes x A classes
		L, _ := new(big.Int).SetString("1000000000000000000000000000000014def9dea2f79cd65812631a5cf5d3ed", 16)
		for rep := 0; rep < c.tierInt(2, 12); rep++ {
			seed := randBytes(r, 32)
			priv := stded.NewKeyFromSeed(seed)
			pub := []byte(priv.Public().(stded.PublicKey))
			msg := randBytes(r, []int{0, 5, 64, 300}[rep%4])
			sig := stded.Sign(priv, msg)
			R, S := sig[:32], leToInt(sig[32:])
			sEnc := func(v *big.Int) []byte {
				if v.BitLen() > 256 {
					v = new(big.Int).Mod(v, new(big.Int).Lsh(big.NewInt(1), 256))
				}
				return intToLE(v, 32)
			}
			sClasses := map[string][]byte{"canonical": sig[32:], "S+L": sEnc(new(big.Int).Add(S, L)), "S+2L": sEnc(new(big.Int).Add(S, new(big.Int).Lsh(L, 1))),
				"L": sEnc(L), "L-1": sEnc(new(big.Int).Sub(L, big.NewInt(1))), "0": make([]byte, 32), "topbits": append(append([]byte{}, sig[32:63]...), sig[63]|0xe0),
				"bit253": append(append([]byte{}, sig[32:63]...), sig[63]|0x20), "S+8L?": sEnc(new(big.Int).Add(S, new(big.Int).Lsh(L, 3)))}
			pointClasses := func(honest []byte) map[string][]byte {
				m := map[string][]byte{"honest": honest, "signflip": append(append([]byte{}, honest[:31]...), honest[31]^0x80), "random": randBytes(r, 32)}
				for i, h := range edSmallOrder {
					m[fmt.Sprintf("small%d", i)] = mustHex(h)
				}
				for i, h := range edNonCanonical {
					m[fmt.Sprintf("noncanon%d", i)] = mustHex(h)
				}
				bad := append([]byte{}, honest...)
				bad[0] ^= 1 // very likely not on the curve or another point
				m["ybit"] = bad
				return m
			}
			for sn, sb := range sClasses {
				for rn, rb := range pointClasses(R) {
					for an, ab := range pointClasses(pub) {
						// full product only for the structural classes; sample the rest
						if !(sn == "canonical" || rn == "honest" || an == "honest") && !c.thorough() && r.Intn(6) != 0 {
							continue
						}
						emit(ev{"op": "EdVerify", "A": B(ab), "sig": B(append(append([]byte{}, rb...), sb...)), "msg": B(msg),
							"valid": sn == "canonical" && rn == "honest" && an == "honest", "cls": sn + "/" + rn + "/" + an})
					}
				}
			}
			// small multiples of the base point as R under identity-like keys: [S]B = R + [k]A holds for S = s,
			// so S = s + L (non-canonical, low bytes near L) must be refused for exactly the structural reason
			if rep == 0 {
				bp, _ := edDecode(mustHex("5866666666666666666666666666666666666666666666666666666666666666"))
				for sv := 0; sv <= 40; sv++ {
					Rs := edEncode(edScalarMult(big.NewInt(int64(sv)), bp))
					ahs := []string{edSmallOrder[0], "eeffffffffffffffffffffffffffffffffffffffffffffffffffffffffffff7f", "0100000000000000000000000000000000000000000000000000000000000080"}
					if sv < 6 {
						ahs = append(ahs, edSmallOrder[1:]...) // keys with a torsion component: [S]B = R + [k]A holds when the order of A divides k
					}
					for _, ah := range ahs {
						for _, sval := range []*big.Int{big.NewInt(int64(sv)), new(big.Int).Add(L, big.NewInt(int64(sv))), new(big.Int).Add(new(big.Int).Lsh(L, 1), big.NewInt(int64(sv)))} {
							emit(ev{"op": "EdVerify", "A": B(mustHex(ah)), "sig": B(append(append([]byte{}, Rs...), sEnc(sval)...)), "msg": B(msg),
								"valid": false, "cls": fmt.Sprintf("smallS/%d", sv)})
							if sv < 6 && sval.Cmp(L) < 0 { // more messages: k varies, the verdict depends on k mod the order of A
								for mi := 0; mi < 12; mi++ {
									emit(ev{"op": "EdVerify", "A": B(mustHex(ah)), "sig": B(append(append([]byte{}, Rs...), sEnc(sval)...)), "msg": B(randBytes(r, 1+mi)),
										"valid": false, "cls": fmt.Sprintf("torsion/%d", sv)})
								}
							}
						}
					}
				}
			}
			// the whole range of S under the identity key ([S]B = R holds for R = [S]B whatever the message): every power
			// of two and its neighbours up to L-1 is a canonical S and accepted, the same plus L is refused - whichever
			// limb or byte of S carries the high bits
			if rep == 0 {
				bp, _ := edDecode(mustHex("5866666666666666666666666666666666666666666666666666666666666666"))
				idKey := mustHex(edSmallOrder[0])
				var svals []*big.Int
				for k := 0; k <= 252; k += c.tierFixed(3, 1) {
					p2 := new(big.Int).Lsh(big.NewInt(1), uint(k))
					svals = append(svals, p2, new(big.Int).Sub(p2, big.NewInt(1)), new(big.Int).Add(p2, big.NewInt(1)))
				}
				for _, k := range []uint{62, 63, 64, 126, 127, 128, 190, 191, 192, 251, 252} {
					svals = append(svals, new(big.Int).Lsh(big.NewInt(1), k))
				}
				svals = append(svals, new(big.Int).Sub(L, big.NewInt(1)), new(big.Int).Sub(L, big.NewInt(2)))
				for _, sv := range svals {
					if sv.Sign() <= 0 || sv.Cmp(L) >= 0 {
						continue
					}
					Rs := edEncode(edScalarMult(sv, bp))
					emit(ev{"op": "EdVerify", "A": B(idKey), "sig": B(append(append([]byte{}, Rs...), sEnc(sv)...)), "msg": B(msg), "valid": true, "cls": "S-range/canonical"})
					if plus := new(big.Int).Add(sv, L); plus.BitLen() <= 256 {
						emit(ev{"op": "EdVerify", "A": B(idKey), "sig": B(append(append([]byte{}, Rs...), sEnc(plus)...)), "msg": B(msg), "valid": false, "cls": "S-range/plus-L"})
					}
				}
			}
			// the small-order grid: every encoding (canonical or not) of a small-order point as key AND as R, with S = 0:
			// [0]B = R + [k]A holds for some messages, so acceptance hinges on how the ENCODINGS of A and R are treated
			if rep == 0 {
				encs := append(append([]string{}, edSmallOrder...), edNonCanonical[0:4]...)
				encs = append(encs, edNonCanonical[len(edNonCanonical)-2:]...)
				for _, ah := range encs {
					for _, rh := range encs {
						for mi := 0; mi < c.tierFixed(6, 24); mi++ {
							emit(ev{"op": "EdVerify", "A": B(mustHex(ah)), "sig": B(append(mustHex(rh), make([]byte, 32)...)), "msg": B([]byte{byte(mi), byte(len(ah))}),
								"valid": false, "cls": "small-order-grid"})
						}
					}
				}
			}
			// an honest key plus a small-order point, with signatures made for the honest key: the verdict depends on k mod 8
			{
				hp, ok := edDecode(pub)
				if ok {
					for ti := 1; ti < len(edSmallOrder); ti++ {
						tp, ok2 := edDecode(mustHex(edSmallOrder[ti]))
						if !ok2 {
							continue
						}
						ap := edEncode(edAdd(hp, tp))
						for mi := 0; mi < c.tierInt(6, 24); mi++ {
							m2 := randBytes(r, 3+mi)
							// signature computed by hand for the honest secret scalar against the public key A' = A + T
							emit(ev{"op": "EdVerifyTorsion", "seed": B(seed), "A": B(ap), "msg": B(m2), "cls": fmt.Sprintf("A+T%d", ti)})
						}
					}
				}
			}
			// identity key and identity R with S = 0 verifies any message under permissive verifiers; both must agree
			idp := mustHex(edSmallOrder[0])
			emit(ev{"op": "EdVerify", "A": B(idp), "sig": B(append(append([]byte{}, idp...), make([]byte, 32)...)), "msg": B(msg), "valid": false, "cls": "identity"})
			// lengths and single-bit flips of signature and key
			for _, n := range []int{0, 1, 63, 65, 128} {
				emit(ev{"op": "EdVerify", "A": B(pub), "sig": B(randBytes(r, n)), "msg": B(msg), "valid": false, "cls": "length"})
			}
			for i := 0; i < 64; i++ {
				emit(ev{"op": "EdVerify", "A": B(pub), "sig": B(flipBit(sig, i*8+r.Intn(8))), "msg": B(msg), "valid": false, "cls": "sigflip"})
			}
			for i := 0; i < 32; i++ {
				emit(ev{"op": "EdVerify", "A": B(flipBit(pub, i*8+r.Intn(8))), "sig": B(sig), "msg": B(msg), "valid": false, "cls": "keyflip"})
			}
			emit(ev{"op": "EdVerify", "A": B(pub), "sig": B(sig), "msg": B(append(append([]byte{}, msg...), 0)), "valid": false, "cls": "msg"})
		}
		// histories by one goroutine: a rejected non-canonical signature (S = L .. 2^253) must not influence later calls
		for rep := 0; rep < c.tierInt(6, 40); rep++ {
			seed := randBytes(r, 32)
			priv := stded.NewKeyFromSeed(seed)
			pub := []byte(priv.Public().(stded.PublicKey))
			steps := []any{}
			for k := 0; k < 6; k++ {
				msg := randBytes(r, 10+k)
				sig := stded.Sign(priv, msg)
				bad := append(append([]byte{}, sig[:32]...), intToLE(new(big.Int).Add(L, big.NewInt(int64(k))), 32)...)
				steps = append(steps,
					ev{"op": "EdVerify", "A": B(pub), "sig": B(sig), "msg": B(msg), "valid": true, "cls": "seq/valid"},
					ev{"op": "EdVerify", "A": B(pub), "sig": B(bad), "msg": B(msg), "valid": false, "cls": "seq/S=L+k"},
					ev{"op": "EdVerify", "A": B(pub), "sig": B(sig), "msg": B(msg), "valid": true, "cls": "seq/valid-after-reject"},
					ev{"op": "EdSign", "seed": B(seed), "msg": B(msg)},
					ev{"op": "EdVerify", "A": B(randBytes(r, 32)), "sig": B(sig), "msg": B(msg), "valid": false, "cls": "seq/random-key"},
					ev{"op": "EdKey", "seed": B(randBytes(r, 32))},
					ev{"op": "EdSign", "seed": B(seed), "msg": B(randBytes(r, 70))})
			}
			emit(ev{"op": "EdSeq", "steps": steps})
		}
		// a history with LARGE messages (several kilobytes): a verification under a key that is not a curve point, then
		// more valid ones than the machine has processors, then the same again (one goroutine, one call after the other)
		{
			seed := randBytes(r, 32)
			priv := stded.NewKeyFromSeed(seed)
			pub := []byte(priv.Public().(stded.PublicKey))
			notPoint := mustHex("0200000000000000000000000000000000000000000000000000000000000000") // y = 2 has no x
			steps := []any{}
			for round := 0; round < 2; round++ {
				msg := randBytes(r, 4096+round*1000+r.Intn(500))
				sig := stded.Sign(priv, msg)
				steps = append(steps, ev{"op": "EdVerify", "A": B(pub), "sig": B(sig), "msg": B(msg), "valid": true, "cls": "seq/large-valid"},
					ev{"op": "EdVerify", "A": B(notPoint), "sig": B(sig), "msg": B(msg), "valid": false, "cls": "seq/large-key-not-a-point"})
				for k := 0; k < runtime.NumCPU()+3; k++ {
					steps = append(steps, ev{"op": "EdVerify", "A": B(pub), "sig": B(sig), "msg": B(msg), "valid": true, "cls": "seq/large-valid-after-reject"})
				}
				steps = append(steps, ev{"op": "EdVerify", "A": B(notPoint), "sig": B(sig), "msg": B(msg), "valid": false, "cls": "seq/large-key-not-a-point"})
			}
			emit(ev{"op": "EdSeq", "steps": steps, "serial": true})
		}
		for a := -1; a <= 34; a++ {
			for _, chunk := range []int{0, 1, 7, 31} {
				for _, ewd := range []bool{false, true} {
					for _, k := range []string{"custom", "eof", "unexpected"} {
						emit(ev{"op": "EdEntropy", "avail": a, "chunk": chunk, "err_with_data": ewd, "errkind": k})
					}
				}
			}
		}
	}
}
