package main

import (
	"bytes"
	"crypto/rsa"
	"crypto/sha256"
	"math/big"
	"strings"

	"github.com/cloudflare/circl/oprf"
	"github.com/cloudflare/pat-go/tokens/type1"
	"github.com/cloudflare/pat-go/tokens/type2"
	"github.com/cloudflare/pat-go/tokens/type3"
	"github.com/cloudflare/pat-go/tokens/type5"
	"github.com/cloudflare/pat-go/util"
)

// Family "keys" (property C18): token-key (de)serialisation for moduli of every
// byte length and the derivation of key identifiers; Trace_Keys.tla builds the
// DER itself and states which logged value must equal which SHA-256 digest
// (computed here with crypto/sha256 over the logged bytes).

func init() { register("keys", &family{gen: genKeys, exec: execKeys}) }

func beInt(e int) []byte { return new(big.Int).SetInt64(int64(e)).Bytes() }

func execKeys(c *ctx, in ev) []ev {
	switch gS(in, "op") {
	case "Spki":
		n := new(big.Int).SetBytes(gB(in, "n"))
		e := int(new(big.Int).SetBytes(gB(in, "e")).Int64())
		key := &rsa.PublicKey{N: n, E: e}
		out := ev{"op": "Spki", "n": in["n"], "e": in["e"], "wrapper_pss": B(nil), "wrapper_rsa": B(nil), "wrapper_ok": false}
		var pss, rs []byte
		var rsaErr error
		var k1, k2 *rsa.PublicKey
		var e1, e2 error
		p := guard(func() {
			pss, _ = util.MarshalTokenKeyPSSOID(key)
			rs, rsaErr = util.MarshalTokenKeyRSAEncryptionOID(key)
			// the selecting wrapper (beyond the listed properties): legacy = rsaEncryption form, otherwise RSASSA-PSS
			w1, we1 := util.MarshalTokenKey(key, false)
			w2, we2 := util.MarshalTokenKey(key, true)
			out["wrapper_pss"], out["wrapper_rsa"], out["wrapper_ok"] = B(w1), B(w2), we1 == nil && (we2 == nil) == (rsaErr == nil)
			k1, e1 = util.UnmarshalTokenKey(pss)
			if rsaErr == nil {
				k2, e2 = util.UnmarshalTokenKey(rs)
			}
		})
		// a NEIGHBOURING key is decoded before the decoded values are read: what UnmarshalTokenKey returned for this key
		// is this key's, whatever is decoded afterwards
		p2 := guard(func() {
			if enc, err := util.MarshalTokenKeyPSSOID(&rsaKey(1).PublicKey); err == nil {
				util.UnmarshalTokenKey(enc)
			}
		})
		if p == "" {
			p = p2
		}
		out["panic"] = p
		out["pss"], out["rsa"], out["rsa_ok"] = B(pss), B(rs), rsaErr == nil
		out["un_pss_ok"], out["un_rsa_ok"] = e1 == nil && k1 != nil, rsaErr == nil && e2 == nil && k2 != nil
		out["un_pss_n"], out["un_pss_e"], out["un_rsa_n"], out["un_rsa_e"] = B(nil), B(nil), B(nil), B(nil)
		if k1 != nil {
			out["un_pss_n"], out["un_pss_e"] = B(k1.N.Bytes()), B(beInt(k1.E))
		}
		if k2 != nil {
			out["un_rsa_n"], out["un_rsa_e"] = B(k2.N.Bytes()), B(beInt(k2.E))
		}
		return []ev{out}
	case "IssuerPair": // type-2 / type-3 issuers whose keys share the modulus and differ in the public exponent, one after the other
		out := []ev{}
		for _, e := range gL(in, "es") {
			out = append(out, execKeys(c, ev{"op": "KeyId", "kind": in["kind"], "name": "rsa", "rsa": in["rsa"], "e_override": e})...)
		}
		return out
	case "SpkiPair": // the same modulus with several exponents, one after the other
		out := []ev{}
		for _, e := range gL(in, "es") {
			out = append(out, execKeys(c, ev{"op": "Spki", "n": in["n"], "e": e})...)
		}
		return out
	case "DecodedNameKey":
		// a name key received as bytes (every suite go-hpke implements), decoded, then used by a client
		orig := gB(in, "enc")
		out := ev{"op": "NameKey", "fields": ev{"id": 0, "kem": 0, "pk": B(nil), "kdf": 0, "aead": 0}, "marshal": B(nil), "sha_marshal": B(nil),
			"name_key_id": B(nil), "orig": B(orig), "decoded": false, "tail_len": len(gB(in, "tail"))}
		// (the key may be followed by other data in the buffer it is decoded from - a configuration carrying more
		// than the key: the decoder either refuses, or yields the key that the first bytes encode)
		buf := append(append([]byte{}, orig...), gB(in, "tail")...)
		nk, err := type3.UnmarshalEncapKey(buf)
		if err != nil {
			return []ev{out}
		}
		poison(buf) // the buffer the key was decoded from is the caller's: it is reused for something else
		out["decoded"] = true
		id, kem, kdf, aead, pk := nk.VerifFields()
		m := nk.Marshal()
		so := sha256.Sum256(orig)
		out["fields"] = ev{"id": int(id), "kem": int(kem), "pk": B(pk), "kdf": int(kdf), "aead": int(aead)}
		out["marshal"], out["sha_marshal"] = B(m), B(so[:])
		r := newRand(c.seed, "decoded-namekey")
		key := rsaKey(0)
		st, err := type3.NewRateLimitedClientFromSecret(p384Scalar(c.seed, "c-dnk")).CreateTokenRequest(
			randBytes(r, 8), randNonce(r), p384Scalar(c.seed, "b-dnk"), make([]byte, 32), &key.PublicKey, "o", nk)
		if err == nil {
			out["name_key_id"] = B(st.Request().NameKeyID)
		}
		return []ev{out}
	case "KeyId":
		kind, name := gS(in, "kind"), gS(in, "name")
		r := newRand(c.seed, "keyid-"+name)
		out := ev{"op": "KeyId", "kind": kind, "name": name, "n": B(nil), "e": B(nil), "type": 0, "encap_eq": true, "copy_same": true}
		var pub, keyID []byte
		var trunc int
		evs := []ev{}
		switch kind {
		case "t1":
			iss := type1.NewBasicPrivateIssuer(p384Key(c.seed, name))
			held := *iss // a copy by value taken the moment the constructor returned (methods have value receivers)
			out["copy_same"] = bytes.Equal(held.TokenKeyID(), iss.TokenKeyID())
			pub, _ = iss.TokenKey().MarshalBinary()
			keyID = iss.TokenKeyID()
			out["type"] = int(iss.Type())
			st, err := type1.NewBasicPrivateClient().CreateTokenRequest(randBytes(r, 8), randNonce(r), keyID, iss.TokenKey())
			if err != nil {
				panic(err)
			}
			trunc = int(st.Request().TokenKeyID)
		case "t5":
			iss := type5.NewBatchedPrivateIssuer(ristrettoKey(c.seed, name))
			held := *iss
			out["copy_same"] = bytes.Equal(held.TokenKeyID(), iss.TokenKeyID())
			pub, _ = iss.TokenKey().MarshalBinary()
			keyID = iss.TokenKeyID()
			out["type"] = int(iss.Type())
			st, err := type5.NewBatchedPrivateClient().CreateTokenRequest(randBytes(r, 8), [][]byte{randNonce(r)}, keyID, iss.TokenKey())
			if err != nil {
				panic(err)
			}
			trunc = int(st.Request().TokenKeyID)
		case "t2":
			key := rsaKey(gI(in, "rsa"))
			if eo := gB(in, "e_override"); len(eo) > 0 { // the same modulus under another public exponent: another key
				key = &rsa.PrivateKey{PublicKey: rsa.PublicKey{N: key.N, E: int(new(big.Int).SetBytes(eo).Int64())}, D: key.D, Primes: key.Primes}
			}
			iss := type2.NewBasicPublicIssuer(key)
			held := *iss
			out["copy_same"] = bytes.Equal(held.TokenKeyID(), iss.TokenKeyID())
			pub, _ = util.MarshalTokenKeyPSSOID(iss.TokenKey())
			keyID = iss.TokenKeyID()
			out["type"] = int(iss.Type())
			st, err := type2.NewBasicPublicClient().CreateTokenRequest(randBytes(r, 8), randNonce(r), keyID, iss.TokenKey())
			if err != nil {
				panic(err)
			}
			trunc = int(st.Request().TokenKeyID)
			out["n"], out["e"] = B(key.N.Bytes()), B(beInt(key.E))
		case "t3":
			key := rsaKey(gI(in, "rsa"))
			w := newT3World(key, c.seed, map[string]string{"o": "a"})
			pub, _ = util.MarshalTokenKeyPSSOID(w.issuer.TokenKey())
			keyID = w.issuer.TokenKeyID()
			out["type"] = int(w.issuer.Type())
			// a name key pair made twice from one seed is equal to itself and differs from one made from another seed
			if ka, err := type3.CreatePrivateEncapKeyFromSeed(hashBytes(c.seed, "encap-a", 32)); err == nil {
				kb, _ := type3.CreatePrivateEncapKeyFromSeed(hashBytes(c.seed, "encap-a", 32))
				kc, _ := type3.CreatePrivateEncapKeyFromSeed(hashBytes(c.seed, "encap-c", 32))
				out["encap_eq"] = ka.IsEqual(kb) && !ka.IsEqual(kc)
			}
			out["n"], out["e"] = B(key.N.Bytes()), B(beInt(key.E))
			st, err := type3.NewRateLimitedClientFromSecret(p384Scalar(c.seed, "c-"+name)).CreateTokenRequest(
				randBytes(r, 8), randNonce(r), p384Scalar(c.seed, "b-"+name), keyID, w.issuer.TokenKey(), "o", w.issuer.NameKey())
			if err != nil {
				panic(err)
			}
			trunc = int(keyID[31]) // the outer type-3 request carries no truncated token key id
			nk := w.issuer.NameKey()
			id, kem, kdf, aead, pk := nk.VerifFields()
			m := nk.Marshal()
			sm := sha256.Sum256(m)
			evs = append(evs, ev{"op": "NameKey", "fields": ev{"id": int(id), "kem": int(kem), "pk": B(pk), "kdf": int(kdf), "aead": int(aead)},
				"marshal": B(m), "sha_marshal": B(sm[:]), "name_key_id": B(st.Request().NameKeyID), "orig": B(m), "decoded": true, "tail_len": 0})
		}
		sp := sha256.Sum256(pub)
		out["pub"], out["sha_pub"], out["key_id"], out["trunc"] = B(pub), B(sp[:]), B(keyID), trunc
		return append([]ev{out}, evs...)
	}
	return []ev{{"op": "unknown"}}
}

func genKeys(c *ctx, emit func(ev)) {
	r := newRand(c.seed, "keys")
	exps := [][]byte{{3}, {1, 0, 1}}
	if c.thorough() {
		exps = append(exps, []byte{1}, []byte{0x7f, 0xff, 0xff, 0xff}, []byte{0x80}, []byte{0xff, 0xff})
	}
	for L := 1; L <= 520; L++ {
		for k, e := range exps {
			n := randBytes(r, L)
			// with and without a leading 1 bit (sign octet / no sign octet)
			if (L+k)%2 == 0 {
				n[0] |= 0x80
			} else {
				n[0] &= 0x7f
				if n[0] == 0 {
					n[0] = 1
				}
			}
			emit(ev{"op": "Spki", "n": B(n), "e": B(e), "serial": true})
		}
	}
	for i := 0; i < 4; i++ {
		k := rsaKey(i)
		emit(ev{"op": "Spki", "n": B(k.N.Bytes()), "e": B(beInt(k.E)), "serial": true})
		emit(ev{"op": "IssuerPair", "kind": "t2", "rsa": i, "es": []any{B([]byte{1, 0, 1}), B([]byte{3}), B([]byte{1, 0, 1}), B([]byte{17})}})
		emit(ev{"op": "SpkiPair", "n": B(k.N.Bytes()), "es": []any{B([]byte{1, 0, 1}), B([]byte{3}), B([]byte{1, 0, 1}), B([]byte{0x7f, 0xff, 0xff, 0xff}),
			// exponents at and above 2^31 (an int is 64 bits wide): the DER integer grows a sign octet at 2^31, 2^39, ...
			B([]byte{0x80, 0, 0, 0}), B([]byte{1, 0, 0, 0, 1}), B([]byte{0xff, 0xff, 0xff, 0xff}), B([]byte{0x7f, 0xff, 0xff, 0xff, 0xff, 0xff, 0xff, 0xff})}})
	}
	for _, L := range []int{1, 64, 127, 128, 129, 255, 256, 257, 384, 512} {
		n := randBytes(r, L)
		n[0] |= 1
		emit(ev{"op": "SpkiPair", "n": B(n), "es": []any{B([]byte{3}), B([]byte{1, 0, 1}), B([]byte{3})}})
	}
	nIss := c.tierInt(6, 40)
	for i := 0; i < nIss; i++ {
		name := strings.Repeat("k", 1) + string(rune('a'+i%26)) + string(rune('0'+i/26))
		emit(ev{"op": "KeyId", "kind": "t1", "name": name})
		emit(ev{"op": "KeyId", "kind": "t5", "name": name})
	}
	for _, kdf := range []int{1, 2, 3} {
		for _, aead := range []int{1, 2, 3} {
			enc := append([]byte{byte(r.Intn(256)), 0x00, 0x20}, randBytes(r, 32)...)
			enc = append(enc, byte(kdf>>8), byte(kdf), byte(aead>>8), byte(aead))
			emit(ev{"op": "DecodedNameKey", "enc": B(enc)})
			emit(ev{"op": "DecodedNameKey", "enc": B(enc), "tail": B(randBytes(r, 1+r.Intn(60)))})
			emit(ev{"op": "DecodedNameKey", "enc": B(enc), "tail": B(make([]byte, 1+aead))})
		}
	}
	for i := 0; i < 4; i++ {
		emit(ev{"op": "KeyId", "kind": "t2", "name": "rsa", "rsa": i})
		emit(ev{"op": "KeyId", "kind": "t3", "name": "rsa", "rsa": i})
	}
}

var _ = oprf.SuiteP384
