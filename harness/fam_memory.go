package main

import (
	"bytes"
	"crypto/elliptic"
	cryptorand "crypto/rand"
	"crypto/sha256"
	"encoding/hex"
	"encoding/json"
	"fmt"
	"github.com/cloudflare/pat-go/quicwire"
	"math/big"
	"math/rand"
	"os"
	"sort"
	"strings"
	"sync"

	"github.com/cloudflare/circl/oprf"
	"github.com/cloudflare/pat-go/ecdsa"
	"github.com/cloudflare/pat-go/ed25519"
	"github.com/cloudflare/pat-go/tokens"
	"github.com/cloudflare/pat-go/tokens/batched"
	"github.com/cloudflare/pat-go/tokens/type1"
	"github.com/cloudflare/pat-go/tokens/type2"
	"github.com/cloudflare/pat-go/tokens/type3"
	"github.com/cloudflare/pat-go/tokens/type5"
)

// Family "memory" (property C16): every call history that Memory.tla generates
// for an object kind is executed with all byte-slice arguments placed inside
// guarded arenas (guard bytes around the allocation, patterned spare capacity
// behind the slice), and with every slice handed out by the library tracked
// including its spare capacity. After each call all tracked regions are
// compared with their snapshots. Each history is run twice with different
// spare-capacity fills and the deterministic results are compared.

func init() { register("memory", &family{gen: genMemory, exec: execMemory}) }

type memRegion struct {
	name string
	cls  string // region class of Memory.tla: arg.response, out.token, ...
	buf  []byte // the tracked bytes (full backing extent)
	snap []byte
	n    int // length of the slice as handed out (the bytes the caller owns; the rest is spare capacity)
}

type memArena struct {
	fill    byte
	regions []*memRegion
}

const memGuard = 16

// arg places data in a fresh backing array: guard | data | spare (filled) | guard
// and returns the slice with len(data) and the spare capacity behind it.
func (a *memArena) arg(cls, name string, data []byte, spare int) []byte {
	back := make([]byte, memGuard+len(data)+spare+memGuard)
	for i := range back {
		back[i] = a.fill ^ byte(i*7)
	}
	copy(back[memGuard:], data)
	a.regions = append(a.regions, &memRegion{name: name, cls: cls, buf: back, snap: append([]byte{}, back...)})
	return back[memGuard : memGuard+len(data) : memGuard+len(data)+spare]
}

// argTail is arg with the spare capacity holding given bytes (e.g. the rest of a message that was cut short).
func (a *memArena) argTail(cls, name string, data, tail []byte, spare int) []byte {
	s := a.arg(cls, name, data, spare)
	full := s[:cap(s)]
	copy(full[len(data):], tail)
	for _, r := range a.regions {
		if r.name == name {
			r.snap = append(r.snap[:0], r.buf...)
		}
	}
	return s
}

// out tracks a slice handed out by the library, including its spare capacity.
func (a *memArena) out(cls, name string, s []byte) {
	if s == nil {
		return
	}
	full := s[:cap(s)]
	a.regions = append(a.regions, &memRegion{name: name, cls: cls, buf: full, snap: append([]byte{}, full...), n: len(s)})
}

// callerOverwritesTokens: the tokens a finalization returned are the caller's values; it uses them and wipes them.
// Nothing the library does afterwards may write to that memory again (not even the same bytes), and nothing the
// library keeps may live in it.
func (a *memArena) callerOverwritesTokens() {
	for i, r := range a.regions {
		if r.cls != "out.token" {
			continue
		}
		for k := 0; k < r.n; k++ {
			r.buf[k] = 0xA5 ^ byte(i+k)
		}
	}
	for _, r := range a.regions { // regions overlap (fields of one token share a backing array): take new snapshots of all
		r.snap = append(r.snap[:0], r.buf...)
	}
}

// diff returns the names of the regions whose bytes changed since the last
// snapshot, and takes a new snapshot.
func (a *memArena) diff() []string {
	var changed []string
	for _, r := range a.regions {
		if !bytes.Equal(r.buf, r.snap) {
			changed = append(changed, r.name)
			r.snap = append(r.snap[:0], r.buf...)
		}
	}
	sort.Strings(changed)
	return changed
}

func (a *memArena) classes() []string {
	m := map[string]bool{}
	for _, r := range a.regions {
		m[r.cls] = true
	}
	out := []string{}
	for k := range m {
		out = append(out, k)
	}
	sort.Strings(out)
	return out
}

type memStep struct {
	call    string
	changed []string
	classes []string
	det     string // digest of the deterministic part of the result ("" if none)
	res     string // result class
	panic   string
}

func digestOf(parts ...[]byte) string {
	h := sha256.New()
	for _, p := range parts {
		h.Write([]byte{byte(len(p) >> 8), byte(len(p))})
		h.Write(p)
	}
	return hex.EncodeToString(h.Sum(nil)[:8])
}

func trackToken(a *memArena, tok tokens.Token, n int) {
	a.out("out.token", fmt.Sprintf("token%d.nonce", n), tok.Nonce)
	a.out("out.token", fmt.Sprintf("token%d.context", n), tok.Context)
	a.out("out.token", fmt.Sprintf("token%d.keyid", n), tok.KeyID)
	a.out("out.token", fmt.Sprintf("token%d.auth", n), tok.Authenticator)
}

// memRun executes one history on one object kind with one spare-capacity fill.
func memRun(seed int64, kind string, calls []string, fill byte) ([]memStep, []string) {
	var created []string // argument regions found changed when creation (and its refused attempts) returned
	a := &memArena{fill: fill}
	r := newRand(seed, "memory-"+kind+strings.Join(calls, ",")) // same randomness for both fills
	steps := []memStep{}
	do := func(call string, f func() (res string, det string)) {
		st := memStep{call: call}
		st.panic = guard(func() { st.res, st.det = f() })
		st.changed = a.diff()
		st.classes = a.classes()
		steps = append(steps, st)
	}
	spare := 24
	switch kind {
	case "t1state", "t2state", "t3state", "t5state":
		challenge := a.arg("arg.challenge", "challenge", randBytes(r, 20), spare)
		nonce := a.arg("arg.nonce", "nonce", randNonce(r), spare)
		nonce2 := a.arg("arg.nonce", "nonce2", randNonce(r), spare)
		// creation is also ATTEMPTED with arguments of other lengths lying in roomy buffers (a nonce of 16 bytes, an empty
		// one, a key id of 31 bytes): refused or not, the buffers are the caller's
		shortNonce := a.arg("arg.nonce", "nonce-short", randBytes(r, 16), spare+40) // (room for a whole nonce behind it)
		emptyNonce := a.arg("arg.nonce", "nonce-empty", []byte{}, spare+40)
		tryOdd := func(f func(nonce []byte)) {
			guard(func() { f(shortNonce) })
			guard(func() { f(emptyNonce) })
		}
		var reqFields func()
		var marshal func() []byte
		var finalize func([]byte) ([]tokens.Token, error)
		var evaluate func() []byte
		switch kind {
		case "t1state":
			k := p384Key(seed, "k1")
			iss := type1.NewBasicPrivateIssuer(k)
			keyID := a.arg("arg.keyid", "keyid", iss.TokenKeyID(), spare)
			tryOdd(func(n []byte) { type1.NewBasicPrivateClient().CreateTokenRequest(challenge, n, keyID, iss.TokenKey()) })
			st, err := type1.NewBasicPrivateClient().CreateTokenRequest(challenge, nonce, keyID, iss.TokenKey())
			if err != nil {
				panic(err)
			}
			reqFields = func() { a.out("out.request.fields", "req.blinded", st.Request().BlindedReq) }
			marshal = func() []byte { return st.Request().Marshal() }
			evaluate = func() []byte { resp, _ := iss.Evaluate(st.Request()); return resp }
			finalize = func(b []byte) ([]tokens.Token, error) {
				t, err := st.FinalizeToken(b)
				return []tokens.Token{t}, err
			}
		case "t2state":
			iss := type2.NewBasicPublicIssuer(rsaKey(0))
			keyID := a.arg("arg.keyid", "keyid", iss.TokenKeyID(), spare)
			tryOdd(func(n []byte) { type2.NewBasicPublicClient().CreateTokenRequest(challenge, n, keyID, iss.TokenKey()) })
			st, err := type2.NewBasicPublicClient().CreateTokenRequest(challenge, nonce, keyID, iss.TokenKey())
			if err != nil {
				panic(err)
			}
			reqFields = func() { a.out("out.request.fields", "req.blinded", st.Request().BlindedReq) }
			marshal = func() []byte { return st.Request().Marshal() }
			evaluate = func() []byte { resp, _ := iss.Evaluate(st.Request()); return resp }
			finalize = func(b []byte) ([]tokens.Token, error) {
				t, err := st.FinalizeToken(b)
				return []tokens.Token{t}, err
			}
		case "t5state":
			k := ristrettoKey(seed, "k1")
			iss := type5.NewBatchedPrivateIssuer(k)
			keyID := a.arg("arg.keyid", "keyid", iss.TokenKeyID(), spare)
			tryOdd(func(n []byte) {
				type5.NewBatchedPrivateClient().CreateTokenRequest(challenge, [][]byte{nonce2, n}, keyID, iss.TokenKey())
			})
			st, err := type5.NewBatchedPrivateClient().CreateTokenRequest(challenge, [][]byte{nonce, nonce2}, keyID, iss.TokenKey())
			if err != nil {
				panic(err)
			}
			reqFields = func() {
				for i, e := range st.Request().BlindedReq {
					a.out("out.request.fields", fmt.Sprintf("req.blinded%d", i), e)
				}
			}
			marshal = func() []byte { return st.Request().Marshal() }
			evaluate = func() []byte { resp, _ := iss.Evaluate(st.Request()); return resp }
			finalize = st.FinalizeTokens
		case "t3state":
			w := newT3World(rsaKey(1), seed, map[string]string{"origin.example": "a"})
			keyID := a.arg("arg.keyid", "keyid", w.issuer.TokenKeyID(), spare)
			blind := a.arg("arg.blind", "blind", p384Scalar(seed, "mem-blind"), spare)
			tryOdd(func(n []byte) {
				type3.NewRateLimitedClientFromSecret(p384Scalar(seed, "mem-client")).CreateTokenRequest(challenge, n, blind, keyID,
					w.issuer.TokenKey(), "origin.example", w.issuer.NameKey())
			})
			st, err := type3.NewRateLimitedClientFromSecret(p384Scalar(seed, "mem-client")).CreateTokenRequest(challenge, nonce, blind, keyID,
				w.issuer.TokenKey(), "origin.example", w.issuer.NameKey())
			if err != nil {
				panic(err)
			}
			reqFields = func() {
				q := st.Request()
				a.out("out.request.fields", "req.request_key", q.RequestKey)
				a.out("out.request.fields", "req.name_key_id", q.NameKeyID)
				a.out("out.request.fields", "req.enc", q.EncryptedTokenRequest)
				a.out("out.request.fields", "req.sig", q.Signature)
				a.out("out.state", "state.request_key", st.RequestKey())
				a.out("out.state", "state.client_key", st.ClientKey())
			}
			marshal = func() []byte { return st.Request().Marshal() }
			encoded := append([]byte{}, st.Request().Marshal()...)
			evaluate = func() []byte { resp, _, _ := w.issuer.Evaluate(append([]byte{}, encoded...)); return resp }
			finalize = func(b []byte) ([]tokens.Token, error) {
				t, err := st.FinalizeToken(b)
				return []tokens.Token{t}, err
			}
		}
		// creation and its attempts have returned: their arguments are still the caller's
		created = a.diff()
		// the request object is reachable from the state handed out by creation
		reqFields()
		a.diff()
		honest := evaluate()
		ntok := 0
		for _, c := range calls {
			c := c
			switch c {
			case "Request":
				do(c, func() (string, string) { reqFields(); return "ok", "" })
			case "Marshal":
				do(c, func() (string, string) {
					m := marshal()
					a.out("out.encoding", fmt.Sprintf("encoding%d", len(steps)), m)
					return "ok", ""
				})
			case "FinGood", "FinBad", "FinShort":
				resp := append([]byte{}, honest...)
				var arg []byte
				if c == "FinBad" {
					resp[len(resp)/2] ^= 0x10
				}
				if c == "FinShort" {
					// cut inside the last field; under one of the two fills the spare capacity behind the slice
					// holds exactly the missing tail, under the other a pattern: the result must not depend on it
					cut := len(resp) - 1 - (len(steps)*7)%30
					if fill == 0x00 {
						arg = a.argTail("arg.response", fmt.Sprintf("response%d", len(steps)), resp[:cut], resp[cut:], spare+64)
					} else {
						arg = a.arg("arg.response", fmt.Sprintf("response%d", len(steps)), resp[:cut], spare+64)
					}
				} else {
					arg = a.arg("arg.response", fmt.Sprintf("response%d", len(steps)), resp, spare)
				}
				do(c, func() (string, string) {
					toks, err := finalize(arg)
					if err != nil {
						return "error", ""
					}
					for _, t := range toks {
						ntok++
						trackToken(a, t, ntok)
					}
					return "ok", ""
				})
				if c == "FinGood" {
					a.callerOverwritesTokens()
				}
			}
		}
	case "t1issuer", "t5issuer", "t2issuer":
		var evaluate func(el []byte) ([]byte, error)
		var verify func(tok tokens.Token) error
		var keyID func() []byte
		var element []byte
		var tok tokens.Token
		switch kind {
		case "t1issuer":
			k := p384Key(seed, "k1")
			iss := type1.NewBasicPrivateIssuer(k)
			art, _ := honestT1(k, randBytes(r, 9), randNonce(r), false)
			element, tok = art.state.Request().BlindedReq, art.token
			evaluate = func(el []byte) ([]byte, error) {
				return iss.Evaluate(&type1.BasicPrivateTokenRequest{TokenKeyID: 1, BlindedReq: el})
			}
			verify, keyID = iss.Verify, iss.TokenKeyID
		case "t5issuer":
			k := ristrettoKey(seed, "k1")
			iss := type5.NewBatchedPrivateIssuer(k)
			art, _ := honestT5(k, randBytes(r, 9), [][]byte{randNonce(r)}, false)
			element, tok = art.state.Request().BlindedReq[0], art.tokens[0]
			evaluate = func(el []byte) ([]byte, error) {
				return iss.Evaluate(&type5.BatchedPrivateTokenRequest{TokenKeyID: 1, BlindedReq: [][]byte{el}})
			}
			verify, keyID = iss.Verify, iss.TokenKeyID
		case "t2issuer":
			iss := type2.NewBasicPublicIssuer(rsaKey(0))
			art, _ := honestT2(rsaKey(0), randBytes(r, 9), randNonce(r), false)
			element, tok = art.state.Request().BlindedReq, art.token
			evaluate = func(el []byte) ([]byte, error) {
				return iss.Evaluate(&type2.BasicPublicTokenRequest{TokenKeyID: 1, BlindedReq: el})
			}
			keyID = iss.TokenKeyID
		}
		for _, c := range calls {
			switch c {
			case "Evaluate":
				el := a.arg("arg.request", fmt.Sprintf("element%d", len(steps)), element, spare)
				do(c, func() (string, string) {
					resp, err := evaluate(el)
					if err != nil {
						return "error", ""
					}
					a.out("out.response", fmt.Sprintf("response%d", len(steps)), resp)
					return "ok", ""
				})
			case "Verify":
				t := tokens.Token{TokenType: tok.TokenType, Nonce: a.arg("arg.token", fmt.Sprintf("tok.nonce%d", len(steps)), tok.Nonce, spare),
					Context:       a.arg("arg.token", fmt.Sprintf("tok.context%d", len(steps)), tok.Context, spare),
					KeyID:         a.arg("arg.token", fmt.Sprintf("tok.keyid%d", len(steps)), tok.KeyID, spare),
					Authenticator: a.arg("arg.token", fmt.Sprintf("tok.auth%d", len(steps)), tok.Authenticator, spare)}
				do(c, func() (string, string) { return resErr(verify(t)), resErr(verify(t)) })
			case "KeyID", "Key":
				do(c, func() (string, string) {
					id := keyID()
					a.out("out.key", fmt.Sprintf("keyid%d", len(steps)), id)
					return "ok", digestOf(id)
				})
			}
		}
	case "t3issuer":
		w := newT3World(rsaKey(1), seed, map[string]string{"origin.example": "a"})
		art, err := honestT3(w, p384Scalar(seed, "mem-client"), p384Scalar(seed, "mem-blind"), randBytes(r, 9), randNonce(r), "origin.example")
		if err != nil {
			panic(err)
		}
		for _, c := range calls {
			switch c {
			case "Evaluate", "EvaluateBad":
				enc := append([]byte{}, art.req...)
				if c == "EvaluateBad" {
					enc[100] ^= 1
				}
				arg := a.arg("arg.request", fmt.Sprintf("request%d", len(steps)), enc, spare)
				do(c, func() (string, string) {
					resp, key, err := w.issuer.Evaluate(arg)
					if err != nil {
						return "error", ""
					}
					a.out("out.response", fmt.Sprintf("response%d", len(steps)), resp)
					a.out("out.response", fmt.Sprintf("blindedkey%d", len(steps)), key)
					return "ok", digestOf(key)
				})
			case "KeyID":
				do(c, func() (string, string) {
					id := w.issuer.TokenKeyID()
					a.out("out.key", fmt.Sprintf("keyid%d", len(steps)), id)
					return "ok", digestOf(id)
				})
			case "NameKey":
				do(c, func() (string, string) {
					m := w.issuer.NameKey().Marshal()
					a.out("out.key", fmt.Sprintf("namekey%d", len(steps)), m)
					return "ok", ""
				})
			}
		}
	case "attester":
		w := newT3World(rsaKey(1), seed, map[string]string{"origin.example": "a"})
		secret, blindv := p384Scalar(seed, "mem-client"), p384Scalar(seed, "mem-blind")
		art, err := honestT3(w, secret, blindv, randBytes(r, 9), randNonce(r), "origin.example")
		if err != nil {
			panic(err)
		}
		att := type3.NewRateLimitedAttester(newMemCache())
		mkReq := func(bad bool) type3.RateLimitedTokenRequest {
			q := new(type3.RateLimitedTokenRequest)
			q.Unmarshal(art.req)
			n := len(steps)
			sig := append([]byte{}, q.Signature...)
			if bad {
				sig[5] ^= 1
			}
			return type3.RateLimitedTokenRequest{RequestKey: a.arg("arg.request", fmt.Sprintf("rk%d", n), q.RequestKey, spare),
				NameKeyID:             a.arg("arg.request", fmt.Sprintf("nk%d", n), q.NameKeyID, spare),
				EncryptedTokenRequest: a.arg("arg.request", fmt.Sprintf("enc%d", n), q.EncryptedTokenRequest, spare),
				Signature:             a.arg("arg.request", fmt.Sprintf("sig%d", n), sig, spare)}
		}
		for _, c := range calls {
			n := len(steps)
			switch c {
			case "VerifyGood", "VerifyBad":
				q := mkReq(c == "VerifyBad")
				b := a.arg("arg.blind", fmt.Sprintf("blind%d", n), blindv, spare)
				ck := a.arg("arg.clientkey", fmt.Sprintf("ck%d", n), art.clientKey, spare)
				an := a.arg("arg.anon", fmt.Sprintf("anon%d", n), hashBytes(seed, "mem-anon", 32), spare)
				do(c, func() (string, string) { e := resErr(att.VerifyRequest(q, b, ck, an)); return e, e })
			case "Finalize":
				b := a.arg("arg.blind", fmt.Sprintf("blind%d", n), blindv, spare)
				ck := a.arg("arg.clientkey", fmt.Sprintf("ck%d", n), art.clientKey, spare)
				bk := a.arg("arg.blindedkey", fmt.Sprintf("bk%d", n), art.blindedRK, spare)
				an := a.arg("arg.anon", fmt.Sprintf("anon%d", n), hashBytes(seed, "mem-anon", 32), spare)
				do(c, func() (string, string) {
					idx, err := att.FinalizeIndex(ck, b, bk, an)
					if err != nil {
						return "error", "error"
					}
					a.out("out.index", fmt.Sprintf("index%d", n), idx)
					return "ok", digestOf(idx)
				})
			}
		}
	case "batch":
		k1 := p384Key(seed, "k1")
		x1, _ := honestT1(k1, randBytes(r, 9), randNonce(r), false)
		x2, _ := honestT2(rsaKey(0), randBytes(r, 9), randNonce(r), false)
		br, err := batched.NewBasicClient().CreateTokenRequest([]tokens.TokenRequestWithDetails{x1.state.Request(), x2.state.Request()})
		if err != nil {
			panic(err)
		}
		iss := batched.NewBasicBatchedIssuer(batchIssuer1{type1.NewBasicPrivateIssuer(k1)}, batchIssuer2{type2.NewBasicPublicIssuer(rsaKey(0))})
		encoded := append([]byte{}, br.Marshal()...)
		resp, _ := iss.EvaluateBatch(br)
		for _, c := range calls {
			n := len(steps)
			switch c {
			case "Marshal":
				do(c, func() (string, string) {
					m := br.Marshal()
					a.out("out.encoding", fmt.Sprintf("encoding%d", n), m)
					return "ok", ""
				})
			case "Unmarshal":
				arg := a.arg("arg.bytes", fmt.Sprintf("bytes%d", n), encoded, spare)
				do(c, func() (string, string) {
					d := new(batched.BatchedTokenRequest)
					ok := d.Unmarshal(arg)
					if !ok {
						return "error", "error"
					}
					for i, q := range d.VerifRequests() {
						if t1, ok := q.(*type1.BasicPrivateTokenRequest); ok {
							a.out("out.fields", fmt.Sprintf("dec%d.%d", n, i), t1.BlindedReq)
						}
						if t2, ok := q.(*type2.BasicPublicTokenRequest); ok {
							a.out("out.fields", fmt.Sprintf("dec%d.%d", n, i), t2.BlindedReq)
						}
					}
					return "ok", "ok"
				})
			case "Evaluate":
				do(c, func() (string, string) {
					out, err := iss.EvaluateBatch(br)
					if err != nil {
						return "error", ""
					}
					a.out("out.response", fmt.Sprintf("resp%d", n), out)
					return "ok", ""
				})
			case "DecodeResp":
				arg := a.arg("arg.bytes", fmt.Sprintf("respbytes%d", n), resp, spare)
				do(c, func() (string, string) {
					rs, err := batched.UnmarshalBatchedTokenResponses(arg)
					if err != nil {
						return "error", "error"
					}
					for i, x := range rs {
						a.out("out.fields", fmt.Sprintf("slot%d.%d", n, i), x)
					}
					return "ok", fmt.Sprint(len(rs))
				})
			}
		}
	case "ecdsa":
		curve := elliptic.P384()
		sk, _ := rawKey(curve, p384Scalar(seed, "mem-ec-sk"))
		bk, _ := rawKey(curve, p384Scalar(seed, "mem-ec-bk"))
		keyBytes := func() []byte {
			return bytes.Join([][]byte{sk.D.Bytes(), sk.X.Bytes(), sk.Y.Bytes(), bk.D.Bytes(), bk.X.Bytes(), bk.Y.Bytes()}, nil)
		}
		keySnap := keyBytes()
		msg := hashBytes(seed, "mem-ec-digest", 48)
		sigR, sigS, _ := ecdsa.Sign(cryptorand.Reader, sk, msg)
		der := derSig(sigR, sigS)
		var cur = &sk.PublicKey
		for _, c := range calls {
			n := len(steps)
			ctx := a.arg("arg.context", fmt.Sprintf("ctx%d", n), []byte("context string"), spare)
			if n%3 == 1 {
				ctx = ctx[:0]
			} else if n%3 == 2 {
				ctx = nil
			}
			m := a.arg("arg.message", fmt.Sprintf("msg%d", n), msg, spare)
			switch c {
			case "Blind", "Unblind":
				do(c, func() (string, string) {
					var out *ecdsa.PublicKey
					var err error
					if c == "Blind" {
						out, err = ecdsa.BlindPublicKeyWithContext(curve, cur, bk, ctx)
					} else {
						out, err = ecdsa.UnblindPublicKeyWithContext(curve, cur, bk, ctx)
					}
					if err != nil {
						return "error", "error"
					}
					cur = out
					return "ok", digestOf(out.X.Bytes(), out.Y.Bytes())
				})
			case "BlindSign":
				do(c, func() (string, string) {
					_, _, err := ecdsa.BlindKeySignWithContext(cryptorand.Reader, sk, bk, m, ctx)
					return resErr(err), ""
				})
			case "CreateKey":
				// key objects are made from encodings lying in the caller's buffers: full length, shorter than the scalar
				// size, and with a leading zero byte; the last one is the blind key of the following calls
				full := p384Scalar(seed, fmt.Sprintf("mem-ec-bk-%d", n))
				short := append([]byte{}, p384Scalar(seed, fmt.Sprintf("mem-ec-bks-%d", n))[16:]...)
				lead0 := p384Scalar(seed, fmt.Sprintf("mem-ec-bkz-%d", n))
				lead0[0] = 0
				args := [][]byte{a.arg("arg.blind", fmt.Sprintf("bk%d-full", n), full, spare), a.arg("arg.blind", fmt.Sprintf("bk%d-short", n), short, spare),
					a.arg("arg.blind", fmt.Sprintf("bk%d-lead0", n), lead0, spare)}
				do(c, func() (string, string) {
					var ds [][]byte
					for _, enc := range args {
						k, err := ecdsa.CreateKey(curve, enc)
						if err != nil {
							return "error", "error"
						}
						bk = k
						ds = append(ds, k.D.Bytes(), k.X.Bytes(), k.Y.Bytes())
					}
					keySnap = keyBytes()
					return "ok", digestOf(ds...)
				})
			case "Sign":
				do(c, func() (string, string) { _, _, err := ecdsa.Sign(cryptorand.Reader, sk, m); return resErr(err), "" })
			case "Verify":
				do(c, func() (string, string) {
					v := resBool(ecdsa.Verify(&sk.PublicKey, m, new(big.Int).Set(sigR), new(big.Int).Set(sigS)))
					return v, v
				})
			case "VerifyASN1":
				sg := a.arg("arg.signature", fmt.Sprintf("sig%d", n), der, spare)
				do(c, func() (string, string) { v := resBool(ecdsa.VerifyASN1(&sk.PublicKey, m, sg)); return v, v })
			}
			if !bytes.Equal(keyBytes(), keySnap) {
				steps[len(steps)-1].changed = append(steps[len(steps)-1].changed, "arg.key (big.Int values of a key argument)")
				keySnap = keyBytes()
			}
			steps[len(steps)-1].classes = append(steps[len(steps)-1].classes, "arg.key", "arg.blind", "out.key", "out.signature") // integers, tracked by value
		}
	case "ed25519":
		priv := ed25519.NewKeyFromSeed(hashBytes(seed, "mem-ed-seed", 32))
		msg := hashBytes(seed, "mem-ed-msg", 40)
		sig0 := ed25519.Sign(priv, msg)
		cur := append([]byte{}, priv[32:]...)
		for _, c := range calls {
			n := len(steps)
			blind := a.arg("arg.blind", fmt.Sprintf("blind%d", n), hashBytes(seed, "mem-ed-blind", 32), spare+32)
			ctx := a.arg("arg.context", fmt.Sprintf("ctx%d", n), []byte("context string"), spare)
			switch n % 3 { // also the empty and the nil context
			case 1:
				ctx = ctx[:0]
			case 2:
				ctx = nil
			}
			m := a.arg("arg.message", fmt.Sprintf("msg%d", n), msg, spare)
			pk := a.arg("arg.key", fmt.Sprintf("pub%d", n), cur, spare)
			sk := a.arg("arg.key", fmt.Sprintf("priv%d", n), priv, spare)
			switch c {
			case "Blind", "Unblind":
				do(c, func() (string, string) {
					var out ed25519.PublicKey
					var err error
					if c == "Blind" {
						out, err = ed25519.BlindPublicKeyWithContext(pk, blind, ctx)
					} else {
						out, err = ed25519.UnblindPublicKeyWithContext(pk, blind, ctx)
					}
					if err != nil {
						return "error", "error"
					}
					a.out("out.key", fmt.Sprintf("key%d", n), out)
					cur = append([]byte{}, out...)
					return "ok", digestOf(out)
				})
			case "BlindSign":
				do(c, func() (string, string) {
					s := ed25519.BlindKeySignWithContext(sk, m, blind, ctx)
					a.out("out.signature", fmt.Sprintf("bsig%d", n), s)
					return "ok", digestOf(s)
				})
			case "Sign":
				do(c, func() (string, string) {
					s := ed25519.Sign(sk, m)
					a.out("out.signature", fmt.Sprintf("sig%d", n), s)
					return "ok", digestOf(s)
				})
			case "Verify":
				sg := a.arg("arg.signature", fmt.Sprintf("vsig%d", n), sig0, spare)
				do(c, func() (string, string) { v := resBool(ed25519.Verify(sk[32:], m, sg)); return v, v })
			}
		}
	case "codec":
		// the same honest messages under both fills (they are made with the library's own randomness)
		hs := cachedHonest(seed, strings.Join(calls, ","), r)
		// two honest messages per kind, used alternately: decoding a DIFFERENT message into the same object must not
		// overwrite what an earlier decode handed out (the same message again would overwrite it with equal bytes)
		pickA, pickB := map[string][]byte{}, map[string][]byte{}
		for _, h := range hs {
			if _, ok := pickA[h.m]; !ok {
				pickA[h.m] = h.b
			}
			pickB[h.m] = h.b
		}
		msgs := []string{"t1req", "t2req", "t3req", "t5req", "inner", "batchreq"}
		for _, m := range msgs {
			// kinds with a single honest message get a second one that differs in its last byte (decoders do not judge contents)
			if bytes.Equal(pickA[m], pickB[m]) && len(pickA[m]) > 0 {
				b := append([]byte{}, pickA[m]...)
				b[len(b)-1] ^= 0x01
				if newObj(m).Unmarshal(append([]byte{}, b...)) {
					pickB[m] = b
				}
			}
		}
		objs := map[string]codecObj{}
		for _, m := range msgs {
			objs[m] = newObj(m)
		}
		for _, c := range calls {
			n := len(steps)
			switch c {
			case "Unmarshal", "UnmarshalBad":
				args := map[string][]byte{}
				for _, m := range msgs {
					pick := pickA
					if n%2 == 1 {
						pick = pickB
					}
					b := append([]byte{}, pick[m]...)
					if c == "UnmarshalBad" {
						// cut inside the last field; under one fill the spare capacity behind the slice holds exactly
						// the missing bytes, under the other a pattern: neither may be read
						cut := len(b) - 1 - (n*5)%7
						if m == "batchreq" {
							// consistently re-framed: the list length announces exactly the truncated body, so the
							// list ENDS inside its last request (a cut message with an honest prefix is refused early)
							if l, w := quicwire.ConsumeVarint(b); w > 0 && int(l) == len(b)-w {
								nb := quicwire.AppendVarint(nil, uint64(cut-w))
								if len(nb) == w {
									b = append(nb, b[w:]...)
								}
							}
						}
						if fill == 0x00 {
							args[m] = a.argTail("arg.bytes", fmt.Sprintf("%s.bytes%d", m, n), b[:cut], b[cut:], spare+16)
						} else {
							args[m] = a.arg("arg.bytes", fmt.Sprintf("%s.bytes%d", m, n), b[:cut], spare+16)
						}
						continue
					}
					args[m] = a.arg("arg.bytes", fmt.Sprintf("%s.bytes%d", m, n), b, spare)
				}
				do(c, func() (string, string) {
					d := []byte{}
					for _, m := range msgs {
						ok := objs[m].Unmarshal(args[m])
						d = append(d, byte(map[bool]int{false: 0, true: 1}[ok]))
						if ok {
							trackObj(a, m, objs[m], n)
							// what was decoded is part of the result: it must not depend on bytes outside the argument
							vb, _ := json.Marshal(objVal(m, objs[m])) // read from the fields, not through Marshal (its cache is state)
							h := sha256.Sum256(vb)
							d = append(d, h[:]...)
						}
					}
					return "ok", digestOf(d)
				})
			case "Marshal":
				do(c, func() (string, string) {
					all := [][]byte{}
					for _, m := range msgs {
						e := objs[m].Marshal()
						a.out("out.encoding", fmt.Sprintf("%s.encoding%d", m, n), e)
						all = append(all, e)
					}
					return "ok", fmt.Sprint(len(all))
				})
			}
		}
	}
	return steps, created
}

var honestCache = struct {
	sync.Mutex
	m map[string][]honestMsg
}{m: map[string][]honestMsg{}}

// cachedHonest: the first run of a history (first fill) makes the honest messages, the second run reuses them.
func cachedHonest(seed int64, calls string, r *rand.Rand) []honestMsg {
	honestCache.Lock()
	defer honestCache.Unlock()
	k := fmt.Sprintf("%d/%s", seed, calls)
	if hs, ok := honestCache.m[k]; ok {
		delete(honestCache.m, k)
		return hs
	}
	hs := honestMessages(&ctx{seed: seed}, r)
	honestCache.m[k] = hs
	return hs
}

func trackObj(a *memArena, m string, o codecObj, n int) {
	switch r := o.(type) {
	case *type1.BasicPrivateTokenRequest:
		a.out("out.fields", fmt.Sprintf("%s.blinded%d", m, n), r.BlindedReq)
	case *type2.BasicPublicTokenRequest:
		a.out("out.fields", fmt.Sprintf("%s.blinded%d", m, n), r.BlindedReq)
	case *type3.RateLimitedTokenRequest:
		a.out("out.fields", fmt.Sprintf("%s.rk%d", m, n), r.RequestKey)
		a.out("out.fields", fmt.Sprintf("%s.enc%d", m, n), r.EncryptedTokenRequest)
		a.out("out.fields", fmt.Sprintf("%s.sig%d", m, n), r.Signature)
	case *type5.BatchedPrivateTokenRequest:
		for i, e := range r.BlindedReq {
			a.out("out.fields", fmt.Sprintf("%s.el%d.%d", m, n, i), e)
		}
	}
}

func execMemory(c *ctx, in ev) []ev {
	kind := gS(in, "kind")
	calls := []string{}
	for _, x := range gL(in, "calls") {
		calls = append(calls, x.(string))
	}
	mnew := ev{"op": "MNew", "kind": kind, "changed": []string{}}
	out := []ev{mnew}
	var runs [2][]memStep
	p := guard(func() {
		var c0, c1 []string
		runs[0], c0 = memRun(c.seed, kind, calls, 0x00)
		runs[1], c1 = memRun(c.seed, kind, calls, 0xd7)
		mnew["changed"] = append(append([]string{}, c0...), c1...)
	})
	if p != "" {
		return append(out, ev{"op": "MCall", "kind": kind, "call": "setup", "step": 0, "changed": []string{}, "classes": []string{}, "res": "", "det_same": true,
			"panic": "harness/setup: " + p})
	}
	for i := range runs[0] {
		s0 := runs[0][i]
		e := ev{"op": "MCall", "kind": kind, "call": s0.call, "step": i + 1, "changed": append([]string{}, s0.changed...), "classes": s0.classes,
			"res": s0.res, "panic": s0.panic, "det_same": true}
		if i < len(runs[1]) {
			s1 := runs[1][i]
			e["changed"] = append(e["changed"].([]string), s1.changed...)
			e["det_same"] = s0.det == s1.det && s0.res == s1.res
			if s1.panic != "" {
				e["panic"] = s1.panic
			}
		}
		out = append(out, e)
	}
	return out
}

func genMemory(c *ctx, emit func(ev)) {
	path := os.Getenv("VERIF_MEMORY_BEHAVIOURS")
	if path == "" {
		return
	}
	data, err := os.ReadFile(path)
	if err != nil {
		panic(err)
	}
	var beh []struct {
		Kind  string   `json:"kind"`
		Calls []string `json:"calls"`
	}
	if err := json.Unmarshal(data, &beh); err != nil {
		panic(err)
	}
	for _, b := range beh {
		emit(ev{"op": "MHist", "kind": b.Kind, "calls": b.Calls})
	}
}

var _ = oprf.SuiteP384
