package main

import (
	"encoding/binary"
	"encoding/hex"
	"encoding/json"
	"math/rand"
	"os"
	"strconv"
	"strings"

	"github.com/cloudflare/pat-go/quicwire"
	"github.com/cloudflare/pat-go/tokens"
	"github.com/cloudflare/pat-go/tokens/batched"
	"github.com/cloudflare/pat-go/tokens/type1"
	"github.com/cloudflare/pat-go/tokens/type2"
	"github.com/cloudflare/pat-go/tokens/type3"
	"github.com/cloudflare/pat-go/tokens/type5"
)

// Family "wire" (properties C04 and, with -arg measure, the decoder part of
// C03): every wire codec of pat-go is driven with honest messages, the
// grammar-derived mutation closure of honest messages and seeded random
// strings. Events carry input, verdict, decoded value and the re-encoding;
// Trace_Codec.tla decodes/encodes with Messages.tla and compares.

func init() { register("wire", &family{gen: genWire, exec: execWire}) }

type codecObj interface {
	Marshal() []byte
	Unmarshal([]byte) bool
}

type batchObj struct{ r *batched.BatchedTokenRequest }

func (b batchObj) Marshal() []byte         { return b.r.Marshal() }
func (b batchObj) Unmarshal(d []byte) bool { return b.r.Unmarshal(d) }

func newObj(m string) codecObj {
	switch m {
	case "t1req":
		return new(type1.BasicPrivateTokenRequest)
	case "t2req":
		return new(type2.BasicPublicTokenRequest)
	case "t3req":
		return new(type3.RateLimitedTokenRequest)
	case "t5req":
		return new(type5.BatchedPrivateTokenRequest)
	case "inner":
		return new(type3.InnerTokenRequest)
	case "batchreq":
		return batchObj{new(batched.BatchedTokenRequest)}
	}
	return nil
}

func list(bs [][]byte) []any {
	out := make([]any, len(bs))
	for i, b := range bs {
		out[i] = B(b)
	}
	return out
}

// objVal projects a request object onto the value record of Messages.tla.
func objVal(m string, o codecObj) any {
	switch r := o.(type) {
	case *type1.BasicPrivateTokenRequest:
		return ev{"key_id": int(r.TokenKeyID), "blinded": B(r.BlindedReq)}
	case *type2.BasicPublicTokenRequest:
		return ev{"key_id": int(r.TokenKeyID), "blinded": B(r.BlindedReq)}
	case *type3.RateLimitedTokenRequest:
		return ev{"request_key": B(r.RequestKey), "name_key_id": B(r.NameKeyID), "enc_req": B(r.EncryptedTokenRequest), "sig": B(r.Signature)}
	case *type5.BatchedPrivateTokenRequest:
		return ev{"key_id": int(r.TokenKeyID), "elems": list(r.BlindedReq)}
	case *type3.InnerTokenRequest:
		k, b, p := r.VerifFields()
		return ev{"key_id": int(k), "blinded": B(b), "padded": B(p)}
	case batchObj:
		out := []any{}
		for _, q := range r.r.VerifRequests() {
			switch x := q.(type) {
			case *type1.BasicPrivateTokenRequest:
				out = append(out, ev{"type": 1, "key_id": int(x.TokenKeyID), "blinded": B(x.BlindedReq)})
			case *type2.BasicPublicTokenRequest:
				out = append(out, ev{"type": 2, "key_id": int(x.TokenKeyID), "blinded": B(x.BlindedReq)})
			default:
				out = append(out, ev{"type": int(q.Type()), "key_id": int(q.TruncatedTokenKeyID()), "blinded": B(nil)})
			}
		}
		return out
	}
	return ev{}
}

func tokenVal(t tokens.Token) ev {
	return ev{"type": int(t.TokenType), "nonce": B(t.Nonce), "context": B(t.Context), "key_id": B(t.KeyID), "auth": B(t.Authenticator)}
}

func challengeVal(c tokens.TokenChallenge) ev {
	return ev{"type": int(c.TokenType), "issuer": B([]byte(c.IssuerName)), "nonce": B(c.RedemptionNonce),
		"origin": B([]byte(strings.Join(c.OriginInfo, ",")))}
}

// decodeOnce runs the decoder of message m on b with a fresh object.
func decodeOnce(m string, b []byte) (ok bool, val any, marshalAfter []byte, hasMarshal bool, extra ev) {
	extra = ev{}
	val = ev{}
	switch m {
	case "t1req", "t2req", "t3req", "t5req", "inner", "batchreq":
		o := newObj(m)
		ok = o.Unmarshal(b)
		if ok {
			val = objVal(m, o)
			marshalAfter = o.Marshal()
			hasMarshal = true
		}
	case "encap":
		k, err := type3.UnmarshalEncapKey(b)
		ok = err == nil
		if ok {
			id, kem, kdf, aead, pk := k.VerifFields()
			val = ev{"id": int(id), "kem": int(kem), "pk": B(pk), "kdf": int(kdf), "aead": int(aead)}
			marshalAfter = k.Marshal()
			hasMarshal = true
		}
	case "challenge":
		c, err := tokens.UnmarshalTokenChallenge(b)
		ok = err == nil
		if ok {
			val = challengeVal(c)
			o := make([][]byte, len(c.OriginInfo))
			for i, s := range c.OriginInfo {
				o[i] = []byte(s)
			}
			extra["origins"] = list(o)
			marshalAfter = c.Marshal()
			hasMarshal = true
		}
	case "token1", "token2", "token3", "token5":
		var t tokens.Token
		var err error
		switch m {
		case "token1":
			t, err = type1.UnmarshalPrivateToken(b)
		case "token2":
			t, err = type2.UnmarshalToken(b)
		case "token3":
			t, err = type3.UnmarshalToken(b)
		case "token5":
			t, err = type5.UnmarshalBatchedPrivateToken(b)
		}
		ok = err == nil
		if ok {
			val = tokenVal(t)
			marshalAfter = t.Marshal()
			hasMarshal = true
		}
	case "batchresp":
		rs, err := batched.UnmarshalBatchedTokenResponses(b)
		ok = err == nil
		if ok {
			val = list(rs)
		}
	}
	return
}

func jBytes(v any) []byte {
	arr, _ := v.([]any)
	out := make([]byte, len(arr))
	for i, x := range arr {
		n, _ := x.(json.Number).Int64()
		out[i] = byte(n)
	}
	return out
}

func jInt(v any) int {
	n, _ := v.(json.Number).Int64()
	return int(n)
}

// encodeVal builds the Go value from the record and marshals it.
func encodeVal(m string, v any) []byte {
	rec, _ := v.(map[string]any)
	switch m {
	case "t1req":
		return (&type1.BasicPrivateTokenRequest{TokenKeyID: uint8(jInt(rec["key_id"])), BlindedReq: jBytes(rec["blinded"])}).Marshal()
	case "t2req":
		return (&type2.BasicPublicTokenRequest{TokenKeyID: uint8(jInt(rec["key_id"])), BlindedReq: jBytes(rec["blinded"])}).Marshal()
	case "t3req":
		return (&type3.RateLimitedTokenRequest{RequestKey: jBytes(rec["request_key"]), NameKeyID: jBytes(rec["name_key_id"]),
			EncryptedTokenRequest: jBytes(rec["enc_req"]), Signature: jBytes(rec["sig"])}).Marshal()
	case "t5req":
		el := [][]byte{}
		for _, x := range rec["elems"].([]any) {
			el = append(el, jBytes(x))
		}
		return (&type5.BatchedPrivateTokenRequest{TokenKeyID: uint8(jInt(rec["key_id"])), BlindedReq: el}).Marshal()
	case "inner":
		return type3.VerifNewInnerTokenRequest(uint8(jInt(rec["key_id"])), jBytes(rec["blinded"]), jBytes(rec["padded"])).Marshal()
	case "challenge":
		origins := strings.Split(string(jBytes(rec["origin"])), ",")
		return tokens.TokenChallenge{TokenType: uint16(jInt(rec["type"])), IssuerName: string(jBytes(rec["issuer"])),
			RedemptionNonce: jBytes(rec["nonce"]), OriginInfo: origins}.Marshal()
	case "token1", "token2", "token3", "token5":
		return tokens.Token{TokenType: uint16(jInt(rec["type"])), Nonce: jBytes(rec["nonce"]), Context: jBytes(rec["context"]),
			KeyID: jBytes(rec["key_id"]), Authenticator: jBytes(rec["auth"])}.Marshal()
	case "batchreq":
		reqs := []tokens.TokenRequestWithDetails{}
		for _, x := range v.([]any) {
			r := x.(map[string]any)
			if jInt(r["type"]) == 1 {
				reqs = append(reqs, &type1.BasicPrivateTokenRequest{TokenKeyID: uint8(jInt(r["key_id"])), BlindedReq: jBytes(r["blinded"])})
			} else {
				reqs = append(reqs, &type2.BasicPublicTokenRequest{TokenKeyID: uint8(jInt(r["key_id"])), BlindedReq: jBytes(r["blinded"])})
			}
		}
		br, err := batched.NewBasicClient().CreateTokenRequest(reqs)
		if err != nil {
			return nil
		}
		return br.Marshal()
	}
	return nil
}

func execWire(c *ctx, in ev) []ev {
	measure := c.arg == "measure"
	m := gS(in, "m")
	switch gS(in, "op") {
	case "TagSweep":
		// an honest request under EVERY other 16-bit type tag (an alias of the type is one value among 65535)
		b := gB(in, "b")
		off := gI(in, "off")
		own := int(b[off])<<8 | int(b[off+1])
		e := ev{"op": "TagSweep", "m": m, "own": own, "tried": 0, "accepted": 0, "first": -1}
		e["panic"] = guard(func() {
			for t := 0; t < 65536; t++ {
				if t == own || (m == "batchreq" && (t == 1 || t == 2)) {
					continue
				}
				buf := append([]byte{}, b...)
				buf[off], buf[off+1] = byte(t>>8), byte(t)
				ok, _, _, _, _ := decodeOnce(m, buf)
				e["tried"] = e["tried"].(int) + 1
				if ok {
					e["accepted"] = e["accepted"].(int) + 1
					if e["first"].(int) < 0 {
						e["first"] = t
					}
				}
			}
		})
		e["timeout"], e["alloc_kib"], e["ms"] = false, 0, 0
		return []ev{e}
	case "Dec":
		b := gB(in, "b")
		out := []ev{}
		seen := map[string]bool{}
		honest := gBool(in, "honest")
		for depth := 0; depth < 3; depth++ {
			// the decoder is handed a private copy sitting inside a larger buffer
			buf := make([]byte, len(b), len(b)+32)
			copy(buf, b)
			var ok, hasM bool
			var val any = ev{}
			var ma []byte
			var extra ev
			o := observe(measure, func() { ok, val, ma, hasM, extra = decodeOnce(m, buf[:len(b):len(b)]) })
			e := ev{"op": "Dec", "m": m, "b": B(b), "honest": honest, "ok": ok, "val": val,
				"has_marshal": hasM, "marshal_after": B(ma), "origins": []any{}}
			for k, v := range extra {
				e[k] = v
			}
			o.fill(e)
			out = append(out, e)
			seen[string(b)] = true
			// follow-up: the re-encoding must itself decode to the same value
			if !ok || !hasM || seen[string(ma)] || o.Panic != "" || o.Timeout {
				break
			}
			b, honest = ma, false
		}
		return out
	case "Api":
		return []ev{execApi(m, gB(in, "a"), gB(in, "b"))}
	case "Enc":
		var outb []byte
		o := observe(measure, func() { outb = encodeVal(m, in["val"]) })
		e := ev{"op": "Enc", "m": m, "val": in["val"], "out": B(outb)}
		o.fill(e)
		return []ev{e}
	case "Reuse":
		obj := newObj(m)
		out := []ev{{"op": "RNew", "m": m}}
		// histories with a consumer step ("X", type 3 only) need an issuer that can open the requests: the values 1 and 2
		// are then two honest requests made here, for this issuer (the trace records the bytes actually used)
		var xw *t3World
		local := map[string][]byte{}
		for _, st := range gL(in, "steps") {
			if st.(map[string]any)["k"] == "X" && xw == nil {
				xw = newT3World(rsaKey(3), c.seed, map[string]string{"reuse.example": "a", "another-origin-for-reuse.example": "b"})
				a1, e1 := honestT3(xw, p384Scalar(c.seed, "reuse-client"), p384Scalar(c.seed, "reuse-blind-1"), []byte("ch1"), make([]byte, 32), "reuse.example")
				a2, e2 := honestT3(xw, p384Scalar(c.seed, "reuse-client"), p384Scalar(c.seed, "reuse-blind-2"), []byte("ch2"), make([]byte, 32), "another-origin-for-reuse.example")
				if e1 != nil || e2 != nil {
					panic("reuse world")
				}
				local["1"], local["2"], local["g"] = a1.req, a2.req, a1.req[:len(a1.req)/2]
			}
		}
		for _, st := range gL(in, "steps") {
			s := st.(map[string]any)
			if s["k"].(string) == "X" {
				var ok bool
				o := observe(false, func() {
					_, _, err := xw.issuer.Evaluate(obj.Marshal()) // the slice Marshal returned, not a copy of it
					ok = err == nil
				})
				e := ev{"op": "RConsume", "m": m, "ok": ok}
				o.fill(e)
				out = append(out, e)
				continue
			}
			if s["k"].(string) == "M" {
				var mb []byte
				o := observe(false, func() { mb = obj.Marshal() })
				e := ev{"op": "RMarshal", "m": m, "out": B(mb)}
				o.fill(e)
				out = append(out, e)
			} else {
				b := jBytes(s["b"])
				if v, _ := s["v"].(string); xw != nil && local[v] != nil {
					b = local[v]
				}
				var ok bool
				o := observe(false, func() { ok = obj.Unmarshal(append([]byte{}, b...)) })
				var val any = ev{}
				if ok {
					val = objVal(m, obj)
				}
				e := ev{"op": "RUnmarshal", "m": m, "b": B(b), "ok": ok, "val": val}
				o.fill(e)
				out = append(out, e)
			}
		}
		return out
	}
	return []ev{{"op": "unknown"}}
}

// execApi exercises the small accessors next to the codecs - Equal / Equals, Type, TruncatedTokenKeyID - on two
// encodings a, b of message m. These are beyond the listed properties: Trace_Codec states their law
// (Equal <=> the two decode to the same value; Type = the tag; truncated id = the key id byte) and rejections are
// reported as observations, never as violations.
func execApi(m string, a, b []byte) ev {
	e := ev{"op": "Api", "m": m, "a": B(a), "b": B(b), "ok": false, "equal": false, "type": -1, "trunc": -1, "panic": ""}
	e["panic"] = guard(func() {
		switch m {
		case "t1req":
			x, y := new(type1.BasicPrivateTokenRequest), new(type1.BasicPrivateTokenRequest)
			if x.Unmarshal(append([]byte{}, a...)) && y.Unmarshal(append([]byte{}, b...)) {
				e["ok"], e["equal"], e["type"], e["trunc"] = true, x.Equal(*y), int(x.Type()), int(x.TruncatedTokenKeyID())
			}
		case "t2req":
			x, y := new(type2.BasicPublicTokenRequest), new(type2.BasicPublicTokenRequest)
			if x.Unmarshal(append([]byte{}, a...)) && y.Unmarshal(append([]byte{}, b...)) {
				e["ok"], e["equal"], e["type"], e["trunc"] = true, x.Equal(*y), int(x.Type()), int(x.TruncatedTokenKeyID())
			}
		case "t3req":
			x, y := new(type3.RateLimitedTokenRequest), new(type3.RateLimitedTokenRequest)
			if x.Unmarshal(append([]byte{}, a...)) && y.Unmarshal(append([]byte{}, b...)) {
				e["ok"], e["equal"], e["type"] = true, x.Equal(*y), int(x.Type())
			}
		case "t5req":
			x, y := new(type5.BatchedPrivateTokenRequest), new(type5.BatchedPrivateTokenRequest)
			if x.Unmarshal(append([]byte{}, a...)) && y.Unmarshal(append([]byte{}, b...)) {
				e["ok"], e["equal"], e["type"], e["trunc"] = true, x.Equal(*y), int(x.Type()), int(x.TruncatedTokenKeyID())
			}
		case "challenge":
			x, err1 := tokens.UnmarshalTokenChallenge(append([]byte{}, a...))
			y, err2 := tokens.UnmarshalTokenChallenge(append([]byte{}, b...))
			if err1 == nil && err2 == nil {
				e["ok"], e["equal"], e["type"] = true, x.Equals(y), int(x.TokenType)
			}
		}
	})
	return e
}

// ---------------------------------------------------------------------------
// input generation

type lenField struct {
	off  int
	kind string // "u8", "u16", "varint"
}

func encVarintWidth(v uint64, width int) []byte {
	switch width {
	case 1:
		return []byte{byte(v & 0x3f)}
	case 2:
		return []byte{0x40 | byte(v>>8)&0x3f, byte(v)}
	case 4:
		return []byte{0x80 | byte(v>>24)&0x3f, byte(v >> 16), byte(v >> 8), byte(v)}
	}
	return []byte{0xc0 | byte(v>>56)&0x3f, byte(v >> 48), byte(v >> 40), byte(v >> 32), byte(v >> 24), byte(v >> 16), byte(v >> 8), byte(v)}
}

func fits(v uint64, width int) bool {
	switch width {
	case 1:
		return v <= 63
	case 2:
		return v <= 16383
	case 4:
		return v <= 1<<30-1
	}
	return v <= 1<<62-1
}

// mutations is the grammar-derived mutation closure of one honest message.
func mutations(h []byte, fields []lenField, r *rand.Rand, allTrunc bool) [][]byte {
	out := [][]byte{}
	add := func(b []byte) { out = append(out, b) }
	cp := func(b []byte) []byte { return append([]byte{}, b...) }
	// truncations
	if allTrunc || len(h) <= 700 {
		for k := 0; k < len(h); k++ {
			add(cp(h[:k]))
		}
	} else {
		for k := 0; k < 70; k++ {
			add(cp(h[:k]))
		}
		for k := len(h) - 40; k < len(h); k++ {
			add(cp(h[:k]))
		}
		for i := 0; i < 40; i++ {
			add(cp(h[:r.Intn(len(h))]))
		}
	}
	// extensions
	for _, n := range []int{1, 2, 100} {
		add(append(cp(h), randBytes(r, n)...))
	}
	// type tags
	if len(h) >= 2 {
		for _, t := range []uint16{0, 1, 2, 3, 4, 5, 6, 0xffff, 0x0100, 0x0500} {
			b := cp(h)
			binary.BigEndian.PutUint16(b, t)
			add(b)
		}
	}
	// length / count fields
	for _, f := range fields {
		if f.off >= len(h) {
			continue
		}
		switch f.kind {
		case "u8":
			d := uint64(h[f.off])
			rem := uint64(len(h) - f.off - 1)
			for _, v := range []uint64{0, 1, d - 1, d + 1, rem, rem + 1, 32, 33, 255} {
				b := cp(h)
				b[f.off] = byte(v)
				add(b)
			}
		case "u16":
			if f.off+2 > len(h) {
				continue
			}
			d := uint64(binary.BigEndian.Uint16(h[f.off:]))
			rem := uint64(len(h) - f.off - 2)
			for _, v := range []uint64{0, 1, d - 1, d + 1, rem, rem + 1, 255, 256, 0x7fff, 0xffff} {
				b := cp(h)
				binary.BigEndian.PutUint16(b[f.off:], uint16(v))
				add(b)
			}
			// consistently re-framed: shorter / longer content with a matching length
			if int(d) <= len(h)-f.off-2 {
				body := h[f.off+2 : f.off+2+int(d)]
				tail := h[f.off+2+int(d):]
				for _, k := range []int{0, 1, 31, 32, 33, len(body) - 1, len(body) + 1} {
					if k < 0 || k == len(body) {
						continue
					}
					nb := append([]byte{}, body...)
					if k <= len(body) {
						nb = nb[:k]
					} else {
						nb = append(nb, 0)
					}
					b := append(cp(h[:f.off]), byte(len(nb)>>8), byte(len(nb)))
					b = append(append(b, nb...), tail...)
					add(b)
				}
			}
		case "varint":
			d, n := quicwire.ConsumeVarint(h[f.off:])
			if n < 0 {
				continue
			}
			rem := uint64(len(h) - f.off - n)
			for _, v := range []uint64{0, 1, d - 1, d + 1, d - 32, d + 32, rem, rem + 1, 63, 64, 16383, 16384, 1<<30 - 1, 1 << 30, 1<<31 - 1, 1 << 31, 1<<32 - 1, 1 << 32, 1<<62 - 1} {
				for _, w := range []int{1, 2, 4, 8} {
					if v > 1<<62-1 || !fits(v, w) {
						continue
					}
					b := append(cp(h[:f.off]), encVarintWidth(v, w)...)
					b = append(b, h[f.off+n:]...)
					add(b)
				}
			}
			// consistently re-framed bodies: the declared length matches what follows,
			// but the body itself is cut (or extended) inside its last element
			if int(d) <= len(h)-f.off-n {
				body := h[f.off+n : f.off+n+int(d)]
				tail := h[f.off+n+int(d):]
				for _, k := range []int{len(body) - 1, len(body) - 2, len(body) - 12, len(body) - 50, len(body) / 2, 40, 3, 2, 1, len(body) + 1} {
					if k < 0 || k == len(body) {
						continue
					}
					nb := append([]byte{}, body...)
					if k <= len(body) {
						nb = nb[:k]
					} else {
						nb = append(nb, 0)
					}
					b := append(cp(h[:f.off]), quicwire.AppendVarint(nil, uint64(len(nb)))...)
					b = append(append(b, nb...), tail...)
					add(b)
				}
			}
			// the varint itself truncated in every width
			for _, w := range []int{2, 4, 8} {
				enc := encVarintWidth(d, w)
				for k := 1; k < w; k++ {
					add(append(cp(h[:f.off]), enc[:k]...))
				}
			}
		}
	}
	// one seeded bit flip per byte
	if len(h) <= 700 {
		for i := range h {
			b := cp(h)
			b[i] ^= 1 << uint(r.Intn(8))
			add(b)
		}
	}
	return out
}

type rustVector struct {
	TokenRequest  string `json:"token_request"`
	TokenResponse string `json:"token_response"`
	Issuance      []struct {
		Type      string   `json:"type"`
		SkS       string   `json:"skS"`
		PkS       string   `json:"pkS"`
		Challenge string   `json:"token_challenge"`
		Nonce     string   `json:"nonce"`
		Blind     string   `json:"blind"`
		Salt      string   `json:"salt"`
		Token     string   `json:"token"`
		Nonces    []string `json:"nonces"`
		Blinds    []string `json:"blinds"`
		Tokens    []string `json:"tokens"`
	} `json:"issuance"`
}

func repoPath(rel string) string {
	root := os.Getenv("VERIF_REPO")
	if root == "" {
		root = "/repo"
	}
	return root + "/" + rel
}

func loadRustVectors() []rustVector {
	data, err := os.ReadFile(repoPath("tokens/batched/batched-issuance-test-vectors-rust.json"))
	if err != nil {
		return nil
	}
	var v []rustVector
	if json.Unmarshal(data, &v) != nil {
		return nil
	}
	return v
}

func unhex(s string) []byte {
	b, _ := hex.DecodeString(s)
	return b
}

// honestMessages builds, per message name, honest encodings with the
// positions of their length fields.
type honestMsg struct {
	m      string
	b      []byte
	fields []lenField
}

func honestMessages(c *ctx, r *rand.Rand) []honestMsg {
	out := []honestMsg{}
	add := func(m string, b []byte, f ...lenField) { out = append(out, honestMsg{m, append([]byte{}, b...), f}) }

	k1 := p384Key(c.seed, "k1")
	a1, err := honestT1(k1, randBytes(r, 40), randNonce(r), false)
	if err != nil {
		panic("honest type 1 run failed: " + err.Error())
	}
	add("t1req", a1.req)
	add("token1", a1.token.Marshal())

	a2, err := honestT2(rsaKey(0), randBytes(r, 17), randNonce(r), false)
	if err != nil {
		panic("honest type 2 run failed: " + err.Error())
	}
	add("t2req", a2.req)
	add("token2", a2.token.Marshal())

	k5 := ristrettoKey(c.seed, "k5")
	for _, n := range []int{1, 2, 3} {
		nonces := [][]byte{}
		for i := 0; i < n; i++ {
			nonces = append(nonces, randNonce(r))
		}
		a5, err := honestT5(k5, randBytes(r, 5), nonces, false)
		if err != nil {
			panic("honest type 5 run failed: " + err.Error())
		}
		add("t5req", a5.req, lenField{3, "varint"})
		add("token5", a5.tokens[0].Marshal())
	}

	w := newT3World(rsaKey(1), c.seed, map[string]string{"origin.example": "a", "": "b", strings.Repeat("x", 40): "c"})
	for _, origin := range []string{"origin.example", "", strings.Repeat("x", 40)} {
		a3, err := honestT3(w, p384Scalar(c.seed, "client1"), p384Scalar(c.seed, "blind-"+origin), randBytes(r, 32), randNonce(r), origin)
		if err != nil {
			panic("honest type 3 run failed: " + err.Error())
		}
		add("t3req", a3.req, lenField{2 + 49 + 32, "u16"})
		add("token3", a3.token.Marshal())
	}
	for _, n := range []int{0, 14, 32, 33} {
		in := type3.VerifNewInnerTokenRequest(uint8(r.Intn(256)), randBytes(r, 256), type3.VerifPadOriginName(strings.Repeat("o", n)))
		add("inner", in.Marshal(), lenField{257, "u16"})
	}
	add("encap", w.issuer.NameKey().Marshal())
	// well-formed name keys of every suite go-hpke implements (any 32 bytes are an X25519 public key)
	for _, kdf := range []uint16{1, 2, 3} {
		for _, aead := range []uint16{1, 2, 3} {
			b := []byte{byte(r.Intn(256)), 0x00, 0x20}
			b = append(b, randBytes(r, 32)...)
			b = append(b, byte(kdf>>8), byte(kdf), byte(aead>>8), byte(aead))
			add("encap", b)
		}
	}
	pk, _ := type3.CreatePrivateEncapKeyFromSeed(randBytes(r, 32))
	add("encap", pk.Public().Marshal())

	for i := 0; i < 4; i++ {
		ch := tokens.TokenChallenge{TokenType: uint16([]int{1, 2, 3, 5}[i]), IssuerName: string(hex.EncodeToString(randBytes(r, 1+r.Intn(20)))),
			RedemptionNonce: randBytes(r, []int{0, 32, 32, 7}[i]), OriginInfo: [][]string{{"a.example"}, {"a.example", "b.example"}, {""}, {"x", "", "y"}}[i]}
		b := ch.Marshal()
		il := int(binary.BigEndian.Uint16(b[2:]))
		nl := int(b[4+il])
		add("challenge", b, lenField{2, "u16"}, lenField{4 + il, "u8"}, lenField{4 + il + 1 + nl, "u16"})
	}

	// generic batch: requests and responses
	mk := func(kinds string) ([]byte, []byte) {
		reqs := []tokens.TokenRequestWithDetails{}
		for _, k := range kinds {
			if k == '1' {
				x, _ := honestT1(k1, randBytes(r, 9), randNonce(r), false)
				reqs = append(reqs, x.state.Request())
			} else {
				x, _ := honestT2(rsaKey(0), randBytes(r, 9), randNonce(r), false)
				reqs = append(reqs, x.state.Request())
			}
		}
		br, err := batched.NewBasicClient().CreateTokenRequest(reqs)
		if err != nil {
			panic(err)
		}
		iss := batched.NewBasicBatchedIssuer(batchIssuer1{type1.NewBasicPrivateIssuer(k1)}, batchIssuer2{type2.NewBasicPublicIssuer(rsaKey(0))})
		resp, err := iss.EvaluateBatch(br)
		if err != nil {
			panic(err)
		}
		return br.Marshal(), resp
	}
	for _, kinds := range []string{"1", "2", "12", "211"} {
		rq, rs := mk(kinds)
		add("batchreq", rq, lenField{0, "varint"})
		add("batchresp", rs, lenField{0, "varint"})
	}
	return out
}

var wireMsgs = []string{"t1req", "t2req", "t3req", "t5req", "inner", "encap", "challenge", "token1", "token2", "token3", "token5", "batchreq", "batchresp"}

func genWire(c *ctx, emit func(ev)) {
	r := newRand(c.seed, "wire")
	dec := func(m string, b []byte, honest bool) { emit(ev{"op": "Dec", "m": m, "b": B(b), "honest": honest}) }

	hs := honestMessages(c, r)
	for _, h := range hs {
		dec(h.m, h.b, true)
		for _, b := range mutations(h.b, h.fields, r, c.thorough()) {
			dec(h.m, b, false)
		}
	}
	// every honest request under every other type tag
	for _, h := range hs {
		switch h.m {
		case "t1req", "t2req", "t3req", "t5req":
			emit(ev{"op": "TagSweep", "m": h.m, "b": B(h.b), "off": 0})
		case "batchreq":
			if _, w := quicwire.ConsumeVarint(h.b); w > 0 && len(h.b) > w+2 {
				emit(ev{"op": "TagSweep", "m": h.m, "b": B(h.b), "off": w})
			}
		}
	}
	// every honest message against every other decoder (types apart)
	for _, h := range hs {
		for _, m := range wireMsgs {
			if m != h.m {
				dec(m, h.b, false)
			}
		}
	}
	// the independent Rust implementation's encodings
	for _, v := range loadRustVectors() {
		dec("batchreq", unhex(v.TokenRequest), true)
		dec("batchresp", unhex(v.TokenResponse), true)
		for _, b := range mutations(unhex(v.TokenRequest), []lenField{{0, "varint"}}, r, false) {
			dec("batchreq", b, false)
		}
		for _, is := range v.Issuance {
			if is.Token != "" {
				dec("token"+strings.TrimLeft(is.Type, "0"), unhex(is.Token), true)
			}
			dec("challenge", unhex(is.Challenge), true)
		}
	}
	// random strings and the empty string
	nRand := c.tierInt(40, 400)
	for _, m := range wireMsgs {
		dec(m, nil, false)
		for i := 0; i < nRand; i++ {
			n := r.Intn(600)
			if i%3 == 0 {
				n = r.Intn(12)
			}
			b := randBytes(r, n)
			if i%2 == 0 && len(b) >= 2 { // half of them behind the right tag
				tag := map[string]uint16{"t1req": 1, "t2req": 2, "t3req": 3, "t5req": 5}[m]
				if tag != 0 {
					binary.BigEndian.PutUint16(b, tag)
				}
			}
			dec(m, b, false)
		}
	}

	// encoders: seeded well-formed values ------------------------------------
	nVal := c.tierInt(30, 300)
	for i := 0; i < nVal; i++ {
		emit(ev{"op": "Enc", "m": "t1req", "val": ev{"key_id": r.Intn(256), "blinded": B(randBytes(r, 49))}})
		emit(ev{"op": "Enc", "m": "t2req", "val": ev{"key_id": r.Intn(256), "blinded": B(randBytes(r, 256))}})
		emit(ev{"op": "Enc", "m": "t3req", "val": ev{"request_key": B(randBytes(r, 49)), "name_key_id": B(randBytes(r, 32)),
			"enc_req": B(randBytes(r, 1+r.Intn(400))), "sig": B(randBytes(r, 96))}})
		el := [][]byte{}
		for k := r.Intn(5) + []int{0, 0, 2, 600}[i%4]*(i%4/3); k > 0; k-- {
			el = append(el, randBytes(r, 32))
		}
		emit(ev{"op": "Enc", "m": "t5req", "val": ev{"key_id": r.Intn(256), "elems": list(el)}})
		emit(ev{"op": "Enc", "m": "inner", "val": ev{"key_id": r.Intn(256), "blinded": B(randBytes(r, 256)), "padded": B(randBytes(r, 32*r.Intn(4)))}})
		emit(ev{"op": "Enc", "m": "challenge", "val": ev{"type": r.Intn(65536), "issuer": B(alnum(r, 1+r.Intn(30))),
			"nonce": B(randBytes(r, []int{0, 32, 1, 255}[i%4])), "origin": B(alnum(r, r.Intn(40)))}})
		for _, t := range []struct {
			m    string
			ty   int
			auth int
		}{{"token1", 1, 48}, {"token2", 2, 256}, {"token3", 3, 256}, {"token5", 5, 64}} {
			emit(ev{"op": "Enc", "m": t.m, "val": ev{"type": t.ty, "nonce": B(randBytes(r, 32)), "context": B(randBytes(r, 32)),
				"key_id": B(randBytes(r, 32)), "auth": B(randBytes(r, t.auth))}})
		}
		reqs := []any{}
		for k := 1 + r.Intn(3); k > 0; k-- {
			if r.Intn(2) == 0 {
				reqs = append(reqs, ev{"type": 1, "key_id": r.Intn(256), "blinded": B(randBytes(r, 49))})
			} else {
				reqs = append(reqs, ev{"type": 2, "key_id": r.Intn(256), "blinded": B(randBytes(r, 256))})
			}
		}
		emit(ev{"op": "Enc", "m": "batchreq", "val": reqs})
	}

	// lists whose body is exactly 16384 bytes long (and its neighbours): the first length that needs a four-byte varint
	for _, n := range []int{511, 512, 513} {
		el := [][]byte{}
		for k := 0; k < n; k++ {
			el = append(el, randBytes(r, 32))
		}
		v := roundTrip(ev{"v": ev{"key_id": r.Intn(256), "elems": list(el)}})["v"]
		emit(ev{"op": "Enc", "m": "t5req", "val": v})
		dec("t5req", encodeVal("t5req", v), false)
	}
	{
		reqs := []any{}
		for k := 0; k < 48; k++ {
			reqs = append(reqs, ev{"type": 2, "key_id": r.Intn(256), "blinded": B(randBytes(r, 256))})
		}
		for k := 0; k < 76; k++ { // 48 * 259 + 76 * 52 = 16384
			reqs = append(reqs, ev{"type": 1, "key_id": r.Intn(256), "blinded": B(randBytes(r, 49))})
		}
		v := roundTrip(ev{"v": reqs})["v"]
		emit(ev{"op": "Enc", "m": "batchreq", "val": v})
		dec("batchreq", encodeVal("batchreq", v), false)
	}

	// accessors next to the codecs (beyond the listed properties): every honest message against itself, against the
	// other honest messages of its kind and against single-bit variants of itself
	for i, h := range hs {
		switch h.m {
		case "t1req", "t2req", "t3req", "t5req", "challenge":
		default:
			continue
		}
		emit(ev{"op": "Api", "m": h.m, "a": B(h.b), "b": B(h.b)})
		for j, g := range hs {
			if g.m == h.m && j != i {
				emit(ev{"op": "Api", "m": h.m, "a": B(h.b), "b": B(g.b)})
			}
		}
		for k := 16; k < 32 && k < 8*len(h.b); k++ { // the two bytes after the tag (key id byte, first length / content byte)
			emit(ev{"op": "Api", "m": h.m, "a": B(h.b), "b": B(flipBit(h.b, k))})
		}
		for k := 0; k < c.tierInt(24, 200); k++ {
			emit(ev{"op": "Api", "m": h.m, "a": B(h.b), "b": B(flipBit(h.b, 16+r.Intn(8*len(h.b)-16)))})
		}
	}

	// object reuse: either the sequences TLC generated (Gen_Reuse), or seeded ones
	genReuse(c, r, hs, emit)
}

func alnum(r *rand.Rand, n int) []byte {
	const cs = "abcdefghijklmnopqrstuvwxyz0123456789.-"
	b := make([]byte, n)
	for i := range b {
		b[i] = cs[r.Intn(len(cs))]
	}
	return b
}

// tierInt: a count for the quick / thorough tier. In the thorough tier a count that grows with the tier is
// multiplied by VERIF_DEPTH (default 1; the checks set a per-property default so that thorough runs take minutes).
func (c *ctx) tierInt(q, t int) int {
	if c.thorough() {
		if t > q {
			return t * depthFactor()
		}
		return t
	}
	return q
}

// tierFixed: a size (number of clients, sequence length, sweep bound, batch size) - never multiplied by VERIF_DEPTH.
func (c *ctx) tierFixed(q, t int) int {
	if c.thorough() {
		return t
	}
	return q
}

func depthFactor() int {
	d, err := strconv.Atoi(os.Getenv("VERIF_DEPTH"))
	if err != nil || d < 1 {
		return 1
	}
	return d
}

// genReuse concretises abstract reuse behaviours: a behaviour is a string over
// M (Marshal), 1 / 2 (Unmarshal of the encoding of value 1 / value 2) and G
// (Unmarshal of garbage). The behaviours come from TLC (Gen_Reuse, file given
// by VERIF_REUSE_BEHAVIOURS) - all sequences up to the configured depth.
func genReuse(c *ctx, r *rand.Rand, hs []honestMsg, emit func(ev)) {
	path := os.Getenv("VERIF_REUSE_BEHAVIOURS")
	if path == "" {
		return
	}
	data, err := os.ReadFile(path)
	if err != nil {
		panic(err)
	}
	var behaviours []string
	for _, l := range strings.Split(string(data), "\n") {
		if l = strings.TrimSpace(l); l != "" {
			behaviours = append(behaviours, l)
		}
	}
	byMsg := map[string][][]byte{}
	for _, h := range hs {
		byMsg[h.m] = append(byMsg[h.m], h.b)
	}
	for _, m := range []string{"t1req", "t2req", "t3req", "t5req", "inner", "batchreq"} {
		vs := byMsg[m]
		if len(vs) < 2 {
			continue
		}
		pairs := [][2][]byte{{vs[0], vs[len(vs)-1]}}
		// ... and with value 1 the EMPTIEST value of the kind (zero-length padded origin, empty element list, empty
		// batch): what a reused object held before must not shine through an empty field
		switch m {
		case "inner":
			pairs = append(pairs, [2][]byte{encodeVal(m, roundTrip(ev{"v": ev{"key_id": 7, "blinded": B(randBytes(r, 256)), "padded": B(nil)}})["v"]), vs[len(vs)-1]})
		case "t5req":
			pairs = append(pairs, [2][]byte{encodeVal(m, roundTrip(ev{"v": ev{"key_id": 7, "elems": []any{}}})["v"]), vs[len(vs)-1]})
		case "batchreq":
			pairs = append(pairs, [2][]byte{encodeVal(m, roundTrip(ev{"v": []any{}})["v"]), vs[len(vs)-1]})
		}
		// ... and with value 1 a message of the kind whose list is framed ANOTHER way (a 16-bit or 8-bit length as older
		// drafts had it, a non-minimal varint): accepted or not, nothing of it may shape what the object marshals later
		if off, ok := map[string]int{"t5req": 3, "batchreq": 0}[m]; ok {
			h := vs[0]
			if l, w := quicwire.ConsumeVarint(h[off:]); w > 0 && int(l) <= len(h)-off-w && l < 65536 {
				body, tail := h[off+w:off+w+int(l)], h[off+w+int(l):]
				for _, pre := range [][]byte{{byte(l >> 8), byte(l)}, {0x80, 0, byte(l >> 8), byte(l)}, {0xc0, 0, 0, 0, 0, 0, byte(l >> 8), byte(l)}, {0, 0, byte(l >> 8), byte(l)}} {
					alt := append(append(append(append([]byte{}, h[:off]...), pre...), body...), tail...)
					pairs = append(pairs, [2][]byte{alt, vs[len(vs)-1]})
				}
			}
		}
		for pi, pr := range pairs {
			v1, v2 := pr[0], pr[1]
			garbage := append([]byte{}, v2[:len(v2)/2]...)
			for _, bh := range behaviours {
				if pi > 0 && !strings.Contains(bh, "1") {
					continue
				}
				steps := []any{}
				for _, ch := range bh {
					switch ch {
					case 'M':
						steps = append(steps, ev{"k": "M"})
					case '1':
						steps = append(steps, ev{"k": "U", "b": B(v1), "v": "1"})
					case '2':
						steps = append(steps, ev{"k": "U", "b": B(v2), "v": "2"})
					case 'G':
						steps = append(steps, ev{"k": "U", "b": B(garbage), "v": "g"})
					}
				}
				emit(ev{"op": "Reuse", "m": m, "steps": steps, "behaviour": bh})
				if m == "t3req" && pi == 0 && strings.ContainsAny(bh, "12") && strings.Contains(bh, "M") {
					// the same history where, after every accepting decode, the object's encoding is handed to the
					// issuer (Evaluate(obj.Marshal())): a consumer of the encoding must not change what Marshal returns next
					xs := []any{}
					for _, st := range steps {
						xs = append(xs, st)
						if st.(ev)["k"] == "U" && st.(ev)["v"] != "g" {
							xs = append(xs, ev{"k": "X"})
						}
					}
					emit(ev{"op": "Reuse", "m": m, "steps": xs, "behaviour": bh + "+X"})
				}
			}
		}
	}
}
