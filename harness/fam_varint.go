package main

import (
	"bytes"
	"encoding/binary"
	"fmt"

	"github.com/cloudflare/pat-go/quicwire"
)

// Family "varint" (property C19): every call of the quicwire package is logged
// with its arguments and results; Trace_Varint.tla recomputes each result with
// Varint.tla.

func init() { register("varint", &family{gen: genVarint, exec: execVarint}) }

func v8(v uint64) []int {
	var b [8]byte
	binary.BigEndian.PutUint64(b[:], v)
	return B(b[:])
}

// varintBigEvent: a body of hundreds of kilobytes (the trace carries its length and the verdict of a byte comparison
// with the reference encoding, not the bytes)
func varintBigEvent(n int) ev {
	s := make([]byte, n)
	for i := range s {
		s[i] = byte(i*31 + i>>8)
	}
	e := ev{"op": "BigBytes", "n": n, "enc_ok": false, "dec_ok": false}
	e["panic"] = guard(func() {
		want := append(quicwireRefVarint(uint64(n)), s...)
		got := quicwire.AppendVarintBytes(nil, s)
		roomy := quicwire.AppendVarintBytes(make([]byte, 0, n+16), s)
		e["enc_ok"] = bytes.Equal(got, want) && bytes.Equal(roomy, want)
		back, k := quicwire.ConsumeVarintBytes(want)
		e["dec_ok"] = k == len(want) && bytes.Equal(back, s)
	})
	return e
}

func execVarint(c *ctx, in ev) []ev {
	switch gS(in, "op") {
	case "Val":
		return []ev{varintValEvent(binary.BigEndian.Uint64(gB(in, "v")), gB(in, "prefix"))}
	case "BigBytes":
		return []ev{varintBigEvent(gI(in, "n"))}
	case "In":
		return []ev{varintInEvent(gB(in, "b"))}
	case "Bytes":
		return []ev{varintBytesEvent(gB(in, "prefix"), gB(in, "s"))}
	}
	return []ev{{"op": "unknown"}}
}

type varintGen struct{ emit func(ev) }

func (w varintGen) val(v uint64, prefix []byte) {
	w.emit(ev{"op": "Val", "v": v8(v), "prefix": B(prefix)})
}
func (w varintGen) in(b []byte)            { w.emit(ev{"op": "In", "b": B(b)}) }
func (w varintGen) bytes(prefix, s []byte) { w.emit(ev{"op": "Bytes", "prefix": B(prefix), "s": B(s)}) }

func varintValEvent(v uint64, prefix []byte) ev {
	e := ev{"op": "Val", "v": v8(v), "prefix": B(prefix)}
	// destination with spare capacity holding a pattern: the encoder must
	// append after the prefix and leave the prefix untouched
	dst := make([]byte, len(prefix), len(prefix)+16)
	copy(dst, prefix)
	full := dst[:cap(dst)]
	for i := len(prefix); i < len(full); i++ {
		full[i] = 0xa5 ^ byte(i)
	}
	var out []byte
	var size int
	p := guard(func() { out = quicwire.AppendVarint(dst, v) })
	e["append_panic"] = p
	e["out"] = B(out)
	// the encoder emits the bytes of the encoding and nothing else: what lies behind them in the destination's
	// backing array (an arena shared with other data, a payload whose length is back-filled) is not its to write
	spare := true
	for i := len(prefix); i < len(full); i++ {
		inOut := len(out) > 0 && &out[0] == &full[0] && i < len(out) // written in place: these bytes are the output
		if !inOut && full[i] != 0xa5^byte(i) {
			spare = false
		}
	}
	e["spare_ok"] = spare
	p = guard(func() { size = quicwire.SizeVarint(v) })
	e["size_panic"] = p
	e["size"] = size
	if len(out) >= len(prefix) {
		var dv uint64
		var dn int
		p = guard(func() { dv, dn = quicwire.ConsumeVarint(out[len(prefix):]) })
		e["dec_panic"] = p
		e["dec_v"] = v8(dv)
		e["dec_n"] = dn
		var sv int64
		guard(func() { sv, _ = quicwire.ConsumeVarintInt64(out[len(prefix):]) })
		e["dec_i64"] = v8(uint64(sv))
	} else {
		e["dec_panic"] = "no output"
		e["dec_v"] = v8(0)
		e["dec_n"] = -2
		e["dec_i64"] = v8(0)
	}
	return e
}

// quicwireRefVarint is the harness's own shortest-form encoding (RFC 9000, section 16)
func quicwireRefVarint(v uint64) []byte {
	switch {
	case v < 1<<6:
		return []byte{byte(v)}
	case v < 1<<14:
		return []byte{0x40 | byte(v>>8), byte(v)}
	case v < 1<<30:
		return []byte{0x80 | byte(v>>24), byte(v >> 16), byte(v >> 8), byte(v)}
	}
	return []byte{0xc0 | byte(v>>56), byte(v >> 48), byte(v >> 40), byte(v >> 32), byte(v >> 24), byte(v >> 16), byte(v >> 8), byte(v)}
}

func varintInEvent(b []byte) ev {
	// the input is placed in the middle of a larger buffer so that a read
	// past its end would not fault but would change the result
	buf := make([]byte, 0, len(b)+24)
	buf = append(buf, b...)
	in := buf[:len(b):len(b)]
	e := ev{"op": "In", "b": B(b)}
	var v uint64
	var n int
	e["cv_panic"] = guard(func() { v, n = quicwire.ConsumeVarint(in) })
	e["cv_v"], e["cv_n"] = v8(v), n
	var out []byte
	n = 0
	e["cvb_panic"] = guard(func() { out, n = quicwire.ConsumeVarintBytes(in) })
	e["cvb_out"], e["cvb_n"], e["cvb_nil"] = B(out), n, out == nil
	out, n = nil, 0
	e["c8_panic"] = guard(func() { out, n = quicwire.ConsumeUint8Bytes(in) })
	e["c8_out"], e["c8_n"] = B(out), n
	var u32 uint32
	n = 0
	e["u32_panic"] = guard(func() { u32, n = quicwire.ConsumeUint32(in) })
	var b4 [4]byte
	binary.BigEndian.PutUint32(b4[:], u32)
	e["u32_v"], e["u32_n"] = B(b4[:]), n
	var u64 uint64
	n = 0
	e["u64_panic"] = guard(func() { u64, n = quicwire.ConsumeUint64(in) })
	e["u64_v"], e["u64_n"] = v8(u64), n
	return e
}

func varintBytesEvent(prefix, s []byte) ev {
	e := ev{"op": "Bytes", "prefix": B(prefix), "s": B(s)}
	// in-place framing: the payload already lies in the buffer, its length is back-filled in front of it
	{
		w := len(quicwireRefVarint(uint64(len(s))))
		buf := make([]byte, w+len(s)+8)
		copy(buf[w:], s)
		var got []byte
		e["inplace_panic"] = guard(func() { got = quicwire.AppendVarintBytes(buf[:0], buf[w:w+len(s)]) })
		e["inplace_out"] = B(got)
	}
	dst := make([]byte, len(prefix), len(prefix)+8)
	copy(dst, prefix)
	var out []byte
	e["avb_panic"] = guard(func() { out = quicwire.AppendVarintBytes(dst, s) })
	e["avb_out"] = B(out)
	// ... and into destinations with room for everything (the encoder works in place there), with EXACTLY the room the
	// encoding needs, with one byte less, and with room for the body plus a one-byte length only
	for _, spare := range []int{len(s) + 24, len(quicwireRefVarint(uint64(len(s)))) + len(s), len(quicwireRefVarint(uint64(len(s)))) + len(s) - 1, len(s) + 1} {
		if spare < 0 {
			continue
		}
		roomy := make([]byte, len(prefix), len(prefix)+spare)
		copy(roomy, prefix)
		var got []byte
		p := guard(func() { got = quicwire.AppendVarintBytes(roomy, s) })
		if p != "" || !bytes.Equal(got, out) {
			e["avb_panic"] = fmt.Sprintf("in a destination with %d spare bytes the result differs (%s)", spare, p)
		}
	}
	var back []byte
	var n int
	if len(out) >= len(prefix) {
		guard(func() { back, n = quicwire.ConsumeVarintBytes(out[len(prefix):]) })
	}
	e["avb_back"], e["avb_n"] = B(back), n
	if len(s) <= 255 {
		dst = make([]byte, len(prefix), len(prefix)+8)
		copy(dst, prefix)
		out = nil
		e["a8_panic"] = guard(func() { out = quicwire.AppendUint8Bytes(dst, s) })
		e["a8_out"] = B(out)
		back, n = nil, 0
		if len(out) >= len(prefix) {
			guard(func() { back, n = quicwire.ConsumeUint8Bytes(out[len(prefix):]) })
		}
		e["a8_back"], e["a8_n"] = B(back), n
	} else {
		// a string too long for an 8-bit length: the documented contract is a panic (observed, not required)
		var got []byte
		p := guard(func() { got = quicwire.AppendUint8Bytes(nil, s) })
		e["a8_panic"], e["a8_out"], e["a8_back"], e["a8_n"] = "too long: "+p, B(got), B(nil), 0
	}
	return e
}

func genVarint(c *ctx, emit func(ev)) {
	w := varintGen{emit}
	r := newRand(c.seed, "varint")
	prefixes := [][]byte{nil, {0xaa}, {1, 2, 3}}
	pick := func() []byte { return prefixes[r.Intn(len(prefixes))] }

	// values -----------------------------------------------------------
	exhaust := uint64(1<<14 + 64)
	perClass := 2048
	if c.thorough() {
		exhaust = 1<<17 + 4
		perClass = 1 << 16
	}
	for v := uint64(0); v < exhaust; v++ {
		w.val(v, pick())
	}
	// class boundaries +-2 and every power of two +-1
	// (values above 2^62-1 are outside the property: the encoder's documented contract is a panic, which is observed only)
	for _, v := range []uint64{1 << 62, 1<<62 + 1, 1 << 63, 1<<64 - 1} {
		w.val(v, nil)
	}
	bounds := []uint64{63, 64, 16383, 16384, 1<<30 - 1, 1 << 30, 1<<62 - 1}
	for _, b := range bounds {
		for d := -2; d <= 2; d++ {
			v := b + uint64(d)
			if v <= quicwire.MaxVarint {
				w.val(v, pick())
			}
		}
	}
	for k := 0; k < 62; k++ {
		for d := -1; d <= 1; d++ {
			v := uint64(1)<<uint(k) + uint64(d)
			if v <= quicwire.MaxVarint {
				w.val(v, pick())
			}
		}
	}
	// seeded values per class
	classes := [][2]uint64{{0, 63}, {64, 16383}, {16384, 1<<30 - 1}, {1 << 30, 1<<62 - 1}}
	for _, cl := range classes {
		span := cl[1] - cl[0] + 1
		for i := 0; i < perClass; i++ {
			w.val(cl[0]+r.Uint64()%span, pick())
		}
	}
	// thorough: a stride through [2^17, 2^30)
	if c.thorough() {
		stride := uint64((1<<30 - 1<<17) / (1 << 18))
		off := r.Uint64() % stride
		for v := uint64(1<<17) + off; v < 1<<30; v += stride {
			w.val(v, nil)
		}
	}

	// decoder inputs ----------------------------------------------------
	w.in(nil)
	for a := 0; a < 256; a++ {
		w.in([]byte{byte(a)})
	}
	step := 1
	if !c.thorough() {
		step = 5 // quick: every first byte, every fifth second byte (+ seeded offset)
	}
	for a := 0; a < 256; a++ {
		for b := r.Intn(step); b < 256; b += step {
			w.in([]byte{byte(a), byte(b)})
		}
	}
	nRand := 4096
	if c.thorough() {
		nRand = 1 << 17
	}
	for i := 0; i < nRand; i++ {
		w.in(randBytes(r, r.Intn(13)))
	}
	// declared lengths from the boundary set, in every width that holds them
	declared := []uint64{0, 1, 2, 3, 62, 63, 64, 65, 255, 256, 16383, 16384, 1<<30 - 1, 1 << 30,
		1<<31 - 1, 1 << 31, 1<<32 - 1, 1 << 32, 1<<62 - 1}
	for _, d := range declared {
		for _, width := range []int{1, 2, 4, 8} {
			var enc []byte
			switch {
			case width == 1 && d <= 63:
				enc = []byte{byte(d)}
			case width == 2 && d <= 16383:
				enc = []byte{0x40 | byte(d>>8), byte(d)}
			case width == 4 && d <= 1<<30-1:
				enc = []byte{0x80 | byte(d>>24), byte(d >> 16), byte(d >> 8), byte(d)}
			case width == 8:
				enc = []byte{0xc0 | byte(d>>56), byte(d >> 48), byte(d >> 40), byte(d >> 32), byte(d >> 24), byte(d >> 16), byte(d >> 8), byte(d)}
			default:
				continue
			}
			for _, body := range []int{0, 1, 2, 3, 62, 63, 64, 65, 255, 256, 300} {
				for _, delta := range []int{0} {
					_ = delta
					in := append(append([]byte{}, enc...), randBytes(r, body)...)
					if d >= 1<<30-1 {
						// run one at a time: a decoder that allocates what is declared before it looks at what is there
						// must not take the driver down with 16 such calls at once (the result is what decides)
						w.emit(ev{"op": "In", "b": B(in), "serial": true})
						continue
					}
					w.in(in)
				}
			}
			// exactly the declared number of bytes, one fewer, one more
			if d <= 400 {
				for _, delta := range []int{-1, 0, 1} {
					n := int(d) + delta
					if n < 0 {
						continue
					}
					in := append(append([]byte{}, enc...), randBytes(r, n)...)
					w.in(in)
				}
			}
		}
	}

	for _, n := range []int{1<<16 - 1, 1 << 16, 300000, 1 << 19, 1<<19 + 7, 1 << 20, 3<<20 + 1} {
		emit(ev{"op": "BigBytes", "n": n})
	}
	// length-prefixed strings ------------------------------------------
	lens := []int{0, 1, 2, 62, 63, 64, 65, 254, 255, 256, 257, 1000}
	if c.thorough() {
		lens = append(lens, 16383, 16384, 16385)
		for i := 0; i < 400; i++ {
			lens = append(lens, r.Intn(600))
		}
	}
	for _, n := range lens {
		w.bytes(pick(), randBytes(r, n))
	}
}
