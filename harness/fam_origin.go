package main

import (
	"bytes"
	"crypto/elliptic"
	"fmt"
	"math/rand"
	"strings"
	"time"

	"github.com/cloudflare/pat-go/tokens/type3"
)

// Family "origin" (property C20): padding of origin names and the issuer's
// served-iff-registered decision, for names of every length and their
// near-miss variants. Trace_Origin.tla tracks the registered set.

func init() { register("origin", &family{gen: genOrigin, exec: execOrigin}) }

func execOrigin(c *ctx, in ev) []ev {
	switch gS(in, "op") {
	case "Pad":
		name := gB(in, "name")
		var padded []byte
		var un string
		p := guard(func() {
			padded = type3.VerifPadOriginName(string(name))
			un = type3.VerifUnpadOriginName(append([]byte{}, padded...))
		})
		return []ev{{"op": "Pad", "name": B(name), "padded": B(padded), "unpadded": B([]byte(un)), "panic": p}}
	case "Hist":
		out := []ev{{"op": "ONew"}}
		issuer := type3.NewRateLimitedIssuer(rsaKey(gI(in, "rsa")))
		// ANOTHER issuer of the same process has other origins: issuers share nothing
		if neighbour := type3.NewRateLimitedIssuer(rsaKey(gI(in, "rsa") + 1)); neighbour != nil {
			for _, st := range gL(in, "steps") {
				if s := st.(map[string]any); s["k"] == "E" {
					nk, _ := rawKey(elliptic.P384(), p384Scalar(c.seed, "ik-neighbour"))
					neighbour.AddOriginWithIndexKey(string(jBytes(s["name"])), nk)
				}
			}
		}
		// requests are evaluated through a COPY BY VALUE of the issuer taken before anything was registered (Evaluate has
		// a value receiver: copies of an issuer are the same issuer)
		valueCopy := *issuer
		r := newRand(c.seed, "origin-hist")
		secret := p384Scalar(c.seed, "origin-client")
		client := type3.NewRateLimitedClientFromSecret(secret)
		for i, st := range gL(in, "steps") {
			s := st.(map[string]any)
			switch s["k"].(string) {
			case "R":
				o := jBytes(s["o"])
				sk, _ := rawKey(elliptic.P384(), p384Scalar(c.seed, "ik"))
				issuer.AddOriginWithIndexKey(string(o), sk)
				out = append(out, ev{"op": "Register", "origin": B(o)})
			case "E":
				name := jBytes(s["name"])
				e := ev{"op": "Evaluate", "name": B(name), "created": false, "size": 0, "served": false, "err": ""}
				p := guard(func() {
					st, err := client.CreateTokenRequest(randBytes(r, 16), randNonce(r), p384Scalar(c.seed, "blind"+string(rune(i))),
						issuer.TokenKeyID(), issuer.TokenKey(), string(name), issuer.NameKey())
					if err != nil {
						e["err"] = err.Error()
						return
					}
					enc := st.Request().Marshal()
					e["created"], e["size"] = true, len(enc)
					// (with a limit: an issuer that stops answering is reported, not waited for)
					type res struct {
						resp []byte
						err  error
						pan  string
					}
					done := make(chan res, 1)
					go func() {
						var rr res
						rr.pan = guard(func() {
							if i%2 == 0 {
								rr.resp, _, rr.err = issuer.Evaluate(append([]byte{}, enc...))
							} else {
								rr.resp, _, rr.err = valueCopy.Evaluate(append([]byte{}, enc...))
							}
						})
						done <- rr
					}()
					select {
					case rr := <-done:
						if rr.pan != "" {
							panic(rr.pan)
						}
						e["served"] = rr.err == nil && len(rr.resp) > 0
						e["err"] = errStr(rr.err)
					case <-time.After(20 * time.Second):
						panic("Evaluate did not return within 20 s")
					}
				})
				e["panic"] = p
				out = append(out, e)
				if strings.Contains(p, "did not return within") {
					return out // an issuer that has stopped answering: the rest of the history would only wait
				}
			}
		}
		return out
	}
	return []ev{{"op": "unknown"}}
}

func originLengths(c *ctx) []int {
	ls := []int{}
	max := 130
	if c.thorough() {
		max = 4100
	}
	for n := 0; n <= max; n++ {
		ls = append(ls, n)
	}
	if !c.thorough() {
		for k := 160; k <= 4096; k += 32 {
			ls = append(ls, k-1, k, k+1)
		}
	}
	return ls
}

func genOrigin(c *ctx, emit func(ev)) {
	r := newRand(c.seed, "origin")
	for _, n := range originLengths(c) {
		name := alnum(r, n)
		emit(ev{"op": "Pad", "name": B(name)})
		emit(ev{"op": "Pad", "name": B(utf8Name(r, n))})
		if n >= 1 {
			// inner NUL, trailing NUL (outside the property for recovery, still padded correctly)
			v := append([]byte{}, name...)
			v[r.Intn(n)] = 0
			emit(ev{"op": "Pad", "name": B(v)})
			emit(ev{"op": "Pad", "name": B(append(append([]byte{}, name...), 0))})
		}
	}
	// histories: near-miss variants registered, the name itself only later
	hl := originLengths(c)
	if c.thorough() {
		hl = hl[:0]
		for n := 0; n <= 300; n++ {
			hl = append(hl, n)
		}
		for k := 320; k <= 4096; k += 32 {
			hl = append(hl, k-1, k, k+1)
		}
	}
	for i, n := range hl {
		name := alnum(r, n)
		switch i % 5 { // names are byte strings: multi-byte UTF-8 and arbitrary bytes too (never a trailing NUL)
		case 1:
			name = utf8Name(r, n)
		case 3:
			name = randBytes(r, n)
			for k := range name {
				if name[k] == 0 {
					name[k] = 0x80
				}
			}
		}
		variants := [][]byte{append(append([]byte{}, name...), 'a'), append(append([]byte{}, name...), 0)}
		if n >= 1 {
			lastChanged := append([]byte{}, name...)
			lastChanged[n-1] ^= 0x01
			innerNul := append([]byte{}, name...)
			innerNul[n/2] = 0
			variants = append(variants, lastChanged, append([]byte{}, name[:n-1]...))
			if n >= 2 {
				variants = append(variants, innerNul)
			}
		}
		inner := variants[len(variants)-1] // (the inner-NUL variant when n >= 2)
		// the block-length prefixes of a long name (what a comparison over a padded, fixed-size buffer would conflate)
		if n > 32 {
			variants = append(variants, append([]byte{}, name[:32*((n-1)/32)]...))
			if n > 64 {
				variants = append(variants, append([]byte{}, name[:32]...))
			}
		}
		if n >= 1 && i%5 != 1 && i%5 != 3 {
			// names a canonicalising implementation would conflate: other letter case, surrounding white space, a
			// trailing dot - to the issuer these are other origins
			cat := func(a []byte, b ...byte) []byte { return append(append([]byte{}, a...), b...) }
			flipped := append([]byte{}, name...)
			for k := range flipped {
				if (flipped[k] >= 'a' && flipped[k] <= 'z') || (flipped[k] >= 'A' && flipped[k] <= 'Z') {
					flipped[k] ^= 0x20
					break
				}
			}
			variants = append(variants, cat(name, ' '), cat([]byte{' '}, name...), cat(name, '.'), cat(name, '\t'), cat(name, '\n'))
			if !bytes.Equal(flipped, name) {
				variants = append(variants, flipped)
			}
		}
		steps := []any{}
		short := []byte("s.example")
		steps = append(steps, ev{"k": "R", "o": B(short)})
		for _, v := range variants {
			steps = append(steps, ev{"k": "R", "o": B(v)})
		}
		steps = append(steps, ev{"k": "E", "name": B(name)}) // only look-alikes registered: must be refused
		steps = append(steps, ev{"k": "R", "o": B(name)})
		steps = append(steps, ev{"k": "E", "name": B(name)}) // now served
		// one look-alike (not ending in NUL) is served as itself
		v := variants[0]
		steps = append(steps, ev{"k": "E", "name": B(v)})
		if n >= 3 {
			// a registered name with an inner NUL is served as itself, not as its prefix
			steps = append(steps, ev{"k": "E", "name": B(inner)})
			// ... and so is the last of the other look-alikes
			steps = append(steps, ev{"k": "E", "name": B(variants[len(variants)-1])})
			steps = append(steps, ev{"k": "E", "name": B(name[:n/2])})
		}
		// a short registered name is still served after requests for longer names on the same issuer
		steps = append(steps, ev{"k": "E", "name": B(short)})
		emit(ev{"op": "Hist", "rsa": i % 4, "steps": steps})
	}
	// many refused requests in a row, then the registered name: refusals use nothing up
	{
		steps := []any{ev{"k": "R", "o": B([]byte("served.example"))}}
		for k := 0; k < 80; k++ {
			steps = append(steps, ev{"k": "E", "name": B([]byte(fmt.Sprintf("refused-%d.example", k)))})
		}
		steps = append(steps, ev{"k": "E", "name": B([]byte("served.example"))}, ev{"k": "E", "name": B([]byte("served.example"))})
		emit(ev{"op": "Hist", "rsa": 0, "steps": steps})
	}
}

// utf8Name is a name of exactly n bytes containing multi-byte UTF-8 characters (its length in characters is smaller).
func utf8Name(r *rand.Rand, n int) []byte {
	out := []byte{}
	for len(out) < n {
		switch {
		case n-len(out) >= 3 && r.Intn(3) == 0:
			out = append(out, "\u20ac"...) // 3 bytes
		case n-len(out) >= 2 && r.Intn(2) == 0:
			out = append(out, "\u00fc"...) // 2 bytes
		default:
			out = append(out, byte('a'+r.Intn(26)))
		}
	}
	return out
}
