// Command harness is the Go side of the TLA+ conformance machinery for
// cloudflare/pat-go: it records NDJSON traces of real library calls for TLC to
// validate against the specification, and replays TLC-generated behaviours
// against the real library.
package main

import (
	"flag"
	"fmt"
	"os"
	"sort"
)

// A family is one conformance driver. gen produces cases (inputs only, JSON
// objects); exec runs one case against the real library and returns the trace
// events (inputs + observed results) that TLC validates. A case read back from
// a replay file is executed exactly like a generated one.
type family struct {
	gen    func(c *ctx, emit func(ev))
	exec   func(c *ctx, in ev) []ev
	serial bool               // cases must be executed one at a time (timing / allocation measurements)
	replay func(c *ctx) error // replay TLC behaviours (R)
}

var families = map[string]*family{}

func register(name string, f *family) { families[name] = f }

type ctx struct {
	seed   int64
	tier   string
	out    string // output path (trace or replay results)
	in     string // input path (behaviours) for replay
	shards int
	arg    string
	part   string // "i/n": execute only the cases k with k % n == i (several processes share one case list)
}

func (c *ctx) thorough() bool { return c.tier == "thorough" }

func main() {
	if len(os.Args) < 3 {
		usage()
	}
	mode, fam := os.Args[1], os.Args[2]
	fs := flag.NewFlagSet("harness", flag.ExitOnError)
	c := &ctx{}
	fs.Int64Var(&c.seed, "seed", 1, "seed for every random choice")
	fs.StringVar(&c.tier, "tier", "quick", "quick|thorough")
	fs.StringVar(&c.out, "out", "", "output file")
	fs.StringVar(&c.in, "in", "", "input file")
	fs.IntVar(&c.shards, "shards", 1, "number of output shards (out.0 .. out.N-1)")
	fs.StringVar(&c.arg, "arg", "", "family specific argument")
	fs.StringVar(&c.part, "part", "", "i/n: execute only cases k with k%n == i")
	fs.Parse(os.Args[3:])
	f, ok := families[fam]
	if !ok {
		usage()
	}
	var err error
	switch mode {
	case "record":
		if f.exec == nil {
			usage()
		}
		err = record(f, c)
	case "gen":
		err = genOnly(f, c)
	case "replay":
		if f.replay == nil {
			usage()
		}
		err = f.replay(c)
	default:
		usage()
	}
	if err != nil {
		fmt.Fprintln(os.Stderr, "harness error:", err)
		os.Exit(2)
	}
}

func usage() {
	names := []string{}
	for n := range families {
		names = append(names, n)
	}
	sort.Strings(names)
	fmt.Fprintln(os.Stderr, "usage: harness record|gen|replay <family> [flags]; families:", names)
	os.Exit(2)
}
