package main

import (
	"crypto"
	"crypto/elliptic"
	"crypto/hmac"
	"crypto/sha256"
	"crypto/sha512"
	"hash"
	"math/big"
)

// Independent reference implementations used as oracles (never the code under
// test): RFC 9380 expand_message_xmd / hash_to_field, RFC 5869 HKDF, and the
// blinding scalar / index derivations built from them with crypto/elliptic.

func newHash(h crypto.Hash) func() hash.Hash {
	switch h {
	case crypto.SHA256:
		return sha256.New
	case crypto.SHA384:
		return sha512.New384
	case crypto.SHA512:
		return sha512.New
	}
	panic("unsupported hash")
}

func blockSize(h crypto.Hash) int {
	if h == crypto.SHA256 {
		return 64
	}
	return 128
}

// expandMessageXMD implements RFC 9380 section 5.3.1.
func expandMessageXMD(h crypto.Hash, msg, dst []byte, n int) []byte {
	H := newHash(h)
	b := h.Size()
	ell := (n + b - 1) / b
	if ell > 255 || len(dst) > 255 {
		panic("xmd: too long")
	}
	dstPrime := append(append([]byte{}, dst...), byte(len(dst)))
	hh := H()
	hh.Write(make([]byte, blockSize(h)))
	hh.Write(msg)
	hh.Write([]byte{byte(n >> 8), byte(n)})
	hh.Write([]byte{0})
	hh.Write(dstPrime)
	b0 := hh.Sum(nil)
	hh = H()
	hh.Write(b0)
	hh.Write([]byte{1})
	hh.Write(dstPrime)
	bi := hh.Sum(nil)
	out := append([]byte{}, bi...)
	for i := 2; i <= ell; i++ {
		x := make([]byte, b)
		for j := range x {
			x[j] = b0[j] ^ bi[j]
		}
		hh = H()
		hh.Write(x)
		hh.Write([]byte{byte(i)})
		hh.Write(dstPrime)
		bi = hh.Sum(nil)
		out = append(out, bi...)
	}
	return out[:n]
}

func curveHashL(c elliptic.Curve) (crypto.Hash, int) {
	switch c.Params().Name {
	case "P-224":
		return crypto.SHA256, 32
	case "P-256":
		return crypto.SHA256, 48
	case "P-384":
		return crypto.SHA384, 72
	case "P-521":
		return crypto.SHA512, 98
	}
	panic("unsupported curve")
}

// refBlindScalar is the ECDSA key-blinding factor of the draft: hash_to_field
// (XMD, DST "ECDSA Key Blind") of the blind key's big-endian integer bytes,
// 0x00 and the context, modulo the group order.
func refBlindScalar(c elliptic.Curve, blindD *big.Int, ctx []byte) *big.Int {
	h, L := curveHashL(c)
	msg := append(append(blindD.Bytes(), 0x00), ctx...)
	u := expandMessageXMD(h, msg, []byte("ECDSA Key Blind"), L)
	return new(big.Int).Mod(new(big.Int).SetBytes(u), c.Params().N)
}

// refHKDF is RFC 5869 with the given hash.
func refHKDF(h crypto.Hash, ikm, salt, info []byte, n int) []byte {
	H := newHash(h)
	if salt == nil {
		salt = make([]byte, h.Size())
	}
	ext := hmac.New(H, salt)
	ext.Write(ikm)
	prk := ext.Sum(nil)
	var out, t []byte
	for i := byte(1); len(out) < n; i++ {
		m := hmac.New(H, prk)
		m.Write(t)
		m.Write(info)
		m.Write([]byte{i})
		t = m.Sum(nil)
		out = append(out, t...)
	}
	return out[:n]
}

func ctxType3(label string) []byte { return append([]byte{0x00, 0x03}, []byte(label)...) }

// refIndex is the anonymous issuer origin ID of property C08, computed from the
// client secret and the origin index key only.
func refIndex(clientSecret, indexKey []byte) (index, indexKeyEnc []byte) {
	c := elliptic.P384()
	px, py := c.ScalarBaseMult(clientSecret)
	clientKeyEnc := elliptic.MarshalCompressed(c, px, py)
	f := refBlindScalar(c, new(big.Int).SetBytes(indexKey), ctxType3("IssuerBlind"))
	x, y := c.ScalarMult(px, py, f.Bytes())
	indexKeyEnc = elliptic.MarshalCompressed(c, x, y)
	return refHKDF(crypto.SHA384, indexKeyEnc, clientKeyEnc, []byte("IssuerOriginAlias"), 48), indexKeyEnc
}

// refIssuerBlinded is what the issuer must return next to the token response:
// the request key (client key blinded with the request blind) blinded with the
// origin index key.
func refIssuerBlinded(clientSecret, blind, indexKey []byte) []byte {
	c := elliptic.P384()
	px, py := c.ScalarBaseMult(clientSecret)
	f1 := refBlindScalar(c, new(big.Int).SetBytes(blind), ctxType3("ClientBlind"))
	f2 := refBlindScalar(c, new(big.Int).SetBytes(indexKey), ctxType3("IssuerBlind"))
	f := new(big.Int).Mul(f1, f2)
	f.Mod(f, c.Params().N)
	x, y := c.ScalarMult(px, py, f.Bytes())
	return elliptic.MarshalCompressed(c, x, y)
}
