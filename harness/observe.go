package main

import (
	"fmt"
	"runtime"
	"time"
)

// outcome of one observed library call.
type outcome struct {
	Panic   string
	Timeout bool
	Alloc   uint64 // bytes allocated during the call (only when measured, serial execution)
	Ms      float64
}

const callTimeout = 5 * time.Second

// observe runs f under recover and a wall-clock limit; with measure it also
// records the bytes allocated while f ran (the caller must be the only running
// goroutine for that number to mean anything).
func observe(measure bool, f func()) outcome {
	var o outcome
	var m0, m1 runtime.MemStats
	if measure {
		runtime.ReadMemStats(&m0)
	}
	done := make(chan string, 1)
	t0 := time.Now()
	go func() {
		defer func() {
			if r := recover(); r != nil {
				s := fmt.Sprint(r)
				if s == "" {
					s = "panic"
				}
				done <- s
				return
			}
			done <- ""
		}()
		f()
	}()
	select {
	case p := <-done:
		o.Panic = p
	case <-time.After(callTimeout):
		o.Timeout = true
	}
	o.Ms = float64(time.Since(t0).Microseconds()) / 1000
	if measure {
		runtime.ReadMemStats(&m1)
		o.Alloc = m1.TotalAlloc - m0.TotalAlloc
	}
	return o
}

func (o outcome) fill(e ev) {
	e["panic"] = o.Panic
	e["timeout"] = o.Timeout
	// TLC integers are 32-bit: allocation is logged in KiB, capped
	kib := o.Alloc / 1024
	if kib > 1<<30 {
		kib = 1 << 30
	}
	e["alloc_kib"] = int(kib)
	e["ms"] = int(o.Ms)
}
