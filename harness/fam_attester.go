package main

import (
	"bytes"
	"crypto/elliptic"
	"crypto/sha512"
	"encoding/hex"
	"fmt"
	"math/rand"
	"os"
	"sort"
	"strings"

	"github.com/cloudflare/pat-go/ecdsa"
	"github.com/cloudflare/pat-go/tokens/type3"
)

// Family "attester" (properties C06, C08, C09): histories of VerifyRequest /
// FinalizeIndex calls on a real RateLimitedAttester with a recording cache.
// The histories are TLC-generated behaviours (Gen_Attester), seeded long
// random histories, and bit-flip sweeps over real requests. Events are
// validated by Trace_Attester.tla against the actions of Attester.tla.

func init() { register("attester", &family{gen: genAttester, exec: execAttester}) }

// the fixed trace world (must match Trace_Attester.tla / its cfg)
var attIndexKeyOf = map[string]string{"o1": "k1", "o2": "k1", "o3": "k2", "o4": "k3", "o5": "k3", "o6": "k4"}

type recCache struct {
	m          map[string]*type3.ClientState
	gets, puts int
}

func (c *recCache) Get(id string) (*type3.ClientState, bool) {
	c.gets++
	s, ok := c.m[id]
	return s, ok
}
func (c *recCache) Put(id string, s *type3.ClientState) {
	c.puts++
	c.m[id] = s
}

type attWorld struct {
	seed   int64
	issuer *type3.RateLimitedIssuer // for full issuance steps
}

func (w *attWorld) secret(c string) []byte   { return p384Scalar(w.seed, "att-client-"+c) }
func (w *attWorld) indexKey(o string) []byte { return p384Scalar(w.seed, "att-ik-"+attIndexKeyOf[o]) }
func (w *attWorld) anon(a string) []byte {
	switch a {
	case "a0": // the zero-length anonymous origin ID: a value like any other
		return []byte{}
	case "a5": // one byte
		return []byte{0}
	}
	return hashBytes(w.seed, "att-anon-"+a, 32)
}
func (w *attWorld) originName(o string) string { return o + ".example" }

func newAttWorld(seed int64, full bool) *attWorld {
	w := &attWorld{seed: seed}
	if full {
		w.issuer = type3.NewRateLimitedIssuer(rsaKey(2))
		for o := range attIndexKeyOf {
			sk, _ := ecdsa.CreateKey(elliptic.P384(), w.indexKey(o))
			w.issuer.AddOriginWithIndexKey(w.originName(o), sk)
		}
	}
	return w
}

func flipBit(b []byte, i int) []byte {
	out := append([]byte{}, b...)
	out[(i/8)%len(out)] ^= 1 << uint(i%8)
	return out
}

// buildVerify builds the arguments of one VerifyRequest call of class q /
// variant v for client c and reports what is true of the request.
func buildVerify(w *attWorld, r *rand.Rand, c, q, variant string, bit int) (req type3.RateLimitedTokenRequest, blind, clientKey []byte, sigOK, keyOK, ckeyOK bool) {
	var mkSecret func(secret, blind []byte) type3.RateLimitedTokenRequest
	mk := func(client string, blind []byte) type3.RateLimitedTokenRequest {
		return mkSecret(w.secret(client), blind)
	}
	mkSecret = func(secret, blind []byte) type3.RateLimitedTokenRequest {
		cl := type3.NewRateLimitedClientFromSecret(secret)
		iss := w.issuer
		if iss == nil {
			iss = sharedAttIssuer()
		}
		st, err := cl.CreateTokenRequest(randBytes(r, 16), randNonce(r), blind, iss.TokenKeyID(), iss.TokenKey(), "o1.example", iss.NameKey())
		if err != nil {
			panic(err)
		}
		// a deep copy decoded from the wire form
		out := new(type3.RateLimitedTokenRequest)
		if !out.Unmarshal(append([]byte{}, st.Request().Marshal()...)) {
			panic("honest request does not decode")
		}
		return *out
	}
	blind = randScalar(r)
	clientKey = clientPublic(w.secret(c))
	req = mk(c, blind)
	if bit%2 == 1 {
		// the request object has been marshalled before (its encoding cache is
		// filled), as a request that was sent or logged would be
		req.Marshal()
	}
	sigOK, keyOK, ckeyOK = true, true, true
	switch q {
	case "good":
	case "badsig":
		sigOK = false
		switch variant {
		case "", "flip-sig":
			req.Signature = flipBit(req.Signature, bit)
		case "flip-enc":
			req.EncryptedTokenRequest = flipBit(req.EncryptedTokenRequest, bit)
		case "flip-namekeyid":
			req.NameKeyID = flipBit(req.NameKeyID, bit)
		case "flip-reqkey":
			req.RequestKey = flipBit(req.RequestKey, bit)
			keyOK = false
		case "short-sig":
			req.Signature = req.Signature[:bit%96]
		case "long-sig":
			req.Signature = append(req.Signature, byte(bit))
		case "zero-sig":
			req.Signature = make([]byte, 96)
		case "otherkey-sig": // signed by another client's blinded key over the same contents
			other := mk(otherClient(c), blind)
			req.Signature = other.Signature
		case "othercontents": // a valid signature by the same key, over another request
			other := mk(c, blind)
			req.Signature = other.Signature
		case "swap-rs":
			req.Signature = append(append([]byte{}, req.Signature[48:]...), req.Signature[:48]...)
		case "extend-namekeyid": // honest signature, extra bytes behind a field
			req.NameKeyID = append(append([]byte{}, req.NameKeyID...), randBytes(r, 1+bit%40)...)
		case "shorten-namekeyid":
			req.NameKeyID = req.NameKeyID[:31-bit%3]
		case "extend-enc":
			req.EncryptedTokenRequest = append(append([]byte{}, req.EncryptedTokenRequest...), byte(bit))
		case "shorten-enc":
			req.EncryptedTokenRequest = req.EncryptedTokenRequest[:len(req.EncryptedTokenRequest)-1-bit%3]
		case "extend-reqkey":
			req.RequestKey = append(append([]byte{}, req.RequestKey...), 0)
			keyOK = false
		}
	case "badkey":
		keyOK = false
		switch variant {
		case "", "wrong-blind":
			blind = randScalar(r)
		case "wrong-client": // a consistent request of another client presented under c's key
			req = mk(otherClient(c), blind)
		case "negated-client": // a consistent request of the client whose secret is N - d: its blinded key is the negation
			req = mkSecret(negScalar(w.secret(c)), blind)
		case "blind-plus-n": // the same blind plus the group order: another integer
			blind = randScalar(r)
		}
	case "badcky":
		ckeyOK = false
		switch variant {
		case "", "short":
			clientKey = clientKey[:48]
		case "offcurve":
			clientKey = append([]byte{clientKey[0]}, bytes.Repeat([]byte{0xff}, 48)...)
		case "empty":
			clientKey = nil
		case "uncompressed-prefix":
			clientKey = append([]byte{0x04}, clientKey[1:]...)
		}
	}
	return
}

func otherClient(c string) string {
	if c == "c1" {
		return "c2"
	}
	return "c1"
}

func randScalar(r *rand.Rand) []byte {
	N := elliptic.P384().Params().N
	for {
		b := randBytes(r, 48)
		b[0] &= 0x7f
		if new(bigInt).SetBytes(b).Cmp(N) < 0 && new(bigInt).SetBytes(b).Sign() > 0 {
			return b
		}
	}
}

var (
	attIssuerOnce = new(onceIssuer)
)

type onceIssuer struct {
	done bool
	iss  *type3.RateLimitedIssuer
}

func sharedAttIssuer() *type3.RateLimitedIssuer {
	attMu.Lock()
	defer attMu.Unlock()
	if !attIssuerOnce.done {
		attIssuerOnce.iss = type3.NewRateLimitedIssuer(rsaKey(2))
		attIssuerOnce.done = true
	}
	return attIssuerOnce.iss
}

func execAttester(c *ctx, in ev) []ev {
	full := gBool(in, "full")
	w := newAttWorld(c.seed, full)
	r := newRand(c.seed, "att-exec-"+fmt.Sprint(in["hid"]))
	cache := &recCache{m: map[string]*type3.ClientState{}}
	att := type3.NewRateLimitedAttester(cache)
	out := []ev{{"op": "ANew"}}
	idNames := map[string]string{}
	intern := func(idx []byte) string {
		h := hex.EncodeToString(idx)
		if n, ok := idNames[h]; ok {
			return n
		}
		n := fmt.Sprintf("i%d", len(idNames)+1)
		idNames[h] = n
		return n
	}
	clientName := map[string]string{}
	for i := 1; i <= 8; i++ {
		n := fmt.Sprintf("c%d", i)
		clientName[hex.EncodeToString(clientPublic(w.secret(n)))] = n
	}
	anonName := map[string]string{}
	for i := 0; i <= 5; i++ {
		n := fmt.Sprintf("a%d", i)
		anonName[hex.EncodeToString(w.anon(n))] = n
	}
	snapshot := func() ev {
		snap := []any{}
		keys := []string{}
		for k := range cache.m {
			keys = append(keys, k)
		}
		sort.Strings(keys)
		for _, k := range keys {
			ci, oi := cache.m[k].VerifSnapshot()
			cil, oil := []any{}, []any{}
			for idx, a := range ci {
				ib, _ := hex.DecodeString(idx)
				an := anonName[a]
				if an == "" {
					an = "a?" + a
				}
				cil = append(cil, []any{intern(ib), an})
			}
			for a, idx := range oi {
				ib, _ := hex.DecodeString(idx)
				oil = append(oil, []any{anonName[a], intern(ib)})
			}
			name := clientName[k]
			if name == "" {
				name = "c?" + k
			}
			snap = append(snap, ev{"c": name, "ci": cil, "oi": oil})
		}
		return ev{"op": "Snapshot", "snap": snap}
	}
	var lastBlind []byte
	var retained, retainedCopy [][]byte // IDs handed out so far, and what they were when handed out
	for _, st := range gL(in, "steps") {
		s := st.(map[string]any)
		cn := s["c"].(string)
		switch s["k"].(string) {
		case "V":
			q := s["q"].(string)
			variant, _ := s["v"].(string)
			bit := 0
			if s["bit"] != nil {
				bit = jInt(s["bit"])
			}
			req, blind, clientKey, sigOK, keyOK, ckeyOK := buildVerify(w, r, cn, q, variant, bit)
			cache.gets, cache.puts = 0, 0
			var err error
			p := guard(func() { err = att.VerifyRequest(req, blind, clientKey, w.anon("a1")) })
			reg := []string{}
			for k := range cache.m {
				n := clientName[k]
				if n == "" {
					n = "c?" + k
				}
				reg = append(reg, n)
			}
			sort.Strings(reg)
			out = append(out, ev{"op": "VerifyRequest", "c": cn, "q": ev{"sigOK": sigOK, "keyOK": keyOK, "ckeyOK": ckeyOK},
				"class": q, "variant": variant, "bit": bit, "ok": err == nil && p == "", "err": errStr(err), "panic": p,
				"gets": cache.gets, "puts": cache.puts, "registered": reg})
		case "F":
			o, a := s["o"].(string), s["a"].(string)
			blind := randScalar(r)
			if lastBlind != nil && r.Intn(4) == 0 {
				blind = lastBlind // the same request blind again (possibly for another client or origin)
			}
			switch r.Intn(12) { // edge encodings of the request blind
			case 0:
				blind = bytes.Repeat([]byte{0xff}, 48) // >= N
			case 1:
				blind = new(bigInt).Add(elliptic.P384().Params().N, new(bigInt).SetInt64(int64(5+r.Intn(1000)))).Bytes()
			case 2:
				blind[0], blind[1] = 0, 0 // leading zero bytes
			case 3:
				blind = append([]byte{0x01}, blind...) // 49 bytes
			}
			secret := w.secret(cn)
			var brk []byte
			if full {
				art, err := honestT3(&t3World{key: rsaKey(2), issuer: w.issuer}, secret, blind, randBytes(r, 20), randNonce(r), w.originName(o))
				if err != nil {
					panic("full issuance failed: " + err.Error())
				}
				brk = art.blindedRK
			} else {
				curve := elliptic.P384()
				sk, _ := ecdsa.CreateKey(curve, secret)
				bk, _ := ecdsa.CreateKey(curve, blind)
				ik, _ := ecdsa.CreateKey(curve, w.indexKey(o))
				rk, _ := ecdsa.BlindPublicKeyWithContext(curve, &sk.PublicKey, bk, ctxType3("ClientBlind"))
				ib, _ := ecdsa.BlindPublicKeyWithContext(curve, rk, ik, ctxType3("IssuerBlind"))
				brk = elliptic.MarshalCompressed(curve, ib.X, ib.Y)
			}
			lastBlind = blind
			var idx []byte
			var err error
			p := guard(func() { idx, err = att.FinalizeIndex(clientPublic(secret), blind, brk, w.anon(a)) })
			if err == nil && p == "" {
				retained = append(retained, idx)
				retainedCopy = append(retainedCopy, append([]byte{}, idx...))
			}
			e := ev{"op": "FinalizeIndex", "c": cn, "o": o, "a": a, "ok": err == nil && p == "", "err": errStr(err), "panic": p,
				"idx": "", "ref_ok": false, "full": full}
			e["brk_ref_ok"] = bytes.Equal(brk, refIssuerBlinded(secret, blind, w.indexKey(o)))
			if err == nil && p == "" {
				e["idx"] = intern(idx)
				ref, _ := refIndex(secret, w.indexKey(o))
				e["ref_ok"] = bytes.Equal(idx, ref)
			}
			out = append(out, e)
		}
		out = append(out, snapshot())
	}
	// IDs returned earlier are the caller's: they must still read as they did
	same := true
	for i := range retained {
		if !bytes.Equal(retained[i], retainedCopy[i]) {
			same = false
		}
	}
	out = append(out, ev{"op": "Retained", "n": len(retained), "unchanged": same})
	return out
}

func parseBehaviour(b string) []any {
	steps := []any{}
	for _, f := range strings.Fields(b) {
		p := strings.Split(f, ":")
		switch p[0] {
		case "V":
			steps = append(steps, ev{"k": "V", "c": p[1], "q": p[2]})
		case "F":
			steps = append(steps, ev{"k": "F", "c": p[1], "o": p[2], "a": p[3]})
		}
	}
	return steps
}

func genAttester(c *ctx, emit func(ev)) {
	r := newRand(c.seed, "attester")
	hid := 0
	want := func(kind string) bool { return c.arg == "" || strings.Contains(","+c.arg+",", ","+kind+",") }
	hist := func(steps []any, full bool, kind string) {
		if !want(kind) {
			return
		}
		hid++
		emit(ev{"op": "Hist", "hid": hid, "steps": steps, "full": full, "kind": kind})
	}
	// 1. TLC-generated behaviours
	if path := os.Getenv("VERIF_ATTESTER_BEHAVIOURS"); path != "" {
		data, err := os.ReadFile(path)
		if err != nil {
			panic(err)
		}
		for i, l := range strings.Split(string(data), "\n") {
			if strings.TrimSpace(l) == "" {
				continue
			}
			hist(parseBehaviour(l), i%50 == 0, "tlc")
			// the model is symmetric in Anons: the behaviour with a1 renamed to the zero-length ID is a behaviour too
			if strings.Contains(l, ":a1") && (c.thorough() || i%3 == 0) {
				hist(parseBehaviour(strings.ReplaceAll(l, ":a1", ":a0")), false, "tlc")
			}
		}
	}
	// 1b. bindings to the unusual anonymous origin IDs (zero-length, one zero byte), first and second
	for _, pair := range [][2]string{{"a0", "a1"}, {"a1", "a0"}, {"a0", "a5"}, {"a5", "a0"}, {"a5", "a1"}} {
		hist([]any{ev{"k": "V", "c": "c1", "q": "good"},
			ev{"k": "F", "c": "c1", "o": "o1", "a": pair[0]}, ev{"k": "F", "c": "c1", "o": "o2", "a": pair[1]},
			ev{"k": "F", "c": "c1", "o": "o1", "a": pair[0]}, ev{"k": "F", "c": "c1", "o": "o1", "a": pair[1]},
			ev{"k": "F", "c": "c1", "o": "o3", "a": pair[1]}, ev{"k": "F", "c": "c1", "o": "o2", "a": pair[0]}}, true, "random")
	}
	// 2. long seeded random histories over the larger world
	nLong := c.tierInt(40, 400)
	for i := 0; i < nLong; i++ {
		steps := []any{}
		n := 30 + r.Intn(40)
		nc := 2 + r.Intn(7)
		for k := 0; k < n; k++ {
			cn := fmt.Sprintf("c%d", 1+r.Intn(nc))
			if r.Intn(4) == 0 {
				q := []string{"good", "good", "good", "badsig", "badkey", "badcky"}[r.Intn(6)]
				steps = append(steps, ev{"k": "V", "c": cn, "q": q, "bit": r.Intn(768)})
			} else {
				steps = append(steps, ev{"k": "F", "c": cn, "o": fmt.Sprintf("o%d", 1+r.Intn(6)), "a": fmt.Sprintf("a%d", r.Intn(6))})
			}
		}
		hist(steps, i%10 == 0, "random")
	}
	// 3. C06 sweeps: every listed corruption of a real request, alone and after accepted state exists
	variants := []struct {
		q, v string
		bits int
	}{
		{"badsig", "flip-sig", 768}, {"badsig", "flip-reqkey", 392}, {"badsig", "flip-namekeyid", 256}, {"badsig", "flip-enc", 3000},
		{"badsig", "short-sig", 96}, {"badsig", "long-sig", 2}, {"badsig", "zero-sig", 1}, {"badsig", "otherkey-sig", 2},
		{"badsig", "othercontents", 2}, {"badsig", "swap-rs", 1}, {"badsig", "extend-namekeyid", 6}, {"badsig", "shorten-namekeyid", 3},
		{"badsig", "extend-enc", 3}, {"badsig", "shorten-enc", 3}, {"badsig", "extend-reqkey", 1},
		{"badkey", "wrong-blind", 4}, {"badkey", "wrong-client", 4}, {"badkey", "negated-client", 4},
		{"badcky", "short", 1}, {"badcky", "offcurve", 1}, {"badcky", "empty", 1}, {"badcky", "uncompressed-prefix", 1},
	}
	for _, v := range variants {
		step := 1
		if !c.thorough() && v.bits > 100 {
			step = 8 // quick: one seeded bit per byte
		}
		for b := 0; b < v.bits; b += step {
			bit := b
			if step > 1 {
				bit = b + r.Intn(step)
			}
			bad := ev{"k": "V", "c": "c1", "q": v.q, "v": v.v, "bit": bit}
			if b%16 == 0 {
				hist([]any{ev{"k": "V", "c": "c1", "q": "good"}, ev{"k": "F", "c": "c1", "o": "o1", "a": "a1"},
					ev{"k": "V", "c": "c2", "q": "good"}, bad, ev{"k": "F", "c": "c1", "o": "o1", "a": "a1"}}, false, "sweep")
			} else {
				hist([]any{bad}, false, "sweep")
			}
		}
	}
	// 4. C08: full issuance repeated with fresh blinds, nonces and challenges
	nc, no, reps := c.tierInt(3, 8), c.tierInt(3, 5), c.tierInt(4, 12)
	steps := []any{}
	for ci := 1; ci <= nc; ci++ {
		steps = append(steps, ev{"k": "V", "c": fmt.Sprintf("c%d", ci), "q": "good"})
	}
	for rep := 0; rep < reps; rep++ {
		for ci := 1; ci <= nc; ci++ {
			for oi := 1; oi <= no; oi++ {
				// the same anon per (client, index key): no conflicts, so every ID is returned
				a := map[string]string{"k1": "a1", "k2": "a2", "k3": "a3", "k4": "a4"}[attIndexKeyOf[fmt.Sprintf("o%d", oi)]]
				steps = append(steps, ev{"k": "F", "c": fmt.Sprintf("c%d", ci), "o": fmt.Sprintf("o%d", oi), "a": a})
			}
		}
	}
	hist(steps, true, "index")
}

var _ = sha512.New384

func negScalar(d []byte) []byte {
	N := elliptic.P384().Params().N
	v := new(bigInt).Sub(N, new(bigInt).SetBytes(d))
	out := make([]byte, 48)
	v.FillBytes(out)
	return out
}
