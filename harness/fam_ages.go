package main

import (
	"bytes"
	stdecdsa "crypto/ecdsa"
	stded "crypto/ed25519"
	"crypto/elliptic"
	"crypto/rsa"
	"crypto/sha256"
	"encoding/binary"
	"encoding/json"
	"fmt"
	"math/big"
	"os"
	"strings"

	"github.com/cloudflare/circl/group"
	"github.com/cloudflare/circl/oprf"
	"github.com/cloudflare/pat-go/ecdsa"
	"github.com/cloudflare/pat-go/ed25519"
	"github.com/cloudflare/pat-go/quicwire"
	"github.com/cloudflare/pat-go/tokens"
	"github.com/cloudflare/pat-go/tokens/batched"
	"github.com/cloudflare/pat-go/tokens/type1"
	"github.com/cloudflare/pat-go/tokens/type2"
	"github.com/cloudflare/pat-go/tokens/type3"
	"github.com/cloudflare/pat-go/tokens/type5"
	"github.com/cloudflare/pat-go/util"
)

// Family "ages" (Ages.tla): every schedule of phases that the specification generates is run on ONE long-lived real
// object, each phase of the schedule standing for n operations of the model's action on n concrete items:
//   honest   n fresh authentic items                        - all accepted, outputs pass the independent reference
//   refused  n fresh items that must be refused             - all refused
//   same     the first item of the schedule, n times        - as the first time
//   probe    the n items of the oldest phase not yet probed - as the first time
// One event per phase; Trace_Ages.tla advances the specification by the phase's action and requires the common answer
// of the phase to be the model's. n exceeds the tables a long run is to find (rings of 256 / 512 / 1024 entries,
// counters of 8 and 16 bits where the operation is cheap enough), and the items are many enough for values that occur
// once in 2^8 .. 2^16 draws (leading zero bytes, coinciding truncated identifiers) to occur among them.

func init() { register("ages", &family{gen: genAges, exec: execAges}) }

type ageWorld struct {
	// present item j (numbered over the whole schedule); good: an honest item; again: it was presented before
	present func(j int, good, again bool) (accepted bool, err error)
	// C16 only (retain): byte strings handed to the library or received from it are remembered with what they held, and
	// compared at the end of every phase - however many operations later
	retain bool
	kept   [][2][]byte
}

func (w *ageWorld) keep(bs ...[]byte) {
	if !w.retain || len(w.kept) > 400000 {
		return
	}
	for _, b := range bs {
		if len(b) > 0 {
			w.kept = append(w.kept, [2][]byte{b, append([]byte{}, b...)})
		}
	}
}

func (w *ageWorld) checkKept() error {
	for i, k := range w.kept {
		if !bytes.Equal(k[0], k[1]) {
			return fmt.Errorf("byte string %d of %d handed to / received from the library earlier has changed since (%d bytes)", i, len(w.kept), len(k[0]))
		}
	}
	return nil
}

// splitmix64: a cheap PRF for items that are regenerated rather than stored
func mix64(x uint64) uint64 {
	x += 0x9e3779b97f4a7c15
	x = (x ^ (x >> 30)) * 0xbf58476d1ce4e5b9
	x = (x ^ (x >> 27)) * 0x94d049bb133111eb
	return x ^ (x >> 31)
}

func prfBytes(seed int64, sid, j, n int) []byte {
	out := make([]byte, 0, n+8)
	s := mix64(uint64(seed)*0x100000001b3 ^ uint64(sid)<<40 ^ uint64(j))
	for len(out) < n {
		s = mix64(s)
		out = binary.BigEndian.AppendUint64(out, s)
	}
	return out[:n]
}

func execAges(c *ctx, in ev) []ev {
	kind, sid, n := gS(in, "kind"), gI(in, "sid"), gI(in, "n")
	var w *ageWorld
	if p := guard(func() { w = newAgeWorld(c, kind, sid, n, gBool(in, "retain")) }); p != "" {
		return []ev{{"op": "Phase", "kind": kind, "sid": sid, "ph": "honest", "i": 1, "n": n, "done": 0, "first_bad": 0, "item": 1, "ans": "diverged", "err": "", "panic": "setup: " + p}}
	}
	type itemPhase struct {
		good  bool
		first int
	}
	var its []itemPhase
	probed, next := 0, 0
	out := []ev{}
	for pi, ps := range gL(in, "sched") {
		ph := ps.(string)
		e := ev{"op": "Phase", "kind": kind, "sid": sid, "ph": ph, "i": pi + 1, "n": n, "done": 0, "first_bad": -1, "item": 0, "ans": "", "err": "", "panic": ""}
		var item func(k int) (j int, good, again bool)
		switch {
		case ph == "honest" || ph == "refused":
			it := itemPhase{ph == "honest", next}
			next += n
			its = append(its, it)
			e["item"] = len(its)
			item = func(k int) (int, bool, bool) { return it.first + k, it.good, false }
		case ph == "same" && len(its) > 0:
			e["item"] = 1
			item = func(k int) (int, bool, bool) { return its[0].first, its[0].good, true }
		case ph == "probe" && probed < len(its):
			it := its[probed]
			probed++
			e["item"] = probed
			item = func(k int) (int, bool, bool) { return it.first + k, it.good, true }
		}
		if item != nil {
			e["panic"] = guard(func() {
				ans := ""
				for k := 0; k < n; k++ {
					j, good, again := item(k)
					acc, err := w.present(j, good, again)
					a := "refuse"
					if acc {
						a = "accept"
					}
					if ans == "" {
						ans = a
					}
					if err != nil || a != ans {
						msg := fmt.Sprintf("operation %d of the phase (item %d) answered %s after %s", k, j, a, ans)
						if err != nil {
							msg = fmt.Sprintf("operation %d of the phase (item %d): %v", k, j, err)
						}
						e["ans"], e["first_bad"], e["err"] = "diverged", k, msg
						return
					}
					e["done"] = k + 1
				}
				e["ans"] = ans
			})
			if e["panic"] != "" && e["ans"] == "" {
				e["ans"] = "diverged"
			}
			if err := w.checkKept(); err != nil && e["ans"] != "diverged" {
				e["ans"], e["err"] = "diverged", err.Error()
				w.kept = nil
			}
		}
		out = append(out, e)
	}
	return out
}

func genAges(c *ctx, emit func(ev)) {
	path := os.Getenv("VERIF_AGES_BEHAVIOURS")
	if path == "" {
		return
	}
	data, err := os.ReadFile(path)
	if err != nil {
		panic(err)
	}
	var beh []struct {
		Kind   string   `json:"kind"`
		Sched  []string `json:"sched"`
		N      int      `json:"n"`
		Retain bool     `json:"retain"`
	}
	if err := json.Unmarshal(data, &beh); err != nil {
		panic(err)
	}
	for i, b := range beh {
		s := []any{}
		for _, x := range b.Sched {
			s = append(s, x)
		}
		emit(ev{"op": "Sched", "kind": b.Kind, "sid": i, "sched": s, "n": b.N, "retain": b.Retain})
	}
}

// rotIssuer: a deployment's Issuer whose key is rotated at run time
type rotIssuer struct {
	iss []*type1.BasicPrivateIssuer
	cur int
}

func (r *rotIssuer) Evaluate(req tokens.TokenRequest) ([]byte, error) {
	return batchIssuer1{r.iss[r.cur]}.Evaluate(req)
}
func (r *rotIssuer) TokenKeyID() []byte { return r.iss[r.cur].TokenKeyID() }
func (r *rotIssuer) Type() uint16       { return r.iss[r.cur].Type() }

func ageScalar(c *ctx, sid, j int, what string) []byte {
	return p384Scalar(c.seed, fmt.Sprintf("ages-%s-%d-%d", what, sid, j))
}

func newAgeWorld(c *ctx, kind string, sid, n int, retain bool) *ageWorld {
	w := &ageWorld{retain: retain}
	hb := func(j int, what string, k int) []byte {
		return hashBytes(c.seed, fmt.Sprintf("ages-%s-%d-%d", what, sid, j), k)
	}
	switch {
	case kind == "t1verify" || kind == "t5verify":
		// ONE issuer verifying tokens; the tokens are made by the reference (FullEvaluate), not by the library
		t, suite := uint16(1), oprf.SuiteP384
		var key *oprf.PrivateKey
		var keyID []byte
		var verify func(tokens.Token) error
		if kind == "t1verify" {
			key = p384Key(c.seed, fmt.Sprintf("ages-k-%d", sid))
			iss := type1.NewBasicPrivateIssuer(key)
			keyID, verify = iss.TokenKeyID(), iss.Verify
		} else {
			t, suite = 5, oprf.SuiteRistretto255
			key = ristrettoKey(c.seed, fmt.Sprintf("ages-k-%d", sid))
			iss := type5.NewBatchedPrivateIssuer(key)
			keyID, verify = iss.TokenKeyID(), iss.Verify
		}
		w.present = func(j int, good, again bool) (bool, error) {
			tok := tokens.Token{TokenType: t, Nonce: hb(j, "nonce", 32), Context: hb(j, "ctx", 32), KeyID: append([]byte{}, keyID...)}
			tok.Authenticator = fullEvaluate(suite, key, authInput(tok))
			if !good {
				switch j % 3 {
				case 0:
					tok.Authenticator = flipBit(tok.Authenticator, j/3)
				case 1:
					tok.Nonce = flipBit(tok.Nonce, j/3)
				default:
					tok.Context = flipBit(tok.Context, j/3)
				}
			}
			w.keep(tok.Nonce, tok.Context, tok.KeyID, tok.Authenticator)
			return verify(tok) == nil, nil
		}
	case kind == "attester":
		// ONE attester, ONE client, ever more origins: request j is for its own issuer origin (index key j) and its own
		// anonymous origin ID. Refused items: the request with one signature bit flipped.
		t3 := newT3World(rsaKey(2), c.seed, map[string]string{"ages.example": "a"})
		cache := &recCache{m: map[string]*type3.ClientState{}}
		att := type3.NewRateLimitedAttester(cache)
		secret := p384Scalar(c.seed, fmt.Sprintf("ages-client-%d", sid))
		clientKey := clientPublic(secret)
		client := type3.NewRateLimitedClientFromSecret(secret)
		reqs := map[int][]byte{}
		w.present = func(j int, good, again bool) (bool, error) {
			blind := ageScalar(c, sid, j, "blind")
			enc, ok := reqs[j]
			if !ok {
				st, err := client.CreateTokenRequest(hb(j, "chal", 9), hb(j, "nonce", 32), blind, t3.issuer.TokenKeyID(), t3.issuer.TokenKey(), "ages.example", t3.issuer.NameKey())
				if err != nil {
					return false, fmt.Errorf("harness: create: %v", err)
				}
				enc = append([]byte{}, st.Request().Marshal()...)
				if !good {
					enc = flipBit(enc, 8*(len(enc)-96)+j%(8*96))
				}
				reqs[j] = enc
			}
			reg := new(type3.RateLimitedTokenRequest)
			passed := append([]byte{}, enc...)
			w.keep(passed)
			if !reg.Unmarshal(passed) {
				return false, fmt.Errorf("harness: request does not decode")
			}
			anon := []byte(fmt.Sprintf("anon-%d-%d", sid, j))
			if err := att.VerifyRequest(*reg, append([]byte{}, blind...), append([]byte{}, clientKey...), anon); err != nil {
				return false, nil
			}
			if !good {
				return true, nil
			}
			ik := ageScalar(c, sid, j, "ik")
			idx, err := att.FinalizeIndex(append([]byte{}, clientKey...), append([]byte{}, blind...), refIssuerBlinded(secret, blind, ik), anon)
			if err != nil {
				return false, nil
			}
			w.keep(idx)
			if want, _ := refIndex(secret, ik); !bytes.Equal(idx, want) {
				return true, fmt.Errorf("the anonymous issuer origin ID is not the reference's")
			}
			return true, nil
		}
	case kind == "rlissuer":
		// ONE rate-limited issuer serving ever more origins; honest item j: origin j (registered when first needed, own
		// index key), refused item j: an authentic request for a name that was never registered. The buffers handed to
		// Evaluate are kept and compared when the item comes back (C16).
		t3 := newT3World(rsaKey(0), c.seed, map[string]string{})
		secret := p384Scalar(c.seed, fmt.Sprintf("ages-client-%d", sid))
		client := type3.NewRateLimitedClientFromSecret(secret)
		w.present = func(j int, good, again bool) (bool, error) {
			name := fmt.Sprintf("o-%d-%d.example", sid, j)
			ik := ageScalar(c, sid, j, "ik")
			if !good {
				name = fmt.Sprintf("u-%d-%d.example", sid, j)
			} else if !again {
				if j%4 == 3 { // the issuer draws the index key itself (read back for the reference)
					if err := t3.issuer.AddOrigin(name); err != nil {
						return false, fmt.Errorf("harness: AddOrigin: %v", err)
					}
				} else {
					sk, _ := rawKey(elliptic.P384(), ik)
					t3.issuer.AddOriginWithIndexKey(name, sk)
				}
			}
			if good && j%4 == 3 {
				k := t3.issuer.OriginIndexKey(name)
				if k == nil {
					return false, fmt.Errorf("OriginIndexKey of an origin registered with AddOrigin is nil")
				}
				ik = k.D.FillBytes(make([]byte, 48))
			}
			blind := ageScalar(c, sid, 2*j+map[bool]int{false: 0, true: 1}[again], "blind")
			st, err := client.CreateTokenRequest(hb(j, "chal", 9), hb(j, "nonce", 32), blind, t3.issuer.TokenKeyID(), t3.issuer.TokenKey(), name, t3.issuer.NameKey())
			if err != nil {
				return false, fmt.Errorf("harness: create: %v", err)
			}
			enc := append([]byte{}, st.Request().Marshal()...)
			passed := append([]byte{}, enc...)
			w.keep(passed)
			resp, brk, err := t3.issuer.Evaluate(passed)
			w.keep(resp, brk)
			if err != nil {
				return false, nil
			}
			if !good {
				return true, nil
			}
			if !bytes.Equal(brk, refIssuerBlinded(secret, blind, ik)) {
				return true, fmt.Errorf("the blinded request key is not the reference's for this origin")
			}
			tok, err := st.FinalizeToken(append([]byte{}, resp...))
			if err != nil {
				return true, fmt.Errorf("the client cannot finalize the response: %v", err)
			}
			if verifyPSS(t3.issuer.TokenKey(), tok) != nil {
				return true, fmt.Errorf("token does not verify")
			}
			return true, nil
		}
	case kind == "t5issue":
		// ONE type-5 issuer evaluating request after request (tens of thousands of them)
		key := ristrettoKey(c.seed, fmt.Sprintf("ages-k-%d", sid))
		iss := type5.NewBatchedPrivateIssuer(key)
		cl := type5.NewBatchedPrivateClient()
		w.present = func(j int, good, again bool) (bool, error) {
			nonces := [][]byte{hb(j, "nonce", 32)}
			if j%5 == 0 {
				nonces = append(nonces, hb(j, "nonce2", 32))
			}
			st, err := cl.CreateTokenRequest(hb(j, "chal", 8), nonces, iss.TokenKeyID(), iss.TokenKey())
			if err != nil {
				return false, fmt.Errorf("harness: create: %v", err)
			}
			req := new(type5.BatchedPrivateTokenRequest)
			if !req.Unmarshal(append([]byte{}, st.Request().Marshal()...)) {
				return false, fmt.Errorf("harness: request does not decode")
			}
			if !good {
				req.BlindedReq[len(req.BlindedReq)-1] = bytes.Repeat([]byte{0xff}, 32)
			}
			resp, err := iss.Evaluate(req)
			if err != nil {
				return false, nil
			}
			if !good {
				return true, nil
			}
			w.keep(resp)
			toks, err := st.FinalizeTokens(resp)
			if err != nil || len(toks) != len(nonces) {
				return false, nil
			}
			for _, tok := range toks {
				w.keep(tok.Nonce, tok.Authenticator, tok.KeyID)
				if !bytes.Equal(fullEvaluate(oprf.SuiteRistretto255, key, authInput(tok)), tok.Authenticator) {
					return true, fmt.Errorf("token does not verify")
				}
			}
			return true, nil
		}
	case kind == "t3held":
		// ONE long-lived type-3 client; its FIRST request state is held and never finalized. Honest item: a new request of
		// the client is issued and finalized by its own state; refused item: the response to a new request of the client
		// is presented to the held state
		t3 := newT3World(rsaKey(0), c.seed, map[string]string{"held.example": "a"})
		secret := p384Scalar(c.seed, fmt.Sprintf("ages-client-%d", sid))
		client := type3.NewRateLimitedClientFromSecret(secret)
		mk := func(j int) (type3.RateLimitedTokenRequestState, error) {
			return client.CreateTokenRequest(hb(j, "chal", 9), hb(j, "nonce", 32), ageScalar(c, sid, j, "blind"), t3.issuer.TokenKeyID(), t3.issuer.TokenKey(), "held.example", t3.issuer.NameKey())
		}
		held, err := mk(-1)
		if err != nil {
			panic(err)
		}
		w.present = func(j int, good, again bool) (bool, error) {
			st, err := mk(j)
			if err != nil {
				return false, fmt.Errorf("harness: create: %v", err)
			}
			resp, _, err := t3.issuer.Evaluate(append([]byte{}, st.Request().Marshal()...))
			if err != nil {
				return false, fmt.Errorf("harness: the issuer refuses an honest request: %v", err)
			}
			if !good {
				_, err := held.FinalizeToken(append([]byte{}, resp...))
				return err == nil, nil
			}
			tok, err := st.FinalizeToken(append([]byte{}, resp...))
			if err != nil {
				return false, nil
			}
			if verifyPSS(t3.issuer.TokenKey(), tok) != nil || !bytes.Equal(tok.Nonce, hb(j, "nonce", 32)) {
				return true, fmt.Errorf("the token does not verify or carries another nonce")
			}
			return true, nil
		}
	case kind == "rlunreg":
		// ONE issuer with 3000 registered origins that is asked for ever more names it never registered: each name is
		// shown to it in a sealed, unsigned request (cheap; refused whatever the name), and every 1000th name and the
		// last one in an authentic request of an honest client as well. Honest items: the registered names.
		t3 := newT3World(rsaKey(0), c.seed, map[string]string{})
		secret := p384Scalar(c.seed, fmt.Sprintf("ages-client-%d", sid))
		client := type3.NewRateLimitedClientFromSecret(secret)
		ik := ageScalar(c, sid, 0, "ik")
		sk, _ := rawKey(elliptic.P384(), ik)
		for x := 0; x < 3000; x++ {
			t3.issuer.AddOriginWithIndexKey(fmt.Sprintf("r-%d-%d.example", sid, x), sk)
		}
		nameKeyID := sha256Sum(t3.issuer.NameKey().Marshal())
		somePoint := clientPublic(p384Scalar(c.seed, "ages-some-point"))
		ops := 0
		w.present = func(j int, good, again bool) (bool, error) {
			ops++
			name := fmt.Sprintf("r-%d-%d.example", sid, j%3000)
			if !good {
				name = fmt.Sprintf("x-%d-%d.example", sid, j)
				inner := type3.VerifNewInnerTokenRequest(t3.issuer.TokenKeyID()[31], make([]byte, 256), type3.VerifPadOriginName(name)).Marshal()
				q := &type3.RateLimitedTokenRequest{RequestKey: somePoint, NameKeyID: nameKeyID, Signature: make([]byte, 96)}
				q.EncryptedTokenRequest = sealT3(t3.issuer.NameKey(), q.RequestKey, inner, true)
				if _, _, err := t3.issuer.Evaluate(q.Marshal()); err == nil {
					return true, fmt.Errorf("an unsigned request was answered")
				}
			}
			if ops%1000 != 1 && j%n != n-1 {
				return t3.issuer.OriginIndexKey(name) != nil, nil
			}
			blind := ageScalar(c, sid, j, "blind")
			st, err := client.CreateTokenRequest(hb(j, "chal", 9), hb(j, "nonce", 32), blind, t3.issuer.TokenKeyID(), t3.issuer.TokenKey(), name, t3.issuer.NameKey())
			if err != nil {
				return false, fmt.Errorf("harness: create: %v", err)
			}
			_, brk, err := t3.issuer.Evaluate(append([]byte{}, st.Request().Marshal()...))
			if err == nil && good && !bytes.Equal(brk, refIssuerBlinded(secret, blind, ik)) {
				return true, fmt.Errorf("the blinded request key is not the reference's")
			}
			return err == nil, nil
		}
	case kind == "rlrare":
		// honest requests whose request key is a rare value: an x coordinate with two leading zero bytes (one request in
		// 2^16). The client secret is searched (secret d0 + i gives request key + i * f * G: one point addition each).
		t3 := newT3World(rsaKey(0), c.seed, map[string]string{"rare.example": "a"})
		ik := p384Scalar(c.seed, "indexkey-a")
		curve := elliptic.P384()
		w.present = func(j int, good, again bool) (bool, error) {
			blind := ageScalar(c, sid, j, "blind")
			d := new(big.Int).SetBytes(ageScalar(c, sid, j, "d0"))
			f := refBlindScalar(curve, new(big.Int).SetBytes(blind), ctxType3("ClientBlind"))
			fd := new(big.Int).Mod(new(big.Int).Mul(f, d), curve.Params().N)
			x, y := curve.ScalarBaseMult(fd.Bytes())
			sx, sy := curve.ScalarBaseMult(f.Bytes())
			for i := 0; i < 400000 && x.BitLen() > 368; i++ {
				x, y = curve.Add(x, y, sx, sy)
				d.Add(d, big.NewInt(1))
			}
			secret := d.FillBytes(make([]byte, 48))
			name := "rare.example"
			if !good {
				name = "rare.example."
			}
			client := type3.NewRateLimitedClientFromSecret(secret)
			st, err := client.CreateTokenRequest(hb(j, "chal", 9), hb(j, "nonce", 32), blind, t3.issuer.TokenKeyID(), t3.issuer.TokenKey(), name, t3.issuer.NameKey())
			if err != nil {
				return false, nil
			}
			enc := append([]byte{}, st.Request().Marshal()...)
			reqObj := new(type3.RateLimitedTokenRequest)
			if !reqObj.Unmarshal(append([]byte{}, enc...)) {
				return false, nil
			}
			if want := elliptic.MarshalCompressed(curve, x, y); x.BitLen() <= 368 && !bytes.Equal(reqObj.RequestKey, want) {
				return false, fmt.Errorf("the request key on the wire is not the compressed encoding of the blinded client key (%d bytes)", len(reqObj.RequestKey))
			}
			resp, brk, err := t3.issuer.Evaluate(enc)
			if err != nil {
				return false, nil
			}
			if !good {
				return true, nil
			}
			if !bytes.Equal(brk, refIssuerBlinded(secret, blind, ik)) {
				return true, fmt.Errorf("the blinded request key is not the reference's")
			}
			tok, err := st.FinalizeToken(append([]byte{}, resp...))
			if err != nil || verifyPSS(t3.issuer.TokenKey(), tok) != nil {
				return true, fmt.Errorf("the response does not finalize into a token that verifies (%v)", err)
			}
			// the attester, too, serves the rare request
			att := type3.NewRateLimitedAttester(&recCache{m: map[string]*type3.ClientState{}})
			ck := clientPublic(secret)
			if err := att.VerifyRequest(*reqObj, append([]byte{}, blind...), ck, []byte("anon")); err != nil {
				return true, fmt.Errorf("the attester refuses the honest request: %v", err)
			}
			idx, err := att.FinalizeIndex(ck, append([]byte{}, blind...), brk, []byte("anon"))
			if want, _ := refIndex(secret, ik); err != nil || !bytes.Equal(idx, want) {
				return true, fmt.Errorf("the attester's anonymous issuer origin ID is not the reference's (%v)", err)
			}
			return true, nil
		}
	case kind == "rlmany":
		// ONE issuer with ever more registered origins (one shared index key: registering is cheap); every item is
		// looked up, a sample is requested for real
		t3 := newT3World(rsaKey(0), c.seed, map[string]string{})
		secret := p384Scalar(c.seed, fmt.Sprintf("ages-client-%d", sid))
		client := type3.NewRateLimitedClientFromSecret(secret)
		ik := ageScalar(c, sid, 0, "ik")
		sk, _ := rawKey(elliptic.P384(), ik)
		ops := 0
		w.present = func(j int, good, again bool) (bool, error) {
			name := fmt.Sprintf("m-%d-%d.example", sid, j)
			if !good {
				name = fmt.Sprintf("m-%d-%d.example.", sid, j) // never registered (a registered name and a dot)
			} else if !again {
				t3.issuer.AddOriginWithIndexKey(name, sk)
			}
			known := t3.issuer.OriginIndexKey(name) != nil
			ops++
			if ops%4099 != 1 && (again || j%n != n-1) { // a sample of the items is requested for real
				return known, nil
			}
			blind := ageScalar(c, sid, j, "blind")
			st, err := client.CreateTokenRequest(hb(j, "chal", 9), hb(j, "nonce", 32), blind, t3.issuer.TokenKeyID(), t3.issuer.TokenKey(), name, t3.issuer.NameKey())
			if err != nil {
				return false, fmt.Errorf("harness: create: %v", err)
			}
			_, brk, err := t3.issuer.Evaluate(append([]byte{}, st.Request().Marshal()...))
			if (err == nil) != known {
				return err == nil, fmt.Errorf("the lookup says registered=%v, the request was answered=%v", known, err == nil)
			}
			if err == nil && good && !bytes.Equal(brk, refIssuerBlinded(secret, blind, ik)) {
				return true, fmt.Errorf("the blinded request key is not the reference's")
			}
			return err == nil, nil
		}
	case strings.HasPrefix(kind, "batchissuer"):
		// ONE batch issuer; honest item: a batch of honest requests (all present, tokens sound), refused item: a batch
		// whose only request names a configured key and is malformed (absent)
		k1, rsa0 := p384Key(c.seed, "k1"), rsaKey(0)
		switch { // (the rare key IDs: a truncated key ID of 0xff or 0x00 is one key in 256)
		case strings.HasSuffix(kind, "-ff"):
			k1 = collidingP384Key(c.seed, 0xff)
		case strings.HasSuffix(kind, "-00"):
			k1 = collidingP384Key(c.seed, 0x00)
		}
		iss1, iss2 := type1.NewBasicPrivateIssuer(k1), type2.NewBasicPublicIssuer(rsa0)
		for x := 0; kind == "batchissuer" && iss1.TokenKeyID()[31] == iss2.TokenKeyID()[31]; x++ {
			k1 = p384Key(c.seed, fmt.Sprintf("k1-alt-%d", x))
			iss1 = type1.NewBasicPrivateIssuer(k1)
		}
		bi := batched.NewBasicBatchedIssuer(batchIssuer1{iss1}, batchIssuer2{iss2})
		cl1, cl2 := type1.NewBasicPrivateClient(), type2.NewBasicPublicClient()
		w.present = func(j int, good, again bool) (bool, error) {
			var reqs []tokens.TokenRequestWithDetails
			var fins []func([]byte) (tokens.Token, error)
			var oks []func(tokens.Token) bool
			st, err := cl1.CreateTokenRequest(hb(j, "chal", 10), hb(j, "nonce", 32), iss1.TokenKeyID(), iss1.TokenKey())
			if err != nil {
				return false, fmt.Errorf("harness: create: %v", err)
			}
			if good {
				reqs, fins = append(reqs, st.Request()), append(fins, st.FinalizeToken)
				oks = append(oks, func(t tokens.Token) bool {
					return bytesEq(fullEvaluate(oprf.SuiteP384, k1, authInput(t)), t.Authenticator)
				})
				if j%16 == 5 {
					st2, err := cl2.CreateTokenRequest(hb(j, "chal2", 10), hb(j, "nonce2", 32), iss2.TokenKeyID(), iss2.TokenKey())
					if err != nil {
						return false, fmt.Errorf("harness: create: %v", err)
					}
					reqs, fins = append(reqs, st2.Request()), append(fins, st2.FinalizeToken)
					oks = append(oks, func(t tokens.Token) bool { return verifyPSS(&rsa0.PublicKey, t) == nil })
				}
			} else {
				bad := append([]byte{0x02}, hb(j, "garbage", 48)...)
				for x := 1; x <= 32; x++ { // (above the field prime: no point)
					bad[x] = 0xff
				}
				reqs = append(reqs, &type1.BasicPrivateTokenRequest{TokenKeyID: st.Request().TokenKeyID, BlindedReq: bad})
			}
			br, err := batched.NewBasicClient().CreateTokenRequest(reqs)
			if err != nil {
				return false, fmt.Errorf("harness: batch: %v", err)
			}
			dec := new(batched.BatchedTokenRequest)
			if !dec.Unmarshal(append([]byte{}, br.Marshal()...)) {
				return false, fmt.Errorf("harness: batch request does not decode")
			}
			resp, err := bi.EvaluateBatch(dec)
			if err != nil {
				return false, nil
			}
			w.keep(resp)
			rs, err := batched.UnmarshalBatchedTokenResponses(append([]byte{}, resp...))
			if err != nil || len(rs) != len(reqs) {
				return false, fmt.Errorf("the batch response does not decode into %d entries: %v", len(reqs), err)
			}
			all := true
			for x, rx := range rs {
				if len(rx) == 0 {
					all = false
					continue
				}
				if !good {
					continue
				}
				tok, err := fins[x](rx)
				if err != nil || !oks[x](tok) {
					return true, fmt.Errorf("entry %d of the batch response does not give a sound token (%v)", x, err)
				}
			}
			return all, nil
		}
	case kind == "batchrot":
		// RECONFIGURATION: ONE batch issuer over an adapter whose key is rotated between batches (the Issuer interface is
		// the deployment's own type: which key it serves now is its business). Honest: requests for the key the adapter
		// serves now are answered; refused: a request for the retired key is absent.
		ka, kb := p384Key(c.seed, "rot-a"), p384Key(c.seed, "rot-b")
		for x := 0; type1.NewBasicPrivateIssuer(ka).TokenKeyID()[31] == type1.NewBasicPrivateIssuer(kb).TokenKeyID()[31]; x++ {
			kb = p384Key(c.seed, fmt.Sprintf("rot-b-%d", x))
		}
		keys := []*oprf.PrivateKey{ka, kb}
		rot := &rotIssuer{iss: []*type1.BasicPrivateIssuer{type1.NewBasicPrivateIssuer(ka), type1.NewBasicPrivateIssuer(kb)}}
		bi := batched.NewBasicBatchedIssuer(rot)
		cl := type1.NewBasicPrivateClient()
		w.present = func(j int, good, again bool) (bool, error) {
			rot.cur = (j / 3) % 2 // (rotated every third batch)
			use := rot.cur
			if !good {
				use = 1 - rot.cur
			}
			iss := rot.iss[use]
			st, err := cl.CreateTokenRequest(hb(j, "chal", 10), hb(j, "nonce", 32), iss.TokenKeyID(), iss.TokenKey())
			if err != nil {
				return false, fmt.Errorf("harness: create: %v", err)
			}
			br, err := batched.NewBasicClient().CreateTokenRequest([]tokens.TokenRequestWithDetails{st.Request()})
			if err != nil {
				return false, fmt.Errorf("harness: batch: %v", err)
			}
			dec := new(batched.BatchedTokenRequest)
			if !dec.Unmarshal(append([]byte{}, br.Marshal()...)) {
				return false, fmt.Errorf("harness: batch request does not decode")
			}
			resp, err := bi.EvaluateBatch(dec)
			if err != nil {
				return false, nil
			}
			rs, err := batched.UnmarshalBatchedTokenResponses(append([]byte{}, resp...))
			if err != nil || len(rs) != 1 {
				return false, fmt.Errorf("the batch response does not decode into one entry: %v", err)
			}
			if len(rs[0]) == 0 {
				return false, nil
			}
			if !good {
				return true, nil
			}
			tok, err := st.FinalizeToken(rs[0])
			if err != nil || !bytesEq(fullEvaluate(oprf.SuiteP384, keys[use], authInput(tok)), tok.Authenticator) {
				return true, fmt.Errorf("the entry does not give a sound token (%v)", err)
			}
			return true, nil
		}
	case kind == "rekey":
		// RECONFIGURATION: the caller replaces the key object it built an issuer from IN PLACE (*key = *next), as a
		// deployment that rotates keys through one long-lived variable does. Whether the issuer follows the variable or
		// keeps the key it was built with is its own business - but it must stay ONE issuer: what it issues now verifies
		// under it now (types 1, 5), under its TokenKey() (types 2, 3), and its key ID is SHA-256 of its TokenKey().
		// Refused items: a token of the key the issuer does NOT use now (whichever that is) with a flipped bit.
		w.present = func(j int, good, again bool) (bool, error) {
			switch j % 4 {
			case 0, 1:
				suite, t := oprf.SuiteP384, 1
				mk := func(name string) *oprf.PrivateKey { return freshVoprf(oprf.SuiteP384, p384Key(c.seed, fmt.Sprintf("ages-rk-%d-%d-%s", sid, j, name))) }
				if j%4 == 1 {
					suite, t = oprf.SuiteRistretto255, 5
					mk = func(name string) *oprf.PrivateKey { return freshVoprf(oprf.SuiteRistretto255, ristrettoKey(c.seed, fmt.Sprintf("ages-rk-%d-%d-%s", sid, j, name))) }
				}
				_ = suite
				key, next := mk("a"), mk("b")
				var evaluate func(chal, nonce []byte) (tokens.Token, error)
				var verify func(tokens.Token) error
				var keyID func() []byte
				var pubEnc func() ([]byte, error)
				if t == 1 {
					iss := type1.NewBasicPrivateIssuer(key)
					keyID, verify = iss.TokenKeyID, iss.Verify
					pubEnc = func() ([]byte, error) { return iss.TokenKey().MarshalBinary() }
					evaluate = func(chal, nonce []byte) (tokens.Token, error) {
						st, err := type1.NewBasicPrivateClient().CreateTokenRequest(chal, nonce, iss.TokenKeyID(), iss.TokenKey())
						if err != nil {
							return tokens.Token{}, err
						}
						resp, err := iss.Evaluate(st.Request())
						if err != nil {
							return tokens.Token{}, err
						}
						return st.FinalizeToken(resp)
					}
				} else {
					iss := type5.NewBatchedPrivateIssuer(key)
					keyID, verify = iss.TokenKeyID, iss.Verify
					pubEnc = func() ([]byte, error) { return iss.TokenKey().MarshalBinary() }
					evaluate = func(chal, nonce []byte) (tokens.Token, error) {
						st, err := type5.NewBatchedPrivateClient().CreateTokenRequest(chal, [][]byte{nonce}, iss.TokenKeyID(), iss.TokenKey())
						if err != nil {
							return tokens.Token{}, err
						}
						resp, err := iss.Evaluate(st.Request())
						if err != nil {
							return tokens.Token{}, err
						}
						toks, err := st.FinalizeTokens(resp)
						if err != nil || len(toks) != 1 {
							return tokens.Token{}, fmt.Errorf("finalize: %v", err)
						}
						return toks[0], nil
					}
				}
				round := func(tag string) (tokens.Token, error) {
					tok, err := evaluate(hb(j, "chal"+tag, 9), hb(j, "nonce"+tag, 32))
					if err != nil {
						return tok, fmt.Errorf("issuance %s the key object was replaced fails: %v", tag, err)
					}
					if enc, err := pubEnc(); err != nil || !bytes.Equal(keyID(), sha256Sum(enc)) {
						return tok, fmt.Errorf("%s the key object was replaced the key ID is not SHA-256 of the issuer's TokenKey()", tag)
					}
					return tok, nil
				}
				tok1, err := round("before")
				if err != nil {
					return false, err
				}
				if verify(tok1) != nil {
					return false, nil
				}
				*key = *next // the caller's variable now holds the next key
				tok2, err := round("after")
				if err != nil {
					return false, err
				}
				if !good {
					tok2.Authenticator = flipBit(tok2.Authenticator, j)
					return verify(tok2) == nil, nil
				}
				return verify(tok2) == nil, nil
			default:
				mkRSA := func(name string) *rsa.PrivateKey {
					k := *rsaKey(j % 3)
					if name == "b" {
						k = *rsaKey((j + 1) % 3)
					}
					return &k
				}
				key, next := mkRSA("a"), mkRSA("b")
				var keyID func() []byte
				var tokenKey func() *rsa.PublicKey
				var evaluate func(tag string) (tokens.Token, error)
				if j%4 == 2 {
					iss := type2.NewBasicPublicIssuer(key)
					keyID, tokenKey = iss.TokenKeyID, iss.TokenKey
					evaluate = func(tag string) (tokens.Token, error) {
						st, err := type2.NewBasicPublicClient().CreateTokenRequest(hb(j, "chal"+tag, 9), hb(j, "nonce"+tag, 32), iss.TokenKeyID(), iss.TokenKey())
						if err != nil {
							return tokens.Token{}, err
						}
						resp, err := iss.Evaluate(st.Request())
						if err != nil {
							return tokens.Token{}, err
						}
						return st.FinalizeToken(resp)
					}
				} else {
					iss := type3.NewRateLimitedIssuer(key)
					iss.AddOrigin("rekey.example")
					keyID, tokenKey = iss.TokenKeyID, iss.TokenKey
					secret := p384Scalar(c.seed, "ages-rekey-client")
					evaluate = func(tag string) (tokens.Token, error) {
						st, err := type3.NewRateLimitedClientFromSecret(secret).CreateTokenRequest(hb(j, "chal"+tag, 9), hb(j, "nonce"+tag, 32), ageScalar(c, sid, j, "blind"+tag),
							iss.TokenKeyID(), iss.TokenKey(), "rekey.example", iss.NameKey())
						if err != nil {
							return tokens.Token{}, err
						}
						resp, _, err := iss.Evaluate(append([]byte{}, st.Request().Marshal()...))
						if err != nil {
							return tokens.Token{}, err
						}
						return st.FinalizeToken(resp)
					}
				}
				for _, tag := range []string{"before", "after"} {
					tok, err := evaluate(tag)
					if err != nil {
						return false, fmt.Errorf("issuance %s the key object was replaced fails: %v", tag, err)
					}
					enc, err := util.MarshalTokenKeyPSSOID(tokenKey())
					if err != nil || !bytes.Equal(keyID(), sha256Sum(enc)) {
						return false, fmt.Errorf("%s the key object was replaced the key ID is not SHA-256 of the issuer's TokenKey()", tag)
					}
					if !good && tag == "after" {
						tok.Authenticator = flipBit(tok.Authenticator, j)
						return verifyPSS(tokenKey(), tok) == nil, nil
					}
					if verifyPSS(tokenKey(), tok) != nil {
						return false, nil
					}
					*key = *next
				}
				return true, nil
			}
		}
	case kind == "keyid":
		// ever more issuers over ever more keys; each one's public key encoding and key ID are the reference's when it is
		// made and whenever it is asked again
		type held struct {
			id  func() []byte
			enc func() ([]byte, error)
			ref []byte
		}
		issuers := map[int]held{}
		w.present = func(j int, good, again bool) (bool, error) {
			h, ok := issuers[j]
			if !ok {
				switch j % 4 {
				case 0, 1: // type 1: the reference encodes the point itself
					k := p384Key(c.seed, fmt.Sprintf("ages-key-%d-%d", sid, j))
					skb, _ := k.MarshalBinary()
					x, y := elliptic.P384().ScalarBaseMult(skb)
					iss := type1.NewBasicPrivateIssuer(k)
					h = held{iss.TokenKeyID, func() ([]byte, error) { return iss.TokenKey().MarshalBinary() }, elliptic.MarshalCompressed(elliptic.P384(), x, y)}
				default: // types 2 and 3 over synthetic RSA public keys (only the public half matters to a key ID)
					nb := hb(j, "modulus", 256)
					nb[0] |= 0x80
					nb[255] |= 1
					key := &rsa.PrivateKey{PublicKey: rsa.PublicKey{N: new(big.Int).SetBytes(nb), E: 65537}, D: big.NewInt(3)}
					ref, err := util.MarshalTokenKeyPSSOID(&key.PublicKey)
					if err != nil {
						return false, fmt.Errorf("harness: %v", err)
					}
					if j%4 == 2 {
						iss := type2.NewBasicPublicIssuer(key)
						h = held{iss.TokenKeyID, func() ([]byte, error) { return util.MarshalTokenKeyPSSOID(iss.TokenKey()) }, ref}
					} else {
						iss := type3.NewRateLimitedIssuer(key)
						h = held{iss.TokenKeyID, func() ([]byte, error) { return util.MarshalTokenKeyPSSOID(iss.TokenKey()) }, ref}
					}
				}
				issuers[j] = h
			}
			enc, err := h.enc()
			w.keep(enc, h.id())
			if err != nil || !bytes.Equal(enc, h.ref) {
				return false, fmt.Errorf("the issuer's public key encoding is not the reference's (%v)", err)
			}
			if !bytes.Equal(h.id(), sha256Sum(h.ref)) {
				return false, fmt.Errorf("the issuer's key ID is not SHA-256 of its public key encoding")
			}
			return true, nil
		}
	case kind == "varint":
		// results of the appenders are HELD: a result is right when returned and stays right
		type held struct{ v, b []byte }
		keep := map[int]held{}
		w.present = func(j int, good, again bool) (bool, error) {
			raw := binary.BigEndian.Uint64(prfBytes(c.seed, sid, j, 8))
			v := raw >> []uint{58, 50, 34, 2}[j%4]
			want := quicwireRefVarint(v)
			plen := 32
			if j%64 == 63 {
				plen = 256
			}
			payload := prfBytes(c.seed, sid, j+1<<30, plen)
			wantB := append(quicwireRefVarint(uint64(plen)), payload...)
			if !good { // a truncated encoding is not consumed
				_, k := quicwire.ConsumeVarint(want[:len(want)-1])
				_, k2 := quicwire.ConsumeVarintBytes(wantB[:len(wantB)-1-j%plen])
				return k > 0 || k2 > 0, nil
			}
			h, ok := keep[j]
			if !ok {
				h = held{quicwire.AppendVarint(nil, v), quicwire.AppendVarintBytes(nil, payload)}
				keep[j] = h
			}
			if !bytes.Equal(h.v, want) || !bytes.Equal(h.b, wantB) {
				return false, fmt.Errorf("a held result of AppendVarint / AppendVarintBytes is not (or no longer) the encoding: v=%d", v)
			}
			if again {
				if !bytes.Equal(quicwire.AppendVarint(nil, v), want) || !bytes.Equal(quicwire.AppendVarintBytes(nil, payload), wantB) {
					return false, fmt.Errorf("not the encoding the second time")
				}
			}
			gv, k := quicwire.ConsumeVarint(want)
			gb, k2 := quicwire.ConsumeVarintBytes(wantB)
			if k != len(want) || gv != v || k2 != len(wantB) || !bytes.Equal(gb, payload) {
				return false, fmt.Errorf("the encoding does not decode back")
			}
			return true, nil
		}
	case strings.HasPrefix(kind, "codec"):
		// ONE request object decoding message after message (object reuse); "codecgap": Marshal is only called after
		// 1, 2, 4, ... 65536 accepted messages since the last time
		gap := strings.HasPrefix(kind, "codecgap")
		t5 := strings.HasSuffix(kind, "t5")
		o1, o5 := new(type1.BasicPrivateTokenRequest), new(type5.BatchedPrivateTokenRequest)
		since, want := 0, 1
		w.present = func(j int, good, again bool) (bool, error) {
			var msg []byte
			if t5 {
				k := 1 + j%3
				msg = append([]byte{0, 5}, prfBytes(c.seed, sid, j, 1)...)
				msg = append(msg, quicwireRefVarint(uint64(32*k))...)
				msg = append(msg, prfBytes(c.seed, sid, j+1<<30, 32*k)...)
			} else {
				msg = append([]byte{0, 1}, prfBytes(c.seed, sid, j, 50)...)
			}
			if !good {
				msg = msg[:len(msg)-1-j%7]
			}
			var ok bool
			var enc func() []byte
			if t5 {
				ok, enc = o5.Unmarshal(append([]byte{}, msg...)), func() []byte { return o5.Marshal() }
			} else {
				ok, enc = o1.Unmarshal(append([]byte{}, msg...)), func() []byte { return o1.Marshal() }
			}
			if !ok || !good {
				return ok, nil
			}
			since++
			if gap && since < want {
				return true, nil
			}
			if gap {
				since, want = 0, want*2
				if want > 65536 {
					want = 1
				}
			}
			if got := enc(); !bytes.Equal(got, msg) {
				return true, fmt.Errorf("Marshal after Unmarshal is not the message just decoded (%d bytes vs %d)", len(got), len(msg))
			}
			return true, nil
		}
	case kind == "ecdsa":
		// ever more (signing key, blind key, context) triples through the package: blinded public key = the reference's,
		// blind-key signatures verify under it with crypto/ecdsa, plain DER signatures verify with crypto/ecdsa, and
		// verification leaves the caller's signature bytes alone
		w.present = func(j int, good, again bool) (bool, error) {
			curve := []elliptic.Curve{elliptic.P256(), elliptic.P384(), elliptic.P521()}[j%3]
			ob := (curve.Params().N.BitLen() + 7) / 8
			scalar := func(what string) []byte {
				v := new(big.Int).SetBytes(hb(j, what, ob+8))
				v.Mod(v, new(big.Int).Sub(curve.Params().N, big.NewInt(1))).Add(v, big.NewInt(1))
				return v.FillBytes(make([]byte, ob))
			}
			sk, _ := rawKey(curve, scalar("sk"))
			bk, _ := rawKey(curve, scalar("bk"))
			ctxb := hb(j, "ctx", 1+j%40)
			digest := hb(j, "digest", 32+16*(j%3))
			f := refBlindScalar(curve, bk.D, ctxb)
			wx, wy := curve.ScalarMult(sk.X, sk.Y, f.Bytes())
			bpk, err := ecdsa.BlindPublicKeyWithContext(curve, &sk.PublicKey, bk, ctxb)
			if err != nil {
				return false, nil
			}
			if bpk.X.Cmp(wx) != 0 || bpk.Y.Cmp(wy) != 0 {
				return true, fmt.Errorf("the blinded public key is not the reference's (curve %s)", curve.Params().Name)
			}
			r, s, err := ecdsa.BlindKeySignWithContext(newRand(c.seed, fmt.Sprintf("ages-sign-%d-%d", sid, j)), sk, bk, digest, ctxb)
			if err != nil {
				return false, nil
			}
			std := &stdecdsa.PublicKey{Curve: curve, X: wx, Y: wy}
			if !good { // another digest under the same signature
				return stdecdsa.Verify(std, flipBit(digest, j), r, s) || ecdsa.Verify(bpk, flipBit(digest, j), r, s), nil
			}
			if !stdecdsa.Verify(std, digest, r, s) {
				return true, fmt.Errorf("the blind-key signature does not verify under the reference's blinded key (curve %s)", curve.Params().Name)
			}
			der, err := ecdsa.SignASN1(newRand(c.seed, fmt.Sprintf("ages-der-%d-%d", sid, j)), sk, digest)
			if err != nil {
				return false, nil
			}
			if !stdecdsa.VerifyASN1(&stdecdsa.PublicKey{Curve: curve, X: sk.X, Y: sk.Y}, digest, der) {
				return true, fmt.Errorf("crypto/ecdsa refuses the DER signature of SignASN1 (curve %s): %x", curve.Params().Name, der)
			}
			buf := append(append(make([]byte, 0, len(der)+16), der...), bytes.Repeat([]byte{0xa5}, 16)...)
			if !ecdsa.VerifyASN1(&sk.PublicKey, digest, buf[:len(der)]) {
				return false, nil
			}
			if w.retain && (!bytes.Equal(buf[:len(der)], der) || !bytes.Equal(buf[len(der):], bytes.Repeat([]byte{0xa5}, 16))) {
				return true, fmt.Errorf("VerifyASN1 changed the caller's signature buffer (curve %s)", curve.Params().Name)
			}
			return true, nil
		}
	case kind == "ed25519":
		// ever more keys through the package: the fork's public key and signature are crypto/ed25519's, its Verify accepts
		// crypto/ed25519's signatures and refuses them over another message
		w.present = func(j int, good, again bool) (bool, error) {
			seed := hb(j, "edseed", 32)
			msg := hb(j, "edmsg", 1+j%90)
			std := stded.NewKeyFromSeed(seed)
			sig := stded.Sign(std, msg)
			pub := ed25519.PublicKey(append([]byte{}, std.Public().(stded.PublicKey)...))
			if !good {
				return ed25519.Verify(pub, flipBit(msg, j), sig), nil
			}
			if !ed25519.Verify(pub, msg, append([]byte{}, sig...)) {
				return false, nil
			}
			if j%4 == 0 || again {
				k := ed25519.NewKeyFromSeed(seed)
				if !bytes.Equal(k.Public().(ed25519.PublicKey), pub) {
					return true, fmt.Errorf("NewKeyFromSeed gives another public key than crypto/ed25519")
				}
				if !bytes.Equal(ed25519.Sign(k, msg), sig) {
					return true, fmt.Errorf("Sign gives other bytes than crypto/ed25519")
				}
			}
			return true, nil
		}
	case kind == "t1det":
		// ever more issuer key OBJECTS (kept alive and handed in again): the same key, challenge, nonce and blind give the
		// same request bytes and a token that verifies, the first time and later
		type held struct {
			key *oprf.PrivateKey
			pub *oprf.PublicKey
			iss *type1.BasicPrivateIssuer
			req []byte
		}
		keep := map[int]*held{}
		cl := type1.NewBasicPrivateClient()
		w.present = func(j int, good, again bool) (bool, error) {
			h := keep[j]
			if h == nil {
				k := p384Key(c.seed, fmt.Sprintf("ages-key-%d-%d", sid, j))
				h = &held{key: k, pub: k.Public(), iss: type1.NewBasicPrivateIssuer(k)}
				keep[j] = h
			}
			blind := ageScalar(c, sid, j, "blind")
			st, err := cl.CreateTokenRequestWithBlind(hb(j, "chal", 11), hb(j, "nonce", 32), h.iss.TokenKeyID(), h.pub, append([]byte{}, blind...))
			if err != nil {
				return false, nil
			}
			enc := append([]byte{}, st.Request().Marshal()...)
			// the blinded element is blind * HashToGroup(token input), by circl's group arithmetic directly
			nonce, chal := hb(j, "nonce", 32), sha256Sum(hb(j, "chal", 11))
			input := append(append(append([]byte{0, 1}, nonce...), chal...), h.iss.TokenKeyID()...)
			el := group.P384.HashToElement(input, []byte("HashToGroup-OPRFV1-\x01-P384-SHA384"))
			sc := group.P384.NewScalar()
			if err := sc.UnmarshalBinary(blind); err != nil {
				return false, fmt.Errorf("harness: %v", err)
			}
			want, _ := group.P384.NewElement().Mul(el, sc).MarshalBinaryCompress()
			if !bytes.Equal(st.Request().BlindedReq, want) {
				return true, fmt.Errorf("the blinded element is not blind * HashToGroup(token input)")
			}
			if h.req == nil {
				h.req = enc
			} else if !bytes.Equal(h.req, enc) {
				return true, fmt.Errorf("the same key, challenge, nonce and blind gave other request bytes than the first time")
			}
			reqObj := new(type1.BasicPrivateTokenRequest)
			if !reqObj.Unmarshal(append([]byte{}, enc...)) {
				return false, fmt.Errorf("the request does not decode")
			}
			if !good { // the response of ANOTHER key's issuer is not finalized
				other := type1.NewBasicPrivateIssuer(p384Key(c.seed, "ages-other"))
				reqObj.TokenKeyID = other.TokenKeyID()[31]
				resp, err := other.Evaluate(reqObj)
				if err != nil {
					return false, fmt.Errorf("harness: %v", err)
				}
				_, err = st.FinalizeToken(resp)
				return err == nil, nil
			}
			resp, err := h.iss.Evaluate(reqObj)
			if err != nil {
				return false, nil
			}
			tok, err := st.FinalizeToken(resp)
			if err != nil {
				return false, nil
			}
			if !bytes.Equal(fullEvaluate(oprf.SuiteP384, h.key, authInput(tok)), tok.Authenticator) {
				return true, fmt.Errorf("token does not verify")
			}
			return true, nil
		}
	case kind == "t5final":
		// NEIGHBOURING OBJECTS: two type-5 clients (zero values, as a caller may write them) with requests for two issuer
		// keys outstanding together; each state finalizes its own response - the one created first after the other was
		// created - into tokens of its own key; refused: the other issuer's answer to its request
		ka, kb := ristrettoKey(c.seed, "t5f-a"), ristrettoKey(c.seed, "t5f-b")
		ia, ib := type5.NewBatchedPrivateIssuer(ka), type5.NewBatchedPrivateIssuer(kb)
		w.present = func(j int, good, again bool) (bool, error) {
			clA, clB := type5.BatchedPrivateClient{}, type5.BatchedPrivateClient{}
			if j%2 == 1 {
				clB = clA // (or one client for both)
			}
			keyA, issA, issB := ka, ia, ib
			if j%4 >= 2 {
				keyA, issA, issB = kb, ib, ia
			}
			nonces := [][]byte{hb(j, "n1", 32), hb(j, "n2", 32)}
			stA, err := clA.CreateTokenRequest(hb(j, "chal", 11), nonces, issA.TokenKeyID(), issA.TokenKey())
			if err != nil {
				return false, fmt.Errorf("harness: create: %v", err)
			}
			stB, err := clB.CreateTokenRequest(hb(j, "chalB", 11), [][]byte{hb(j, "n3", 32)}, issB.TokenKeyID(), issB.TokenKey())
			if err != nil {
				return false, fmt.Errorf("harness: create: %v", err)
			}
			if !good {
				foreign, err := issB.Evaluate(&type5.BatchedPrivateTokenRequest{TokenKeyID: issB.TokenKeyID()[31], BlindedReq: stA.Request().BlindedReq})
				if err != nil {
					return false, fmt.Errorf("harness: evaluate: %v", err)
				}
				_, err = stA.FinalizeTokens(foreign)
				return err == nil, nil
			}
			respA, err := issA.Evaluate(stA.Request())
			if err != nil {
				return false, nil
			}
			toks, err := stA.FinalizeTokens(respA)
			if err != nil || len(toks) != 2 {
				return false, nil
			}
			for _, tok := range toks {
				if !bytes.Equal(fullEvaluate(oprf.SuiteRistretto255, keyA, authInput(tok)), tok.Authenticator) || !bytes.Equal(tok.KeyID, issA.TokenKeyID()) {
					return true, fmt.Errorf("the token is not a token of the key it names")
				}
			}
			respB, err := issB.Evaluate(stB.Request())
			if err != nil {
				return false, nil
			}
			if tb, err := stB.FinalizeTokens(respB); err != nil || len(tb) != 1 {
				return false, nil
			}
			return true, nil
		}
	case kind == "t1final":
		// a pool of issuer keys, among them pairs whose key IDs end in the same byte; two requests (for the keys of a
		// pair) are outstanding together. Honest: each state finalizes its own response into a sound token; refused:
		// the response of the pair's other key
		type ik struct {
			key *oprf.PrivateKey
			iss *type1.BasicPrivateIssuer
		}
		var pool []ik
		var pairs [][2]int
		for x := 0; x < 72; x++ {
			k := p384Key(c.seed, fmt.Sprintf("ages-pool-%d", x))
			pool = append(pool, ik{k, type1.NewBasicPrivateIssuer(k)})
			for y := 0; y < x; y++ {
				if pool[y].iss.TokenKeyID()[31] == pool[x].iss.TokenKeyID()[31] {
					pairs = append(pairs, [2]int{y, x})
				}
			}
		}
		for x := 0; len(pairs) < 4; x++ {
			pairs = append(pairs, [2]int{x, x + 1})
		}
		cl := type1.NewBasicPrivateClient()
		pkShared := new(oprf.PublicKey) // ONE public key object of the caller's, re-decoded in place whenever the key changes
		viaShared := func(k ik, j int, tag string) error {
			enc, _ := k.iss.TokenKey().MarshalBinary()
			if err := pkShared.UnmarshalBinary(oprf.SuiteP384, enc); err != nil {
				return fmt.Errorf("harness: %v", err)
			}
			st, err := cl.CreateTokenRequest(hb(j, "chal"+tag, 11), hb(j, "nonce"+tag, 32), k.iss.TokenKeyID(), pkShared)
			if err != nil {
				return fmt.Errorf("harness: create: %v", err)
			}
			resp, err := k.iss.Evaluate(st.Request())
			if err != nil {
				return fmt.Errorf("harness: evaluate: %v", err)
			}
			tok, err := st.FinalizeToken(resp)
			if err != nil {
				return fmt.Errorf("a request made with the caller's re-decoded key object does not finalize its honest response: %v", err)
			}
			if !bytes.Equal(fullEvaluate(oprf.SuiteP384, k.key, authInput(tok)), tok.Authenticator) {
				return fmt.Errorf("the token of a request made with the caller's re-decoded key object does not verify")
			}
			return nil
		}
		w.present = func(j int, good, again bool) (bool, error) {
			p := pairs[j%len(pairs)]
			a, b := pool[p[j/len(pairs)%2]], pool[p[1-j/len(pairs)%2]]
			if good { // one complete issuance per key, one after the other, through the shared key object
				if err := viaShared(a, j, "sa"); err != nil {
					return false, err
				}
				if err := viaShared(b, j, "sb"); err != nil {
					return false, err
				}
			}
			stA, err := cl.CreateTokenRequest(hb(j, "chal", 11), hb(j, "nonce", 32), a.iss.TokenKeyID(), a.iss.TokenKey())
			if err != nil {
				return false, fmt.Errorf("harness: create: %v", err)
			}
			stB, err := cl.CreateTokenRequest(hb(j, "chalB", 11), hb(j, "nonceB", 32), b.iss.TokenKeyID(), b.iss.TokenKey())
			if err != nil {
				return false, fmt.Errorf("harness: create: %v", err)
			}
			respB, err := b.iss.Evaluate(stB.Request())
			if err != nil {
				return false, fmt.Errorf("harness: evaluate: %v", err)
			}
			if _, err := stB.FinalizeToken(respB); err != nil && good {
				return false, nil
			}
			if !good {
				foreign, err := b.iss.Evaluate(&type1.BasicPrivateTokenRequest{TokenKeyID: b.iss.TokenKeyID()[31], BlindedReq: stA.Request().BlindedReq})
				if err != nil {
					return false, fmt.Errorf("harness: evaluate: %v", err)
				}
				_, err = stA.FinalizeToken(foreign)
				return err == nil, nil
			}
			respA, err := a.iss.Evaluate(stA.Request())
			if err != nil {
				return false, nil
			}
			tok, err := stA.FinalizeToken(respA)
			if err != nil {
				return false, nil
			}
			if !bytes.Equal(fullEvaluate(oprf.SuiteP384, a.key, authInput(tok)), tok.Authenticator) || !bytes.Equal(tok.KeyID, a.iss.TokenKeyID()) {
				return true, fmt.Errorf("the token is not a token of the key it names")
			}
			return true, nil
		}
	default:
		panic("harness: unknown ages kind " + kind)
	}
	return w
}

var _ = sha256.Sum256
