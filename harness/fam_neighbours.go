package main

import (
	"bytes"
	"crypto/elliptic"
	"encoding/json"
	"fmt"
	"os"

	"github.com/cloudflare/pat-go/tokens/type3"
)

// Family "neighbours" (Neighbours.tla): every history of registrations, look-ups and authentic requests that the
// specification generates is replayed on TWO real rate-limited issuers living side by side in one process ("twins":
// built from one token key; "strangers": from two). Every registration uses a fresh index key; an answered request is
// matched against the reference's blinded request key for every index key ever registered with either issuer, and the
// (issuer, version) that matches is logged. Trace_Neighbours.tla requires the answers of the intended design.

func init() { register("neighbours", &family{gen: genNeighbours, exec: execNeighbours}) }

func execNeighbours(c *ctx, in ev) []ev {
	kind, hid := gS(in, "kind"), gI(in, "hid")
	keyB := rsaKey(0)
	if kind == "strangers" {
		keyB = rsaKey(1)
	}
	iss := map[string]*type3.RateLimitedIssuer{"A": type3.NewRateLimitedIssuer(rsaKey(0)), "B": type3.NewRateLimitedIssuer(keyB)}
	secret := p384Scalar(c.seed, fmt.Sprintf("nb-client-%d", hid))
	client := type3.NewRateLimitedClientFromSecret(secret)
	vers := map[string]int{}
	ik := func(x, o string, v int) []byte { return p384Scalar(c.seed, fmt.Sprintf("nb-ik-%d-%s-%s-%d", hid, x, o, v)) }
	name := func(o string) string { return o + ".neighbours.example" }
	out := []ev{}
	for i, st := range gL(in, "hist") {
		s := st.([]any)
		op, x, o := s[0].(string), s[1].(string), s[2].(string)
		e := ev{"op": op, "kind": kind, "i": i + 1, "x": x, "o": o, "ok": false, "match_x": "", "ver": -1, "panic": ""}
		e["panic"] = guard(func() {
			switch op {
			case "Reg":
				vers[x+o]++
				sk, _ := rawKey(elliptic.P384(), ik(x, o, vers[x+o]))
				iss[x].AddOriginWithIndexKey(name(o), sk)
				e["ok"] = true
			case "Look":
				e["ok"] = iss[x].OriginIndexKey(name(o)) != nil
			case "Ask":
				blind := p384Scalar(c.seed, fmt.Sprintf("nb-blind-%d-%d", hid, i))
				rq, err := client.CreateTokenRequest(hashBytes(c.seed, fmt.Sprintf("nb-chal-%d-%d", hid, i), 9), hashBytes(c.seed, fmt.Sprintf("nb-nonce-%d-%d", hid, i), 32),
					blind, iss[x].TokenKeyID(), iss[x].TokenKey(), name(o), iss[x].NameKey())
				if err != nil {
					panic("harness: create: " + err.Error())
				}
				resp, brk, err := iss[x].Evaluate(append([]byte{}, rq.Request().Marshal()...))
				if err != nil {
					return
				}
				e["ok"] = true
				for _, y := range []string{"A", "B"} {
					for _, o2 := range []string{"o1", "o2"} {
						for v := 1; v <= vers[y+o2]; v++ {
							if bytes.Equal(brk, refIssuerBlinded(secret, blind, ik(y, o2, v))) && e["match_x"] == "" {
								e["match_x"], e["ver"] = y, v
								if o2 != o {
									e["match_x"] = y + "/" + o2
								}
							}
						}
					}
				}
				if tok, err := rq.FinalizeToken(append([]byte{}, resp...)); err != nil || verifyPSS(iss[x].TokenKey(), tok) != nil {
					e["match_x"] = "token does not verify"
				}
			}
		})
		out = append(out, e)
	}
	return out
}

func genNeighbours(c *ctx, emit func(ev)) {
	path := os.Getenv("VERIF_NEIGHBOURS_BEHAVIOURS")
	if path == "" {
		return
	}
	data, err := os.ReadFile(path)
	if err != nil {
		panic(err)
	}
	var beh [][][]string
	if err := json.Unmarshal(data, &beh); err != nil {
		panic(err)
	}
	for i, h := range beh {
		hist := []any{}
		for _, s := range h {
			hist = append(hist, []any{s[0], s[1], s[2]})
		}
		emit(ev{"op": "Hist", "kind": []string{"twins", "strangers"}[i%2], "hid": i, "hist": hist})
	}
}
