package main

import (
	"bytes"
	"encoding/json"
	"fmt"
	"math/big"
	"os"
	"sync"

	"github.com/cloudflare/circl/oprf"
	"github.com/cloudflare/pat-go/tokens"
	"github.com/cloudflare/pat-go/tokens/batched"
	"github.com/cloudflare/pat-go/tokens/type1"
	"github.com/cloudflare/pat-go/tokens/type2"
)

// Family "batch" (property C05): every (issuer configuration, request sequence)
// that Gen_Batch emits is run through the real generic batch client, issuer,
// response-list decoder and per-slot finalization; Trace_Batch.tla compares
// the recorded slots with Batch.tla.

func init() { register("batch", &family{gen: genBatch, exec: execBatch}) }

// failingIssuer matches a type and key id but never evaluates successfully.
type failingIssuer struct {
	t  uint16
	id []byte
}

// An issuer that fails - and, as Go functions may, returns a non-empty value next to its error.
func (f failingIssuer) Evaluate(req tokens.TokenRequest) ([]byte, error) {
	return []byte("partial result that must be ignored"), fmt.Errorf("issuer unavailable")
}
func (f failingIssuer) TokenKeyID() []byte { return f.id }
func (f failingIssuer) Type() uint16       { return f.t }

func execBatch(c *ctx, in ev) []ev {
	cfg := gS(in, "cfg")
	wire := gBool(in, "wire")
	kinds := []string{}
	for _, k := range gL(in, "reqs") {
		kinds = append(kinds, k.(string))
	}
	r := newRand(c.seed, fmt.Sprintf("batch-%v", in["bid"]))
	e := ev{"op": "Batch", "cfg": cfg, "kinds": kinds, "wire": wire, "eval_ok": false, "parse_ok": false, "slots": []any{}, "err": "", "panic": ""}
	e["panic"] = guard(func() {
		rsa0 := rsaKey(0)
		iss2 := type2.NewBasicPublicIssuer(rsa0)
		id2 := iss2.TokenKeyID()
		// the model's truncated ids "A" (type-1 key k1) and "B" (type-2 key) are different bytes: one seed in 256 would
		// make them equal, so k1 is the first derived key whose id ends differently
		k1 := p384Key(c.seed, "k1")
		iss1 := type1.NewBasicPrivateIssuer(k1)
		for n := 0; iss1.TokenKeyID()[31] == id2[31]; n++ {
			k1 = p384Key(c.seed, fmt.Sprintf("k1-alt-%d", n))
			iss1 = type1.NewBasicPrivateIssuer(k1)
		}
		id1 := iss1.TokenKeyID()
		// a type-1 key whose key id ends in the same byte as the type-2 key's
		k1b := collidingP384Key(c.seed, id2[31])
		iss1b := type1.NewBasicPrivateIssuer(k1b)
		// another type-1 key whose key id ends in the same byte as key k1's
		k1c := collidingP384Key(c.seed, id1[31])
		iss1c := type1.NewBasicPrivateIssuer(k1c)
		var issuers []batched.Issuer
		switch cfg {
		case "both":
			issuers = []batched.Issuer{batchIssuer1{iss1}, batchIssuer2{iss2}}
		case "t1only":
			issuers = []batched.Issuer{batchIssuer1{iss1}}
		case "t2only":
			issuers = []batched.Issuer{batchIssuer2{iss2}}
		case "firstfails":
			issuers = []batched.Issuer{failingIssuer{1, id1}, batchIssuer1{iss1}, failingIssuer{2, id2}, batchIssuer2{iss2}}
		case "crosscollide":
			issuers = []batched.Issuer{batchIssuer2{iss2}, batchIssuer1{type1.NewBasicPrivateIssuer(k1b)}}
		case "samecollide":
			issuers = []batched.Issuer{batchIssuer1{iss1}, batchIssuer1{type1.NewBasicPrivateIssuer(k1c)}}
		case "samecollide2":
			issuers = []batched.Issuer{batchIssuer1{type1.NewBasicPrivateIssuer(k1c)}, batchIssuer1{iss1}, batchIssuer2{iss2}}
		case "onlyfails":
			issuers = []batched.Issuer{failingIssuer{1, id1}, batchIssuer2{iss2}}
		case "none":
		}
		unknown := byte(0)
		for unknown == id1[31] || unknown == id2[31] {
			unknown++
		}
		var reqs []tokens.TokenRequestWithDetails
		type fin struct {
			f      func([]byte) (tokens.Token, error)
			oracle func(tokens.Token) bool
		}
		var fins []fin
		for _, k := range kinds {
			switch k[0] {
			case '1':
				kk, ii, idd := k1, iss1, id1
				if k == "1okB" {
					kk, ii, idd = k1b, iss1b, iss1b.TokenKeyID()
				}
				if k == "1okC" {
					kk, ii, idd = k1c, iss1c, iss1c.TokenKeyID()
				}
				st, err := type1.NewBasicPrivateClient().CreateTokenRequest(randBytes(r, 10), randNonce(r), idd, ii.TokenKey())
				if err != nil {
					panic(err)
				}
				req := st.Request()
				switch k {
				case "1unkF": // the first byte of the key id where the last one belongs (served by nobody, unless the two coincide with a configured id)
					f := id1[0]
					if f == id1[31] || f == id2[31] {
						f = unknown
					}
					req = &type1.BasicPrivateTokenRequest{TokenKeyID: f, BlindedReq: req.BlindedReq}
				case "1unk":
					req = &type1.BasicPrivateTokenRequest{TokenKeyID: unknown, BlindedReq: req.BlindedReq}
				case "1bad":
					req = &type1.BasicPrivateTokenRequest{TokenKeyID: req.TokenKeyID, BlindedReq: append([]byte{0x02}, bytes.Repeat([]byte{0xff}, 48)...)}
				}
				reqs = append(reqs, req)
				fins = append(fins, fin{st.FinalizeToken, func(tok tokens.Token) bool {
					return bytes.Equal(fullEvaluate(oprf.SuiteP384, kk, authInput(tok)), tok.Authenticator)
				}})
			case '2':
				st, err := type2.NewBasicPublicClient().CreateTokenRequest(randBytes(r, 10), randNonce(r), id2, iss2.TokenKey())
				if err != nil {
					panic(err)
				}
				req := st.Request()
				switch k {
				case "2unk":
					req = &type2.BasicPublicTokenRequest{TokenKeyID: unknown, BlindedReq: req.BlindedReq}
				case "2bad":
					req = &type2.BasicPublicTokenRequest{TokenKeyID: req.TokenKeyID, BlindedReq: bytes.Repeat([]byte{0xff}, 256)}
				case "2tiny": // 2^e mod N: the blind signature is the integer 2
					m := new(big.Int).Exp(big.NewInt(2), big.NewInt(int64(rsa0.E)), rsa0.N)
					req = &type2.BasicPublicTokenRequest{TokenKeyID: req.TokenKeyID, BlindedReq: m.FillBytes(make([]byte, 256))}
				}
				reqs = append(reqs, req)
				fins = append(fins, fin{st.FinalizeToken, func(tok tokens.Token) bool { return verifyPSS(&rsa0.PublicKey, tok) == nil }})
			}
		}
		br, err := batched.NewBasicClient().CreateTokenRequest(reqs)
		if err != nil {
			e["err"] = "client: " + err.Error()
			return
		}
		if wire {
			dec := new(batched.BatchedTokenRequest)
			if !dec.Unmarshal(append([]byte{}, br.Marshal()...)) {
				e["err"] = "batch request does not decode"
				return
			}
			br = dec
		}
		bi := batched.NewBasicBatchedIssuer(issuers...)
		// the list the issuers were passed in is the caller's: it is reused for something else (another tenant's set)
		for i := range issuers {
			issuers[i] = failingIssuer{uint16(1 + i%2), id1}
		}
		resp, err := bi.EvaluateBatch(br)
		if err != nil {
			e["err"] = "evaluate: " + err.Error()
			return
		}
		e["eval_ok"] = true
		rs, err := batched.UnmarshalBatchedTokenResponses(append([]byte{}, resp...))
		if err != nil {
			e["err"] = "response list: " + err.Error()
			return
		}
		e["parse_ok"] = true
		slots := []any{}
		for j, rj := range rs {
			s := ev{"present": len(rj) > 0, "fin_ok": false, "oracle_ok": false}
			if len(rj) > 0 && j < len(fins) {
				tok, err := fins[j].f(rj)
				if err == nil {
					s["fin_ok"] = true
					s["oracle_ok"] = fins[j].oracle(tok)
				}
			}
			slots = append(slots, s)
		}
		e["slots"] = slots
	})
	return []ev{e}
}

func genBatch(c *ctx, emit func(ev)) {
	path := os.Getenv("VERIF_BATCH_BEHAVIOURS")
	if path == "" {
		return
	}
	data, err := os.ReadFile(path)
	if err != nil {
		panic(err)
	}
	var beh []map[string]any
	if err := json.Unmarshal(data, &beh); err != nil {
		panic(err)
	}
	for i, b := range beh {
		emit(ev{"op": "Batch", "bid": i, "cfg": b["cfg"], "reqs": b["reqs"], "wire": false})
		emit(ev{"op": "Batch", "bid": i, "cfg": b["cfg"], "reqs": b["reqs"], "wire": true})
	}
	// longer seeded sequences
	r := newRand(c.seed, "batch-long")
	kinds := []string{"1ok", "1unk", "1bad", "2ok", "2unk", "2bad", "1okB", "1okC", "2tiny", "1unkF"}
	// the two extra kinds in every position of short batches, in the configurations that serve their type
	for i, rs := range [][]any{{"2tiny"}, {"1ok", "2tiny", "1ok", "2ok"}, {"2tiny", "2ok"}, {"2ok", "2tiny"}, {"1unkF"}, {"1ok", "1unkF", "1ok"}, {"1unkF", "1ok"}} {
		for _, cfg := range []string{"both", "firstfails", "t1only", "samecollide2"} {
			emit(ev{"op": "Batch", "bid": 50000 + i, "cfg": cfg, "reqs": rs, "wire": false})
			emit(ev{"op": "Batch", "bid": 50000 + i, "cfg": cfg, "reqs": rs, "wire": true})
		}
	}
	cfgs := []string{"both", "t1only", "t2only", "firstfails", "none", "crosscollide", "samecollide", "samecollide2", "onlyfails"}
	for i := 0; i < c.tierInt(20, 200); i++ {
		n := 5 + r.Intn(8)
		rs := []any{}
		for k := 0; k < n; k++ {
			rs = append(rs, kinds[r.Intn(len(kinds))])
		}
		emit(ev{"op": "Batch", "bid": 100000 + i, "cfg": cfgs[r.Intn(len(cfgs))], "reqs": rs, "wire": i%2 == 0})
	}
	// large batches: the response list of 260 type-2 entries is longer than 65535 bytes (and its length prefix a
	// four-byte varint); some requests of other kinds in between
	for i, n := range []int{64, 260, c.tierFixed(270, 700)} {
		rs := []any{}
		for k := 0; k < n; k++ {
			switch {
			case k%97 == 13:
				rs = append(rs, "2unk")
			case k%53 == 7:
				rs = append(rs, "1ok")
			case k%101 == 50:
				rs = append(rs, "1bad")
			default:
				rs = append(rs, "2ok")
			}
		}
		emit(ev{"op": "Batch", "bid": 200000 + i, "cfg": "both", "reqs": rs, "wire": i%2 == 0})
	}
}

var (
	collideMu   sync.Mutex
	collideKeys = map[string]*oprf.PrivateKey{}
)

// collidingP384Key searches (once per seed) a P-384 VOPRF key whose key id ends in the given byte.
func collidingP384Key(seed int64, last byte) *oprf.PrivateKey {
	collideMu.Lock()
	defer collideMu.Unlock()
	id := fmt.Sprintf("%d/%d", seed, last)
	if k, ok := collideKeys[id]; ok {
		return k
	}
	for n := 0; ; n++ {
		k := p384Key(seed, fmt.Sprintf("k1b-%d", n))
		if type1.NewBasicPrivateIssuer(k).TokenKeyID()[31] == last {
			collideKeys[id] = k
			return k
		}
	}
}
