"""Source of truth for MANIFEST.json (bin/gen-manifest writes it)."""

ALL = ["C%02d" % i for i in range(1, 21)]

# id -> dict(level_text, level_note, technique, design_ref)
CLAIMED = {
    "C19": dict(
        text="Varint.tla states RFC 9000 varints and quicwire's length-prefixed strings as total functions on byte strings; "
             "TLC checks the eight laws of the property exhaustively on the specification over complete small domains, and "
             "validates a recorded trace of every quicwire function (exhaustive below 2^14+64 / 2^17, all class boundaries, "
             "powers of two, seeded 62-bit values, all short inputs, every declared-length boundary in every width) by "
             "recomputing each logged result. Model checking of a pure codec with trace validation is the strongest "
             "binding this technique offers for it.",
        note="Trusts TLC's evaluation of Varint.tla and the JSON trace reader. Not exhaustive between 2^17 and 2^62 "
             "(boundaries, powers of two and seeded samples only).",
        technique="TLA+ spec + TLC exhaustive laws + TLC trace validation of recorded quicwire calls",
        ref="5/C19"),
}

NOT_YET = "check not built yet in this round (see DESIGN.md section 11 for the build order); no claim is made"
