"""Source of truth for MANIFEST.json (bin/gen-manifest writes it)."""

ALL = ["C%02d" % i for i in range(1, 21)]

# id -> dict(level_text, level_note, technique, design_ref)
CLAIMED = {
    "C19": dict(
        text="Varint.tla states RFC 9000 varints and quicwire's length-prefixed strings as total functions on byte strings; "
             "TLC checks the eight laws of the property exhaustively on the specification over complete small domains, and "
             "validates a recorded trace of every quicwire function (exhaustive below 2^14+64 / 2^17, all class boundaries, "
             "powers of two, seeded 62-bit values, all short inputs, every declared-length boundary in every width) by "
             "recomputing each logged result. Model checking of a pure codec with trace validation is the strongest "
             "binding this technique offers for it.",
        note="Trusts TLC's evaluation of Varint.tla and the JSON trace reader. Not exhaustive between 2^17 and 2^62 "
             "(boundaries, powers of two and seeded samples only).",
        technique="TLA+ spec + TLC exhaustive laws + TLC trace validation of recorded quicwire calls",
        ref="5/C19"),
}

CLAIMED["C04"] = dict(
    text="Messages.tla states the grammar of all thirteen wire structures (encoder + prefix decoder each) and the three "
         "obligations of the property (canonical encodings accepted as their value; foreign tags / trailing data rejected; "
         "anything accepted re-encodes no longer and re-decodes to the same value, and Marshal afterwards returns that encoding). "
         "TLC checks RoundTrip, CanonicalNoLonger, TypesApart and StepEqualsElementLength exhaustively on the grammar at "
         "scaled-down widths over all short strings, ObjectReuse.tla's MarshalIsCurrent on the complete state graph (with the "
         "stale-cache variant as negative control), generates every reuse behaviour up to the depth for replay on all six "
         "request types, and validates every recorded decoder/encoder/reuse event at the real widths by decoding and encoding "
         "the logged bytes itself. TLAPS (ObjectReuseProofs) proves MarshalIsCurrent for every call sequence on one object.",
    note="Trusts TLC's evaluation of Messages.tla, and that Messages.tla transcribes the RFC 9578 / draft grammars correctly "
         "(Ne=49, Nk=48/256/64). Real-width values are seeded samples plus the mutation closure of honest messages, not all strings.",
    technique="TLA+ grammar spec + TLC exhaustive codec laws + TLC-generated reuse behaviours replayed + TLC trace validation of recorded codec calls",
    ref="5/C04")
CLAIMED["C03"] = dict(
    text="Every decoder is a total function in Messages.tla/TLSWire.tla (checked over all short strings); every other consumer "
         "of peer bytes is specified as a total function into its result classes within a resource bound. Two recorded traces "
         "(13 decoders; 25 further consumers: finalization, evaluation, token verification, attester calls, batch evaluation, "
         "signature verification, token-key parsing) over honest inputs, their grammar-derived mutation closure and random "
         "strings are validated by TLC: no panic, returned within 5 s, allocation <= 1 MiB + 1 KiB/byte, grammar must-reject "
         "inputs rejected, honest inputs served.",
    note="Black-box on the code side: inputs outside the mutation closure and the seeded random strings are not tried. "
         "Allocation is a TotalAlloc delta measured around a call executed alone in its process.",
    technique="TLA+ total-function/grammar spec + TLC trace validation of recorded calls with measured panics, time and allocation",
    ref="5/C03")

CLAIMED["C18"] = dict(
    text="DER.tla builds both SubjectPublicKeyInfo forms byte for byte (the RSASSA-PSS AlgorithmIdentifier is written out from "
         "RFC 9578) and parses them back; TLC checks ParseInverts/SelfDelimiting exhaustively for short moduli and for long moduli "
         "across the DER length-form boundaries, and validates a recorded trace of MarshalTokenKey*/UnmarshalTokenKey for seeded "
         "moduli of every byte length 1..520 and of issuers of every type: key id = SHA-256(serialized key), truncated id = last "
         "byte, name key id = SHA-256(EncapKey encoding re-encoded by TLC).",
    note="SHA-256 is uninterpreted in TLA+: the harness logs crypto/sha256 of the logged bytes and the specification states "
         "which logged value must equal it. Moduli are seeded samples per length.",
    technique="TLA+ DER spec + TLC exhaustive parse/encode laws + TLC trace validation of recorded key (de)serialisation and key-id derivation",
    ref="5/C18")
CLAIMED["C20"] = dict(
    text="OriginPad.tla defines Pad/Unpad/Blocks/WireSize and the issuer's registered-origin table; TLC checks UnpadInvertsPad, "
         "PaddedLenLaw, WireSizeDependsOnBlocksOnly and NearMissRefused for every name length up to the bound, and validates "
         "recorded pad/unpad calls for every length 0..130 (+ every multiple of 32 +-1 to 4096; thorough: 0..4100) and recorded "
         "issuer histories in which look-alike origins are registered and real client requests are evaluated: logged request "
         "size = WireSize(Blocks(len)), served iff registered."
         + " Verdicts.tla (a long-lived verifier with a memo in front of its check; VerdictIsFunction holds for the intended design - TLAPS: for histories of any length - and fails for three named deviations) generates EVERY history of 3 (thorough 4) presentations over the kind's classes (rlorigins: the registered names and their look-alikes); each is replayed on one rate-limited issuer with two registered origins, and TLC validates every recorded verdict against the specification's decision.",
    note="Name bytes are seeded per length. The request size formula is the type-3 grammar's; the HPKE/AEAD overheads (32+16) are constants of the fixed suite.",
    technique="TLA+ padding/state-machine spec + TLC exhaustive laws over lengths + TLC trace validation of recorded issuer histories + TLC-generated histories of presentations (Verdicts.tla) replayed on a long-lived object",
    ref="5/C20")

CLAIMED["C09"] = dict(
    text="Attester.tla models the attester as the code is written (client-state cache, the two per-client maps, writes in the "
         "code's order, one action per public call) and states the property declaratively over a ghost log of accepted pairs; "
         "TLC checks FunctionalBinding, StateIsLog, NoSpuriousReject, UnverifiedRefused, RepeatAndFreshAccepted and "
         "RejectKeepsBindings on the complete reachable state graph (all histories of every length for the constants). "
         "Every behaviour up to depth 3 (thorough 4) generated by TLC and long seeded random histories over a larger world are "
         "executed on a real RateLimitedAttester with a recording cache, and TLC validates the recorded events - verdict of "
         "every call, registered clients, a snapshot of every client's clientIndices after every step - against the same actions. TLAPS (AttesterProofs) proves the inductive invariant (cache = log of accepted pairs, functional binding) and NoSpuriousReject / RepeatAndFreshAccepted / UnverifiedRefused for arbitrary constants.",
    note="Constants: 2 clients, 3 origins (two sharing an index key), 2-3 anon IDs on the specification; 8 clients, 6 origins, 5 "
         "anon IDs in recorded histories. Cheap history steps compute the issuer-blinded key with the library's own blinding "
         "function (checked against the independent reference each time); a sample of histories runs full issuance.",
    technique="TLA+ spec + TLC complete state graph + TLC-generated behaviours replayed on the real attester + TLC trace validation with state snapshots",
    ref="5/C09")
CLAIMED["C06"] = dict(
    text="Attester.tla's VerifyRequest action accepts exactly the authentic request class and registers state only then; TLC "
         "checks AcceptOnlyAuthentic, RejectLeavesCache, PutOnlyOnFirstAccept and RegisteredOnlyVerified over the complete state "
         "graph. All TLC behaviours up to depth 3 and sweeps over real requests - every listed corruption, each bit (quick: one "
         "seeded bit per byte) of every field, foreign-key/foreign-content/short/long/zero/swapped signatures, wrong blind, wrong "
         "client, malformed client keys, alone and with accepted state present - are executed with a recording cache and "
         "validated by TLC (verdict, Put count, registered set, state snapshots). TLAPS (AttesterProofs, thorough tier) proves RegisteredOnlyVerified as part of an inductive invariant for arbitrary constants."
         + " Verdicts.tla (a long-lived verifier with a memo in front of its check; VerdictIsFunction holds for the intended design - TLAPS: for histories of any length - and fails for three named deviations) generates EVERY history of 3 (thorough 4) presentations over the kind's classes (attester); each is replayed on one attester, each class one concrete value per history, and TLC validates every recorded verdict against the specification's decision.",
    note="The request class (what is true of the request) is known to the harness by construction; 'rejected' for corrupted "
         "requests can fail spuriously only with probability <= 2^-100.",
    technique="TLA+ spec + TLC model checking + TLC-generated behaviours and corruption sweeps replayed on the real attester + TLC trace validation + TLC-generated histories of presentations (Verdicts.tla) replayed on a long-lived object",
    ref="5/C06")
CLAIMED["C08"] = dict(
    text="Algebra.tla gives key terms a normal form (base key + exponent per blinding factor); over it TLC checks IndexStable (the "
         "ID term contains no request blind) and IndexInjective (equal IDs iff same client and index key). Recorded histories with "
         "full issuance (fresh blind, nonce, challenge per request) and random histories are validated by TLC: logged IDs are "
         "interned and must be equal exactly when the specification's terms are equal; each ID must equal the harness's "
         "independent HKDF-SHA-384 / RFC 9380 XMD / crypto/elliptic reference and the issuer's second return value the reference "
         "issuer-blinded key. TLAPS (AttesterProofs, thorough tier) proves IndexStable and IndexInjective for arbitrary constants."
         + " Verdicts.tla (a long-lived object with a memo in front of its check; VerdictIsFunction holds for the intended design - TLAPS: for histories of any length - and fails for three named deviations) generates EVERY history of 3 (thorough 4) presentations over the kind's classes (t3issue: an answer is sound only if the issuer-blinded request key is the reference's for that request); each is replayed on one long-lived rate-limited issuer, each class one concrete request per history, and TLC validates every recorded answer against the specification's decision.",
    note="Hashes, HKDF and group operations are uninterpreted in TLA+; their concrete values are checked only against the "
         "harness's independent reference on the sampled clients, index keys and blinds.",
    technique="TLA+ symbolic blinding algebra + TLC invariants + TLC trace validation of interned IDs with an independent HKDF/XMD reference + TLC-generated histories of presentations (Verdicts.tla) replayed on a long-lived object",
    ref="5/C08")

_ISS = ("Issuance.tla models the four issuance protocols as one transition system over symbolic cryptography (VOPRF with batch DLEQ "
        "proofs, blind RSA, the HPKE/AEAD layer of type 3), with clients, issuers, a network and an attacker applying the mutation "
        "alphabet to responses; ClientFinalize is the code's sequence of checks. ")
CLAIMED["C01"] = dict(
    text=_ISS + "TLC checks HonestAccepted/OnlyGoodTokens per type and HonestCompletes (liveness under weak fairness, no state "
         "constraint). Complete honest runs of all four types - request marshalled, unmarshalled by the issuer, evaluated, response "
         "finalized - over challenge lengths, batch sizes 1..513 and origin lengths are recorded and validated by TLC: completion, the "
         "exact token layout at byte level (Messages.tla, digests supplied by the harness) and validity under the issuer key "
         "(independent oracle: circl FullEvaluate / crypto/rsa.VerifyPSS over an input concatenated by the harness). TLAPS (IssuanceProofs, thorough tier) proves HonestIsAccepted for arbitrary constants and batch sizes."
         + " Verdicts.tla (a long-lived object with a memo in front of its check; VerdictIsFunction holds for the intended design - TLAPS: for histories of any length - and fails for three named deviations) generates EVERY history of 3 (thorough 4) presentations over the kind's classes (t1issue/t2issue/t5issue/t3issue: honest requests and requests that must be refused); each is replayed on one long-lived issuer per type (with one request object on its side), each class one concrete request per history, and TLC validates every recorded answer against the specification's decision.",
    note="Keys, nonces, challenges and blinds are sampled; RSA keys are 2048-bit. SHA-256 digests are supplied next to the data.",
    technique="TLA+ protocol spec + TLC safety and liveness + TLC trace validation of recorded honest runs over the wire with byte-level token layout + TLC-generated histories of presentations (Verdicts.tla) replayed on a long-lived object",
    ref="5/C01")
CLAIMED["C02"] = dict(
    text=_ISS + "TLC checks OnlyGoodTokens, ListedMutationsRejected and ForeignKeyRejected over all attacker choices. Recorded runs "
         "with one mutation of the real response bytes (each bit of every response field, foreign key, foreign request, drop / "
         "duplicate / swap / every permutation of batch elements, an element of another batch, truncations, extensions, random "
         "strings) are validated by TLC, which rebuilds the symbolic run, applies the logged mutation and requires the library's "
         "verdict to equal FinalizeCheck; any token output must pass the independent oracle and carry the request's fields. TLAPS (IssuanceProofs) proves for arbitrary constants, batch sizes and ANY message on the network: accepted => the response content is the honest answer to this request under the pinned key, and outputs are the request's own tokens."
         + " Verdicts.tla (a long-lived verifier with a memo in front of its check; VerdictIsFunction holds for the intended design - TLAPS: for histories of any length - and fails for three named deviations) generates EVERY history of 3 (thorough 4) presentations over the kind's classes (t1final/t2final/t5final/t3final); each is replayed on one request state per type, each class one concrete value per history, and TLC validates every recorded verdict against the specification's decision.",
    note="Coverage of 'all responses' is the closure of the mutation alphabet plus random strings. A corrupted response is accepted "
         "by a correct client with probability <= 2^-100.",
    technique="TLA+ protocol spec with attacker + TLC model checking + TLC trace validation of recorded mutated runs against the spec's finalize checks + TLC-generated histories of presentations (Verdicts.tla) replayed on a long-lived object",
    ref="5/C02")
CLAIMED["C07"] = dict(
    text="Issuance.tla states the rate-limited issuer's Evaluate as its chain of checks (RLAccepts) and what a bit flip in each "
         "field breaks (RLFlip); TLC checks EveryFlipRejected. Recorded Evaluate calls on an honest request, on every single-bit "
         "change of it, on look-alike unregistered origins, foreign issuer, foreign signer, foreign contents, missing signature, "
         "trailing data, foreign request key, non-parsing inner plaintext and an AAD without the request key (sealed and signed by "
         "the harness itself with go-hpke and the ECDSA fork) are validated by TLC: a response exists iff every link holds."
         + " Verdicts.tla (a long-lived verifier with a memo in front of its check; VerdictIsFunction holds for the intended design - TLAPS: for histories of any length - and fails for three named deviations) generates EVERY history of 3 (thorough 4) presentations over the kind's classes (rlissuer, rlorigins); each is replayed on one rate-limited issuer, each class one concrete value per history, and TLC validates every recorded verdict against the specification's decision.",
    note="The request class is known to the harness by construction. Rejection of corrupted requests can fail spuriously only with negligible probability.",
    technique="TLA+ check-chain spec + TLC invariant + TLC trace validation of recorded Evaluate calls over every bit of a request and crafted requests + TLC-generated histories of presentations (Verdicts.tla) replayed on a long-lived object",
    ref="5/C07")
CLAIMED["C10"] = dict(
    text=_ISS + "TLC checks VerifyExact. Recorded Verify calls of type-1 and type-5 issuers on honest tokens and altered ones (each "
         "bit of each field, type field, other key, other type, field-length shifts, short/long/empty fields, authenticator "
         "prefixes) are validated by TLC: verdict = independent FullEvaluate comparison, honest accepted, listed alterations rejected. TLAPS (IssuanceProofs, thorough tier) proves VerifyExact from the inductive invariant for arbitrary constants."
         + " Verdicts.tla (a long-lived verifier with a memo in front of its check; VerdictIsFunction holds for the intended design - TLAPS: for histories of any length - and fails for three named deviations) generates EVERY history of 3 (thorough 4) presentations over the kind's classes (t1verify/t5verify); each is replayed on one issuer per type, each class one concrete value per history, and TLC validates every recorded verdict against the specification's decision.",
    note="The reference verdict uses circl's FullEvaluate over bytes concatenated by the harness.",
    technique="TLA+ protocol spec + TLC invariant + TLC trace validation of recorded Verify calls on altered tokens + TLC-generated histories of presentations (Verdicts.tla) replayed on a long-lived object",
    ref="5/C10")
CLAIMED["C11"] = dict(
    text=_ISS + "TLC checks TokenIgnoresBlind. A matrix of deterministic runs (types 1, 2, 5; keys; nonce/challenge pairs; salts; a "
         "blind pool with edge encodings) is recorded with interned request/token bytes and validated by a stateful trace "
         "specification: equal arguments => equal request, different blind => different request, equal (key, nonce, challenge, "
         "salt) => equal token for all blind pairs; the three Rust interop vectors are reproduced byte for byte. TLAPS (IssuanceProofs, thorough tier) proves TokenIgnoresBlind from the inductive invariant for arbitrary constants.",
    note="Blinds are a finite pool; the Rust vectors are those shipped in the repository.",
    technique="TLA+ protocol spec + TLC invariant + stateful TLC trace validation of a deterministic-issuance matrix and interop vectors",
    ref="5/C11")

CLAIMED["C05"] = dict(
    text="Batch.tla models the generic batch issuer as coded (per-slot fill loop: first issuer of the type with matching truncated "
         "key id that evaluates successfully; present/absent encoding; list decoding; per-slot finalization) and TLC checks "
         "CountAndOrder, PresentIff, PresentFinalizes and Isolation for every issuer configuration and request sequence up to "
         "the bound, plus completion. Every behaviour TLC generates (5 configurations x all sequences of length 1..3, thorough 4, "
         "over 6 request kinds) is executed on the real client / issuer / decoder / finalizers, both directly and with the batch "
         "request marshalled and re-decoded, and TLC validates the recorded slots against the model. TLAPS (BatchProofs) proves count/order, slot isolation and present-iff-servable for batches of any length."
         + " Verdicts.tla (a long-lived verifier with a memo in front of its check; VerdictIsFunction holds for the intended design - TLAPS: for histories of any length - and fails for three named deviations) generates EVERY history of 3 (thorough 4) presentations over the kind's classes (batchissuer); each is replayed on one generic batch issuer object, each class one concrete value per history, and TLC validates every recorded verdict against the specification's decision.",
    note="Failing issuers of a matching type and id are stubs of the Issuer interface; token validity as in C01.",
    technique="TLA+ spec + TLC model checking + TLC-generated behaviours replayed on the real batch pipeline + TLC trace validation + TLC-generated histories of presentations (Verdicts.tla) replayed on a long-lived object",
    ref="5/C05")

CLAIMED["C12"] = dict(
    text="KeyBlind.tla is the key-blinding abstract data type over Algebra.tla's normal forms; TLC checks "
         "SignVerifiesUnderBlinded, NotUnderOtherKeys, UnblindInverts, BlindCommutes, BlindAndContextMatter, BlindChangesKey and "
         "PoolSignaturesSound over all key terms up to the depth. On each of P-224/256/384/521 a structured sequence (every "
         "signing key x blind x context: blind, sign, verify under every relevant key, unblind back, two blinds in both orders) "
         "and seeded random operation sequences run on real keys with results interned by their bytes; TLC accepts the trace only "
         "if logged equalities are exactly the normal-form equalities, the fork's and crypto/ecdsa's verdicts equal the "
         "specification's, and every blinded key equals the harness's independent RFC 9380 XMD hash-to-field x crypto/elliptic value. TLAPS (KeyBlindProofs) proves the blinding laws for every key term (unbounded depth).",
    note="Group operations, hashes and ECDSA are uninterpreted in TLA+; numerical correctness enters through the independent "
         "reference and crypto/ecdsa on the sampled keys, blinds (incl. leading-zero, >= N, one), contexts and digests.",
    technique="TLA+ symbolic ADT + TLC invariants + TLC trace validation of interned results of recorded operation sequences with an independent XMD reference",
    ref="5/C12")
CLAIMED["C13"] = dict(
    text="SigForks.tla states the decision structure of ECDSA verification (0 < r, s < N from the logged bytes against the curve "
         "orders; DER.tla's strict SEQUENCE{INTEGER, INTEGER}) with the curve equation uninterpreted, Entropy.tla the allowed "
         "outcomes of the entropy consumers for every failure position (TLC: FailClosed, OutcomeAllowed, "
         "CoinOnlyMattersAtBoundary). Recorded traces per curve - (r, s) class products on real signatures, the DER mutation "
         "closure with hand-made deviations and random strings, cross signing in both directions (raw, ASN.1, crypto.Signer, "
         "key-blinded, generated keys), and every reader script for GenerateKey / Sign / SignASN1 / Signer.Sign / BlindKeySign - "
         "are validated: fork = crypto/ecdsa everywhere, structurally bad inputs rejected by both, valid ones accepted, an "
         "entropy failure gives an error and no key or signature."
         + " Verdicts.tla (a long-lived verifier with a memo in front of its check; VerdictIsFunction holds for the intended design - TLAPS: for histories of any length - and fails for three named deviations) generates EVERY history of 3 (thorough 4) presentations over the kind's classes (ecdsa); each is replayed on the package's Verify, each class one concrete value per history, and TLC validates every recorded verdict against the specification's decision.",
    note="Arithmetic equivalence with crypto/ecdsa 'for every value' is sampled, not decided. MaybeReadByte's coin is unobservable, so with exactly 32 bytes available both outcomes are allowed.",
    technique="TLA+ decision-structure and fault-sequence spec + TLC model checking + TLC trace validation of recorded fork-vs-stdlib calls and scripted entropy failures + TLC-generated histories of presentations (Verdicts.tla) replayed on a long-lived object",
    ref="5/C13")
CLAIMED["C14"] = dict(
    text="SigForks.tla states the structural part of Ed25519 verification (length, top bits, S < L computed by TLC from the logged "
         "bytes) and Entropy.tla the reader contract of GenerateKey. Recorded traces - key derivation and signing compared byte "
         "for byte with crypto/ed25519 over seeded seeds and message lengths 0..2000; verification over the product of S classes "
         "x R and A classes (honest, sign flipped, the eight small-order points, all non-canonical encodings of the repository's "
         "own table, x = 0 with sign bit, off-curve) plus bit flips and lengths; GenerateKey of both implementations on identical "
         "failing reader scripts (every failure position x chunking x error kind) - are validated: identical bytes, verdicts, "
         "reader consumption and errors."
         + " Verdicts.tla (a long-lived verifier with a memo in front of its check; VerdictIsFunction holds for the intended design - TLAPS: for histories of any length - and fails for three named deviations) generates EVERY history of 3 (thorough 4) presentations over the kind's classes (ed25519); each is replayed on the package's Verify, each class one concrete value per history, and TLC validates every recorded verdict against the specification's decision.",
    note="NOT decided: equivalence of the fork's 2.5k lines of field/scalar arithmetic 'for all inputs incl. rare carry "
         "patterns' - outside what a TLA+ specification can state; exercised only through the sampled inputs. Only the public API is driven.",
    technique="TLA+ decision-structure spec + TLC trace validation of recorded fork-vs-crypto/ed25519 calls on adversarial encodings and scripted entropy failures + TLC-generated histories of presentations (Verdicts.tla) replayed on a long-lived object",
    ref="5/C14")
CLAIMED["C15"] = dict(
    text="KeyBlind.tla with Deterministic = TRUE: the blinding laws plus SignDeterministic, checked by TLC over all key terms up "
         "to the depth. Structured and seeded random operation sequences on real Ed25519 keys are recorded with interned keys "
         "and signatures; TLC requires logged key equalities = normal-form equalities (unblinding inverts, blinding commutes, "
         "blind and context matter), crypto/ed25519.Verify and the fork's Verify = the specification's verdict (blind signatures "
         "verify under the blinded key with an unmodified verifier and not under the original key), one signature per (key, "
         "blind, context, message), and every blinded key = SHA-512(blind || 00 || ctx)[0:32] mod L times the key by a math/big "
         "Edwards-curve reference. TLAPS (KeyBlindProofs) proves the blinding laws for every key term (unbounded depth).",
    note="Curve and scalar arithmetic are uninterpreted in TLA+; they enter through the math/big reference and crypto/ed25519 on the sampled keys, blinds, contexts and messages.",
    technique="TLA+ symbolic ADT + TLC invariants + TLC trace validation of interned results with a math/big Edwards reference and the stdlib verifier",
    ref="5/C15")

CLAIMED["C16"] = dict(
    text="Memory.tla states the ownership discipline over abstract regions (argument backing arrays incl. spare capacity, slices "
         "handed out earlier) with, per object kind, the call alphabet and the regions each call is given and hands out; TLC "
         "shows the frame condition on the intended design and its violation under the two named deviations. Every call "
         "history TLC generates (13 object kinds: the four request states, four issuers, attester, generic batch, both key-"
         "blinding forks, request codecs; all histories of length 2, thorough 3) is executed twice on the real library inside "
         "guarded arenas with different spare-capacity fills, all tracked regions compared with their snapshots after every "
         "call; TLC validates the recorded events: no tracked region changed, deterministic results independent of the fill, "
         "tracked regions cover what the model lists for the call.",
    note="Memory is observed around each call, not below the API. Integer (big.Int) arguments and results are tracked by value.",
    technique="TLA+ ownership/frame spec + TLC-generated call histories replayed in guarded arenas + TLC trace validation of region snapshots",
    ref="5/C16")

CLAIMED["C17"] = dict(
    text="Concurrency.tla models operations as sequences of atomic accesses to shared cells (the lazily cached VOPRF public key "
         "with its check-then-write pair, tables behind sync.Once, immutable key material) with happens-before by goroutine "
         "creation and once; TLC explores all interleavings: NoRace and Linearizable hold for the intended design (nothing "
         "mutable is shared after construction) and the lazy-initialisation variant violates NoRace (negative control = the "
         "defect found in the code). Every program TLC generates - 2 goroutines x 2 operations (thorough 3 x 2) per object kind: "
         "type 1/2/3/5 issuers, the generic batch issuer, an ECDSA key, an Ed25519 key - runs on real goroutines released "
         "together on a freshly constructed object in a harness built with -race; TLC validates the recorded events: no race-"
         "detector report, every result equal to the sequential reference. TLAPS (ConcurrencyProofs) proves NoRace and Linearizable of the eager design for any number of goroutines and operations.",
    note="Interleavings are controlled at call granularity; inside a call the race detector's happens-before analysis replaces "
         "enumeration (it reports unsynchronised conflicting accesses whenever both occur in a run). The access-level model of "
         "the dependency's internals is hand-written from reading circl.",
    technique="TLA+ access-level concurrency spec + TLC over all interleavings + TLC-generated programs replayed on goroutines under the Go race detector + TLC trace validation",
    ref="5/C17")

NOT_YET = "check not built yet in this round (see DESIGN.md section 11 for the build order); no claim is made"


# Ages.tla (wave 13): long use and rare values
_AGES = ' Ages.tla (a long-lived object in long use; Ageless holds for the intended design and fails, only after its resource is used up, for a memo ring whose evicted entry stays indexed, a wrapping operation counter and a budget that refusals use up) generates every schedule of three phases, each run on one real object with every phase scaled to hundreds up to tens of thousands of operations and validated by Trace_Ages.'
for _p in ['C01', 'C02', 'C03', 'C04', 'C05', 'C06', 'C07', 'C08', 'C10', 'C11', 'C12', 'C13', 'C14', 'C16', 'C18', 'C19', 'C20']:
    CLAIMED[_p]["text"] = CLAIMED[_p]["text"] + _AGES
    CLAIMED[_p]["technique"] = CLAIMED[_p]["technique"] + " + TLC-generated schedules of long use (Ages.tla) scaled and replayed on a long-lived object"


# Neighbours.tla (wave 14): two issuers side by side, reconfigured while they serve
_NB = (" Neighbours.tla (two rate-limited issuers side by side, registering origins while they serve; OwnRegistrations holds for the intended design "
       "and fails for a shared table, a get-or-create accessor and insert-if-absent registration) generates every history of three operations, "
       "each replayed on two real issuers in one process and validated by Trace_Neighbours.")
for _p in ["C07", "C08", "C20"]:
    CLAIMED[_p]["text"] = CLAIMED[_p]["text"] + _NB
    CLAIMED[_p]["technique"] = CLAIMED[_p]["technique"] + " + TLC-generated histories of reconfiguration on two neighbouring issuers (Neighbours.tla) replayed on real issuers"
