"""Common machinery of the pat-go TLA+ verification framework.

Every check (bin/check <ID> <tier>) is a Python function that
  1. model-checks the property's TLA+ configuration(s) with TLC,
  2. builds the Go harness against /repo's current working tree (-tags verif),
  3. binds the specification to the code: records traces of the real library
     and has TLC validate them (V), and/or lets TLC generate behaviours and
     replays them against the real library (R), and
  4. writes /verif/evidence/<ID>.json and prints VIOLATION / KNOWN-FINDING lines.

Exit codes: 0 property held on everything explored; 1 at least one VIOLATION
line; 2 infrastructure failure (never a verdict).
"""
import atexit
import concurrent.futures
import json
import os
import re
import shutil
import subprocess
import sys
import tempfile
import time

VERIF = os.path.dirname(os.path.dirname(os.path.abspath(__file__)))
REPO = os.environ.get("VERIF_REPO", "/repo")
SPEC = os.path.join(VERIF, "spec")
HARNESS = os.path.join(VERIF, "harness")
EVIDENCE = os.path.join(VERIF, "evidence")
NCPU = os.cpu_count() or 4

GOENV = {
    "GOFLAGS": "-mod=mod",
    "GOPROXY": "off",
    "GOSUMDB": "off",
    "GOTOOLCHAIN": "local",
}


class Infra(Exception):
    """Infrastructure failure: exit 2, never a verdict."""


class Ctx:
    def __init__(self, prop, tier, seed):
        self.prop = prop
        self.tier = tier
        self.seed = seed
        self.t0 = time.time()
        base = os.environ.get("TMPDIR", "/tmp")
        self.scratch = tempfile.mkdtemp(prefix="verif-%s-" % prop, dir=base)
        atexit.register(shutil.rmtree, self.scratch, True)
        self.harness_bin = None
        self.mc = []            # model checking runs
        self.checker_cmds = []
        self.violations = []    # dicts: {what, replay, key}
        self.notes = []
        self._nrep = 0

    @property
    def thorough(self):
        return self.tier == "thorough"

    def pick(self, quick, thorough):
        return thorough if self.thorough else quick

    def log(self, *a):
        print("[%s %6.1fs]" % (self.prop, time.time() - self.t0), *a, flush=True)

    # ------------------------------------------------------------------ go
    def env(self, extra=None):
        e = dict(os.environ)
        e.update(GOENV)
        if extra:
            e.update(extra)
        return e

    def build_harness(self, race=False):
        # the harness module is copied to scratch so that go.mod/go.sum edits by
        # -mod=mod never touch /verif, and it is rebuilt from /repo's working tree
        src = os.path.join(self.scratch, "harness-src")
        if not os.path.isdir(src):
            shutil.copytree(HARNESS, src)
            shutil.copy(os.path.join(REPO, "go.sum"), os.path.join(src, "go.sum"))
            if REPO != "/repo":
                p = os.path.join(src, "go.mod")
                s = open(p).read().replace("=> /repo", "=> " + REPO)
                open(p, "w").write(s)
        out = os.path.join(self.scratch, "harness-race" if race else "harness")
        cmd = ["go", "build", "-tags", "verif"] + (["-race"] if race else []) + ["-o", out, "."]
        r = subprocess.run(cmd, cwd=src, env=self.env(), capture_output=True, text=True)
        if r.returncode != 0:
            raise Infra("harness build failed (is /repo buildable with -tags verif?):\n" + r.stdout + r.stderr)
        if not race:
            self.harness_bin = out
        return out

    def harness(self, args, timeout=3600, binary=None, env=None, check=True):
        b = binary or self.harness_bin or self.build_harness()
        r = subprocess.run([b] + args, capture_output=True, text=True, timeout=timeout,
                           env=self.env(env), cwd=self.scratch)
        if check and r.returncode != 0:
            raise Infra("harness %s failed (%d):\n%s%s" % (" ".join(args), r.returncode, r.stdout[-2000:], r.stderr[-4000:]))
        return r

    # ----------------------------------------------------------------- tlc
    def _specdir(self, name):
        d = os.path.join(self.scratch, name)
        os.makedirs(d, exist_ok=True)
        for f in os.listdir(SPEC):
            if f.endswith(".tla") or f.endswith(".cfg"):
                shutil.copy(os.path.join(SPEC, f), d)
        return d

    def tlc(self, module, cfg=None, workers=None, timeout=1800, cwd=None, extra=None, xss="256m", heap=None):
        d = cwd or self._specdir("mc-" + module + "-" + (cfg or "default"))
        meta = tempfile.mkdtemp(prefix="meta-", dir=d)
        cmd = ["tlc", "-workers", str(workers or NCPU), "-metadir", meta]
        if cfg:
            cmd += ["-config", cfg]
        cmd += (extra or []) + [module + ".tla"]
        jopts = "-Xss" + xss
        if heap:
            jopts += " -Xmx" + heap
        env = dict(os.environ)
        env["JAVA_TOOL_OPTIONS"] = jopts
        t = time.time()
        try:
            r = subprocess.run(cmd, cwd=d, env=env, capture_output=True, text=True, timeout=timeout)
        except subprocess.TimeoutExpired:
            raise Infra("TLC timed out after %ds: %s" % (timeout, " ".join(cmd)))
        finally:
            shutil.rmtree(meta, True)
        out = r.stdout + r.stderr
        return {"cmd": " ".join(cmd), "out": out, "rc": r.returncode, "wall": time.time() - t, "dir": d}

    def model_check(self, module, cfg=None, workers=None, timeout=1800, expect_violation=None):
        """Exhaustive TLC run of a specification-level configuration. A property
        violation found on the specification alone is a specification bug, i.e. an
        infrastructure failure, never a verdict about pat-go."""
        self.log("TLC model checking %s %s" % (module, cfg or ""))
        r = self.tlc(module, cfg, workers, timeout)
        out = r["out"]
        m = re.search(r"(\d+) states generated, (\d+) distinct states found", out)
        if expect_violation:
            if expect_violation not in out:
                raise Infra("negative control: TLC did not report %r for %s %s\n%s" % (expect_violation, module, cfg, out[-3000:]))
            return r
        if "Model checking completed. No error has been found." not in out or not m:
            raise Infra("TLC did not complete cleanly on %s %s (specification error, not a verdict):\n%s" % (module, cfg, out[-6000:]))
        depth = re.search(r"depth of the complete state graph search is (\d+)", out)
        rec = {"module": module, "cfg": cfg or module + ".cfg", "generated": int(m.group(1)),
               "distinct": int(m.group(2)), "depth": int(depth.group(1)) if depth else 0,
               "wall_s": round(r["wall"], 1)}
        self.mc.append(rec)
        self.checker_cmds.append(r["cmd"])
        self.log("  %d distinct states, %d generated, %.1fs" % (rec["distinct"], rec["generated"], r["wall"]))
        return rec

    def validate(self, module, files, timeout=3600, cfg=None):
        """Trace validation: one TLC process per trace shard. Returns
        (events, rejects) where rejects is a list of (file, line_no, event)."""
        files = [f for f in files if os.path.exists(f) and os.path.getsize(f) > 0]
        if not files:
            raise Infra("no trace events recorded for " + module)

        def one(i_f):
            i, f = i_f
            d = self._specdir("tv-%s-%d" % (module, i))
            shutil.copy(f, os.path.join(d, "trace.ndjson"))
            n = sum(1 for _ in open(f))
            r = self.tlc(module, cfg, workers=1, timeout=timeout, cwd=d)
            out = r["out"]
            done = re.search(r'<<"DONE", (\d+)>>', out)
            if not done or int(done.group(1)) != n:
                raise Infra("trace validation of %s did not consume the whole trace (%s of %d):\n%s" % (f, done.group(1) if done else "?", n, out[-6000:]))
            rej = [(f, int(x)) for x in re.findall(r'<<"REJECT", (\d+)', out)]
            shutil.rmtree(d, True)
            return n, rej, r["cmd"]

        total, rejects = 0, []
        with concurrent.futures.ThreadPoolExecutor(max_workers=min(NCPU, len(files))) as ex:
            for n, rej, cmd in ex.map(one, list(enumerate(files))):
                total += n
                rejects += rej
        self.checker_cmds.append(cmd + "   (x%d trace shards)" % len(files))
        out = []
        for f, ln in rejects:
            with open(f) as fh:
                for k, line in enumerate(fh, 1):
                    if k == ln:
                        out.append((f, ln, json.loads(line)))
                        break
        return total, out

    def record(self, family, shards=None, extra=None, infile=None, tag="trace", timeout=3600, binary=None, env=None):
        shards = shards or NCPU
        out = os.path.join(self.scratch, "%s-%s.ndjson" % (family, tag))
        args = ["record", family, "-seed", str(self.seed), "-tier", self.tier, "-out", out, "-shards", str(shards)]
        if infile:
            args += ["-in", infile]
        if extra:
            args += extra
        self.harness(args, timeout=timeout, binary=binary, env=env)
        if shards == 1:
            return [out]
        return ["%s.%d" % (out, i) for i in range(shards)]

    def record_and_validate(self, family, module, case_fields, describe, shards=None, extra=None, timeout=3600):
        """V: record the family's trace from the real code, validate with TLC.
        A rejected event is re-executed from its inputs (case_fields) against the
        real code and re-validated before it counts as a violation."""
        files = self.record(family, shards=shards, extra=extra)
        self.log("recorded %s trace, validating with %s" % (family, module))
        n, rejects = self.validate(module, files, timeout=timeout)
        self.log("  %d events validated, %d rejected" % (n, len(rejects)))
        confirmed = []
        if rejects:
            # re-execute the rejected cases from their inputs
            cases = os.path.join(self.scratch, "%s-recheck-cases.ndjson" % family)
            with open(cases, "w") as fh:
                for _, _, e in rejects[:500]:
                    fh.write(json.dumps(case_fields(e)) + "\n")
            f2 = self.record(family, shards=1, infile=cases, tag="recheck")
            n2, rej2 = self.validate(module, f2)
            for _, _, e in rej2:
                confirmed.append(e)
        for e in confirmed:
            self.violation(describe(e), {"family": family, "trace_module": module, "case": case_fields(e), "event": e})
        return n, files

    # ----------------------------------------------------------- verdicts
    def violation(self, what, replay_obj, key=None):
        self._nrep += 1
        os.makedirs(os.path.join(EVIDENCE, "replays"), exist_ok=True)
        path = os.path.join(EVIDENCE, "replays", "%s-%d-%d.json" % (self.prop, self.seed, self._nrep))
        replay_obj = dict(replay_obj)
        replay_obj.update({"property": self.prop, "seed": self.seed, "tier": self.tier, "what": what})
        with open(path, "w") as fh:
            json.dump(replay_obj, fh, indent=1)
        self.violations.append({"what": what, "replay": path, "key": key or what})

    def finish(self, coverage, assumptions, level="model_checking"):
        known = load_known(self.prop)
        new, listed = [], []
        for v in self.violations:
            hit = [k for k in known if k["kind"] == "known" and re.search(k["match"], v["key"])]
            (listed if hit else new).append((v, hit))
        states = sum(m["distinct"] for m in self.mc)
        trans = sum(m["generated"] for m in self.mc)
        cov = {"states": states, "transitions": trans, "model_checking_runs": self.mc,
               "checker_cmd": " ; ".join(self.checker_cmds)}
        cov.update(coverage)
        cov.setdefault("traces_validated_against_impl", 0)
        ev = {"property_id": self.prop, "tier": self.tier, "seed": self.seed, "level": level,
              "coverage": cov, "assumptions": assumptions, "wall_s": round(time.time() - self.t0, 1),
              "violations": len(new), "known_findings_hit": len(listed), "notes": self.notes}
        os.makedirs(EVIDENCE, exist_ok=True)
        with open(os.path.join(EVIDENCE, self.prop + ".json"), "w") as fh:
            json.dump(ev, fh, indent=1, default=str)
        seen = set()
        for v, hit in listed:
            t = hit[0]["text"]
            if t not in seen:
                seen.add(t)
                print("KNOWN-FINDING: property=%s %s" % (self.prop, t))
        for v, _ in new[:50]:
            print("VIOLATION property=%s replay=%s" % (self.prop, v["replay"]))
            print("  " + v["what"][:600])
        self.log("done: %d violation(s), %d known finding hit(s), %.1fs" % (len(new), len(listed), time.time() - self.t0))
        return 1 if new else 0


def load_known(prop):
    p = os.path.join(VERIF, "known-findings.json")
    if not os.path.exists(p):
        return []
    with open(p) as fh:
        data = json.load(fh)
    return [k for k in data.get("findings", []) if k.get("property") == prop]


def sample(items, k=3):
    items = list(items)
    if len(items) <= k:
        return items
    step = max(1, len(items) // k)
    return [items[i] for i in range(0, len(items), step)][:k]


def read_events(files, limit=None):
    out = []
    for f in files:
        if not os.path.exists(f):
            continue
        with open(f) as fh:
            for line in fh:
                out.append(json.loads(line))
                if limit and len(out) >= limit:
                    return out
    return out
