"""Common machinery of the pat-go TLA+ verification framework.

Every check (bin/check <ID> <tier>) is a Python function that
  1. model-checks the property's TLA+ configuration(s) with TLC,
  2. builds the Go harness against /repo's current working tree (-tags verif),
  3. binds the specification to the code: records traces of the real library
     and has TLC validate them (V), and/or lets TLC generate behaviours and
     replays them against the real library (R), and
  4. writes /verif/evidence/<ID>.json and prints VIOLATION / KNOWN-FINDING lines.

Exit codes: 0 property held on everything explored; 1 at least one VIOLATION
line; 2 infrastructure failure (never a verdict).
"""
import atexit
import concurrent.futures
import json
import os
import re
import shutil
import subprocess
import sys
import tempfile
import time

VERIF = os.path.dirname(os.path.dirname(os.path.abspath(__file__)))
REPO = os.environ.get("VERIF_REPO", "/repo")
SPEC = os.path.join(VERIF, "spec")
HARNESS = os.path.join(VERIF, "harness")
EVIDENCE = os.environ.get("VERIF_EVIDENCE_DIR") or os.path.join(VERIF, "evidence")
NCPU = os.cpu_count() or 4

GOENV = {
    "GOFLAGS": "-mod=mod",
    "GOPROXY": "off",
    "GOSUMDB": "off",
    "GOTOOLCHAIN": "local",
}


def _ram_mb():
    try:
        for line in open("/proc/meminfo"):
            if line.startswith("MemTotal:"):
                return int(line.split()[1]) // 1024
    except OSError:
        pass
    return 16384


RAM_MB = _ram_mb()


class Infra(Exception):
    """Infrastructure failure: exit 2, never a verdict."""


class LibPanic(Infra):
    """The harness process died from a panic raised inside pat-go (first non-runtime frame is library code).
    bin/check turns it into a violation of the property whose driver was running (the case is replayable)."""

    def __init__(self, msg, args, frame, stack):
        Infra.__init__(self, msg)
        self.harness_args, self.frame, self.stack = args, frame, stack


def library_panic(stderr):
    """(frame, stack) if stderr is a Go panic whose first non-runtime frame is in pat-go."""
    i = stderr.find("panic: ")
    if i < 0:
        # runtime-detected misuse of shared state (e.g. "fatal error: concurrent map writes"): the faulting goroutine's
        # stack follows; attributed to the library only if its first non-runtime frame is library code
        i = stderr.find("fatal error: concurrent map")
    if i < 0:
        return None
    j = stderr.find("goroutine ", i)
    if j < 0:
        return None
    lines = stderr[j:].splitlines()[1:]
    # frames of the faulting goroutine, innermost first: the panic is the library's if library code is on the stack below
    # the fault and above any driver frame (the fault itself may be raised in a dependency the library called), or if the
    # goroutine was started by the library
    for k in range(0, len(lines) - 1, 2):
        fn = lines[k].strip()
        if not fn or fn.startswith("goroutine "):
            break
        if fn.startswith("created by "):
            if fn.startswith("created by github.com/cloudflare/pat-go/"):
                return fn.split(" in ")[0][len("created by "):], stderr[i:i + 3000]
            return None
        if fn.startswith("main.") or fn.startswith("verif/"):
            return None
        if fn.startswith("github.com/cloudflare/pat-go/"):
            return fn.split("(")[0], stderr[i:i + 3000]
    return None


# Thorough tier: how much the seeded parts of each family's generator are multiplied (harness: tierInt * VERIF_DEPTH).
# Calibrated on this 16-core sandbox so that a thorough run of a property takes roughly 5-10 minutes;
# VERIF_DEPTH in the environment overrides it.
DEPTH = {"C01": 24, "C02": 16, "C03": 16, "C04": 12, "C05": 600, "C06": 16, "C07": 2500, "C08": 10, "C09": 2, "C10": 64,
         "C11": 24, "C12": 12, "C13": 20, "C14": 14, "C15": 40, "C16": 1, "C17": 5, "C18": 4000, "C19": 1, "C20": 1}


class Ctx:
    def __init__(self, prop, tier, seed):
        self.prop = prop
        self.tier = tier
        self.seed = seed
        self.t0 = time.time()
        base = os.environ.get("TMPDIR", "/tmp")
        self.scratch = tempfile.mkdtemp(prefix="verif-%s-" % prop, dir=base)
        atexit.register(shutil.rmtree, self.scratch, True)
        self.harness_bin = None
        self.mc = []            # model checking runs
        self.checker_cmds = []
        self.violations = []    # dicts: {what, replay, key}
        self.notes = []
        self._nrep = 0

    @property
    def thorough(self):
        return self.tier == "thorough"

    def pick(self, quick, thorough):
        return thorough if self.thorough else quick

    def log(self, *a):
        try:
            print("[%s %6.1fs]" % (self.prop, time.time() - self.t0), *a, flush=True)
        except BrokenPipeError:      # the reader went away (e.g. `| head`): progress lines are not worth dying for
            pass

    # ------------------------------------------------------------------ go
    def env(self, extra=None):
        e = dict(os.environ)
        e.update(GOENV)
        if os.environ.get("VERIF_COVER"):
            e["GOCOVERDIR"] = os.environ["VERIF_COVER"]
        if self.thorough and "VERIF_DEPTH" not in e:
            e["VERIF_DEPTH"] = str(DEPTH.get(self.prop, 1))
        if extra:
            e.update(extra)
        return e

    def build_harness(self, race=False):
        # the harness module is copied to scratch so that go.mod/go.sum edits by
        # -mod=mod never touch /verif, and it is rebuilt from /repo's working tree
        src = os.path.join(self.scratch, "harness-src")
        if not os.path.isdir(src):
            shutil.copytree(HARNESS, src)
            shutil.copy(os.path.join(REPO, "go.sum"), os.path.join(src, "go.sum"))
            if REPO != "/repo":
                p = os.path.join(src, "go.mod")
                s = open(p).read().replace("=> /repo", "=> " + REPO)
                open(p, "w").write(s)
        out = os.path.join(self.scratch, "harness-race" if race else "harness")
        cmd = ["go", "build", "-tags", "verif"] + (["-race"] if race else [])
        if os.environ.get("VERIF_COVER"):
            # development aid (bin/coverage): which library statements do the drivers of this check reach
            cmd += ["-cover", "-coverpkg=verif/harness,github.com/cloudflare/pat-go/..."]   # main package included, or nothing is written
        cmd += ["-o", out, "."]
        r = subprocess.run(cmd, cwd=src, env=self.env(), capture_output=True, text=True)
        if r.returncode != 0:
            raise Infra("harness build failed (is /repo buildable with -tags verif?):\n" + r.stdout + r.stderr)
        if not race:
            self.harness_bin = out
        return out

    def harness(self, args, timeout=3600, binary=None, env=None, check=True):
        b = binary or self.harness_bin or self.build_harness()
        r = subprocess.run([b] + args, capture_output=True, text=True, timeout=timeout,
                           env=self.env(env), cwd=self.scratch)
        if check and r.returncode != 0:
            lp = library_panic(r.stderr)
            if lp:
                raise LibPanic("harness %s died from a panic inside the library at %s:\n%s" % (" ".join(args), lp[0], lp[1]),
                               args, lp[0], lp[1])
            raise Infra("harness %s failed (%d):\n%s%s" % (" ".join(args), r.returncode, r.stdout[-2000:], r.stderr[-4000:]))
        return r

    # ----------------------------------------------------------------- tlc
    def _specdir(self, name):
        d = os.path.join(self.scratch, name)
        os.makedirs(d, exist_ok=True)
        for f in os.listdir(SPEC):
            if f.endswith(".tla") or f.endswith(".cfg"):
                shutil.copy(os.path.join(SPEC, f), d)
        return d

    def tlc(self, module, cfg=None, workers=None, timeout=1800, cwd=None, extra=None, xss="256m", heap=None):
        d = cwd or self._specdir("mc-" + module + "-" + (cfg or "default"))
        meta = tempfile.mkdtemp(prefix="meta-", dir=d)
        cmd = ["tlc", "-workers", str(workers or NCPU), "-metadir", meta]
        if cfg:
            cmd += ["-config", cfg]
        cmd += (extra or []) + [module + ".tla"]
        jopts = "-Xss" + xss + " -XX:ParallelGCThreads=%d" % max(2, min(8, workers or NCPU))
        if heap:
            jopts += " -Xmx" + heap
        env = dict(os.environ)
        env["JAVA_TOOL_OPTIONS"] = jopts
        t = time.time()
        try:
            r = subprocess.run(cmd, cwd=d, env=env, capture_output=True, text=True, timeout=timeout)
        except subprocess.TimeoutExpired:
            raise Infra("TLC timed out after %ds: %s" % (timeout, " ".join(cmd)))
        finally:
            shutil.rmtree(meta, True)
        out = r.stdout + r.stderr
        return {"cmd": " ".join(cmd), "out": out, "rc": r.returncode, "wall": time.time() - t, "dir": d}

    def prove(self, module, timeout=900, threads=12):
        """P: check the TLAPS proofs of a module with tlapm (from scratch, no fingerprint cache). The proofs are about
        the specification only (unbounded versions of what TLC checks with small constants). They are supplementary:
        back-end provers run under time limits, so a failed attempt is retried with longer limits, and a proof that
        still does not go through is recorded in the evidence (`tlaps_proofs[].proved = false`) and logged - it is
        neither a verdict about the code nor a reason to stop: TLC's bounded check of the same invariants follows."""
        d = self._specdir("proof-" + module)
        t = time.time()
        out = ""
        for attempt, stretch in enumerate(("1", "3", "8")):
            shutil.rmtree(os.path.join(d, ".tlacache"), ignore_errors=True)
            try:
                r = subprocess.run(["tlapm", "--threads", str(threads), "--stretch", stretch, "--cleanfp", module + ".tla"],
                                   cwd=d, capture_output=True, text=True, timeout=timeout)
                out = r.stdout + r.stderr
            except subprocess.TimeoutExpired:
                out = "tlapm timed out after %ds" % timeout
                continue
            except FileNotFoundError:
                out = "tlapm is not installed"
                break
            m = re.search(r"All (\d+) obligations? proved", out)
            if r.returncode == 0 and m:
                n = int(m.group(1))
                self.log("tlapm %s: all %d obligations proved, %.1fs%s" % (module, n, time.time() - t, " (attempt %d)" % (attempt + 1) if attempt else ""))
                self.proofs = getattr(self, "proofs", []) + [{"module": module, "obligations_proved": n, "proved": True}]
                return n
        where = re.findall(r"line \d+, character \d+ to line \d+, character \d+", out)[:3]
        self.log("PROOF-UNAVAILABLE: tlapm did not prove every obligation of %s in three attempts (%s); continuing with TLC" % (module, "; ".join(where) or out[-300:].replace("\n", " ")))
        self.proofs = getattr(self, "proofs", []) + [{"module": module, "obligations_proved": 0, "proved": False}]
        self.notes.append("TLAPS proof of %s unavailable in this run" % module)
        return 0

    def _override(self, d, module, cfg, overrides):
        cfgp = os.path.join(d, cfg or module + ".cfg")
        txt = open(cfgp).read()
        for k, v in overrides.items():
            txt, cnt = re.subn(r"(?m)^(\s*(?:CONSTANT\s+)?%s\s*=\s*).*$" % re.escape(k), lambda m: m.group(1) + str(v), txt)
            if cnt == 0:
                raise Infra("configuration %s has no constant %s to override" % (cfg, k))
        open(cfgp, "w").write(txt)

    def model_check(self, module, cfg=None, workers=None, timeout=1800, expect_violation=None, overrides=None):
        """Exhaustive TLC run of a specification-level configuration. A property
        violation found on the specification alone is a specification bug, i.e. an
        infrastructure failure, never a verdict about pat-go."""
        self.log("TLC model checking %s %s%s" % (module, cfg or "", " %s" % overrides if overrides else ""))
        cwd = None
        if overrides:
            cwd = self._specdir("mc-" + module + "-" + (cfg or "default") + "-" + re.sub(r"\W+", "_", str(sorted(overrides.items()))))
            self._override(cwd, module, cfg, overrides)
        r = self.tlc(module, cfg, workers, timeout, heap="8g", cwd=cwd)
        out = r["out"]
        m = re.search(r"(\d+) states generated, (\d+) distinct states found", out)
        if expect_violation:
            if expect_violation not in out:
                raise Infra("negative control: TLC did not report %r for %s %s\n%s" % (expect_violation, module, cfg, out[-3000:]))
            return r
        if "Model checking completed. No error has been found." not in out or not m:
            raise Infra("TLC did not complete cleanly on %s %s (specification error, not a verdict):\n%s" % (module, cfg, out[-6000:]))
        depth = re.search(r"depth of the complete state graph search is (\d+)", out)
        rec = {"module": module, "cfg": cfg or module + ".cfg", "generated": int(m.group(1)),
               "distinct": int(m.group(2)), "depth": int(depth.group(1)) if depth else 0,
               "wall_s": round(r["wall"], 1)}
        self.mc.append(rec)
        self.checker_cmds.append(r["cmd"])
        self.log("  %d distinct states, %d generated, %.1fs" % (rec["distinct"], rec["generated"], r["wall"]))
        return rec

    def generate(self, module, cfg=None, workers=1, timeout=1800, overrides=None, raw=False):
        """R: run a Gen_* configuration; every behaviour is printed by the Emit
        pseudo-invariant as <<"BEHAVIOUR", x>>. Returns the list of x (strings,
        JSON-decoded when they look like JSON)."""
        d = self._specdir("gen-" + module + "-" + (cfg or ""))
        if overrides:
            self._override(d, module, cfg, overrides)
        r = self.tlc(module, cfg, workers=workers, timeout=timeout, cwd=d, heap="4g")
        out = r["out"]
        m = re.search(r"(\d+) states generated, (\d+) distinct states found", out)
        if "Model checking completed. No error has been found." not in out or not m:
            raise Infra("behaviour generation %s failed (specification error, not a verdict):\n%s" % (module, out[-6000:]))
        self.mc.append({"module": module, "cfg": cfg or module + ".cfg", "generated": int(m.group(1)),
                        "distinct": int(m.group(2)), "wall_s": round(r["wall"], 1), "role": "behaviour generation"})
        self.checker_cmds.append(r["cmd"])
        items = []
        # TLC's pretty-printer wraps a value that does not fit its line width ("<< \"BEHAVIOUR\",\n   ... >>"), continuation
        # lines are indented: a behaviour ends at the first ">>" at the end of a line that is followed by an unindented line
        found = re.findall(r'<<\s*"BEHAVIOUR",\s*(.*?)\s*>>\n(?!\s)', out, flags=re.S)
        if len(found) != out.count('"BEHAVIOUR"'):
            raise Infra("behaviour generation %s: %d behaviours printed, %d parsed" % (module, out.count('"BEHAVIOUR"'), len(found)))
        for x in found:
            if "\n" in x:      # a wrapped value: undo the pretty-printing (no generated name or string contains white space)
                x = re.sub(r"\s+", " ", x).replace("<< ", "<<").replace(" >>", ">>")
            x = x.strip()
            if x.startswith('"') and x.endswith('"'):
                x = x[1:-1].replace('\\"', '"').replace("\\\\", "\\")
            if raw:
                items.append(x)
                continue
            try:
                items.append(json.loads(x))
            except ValueError:
                items.append(x)
        shutil.rmtree(d, True)
        self.log("  %s generated %d behaviours (%d distinct states)" % (module, len(items), int(m.group(2))))
        return items

    def validate(self, module, files, timeout=3600, cfg=None):
        """Trace validation: one TLC process per trace shard. Returns
        (events, rejects) where rejects is a list of (file, line_no, event)."""
        files = [f for f in files if os.path.exists(f) and os.path.getsize(f) > 0]
        if not files:
            raise Infra("no trace events recorded for " + module)

        def one(i_f):
            i, f = i_f
            d = self._specdir("tv-%s-%d" % (module, i))
            shutil.copy(f, os.path.join(d, "trace.ndjson"))
            n = sum(1 for _ in open(f))
            r = self.tlc(module, cfg, workers=1, timeout=timeout, cwd=d, heap="%dm" % heap_mb)
            out = r["out"]
            done = re.search(r'"DONE (\d+)"', out)
            if not done or int(done.group(1)) != n:
                raise Infra("trace validation of %s did not consume the whole trace (%s of %d):\n%s" % (f, done.group(1) if done else "?", n, out[-6000:]))
            rej = [(f, int(x), why) for x, why in re.findall(r'"REJECT (\d+) ([^\n]*)"\n', out)]
            shutil.rmtree(d, True)
            return n, rej, r["cmd"]

        # JVM heaps are bounded explicitly (the JVM default is a quarter of the RAM PER PROCESS, and one TLC process runs
        # per shard): about 40 KB per trace event, and no more processes at once than fit into 60 % of the memory
        biggest = max(sum(1 for _ in open(f)) for f in files)
        heap_mb = int(min(12288, 1024 + biggest * 0.04))
        par = max(1, min(NCPU, len(files), int(0.6 * RAM_MB / heap_mb)))
        total, rejects = 0, []
        with concurrent.futures.ThreadPoolExecutor(max_workers=par) as ex:
            for n, rej, cmd in ex.map(one, list(enumerate(files))):
                total += n
                rejects += rej
        self.checker_cmds.append(cmd + "   (x%d trace shards)" % len(files))
        out = []
        byfile = {}
        for f, ln, why in rejects:
            byfile.setdefault(f, {})[ln] = why
        for f, lines in byfile.items():
            with open(f) as fh:
                for k, line in enumerate(fh, 1):
                    if k in lines:
                        e = json.loads(line)
                        e["_why"] = lines[k].replace('\\"', '"')
                        names = re.findall(r'"([^"]+)"', e["_why"])
                        if names and all(n.startswith("beyond:") for n in names):
                            # laws the specification states beyond the listed properties: reported, never a verdict
                            self.observations = getattr(self, "observations", {})
                            key = e["_why"]
                            self.observations[key] = self.observations.get(key, 0) + 1
                            continue
                        out.append((f, k, e))
        for key, n in sorted(getattr(self, "observations", {}).items()):
            self.log("  OBSERVATION (beyond the listed properties, not a verdict): %d event(s) fail %s" % (n, key))
        return total, out

    def record(self, family, shards=None, extra=None, infile=None, tag="trace", timeout=3600, binary=None, env=None, parts=1):
        """Run the family's driver. parts > 1 starts that many harness processes,
        each executing every parts-th case (used when calls must be executed
        serially inside a process because allocation is measured)."""
        shards = shards or NCPU
        out = os.path.join(self.scratch, "%s-%s.ndjson" % (family, tag))
        base = ["record", family, "-seed", str(self.seed), "-tier", self.tier]
        if infile:
            base += ["-in", infile]
        if extra:
            base += extra
        if parts <= 1:
            self.harness(base + ["-out", out, "-shards", str(shards)], timeout=timeout, binary=binary, env=env)
            if shards == 1:
                return [out]
            return ["%s.%d" % (out, i) for i in range(shards)]
        files = []
        if not infile:
            # one case list for all parts (generators call randomised library code: two processes would not
            # generate byte-identical lists, and case k of one list is not case k of another)
            infile = os.path.join(self.scratch, "%s-%s.gen-cases.ndjson" % (family, tag))
            self.harness(["gen", family, "-seed", str(self.seed), "-tier", self.tier] + (extra or []) + ["-out", infile],
                         timeout=timeout, binary=binary, env=env)
            base += ["-in", infile]

        def one(i):
            o = out if i == 0 else "%s.part%d" % (out, i)
            self.harness(base + ["-out", o, "-shards", "1", "-part", "%d/%d" % (i, parts)], timeout=timeout, binary=binary, env=env)
            return o
        with concurrent.futures.ThreadPoolExecutor(max_workers=parts) as ex:
            files = list(ex.map(one, range(parts)))
        return files

    def load_cases(self, family, tag="trace"):
        p = os.path.join(self.scratch, "%s-%s.ndjson.cases" % (family, tag))
        with open(p) as fh:
            return [json.loads(line) for line in fh]

    def record_and_validate(self, family, module, describe=None, shards=None, extra=None, timeout=3600, cfg=None, env=None, key=None, parts=1):
        """V: record the family's trace from the real code, validate with TLC.
        The case of every rejected event is re-executed against the real code and
        re-validated before it counts as a violation (one violation per case)."""
        files = self.record(family, shards=shards, extra=extra, env=env, parts=parts)
        cases = self.load_cases(family)
        self.log("recorded %s trace (%d cases), validating with %s %s" % (family, len(cases), module, cfg or ""))
        n, rejects = self.validate(module, files, timeout=timeout, cfg=cfg)
        self.log("  %d events validated, %d rejected" % (n, len(rejects)))
        if rejects:
            cids = sorted({e["cid"] for _, _, e in rejects})
            # re-execute: at most 400 cases, but at least one of every failure class
            byclass = {}
            for _, _, e in rejects:
                byclass.setdefault(e["_why"], []).append(e["cid"])
            chosen = []
            for why, cs in byclass.items():
                chosen += cs[:40]
            chosen = sorted(set(chosen))[:400]
            path = os.path.join(self.scratch, "%s-recheck-cases.ndjson" % family)
            with open(path, "w") as fh:
                for cid in chosen:
                    fh.write(json.dumps(cases[cid]) + "\n")
            f2 = self.record(family, shards=1, infile=path, tag="recheck", extra=extra, env=env)
            n2, rej2 = self.validate(module, f2, cfg=cfg)
            seen = set()
            for _, _, e in rej2:
                case = cases[chosen[e["cid"]]]
                if e["cid"] in seen:
                    continue
                seen.add(e["cid"])
                what = (describe(e, case) if describe else "") or ("%s rejects recorded event: %s" % (module, e["_why"]))
                k = key(e, case) if key else "%s %s" % (family, e["_why"])
                self.violation(what, {"family": family, "trace_module": module, "cfg": cfg, "case": case,
                                      "event": trim(e), "failed_obligations": e["_why"], "extra": extra}, key=k)
            self.log("  re-executed %d rejected case(s) (of %d): %d confirmed" % (len(chosen), len(cids), len(seen)))
            if not seen:
                # nothing reproduces in isolation: the failure may depend on what the same library objects or package-level
                # state did before. Run the whole family again in the same order; what is rejected both times is real-code
                # behaviour reproduced twice, and its replay is the whole run.
                f3 = self.record(family, shards=shards, extra=extra, env=env, parts=parts, tag="rerun")
                n3, rej3 = self.validate(module, f3, timeout=timeout, cfg=cfg)
                first = {(e["cid"], e["_why"]) for _, _, e in rejects}
                again = [e for _, _, e in rej3 if (e["cid"], e["_why"]) in first]
                done = set()
                for e in again:
                    if e["cid"] in done:
                        continue
                    done.add(e["cid"])
                    case = cases[e["cid"]]
                    what = (describe(e, case) if describe else "") or ("%s rejects recorded event: %s" % (module, e["_why"]))
                    what += " [only in the context of the whole run: rejected in two complete runs, accepted when the case runs alone]"
                    k = key(e, case) if key else "%s %s" % (family, e["_why"])
                    self.violation(what, {"family": family, "trace_module": module, "cfg": cfg, "case": case, "whole_run": True,
                                          "cid": e["cid"], "shards": shards, "parts": parts,
                                          "event": trim(e), "failed_obligations": e["_why"], "extra": extra}, key=k)
                self.log("  whole run repeated: %d of the rejected case(s) rejected again" % len(done))
                if not done:
                    self.log("  UNCONFIRMED: %d rejection(s) did not reproduce (alone or in a second complete run); not counted. "
                             "Classes: %s" % (len(cids), sorted(byclass)[:6]))
                    self.unconfirmed = getattr(self, "unconfirmed", 0) + len(cids)
        return n, files, cases

    def replay_case(self, path, family, module, cfg=None):
        """--replay: re-execute the recorded case against the current tree and
        validate the fresh events."""
        obj = json.load(open(path))
        self.build_harness()
        if obj.get("libpanic"):
            try:
                a = list(obj["harness_args"])
                if "-out" in a:
                    a[a.index("-out") + 1] = os.path.join(self.scratch, "replay.ndjson")
                self.harness(a)
            except LibPanic as e:
                print("VIOLATION property=%s replay=%s" % (self.prop, path))
                print("  the library still panics at " + e.frame)
                return 1
            print("the recorded driver run completes without a library panic on the current tree")
            return 0
        if obj.get("whole_run"):
            f = self.record(family, shards=obj.get("shards"), extra=obj.get("extra"), parts=obj.get("parts") or 1, tag="replay")
            n, rej = self.validate(module, f, cfg=obj.get("cfg") or cfg)
            rej = [r for r in rej if r[2]["cid"] == obj["cid"]]
            if rej:
                print("VIOLATION property=%s replay=%s" % (self.prop, path))
                print("  still rejected on the current tree (whole run): " + rej[0][2]["_why"])
                return 1
            print("the case is accepted in a whole run on the current tree (%d events)" % n)
            return 0
        cpath = os.path.join(self.scratch, "replay-cases.ndjson")
        with open(cpath, "w") as fh:
            fh.write(json.dumps(obj["case"]) + "\n")
        f = self.record(family, shards=1, infile=cpath, tag="replay", extra=obj.get("extra"))
        n, rej = self.validate(module, f, cfg=obj.get("cfg") or cfg)
        if rej:
            print("VIOLATION property=%s replay=%s" % (self.prop, path))
            print("  still rejected on the current tree: " + rej[0][2]["_why"])
            return 1
        print("replayed case is accepted by the specification on the current tree (%d events)" % n)
        return 0

    # ----------------------------------------------------------- verdicts
    def violation(self, what, replay_obj, key=None):
        key = key or what
        n = sum(1 for v in self.violations if v["key"] == key)
        if n >= 3:
            # same failure class already has three replay files: count only
            self.violations.append({"what": what, "replay": None, "key": key})
            return
        self._nrep += 1
        os.makedirs(os.path.join(EVIDENCE, "replays"), exist_ok=True)
        path = os.path.join(EVIDENCE, "replays", "%s-%d-%d.json" % (self.prop, self.seed, self._nrep))
        replay_obj = dict(replay_obj)
        replay_obj.update({"property": self.prop, "seed": self.seed, "tier": self.tier, "what": what})
        with open(path, "w") as fh:
            json.dump(replay_obj, fh, indent=1)
        self.violations.append({"what": what, "replay": path, "key": key or what})

    def finish(self, coverage, assumptions, level="model_checking"):
        known = load_known(self.prop)
        new, listed = [], []
        for v in self.violations:
            hit = [k for k in known if k["kind"] == "known" and re.search(k["match"], v["key"])]
            (listed if hit else new).append((v, hit))
        states = sum(m["distinct"] for m in self.mc)
        trans = sum(m["generated"] for m in self.mc)
        cov = {"states": states, "transitions": trans, "model_checking_runs": self.mc,
               "checker_cmd": " ; ".join(self.checker_cmds)}
        cov.update(coverage)
        if getattr(self, "proofs", None):
            cov["tlaps_proofs"] = self.proofs
        if getattr(self, "observations", None):
            cov["beyond_property_observations"] = self.observations
        if getattr(self, "unconfirmed", 0):
            cov["unconfirmed_rejections"] = self.unconfirmed
        cov.setdefault("traces_validated_against_impl", 0)
        ev = {"property_id": self.prop, "tier": self.tier, "seed": self.seed, "level": level,
              "coverage": cov, "assumptions": assumptions, "wall_s": round(time.time() - self.t0, 1),
              "violations": len(new), "known_findings_hit": len(listed), "notes": self.notes}
        os.makedirs(EVIDENCE, exist_ok=True)
        with open(os.path.join(EVIDENCE, self.prop + ".json"), "w") as fh:
            json.dump(ev, fh, indent=1, default=str)
        seen = set()
        for v, hit in listed:
            t = hit[0]["text"]
            if t not in seen:
                seen.add(t)
                print("KNOWN-FINDING: property=%s %s" % (self.prop, t))
        counts = {}
        for v, _ in new:
            counts[v["key"]] = counts.get(v["key"], 0) + 1
        printed = set()
        for v, _ in new:
            if v["key"] in printed or not v["replay"]:
                continue
            printed.add(v["key"])
            print("VIOLATION property=%s replay=%s" % (self.prop, v["replay"]))
            print("  [%d case(s) of this class] %s" % (counts[v["key"]], v["what"][:600]))
        self.log("done: %d violation(s), %d known finding hit(s), %.1fs" % (len(new), len(listed), time.time() - self.t0))
        return 1 if new else 0


def trim(o, n=64):
    """Shorten long byte arrays for human-readable replay files."""
    if isinstance(o, list):
        if len(o) > n and all(isinstance(x, int) for x in o):
            return o[:n] + ["... %d more" % (len(o) - n)]
        return [trim(x, n) for x in o]
    if isinstance(o, dict):
        return {k: trim(v, n) for k, v in o.items()}
    return o


def load_known(prop):
    p = os.path.join(VERIF, "known-findings.json")
    if not os.path.exists(p):
        return []
    with open(p) as fh:
        data = json.load(fh)
    return [k for k in data.get("findings", []) if k.get("property") == prop]


def sample(items, k=3):
    items = list(items)
    if len(items) <= k:
        return items
    step = max(1, len(items) // k)
    return [items[i] for i in range(0, len(items), step)][:k]


def read_events(files, limit=None):
    out = []
    for f in files:
        if not os.path.exists(f):
            continue
        with open(f) as fh:
            for line in fh:
                out.append(json.loads(line))
                if limit and len(out) >= limit:
                    return out
    return out
