"""C16 - operations have no hidden side effects on caller-visible memory.

M: Memory.tla: regions (argument backing arrays incl. spare capacity, slices
   handed out earlier), per object kind the call alphabet with the regions each
   call is given and hands out, and the frame condition (a call writes no region
   it does not own). TLC shows FrameCondition on the intended design and its
   violation under the two named deviations (append onto a caller's slice,
   append onto a slice handed out earlier).
R: Gen_Memory_* emit every call history up to the depth for 13 object kinds;
   each is executed twice on the real library inside guarded arenas (guard
   bytes, patterned spare capacity, two different fills), all tracked regions
   compared with their snapshots after every call.
V: Trace_Memory requires: no tracked region changed, deterministic results
   independent of the spare-capacity fill, tracked regions cover what the model
   says the call is given / hands out."""
import os

import vlib
from checks import ages_common as ag
from checks import c04

KINDS = ["t1state", "t2state", "t3state", "t5state", "t1issuer", "t2issuer", "t5issuer", "t3issuer", "attester", "batch", "ecdsa", "ed25519", "codec"]


def describe(e, case):
    return "memory event rejected by Memory.tla: failed %s; kind=%s history=%s step=%s call=%s changed=%s det_same=%s panic=%r" % (
        e["_why"], case.get("kind"), case.get("calls"), e.get("step"), e.get("call"), e.get("changed"), e.get("det_same"), e.get("panic"))


def key(e, case):
    return "memory %s %s %s changed=%s" % (case.get("kind"), e.get("call"), e["_why"], ",".join(sorted({x.rstrip("0123456789") for x in e.get("changed", [])})))


def run(ctx):
    ctx.model_check("Memory", "MC_Memory_dev1.cfg", workers=1, expect_violation="Invariant FrameCondition is violated")
    ctx.model_check("Memory", "MC_Memory_dev2.cfg", workers=1, expect_violation="Invariant FrameCondition is violated")
    ctx.model_check("Memory", "MC_Memory_dev3.cfg", workers=1, expect_violation="Invariant FrameCondition is violated")
    depth = ctx.pick(2, 5)
    beh = []
    for k in KINDS:
        d = depth + 1 if k in ("t3state", "ed25519", "codec") else depth
        for b in ctx.generate("Memory", cfg="Gen_Memory_%s.cfg" % k, workers=1, overrides={"Depth": d}, raw=True):
            m = vlib.re.match(r'"(\w+)", <<(.*)>>', b, flags=vlib.re.S)
            calls = [x.strip().strip('"') for x in m.group(2).split(",")] if m and m.group(2).strip() else []
            beh.append({"kind": m.group(1), "calls": calls})
    bpath = os.path.join(ctx.scratch, "memory-behaviours.json")
    vlib.json.dump(beh, open(bpath, "w"))
    ctx.build_harness()
    n, files, cases = ctx.record_and_validate("memory", "Trace_Memory", describe=describe, key=key, env={"VERIF_MEMORY_BEHAVIOURS": bpath})
    kinds = {}
    for c in cases:
        kinds[c["kind"]] = kinds.get(c["kind"], 0) + 1
    an, acases = ag.run(ctx, ['rlissuer', 'ecdsa', 't5issue', 't1verify', 'attester', 'batchissuer', 'keyid'], retain=True)   # Ages.tla: every schedule of phases on one long-lived object, each phase scaled to n operations
    return ctx.finish({
        **ag.coverage(an, acases),
        "traces_validated_against_impl": len(cases),
        "events_validated": n,
        "evaluations": sum(len(c["calls"]) for c in cases) * 2,
        "distinct_nontrivial": len({vlib.json.dumps([c["kind"], c["calls"]]) for c in cases}),
        "rule": "a case is one call history on one object kind, executed under two spare-capacity fills; evaluations = API calls "
                "executed; distinct = distinct (kind, history)",
        "histories_by_kind": kinds,
        "samples": vlib.sample(cases, 4),
        "exhaustive": True,
        "exhaustive_part": "all call histories of length %d (%d for type-3 request states and ed25519) over each kind's call alphabet" % (depth, depth + 1),
    }, [
        "memory is observed around each call, not modelled below the API: a write that restores the old bytes before returning is invisible",
        "big.Int key material of the ECDSA fork is tracked by value; slices handed out are tracked with their spare capacity",
        "results are compared across fills on their deterministic part only (library randomness is not controlled)",
    ])


def replay(ctx, path):
    if vlib.json.load(open(path)).get("family") == "ages":
        return ag.replay(ctx, path)
    obj = vlib.json.load(open(path))
    bpath = os.path.join(ctx.scratch, "memory-behaviours.json")
    vlib.json.dump([], open(bpath, "w"))
    return ctx.replay_case(path, "memory", "Trace_Memory")
