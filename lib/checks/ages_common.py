"""Shared by the checks that use Ages.tla: long-lived objects in long use, and values that occur once in 2^8..2^16 draws.

M: Ages.tla: a long-lived object is AGELESS (the answer to an item is its truth at any age, and the same when the item
   comes back); holds for the intended design; the three shapes a long run uncovers - a memo ring whose evicted entry
   stays indexed, an operation counter that wraps, a budget that refusals use up - violate it, and none of them before
   its resource is used up (YoungIsBlind): negative controls, and the reason the drivers scale every phase.
R: Gen_Ages emits EVERY schedule of 3 phases over honest / refused / same / probe; each is run on one real object with
   every phase scaled to n operations on n concrete items (several scales per schedule for kinds with windows).
V: Trace_Ages advances the specification by each phase's action and requires the phase's common answer to be the
   model's, the probed phase to be the model's item, and every operation to have run."""
import os

import vlib

NEG = [("MC_Ages_ringstaleindex.cfg", "ring-stale-index"), ("MC_Ages_counterwrap.cfg", "counter-wrap"), ("MC_Ages_budgetleak.cfg", "budget-leak"),
       ("MC_Ages_ringswept.cfg", "ring-swept")]

ALL = ("honest", "refused", "same", "probe")
# kind -> (operations per phase quick, thorough; scales; phases the kind has)
KINDS = {
    "t1verify":    (1100, 2400, (1, 4), ALL),
    "t5verify":    (1100, 70000, (1, 4), ALL),
    "attester":    (1100, 2400, (1, 2, 4), ALL),
    "rlissuer":    (560, 1300, (1,), ALL),
    "rlmany":      (66000, 70000, (1,), ALL),
    "batchissuer": (1100, 2400, (1, 4), ALL),
    "batchissuer-ff": (300, 1200, (1,), ALL),
    "batchissuer-00": (300, 1200, (1,), ALL),
    "ed25519":     (700, 20000, (1,), ALL),
    "t5issue":     (22000, 70000, (1,), ALL),
    "t3held":      (2800, 9000, (1,), ("honest", "refused")),
    "rlunreg":     (66000, 70000, (1,), ALL),
    "rlrare":      (2, 12, (1,), ALL),
    "batchrot":    (60, 300, (1,), ALL),
    "rekey":       (40, 200, (1,), ALL),
    "keyid":       (1100, 5000, (1,), ("honest", "same", "probe")),
    "varint":      (20000, 400000, (1,), ALL),
    "codec-t1":    (140000, 600000, (1,), ALL),
    "codec-t5":    (140000, 600000, (1,), ALL),
    "codecgap-t1": (140000, 300000, (1,), ALL),
    "codecgap-t5": (140000, 300000, (1,), ALL),
    "ecdsa":       (700, 3000, (1,), ALL),
    "t1det":       (300, 1200, (1,), ALL),
    "t1final":     (300, 1200, (1,), ("honest", "refused")),
    "t5final":     (300, 1200, (1,), ("honest", "refused")),
}
# kinds whose operations are expensive run a seeded share of the schedules in the quick tier
SHARE = {"attester": 2, "rlissuer": 2, "t1det": 2, "ecdsa": 2, "batchissuer": 2, "batchissuer-ff": 3, "batchissuer-00": 3, "t5issue": 6, "rlunreg": 6, "rlrare": 6}


def describe(e, case):
    return "phase rejected by Ages.tla: failed %s; kind=%s schedule=%s phase %s (%s) n=%s done=%s answer=%s: %s %s" % (
        e["_why"], case.get("kind"), case.get("sched"), e.get("i"), e.get("ph"), e.get("n"), e.get("done"), e.get("ans"), e.get("err"), e.get("panic"))


def key(e, case):
    return "ages %s %s %s" % (case.get("kind"), e.get("ph"), e["_why"])


def run(ctx, kinds, retain=False):
    """Returns (events, cases). retain (C16): memory handed to / received from the library is compared after every phase."""
    if ctx.thorough:
        ctx.prove("AgesProofs")   # TLAPS: Ageless for the intended design after ANY number of operations
    ctx.model_check("Ages", "MC_Ages.cfg", workers=4)
    for cfg, dev in NEG:
        ctx.model_check("Ages", cfg, workers=1, expect_violation="Invariant Ageless is violated")
    # "ring-swept": the wrong answer lives in a window (OldIsRightAgain holds there, and fails for the unswept ring) - the
    # reason a schedule is run at several scales
    ctx.model_check("Ages", "MC_Ages_ringswept_window.cfg", workers=4)
    scheds = []
    for b in ctx.generate("Ages", cfg="Gen_Ages.cfg", workers=1, raw=True):
        s = [x.strip().strip('"') for x in b.strip("<>").split(",") if x.strip()]
        if len(s) == 3:
            scheds.append(s)
    if len(scheds) < 10:
        raise vlib.Infra("Gen_Ages produced %d schedules" % len(scheds))
    beh = []
    for k in kinds:
        nq, nt, scales, ops = KINDS[k]
        mine = [s for s in scheds if all(x in ops for x in s)]
        if not mine:   # (a kind without refusals: the schedules over its own phases)
            mine = [s for s in ([["honest", "same", "probe"], ["honest", "probe", "same"], ["honest", "same", "honest"], ["honest", "probe", "honest"]]) if all(x in ops for x in s)] or [["honest", "honest", "honest"]]
        share = 1 if ctx.thorough else SHARE.get(k, 1)
        for i, s in enumerate(mine):
            if (i + ctx.seed) % share:
                continue
            for sc in scales:
                beh.append({"kind": k, "sched": s, "n": max(8, ctx.pick(nq, nt) // sc), "retain": retain})
    bpath = os.path.join(ctx.scratch, "ages-behaviours.json")
    vlib.json.dump(beh, open(bpath, "w"))
    ctx.build_harness()
    n, files, cases = ctx.record_and_validate("ages", "Trace_Ages", describe=describe, key=key, env={"VERIF_AGES_BEHAVIOURS": bpath})
    return n, cases


def coverage(n, cases):
    kinds, ops = {}, 0
    for c in cases:
        kinds[c["kind"]] = kinds.get(c["kind"], 0) + 1
        ops += c["n"] * len(c["sched"])
    return {"ages_schedules": len(cases), "ages_phases": n, "ages_operations": ops, "ages_schedules_by_kind": kinds,
            "ages_rule": "every 3-phase schedule of Ages.tla (a seeded half of them for the expensive kinds in the quick tier), each phase scaled to n operations on one long-lived object"}


def replay(ctx, path):
    bpath = os.path.join(ctx.scratch, "ages-behaviours.json")
    vlib.json.dump([], open(bpath, "w"))
    return ctx.replay_case(path, "ages", "Trace_Ages")
