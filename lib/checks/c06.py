"""C06 - the attester accepts a rate-limited request only if it is authentic.

M: Attester.tla: AcceptOnlyAuthentic, RejectLeavesCache, PutOnlyOnFirstAccept,
   RegisteredOnlyVerified over the complete state graph (all request classes
   interleaved with FinalizeIndex).
R/V: TLC behaviours plus sweeps over real requests - every listed corruption
   (each bit of Signature / RequestKey / NameKeyID / EncryptedTokenRequest;
   short, long, zero, swapped, foreign-key and foreign-content signatures; wrong
   blind; wrong client; malformed client keys), alone and after accepted state
   exists - recorded with a recording cache and validated by Trace_Attester."""
import vlib
from checks import ages_common as ag
from checks import verdicts_common as vc
from checks import attester_common as ac


def run(ctx):
    if ctx.thorough:
        ctx.prove("AttesterProofs")   # unbounded (TLAPS) versions of the model-level invariants TLC checks below
    n, cases, kinds, steps, nbeh = ac.run(ctx, "Trace_Attester_C06.cfg", ["tlc", "sweep"], ctx.pick(3, 3))
    vn, vcases, vdepth = vc.run(ctx, ['attester'])   # Verdicts.tla: every history of presentations on one long-lived object
    rej = sum(1 for c in cases for s in c["steps"] if s.get("k") == "V" and s.get("q") != "good")
    an, acases = ag.run(ctx, ['attester'])   # Ages.tla: every schedule of phases on one long-lived object, each phase scaled to n operations
    return ctx.finish({
        **ag.coverage(an, acases),
        "traces_validated_against_impl": len(cases),
        "events_validated": n,
        "evaluations": steps,
        "distinct_nontrivial": len({vlib.json.dumps(c["steps"], sort_keys=True) for c in cases}),
        "rule": "a case is one history; sweep histories contain one corrupted real request (field, bit / variant), alone or after "
                "two clients were accepted and a binding exists; distinct = distinct step sequences; rejecting VerifyRequest calls: %d" % rej,
        "rejecting_requests": rej,
        "histories_by_kind": kinds,
        "tlc_behaviours": nbeh,
        **vc.coverage(vn, vcases, vdepth),
        "samples": [ac.short(c) for c in vlib.sample([c for c in cases if c["kind"] == "sweep"], 3)],
        "exhaustive": ctx.thorough,
        "exhaustive_part": ("every bit" if ctx.thorough else "one seeded bit per byte") + " of each request field; all abstract request classes in TLC behaviours",
    }, [
        "a flipped bit is accepted with probability <= 2^-100 (ECDSA P-384), so 'must be rejected' cannot fail spuriously",
        "the recording cache implements ClientStateCache; Get/Put calls are counted without a hook, state contents through the verif snapshot hook",
    ])


def replay(ctx, path):
    if vlib.json.load(open(path)).get("family") == "ages":
        return ag.replay(ctx, path)
    if vlib.json.load(open(path)).get("family") == "verdicts":
        return vc.replay(ctx, path)
    return ctx.replay_case(path, "attester", "Trace_Attester", cfg="Trace_Attester_C06.cfg")
