"""C07 - the rate-limited issuer signs only authentic, untampered requests.

M: Issuance.tla, RLAccepts: the chain of checks (complete parse, HPKE open with
   the request key bound as AAD, inner parse, registered origin, request key
   decodes, signature over the whole request) and RLFlip (what a bit flip in
   each field breaks); EveryFlipRejected is checked as an invariant.
V: RateLimitedIssuer.Evaluate on an honest request, on every single-bit change
   of it (all ~4200 bit positions, both tiers), on requests for look-alike
   unregistered origins, sealed to another issuer, signed by another key or
   over other contents, without signature, with trailing data, with a foreign
   request key, with a plaintext that is not an inner request, and sealed with
   an AAD that leaves the request key out (the harness seals with go-hpke and
   signs with the ECDSA fork itself)."""
import vlib
from checks import neighbours_common as nb
from checks import ages_common as ag
from checks import verdicts_common as vc
from checks import issuance_common as ic


def run(ctx):
    ctx.model_check("MC_Issuance", "MC_RL.cfg", workers=2)
    n, cases, kinds = ic.run(ctx, "C07", ["rl"])
    vn, vcases, vdepth = vc.run(ctx, ['rlissuer', 'rlorigins'])   # Verdicts.tla: every history of presentations on one long-lived object
    an, acases = ag.run(ctx, ['rlunreg'])   # Ages.tla: every schedule of phases on one long-lived object, each phase scaled to n operations
    nn, ncases = nb.run(ctx)   # Neighbours.tla: every history of registrations, look-ups and requests on two issuers side by side
    return ctx.finish({
        **nb.coverage(nn, ncases),
        **ag.coverage(an, acases),
        "traces_validated_against_impl": n,
        "evaluations": len(cases),
        "distinct_nontrivial": ic.distinct(cases),
        "rule": "a case is one Evaluate call on one (possibly altered) encoded request; distinct = distinct alteration (kind, field, bit, variant)",
        "calls_by_kind": kinds,
        **vc.coverage(vn, vcases, vdepth),
        "samples": [ic.short(c) for c in vlib.sample(cases, 4)],
        "exhaustive": True,
        "exhaustive_part": "every bit position of an honest encoded request",
    }, [
        "a flipped bit is accepted with probability <= 2^-100 (AEAD tag / ECDSA / SHA-256 binding)",
        "the model's RLFlip table says which link a flip in each field breaks; the verdict only depends on 'some link broken'",
    ])


def replay(ctx, path):
    if vlib.json.load(open(path)).get("family") == "neighbours":
        return nb.replay(ctx, path)
    if vlib.json.load(open(path)).get("family") == "ages":
        return ag.replay(ctx, path)
    if vlib.json.load(open(path)).get("family") == "verdicts":
        return vc.replay(ctx, path)
    return ctx.replay_case(path, "issuance", "Trace_Issuance", cfg="Trace_Issuance_C07.cfg")
