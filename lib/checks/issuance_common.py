"""Shared by C01, C02, C07, C10, C11: the issuance family (Issuance.tla)."""
import vlib
from checks import c04

MC_TYPES = [1, 2, 3, 5]


def model_check(ctx, liveness=False):
    for t in MC_TYPES:
        ctx.model_check("MC_Issuance", ctx.pick("MC_Issuance_t%d.cfg" % t, "MC_Issuance_t%d_thorough.cfg" % t))
    if liveness:
        ctx.model_check("MC_Issuance", "MCL_Issuance.cfg")


def describe(e, case):
    keep = {k: e.get(k) for k in ("op", "t", "n", "chlen", "olen", "mut", "tmut", "cls", "create_ok", "decode_ok", "eval_ok", "fin_ok",
                                  "ok", "ref_ok", "err", "oracle", "iverify", "resp_len", "key_len", "key", "nc", "blind", "salt",
                                  "req", "tok", "req_eq", "tok_eq", "batch_eq", "index", "panic") if k in e}
    return "issuance event rejected by Issuance.tla / Trace_Issuance: failed %s; event %s" % (e["_why"], vlib.json.dumps(keep)[:500])


def key(e, case):
    sub = ""
    if e.get("op") == "Run":
        sub = "t%s %s" % (e.get("t"), (e.get("mut") or {}).get("kind"))
    elif e.get("op") == "Verify":
        sub = "t%s %s" % (e.get("t"), (e.get("tmut") or {}).get("kind"))
    elif e.get("op") == "RLEval":
        sub = (e.get("cls") or {}).get("kind", "")
    elif e.get("op") == "Det":
        sub = "t%s" % e.get("t")
    return "issuance %s %s %s" % (e.get("op"), sub, e["_why"])


def run(ctx, prop, groups, shards=None):
    ctx.build_harness()
    n, files, cases = ctx.record_and_validate("issuance", "Trace_Issuance", describe=describe, key=key,
                                               cfg="Trace_Issuance_%s.cfg" % prop, extra=["-arg", ",".join(groups)], shards=shards)
    kinds = {}
    for c in cases:
        k = c["op"]
        if c["op"] == "Run":
            k = "Run/t%d/%s" % (c["t"], c["mut"]["kind"])
        elif c["op"] == "Verify":
            k = "Verify/t%d/%s" % (c["t"], c["tmut"]["kind"])
        elif c["op"] == "RLEval":
            k = "RLEval/" + c["cls"]["kind"]
        elif c["op"] in ("VerifySeq", "RLSeq"):
            k = c["op"] + ("/t%d" % c["t"] if "t" in c else "")
        kinds[k] = kinds.get(k, 0) + 1
    return n, cases, kinds


def short(c):
    return c04.short(c)


def distinct(cases):
    out = set()
    for c in cases:
        c = {k: v for k, v in c.items() if k != "rid"}
        out.add(vlib.json.dumps(c, sort_keys=True))
    return len(out)
