"""C12 - ECDSA key blinding is consistent, invertible, commutative and context-bound.

M: KeyBlind.tla over Algebra.tla: SignVerifiesUnderBlinded, NotUnderOtherKeys,
   UnblindInverts, BlindCommutes, BlindAndContextMatter, BlindChangesKey,
   PoolSignaturesSound over all key terms up to the depth.
V: per curve (P-224/256/384/521) a structured sequence (every signing key x
   blind x context: blind, sign, verify under every relevant key, unblind back,
   two blinds in both orders) and seeded random operation sequences; results
   interned by bytes; Trace_KeyBlind requires logged equalities = normal-form
   equalities, both verifiers = the specification's verdict, and every blinded
   key = the independent XMD hash-to-field / crypto/elliptic reference."""
import vlib
from checks import ages_common as ag
from checks import keyblind_common as kc


def run(ctx):
    ctx.prove("KeyBlindProofs")   # unbounded (TLAPS) versions of the model-level invariants TLC checks below
    n, cases, ops, nops = kc.run(ctx, "ecdsa", "MC_KeyBlind")
    an, acases = ag.run(ctx, ['ecdsa'])   # Ages.tla: every schedule of phases on one long-lived object, each phase scaled to n operations
    return ctx.finish({
        **ag.coverage(an, acases),
        "traces_validated_against_impl": len(cases),
        "events_validated": n,
        "evaluations": nops,
        "distinct_nontrivial": len({vlib.json.dumps([c["scheme"], s], sort_keys=True) for c in cases for s in c.get("steps", [c])}),
        "rule": "evaluations = key-blinding operations executed (Blind, Unblind, BlindKeySign, Sign, Verify by both verifiers) on four "
                "curves; distinct = distinct (curve, operation, arguments)",
        "operations": ops,
        "samples": [vlib.trim({"scheme": c["scheme"], "kind": c["kind"], "steps": c.get("steps", [])[:6]}) for c in vlib.sample(cases, 2)],
        "exhaustive": False,
        "exhaustive_part": "laws over all key terms of the bounded depth on the specification; structured sequence covers every (signing key, blind, context) of the pools",
    }, [
        "hash-to-field, group operations and ECDSA itself are uninterpreted in TLA+; blinded keys are compared with the harness's own RFC 9380 XMD + crypto/elliptic computation",
        "'blind-key bytes' are the big-endian integer bytes of the blind key's scalar; blind keys include a leading-zero encoding, an encoding >= N and scalar one",
        "a wrong verdict 'signature verifies under another key' has probability 2^-100; distinct terms colliding in bytes likewise",
    ])


def replay(ctx, path):
    if vlib.json.load(open(path)).get("family") == "ages":
        return ag.replay(ctx, path)
    return ctx.replay_case(path, "keyblind", "Trace_KeyBlind")
