"""C17 - issuers, verifiers and keys can be shared between goroutines.

M: Concurrency.tla: operations as sequences of accesses to shared cells (the
   lazily cached VOPRF public key with its check-then-write pair, tables behind
   sync.Once, immutable key material), happens-before by goroutine creation and
   once. TLC explores all interleavings: NoRace and Linearizable hold for the
   intended design (constructors force the public key), and the lazy variant
   violates NoRace (negative control = the defect found in the code).
X: every program TLC generates (2 goroutines x 2 operations, thorough 3 x 2,
   per object kind: type 1/2/3/5 issuers, the generic batch issuer, an ECDSA
   key, an Ed25519 key) runs on real goroutines released by a barrier on a
   freshly constructed object, in a harness built with -race; race-detector
   reports and result-vs-sequential comparisons are recorded.
V: Trace_Concurrency requires no race report and sequential results for every program."""
import os

import vlib

KINDS = ["t1issuer", "t5issuer", "t2issuer", "t3issuer", "batch", "eckey", "edkey", "edfirst", "ecfirst", "t2raw", "t3raw", "t1odd", "t1warm", "batchcollide", "t1long", "eczero"]
# "edfirst"/"ecfirst": the same programs as edkey/eckey, each in a process of its own where the program's concurrent
# calls are the first use of the package (lazy package-level tables behind sync.Once are initialised by racing goroutines)
# "t1odd": the type-1 issuer programs with requests whose element is in uncompressed form (refused - concurrently too)
# "t1warm": the type-1 programs on an issuer whose key object had its public key computed (and another issuer built from it) before
# "t1long": the type-1 programs in long use (every call 40 times, bursts of quickly refused calls between them)
# "eczero": the eckey programs with a blind key whose scalar begins with a zero byte, every call 40 times
# "batchcollide": the batch programs with two type-1 issuers whose key ids end in the same byte (the first configured answers)
# "t2raw"/"t3raw": the issuer programs on an issuer whose RSA key was assembled from its components (nothing precomputed)
GEN_CFG = {"edfirst": "edkey", "ecfirst": "eckey", "t2raw": "t2issuer", "t3raw": "t3issuer", "t1odd": "t1issuer", "t1warm": "t1issuer", "batchcollide": "batch", "t1long": "t1issuer", "eczero": "eckey"}


def describe(e, case):
    return "concurrent program rejected by Concurrency.tla: failed %s; kind=%s program=%s races=%s results_ok=%s detail=%s panic=%r race=%s" % (
        e["_why"], e.get("kind"), e.get("prog"), e.get("races"), e.get("results_ok"), e.get("detail"), e.get("panic"),
        " | ".join((e.get("race_text") or "").splitlines()[:14]))


def key(e, case):
    # the function names of the racing accesses identify the race
    fns = sorted(set(vlib.re.findall(r"^\s+([\w./()*\-]+)\(\)$", e.get("race_text") or "", flags=vlib.re.M)))[:6]
    return "concurrency %s %s %s" % (e.get("kind"), e["_why"], " ".join(fns))


def parse_prog(text):
    # TLC prints the function as ("g1" :> <<...>> @@ "g2" :> <<...>>) or as a record-like tuple
    progs = vlib.re.findall(r'"g\d+" :> <<([^>]*)>>', text)
    return [[x.strip().strip('"') for x in p.split(",") if x.strip()] for p in progs]


def run(ctx):
    ctx.prove("ConcurrencyProofs")   # TLAPS: NoRace and Linearizable for ANY number of goroutines / operations (eager design)
    ctx.model_check("Concurrency", "MC_Conc_voprf.cfg", workers=8)
    ctx.model_check("Concurrency", "MC_Conc_keys.cfg", workers=8)
    ctx.model_check("Concurrency", "MC_Conc_voprf_lazy.cfg", workers=4, expect_violation="Invariant NoRace is violated")
    if ctx.thorough:
        ctx.model_check("Concurrency", "MC_Conc_voprf_thorough.cfg", workers=16)
    beh, seen = [], set()
    for k in KINDS:
        ov = {"Procs": '{"g1", "g2", "g3"}'} if (ctx.thorough and k in ("t1issuer", "t5issuer")) or k in ("batch", "batchcollide") else None
        for b in ctx.generate("Gen_Conc", cfg="Gen_Conc_%s.cfg" % GEN_CFG.get(k, k), workers=1, overrides=ov):
            prog = [b[g] for g in sorted(b)]
            sig = (k, tuple(sorted(tuple(p) for p in prog)))     # goroutines are interchangeable
            if prog and sig not in seen:
                seen.add(sig)
                beh.append({"kind": k, "prog": prog})
    bpath = os.path.join(ctx.scratch, "conc-behaviours.json")
    vlib.json.dump(beh, open(bpath, "w"))
    racebin = ctx.build_harness(race=True)
    ctx.harness_bin = racebin
    racelog = os.path.join(ctx.scratch, "race")
    env = {"VERIF_CONC_BEHAVIOURS": bpath, "VERIF_RACE_LOG": racelog,
           "GORACE": "log_path=%s halt_on_error=0 exitcode=0 history_size=4" % racelog}
    n, files, cases = ctx.record_and_validate("concurrency", "Trace_Concurrency", describe=describe, key=key, env=env, parts=min(vlib.NCPU, 16))
    kinds = {}
    for c in cases:
        kinds[c["kind"]] = kinds.get(c["kind"], 0) + 1
    return ctx.finish({
        "traces_validated_against_impl": n,
        "evaluations": sum(len(c["prog"]) * len(c["prog"][0]) * c.get("reps", 1) for c in cases),
        "distinct_nontrivial": len({vlib.json.dumps([c["kind"], c["prog"]]) for c in cases}),
        "rule": "a case is one program (an assignment of operation sequences to goroutines) on one freshly constructed shared object, "
                "executed `reps` times under the race detector; evaluations = concurrent API calls; distinct = distinct programs "
                "up to renaming of goroutines",
        "programs_by_kind": kinds,
        "samples": vlib.sample(cases, 4),
        "exhaustive": True,
        "exhaustive_part": "all programs of %s goroutines x 2 operations over each object kind's operation alphabet; all interleavings of the access-level model" % ("2-3" if ctx.thorough else "2"),
    }, [
        "interleavings are controlled at call granularity (goroutines released together); inside a call the race detector's happens-before "
        "analysis stands in for enumeration: it reports unsynchronised conflicting accesses whenever both occur in a run",
        "no hook can be placed inside circl (a dependency); its lazily cached public key is observed through race reports",
    ])


def replay(ctx, path):
    obj = vlib.json.load(open(path))
    racebin = ctx.build_harness(race=True)
    ctx.harness_bin = racebin
    racelog = os.path.join(ctx.scratch, "race")
    os.environ["VERIF_RACE_LOG"] = racelog
    os.environ["GORACE"] = "log_path=%s halt_on_error=0 exitcode=0 history_size=4" % racelog
    os.environ["VERIF_CONC_BEHAVIOURS"] = ""
    return ctx.replay_case(path, "concurrency", "Trace_Concurrency")
