"""C18 - token keys encode canonically and key identifiers are derived from them.

M: DER.tla (TLV writer/reader, both SubjectPublicKeyInfo forms, the RFC 9578
   RSASSA-PSS AlgorithmIdentifier written out byte for byte); MC_DER checks
   ParseInverts / SelfDelimiting exhaustively for short moduli over a boundary
   alphabet and long moduli across the DER length-form boundaries.
V: Trace_Keys validates recorded Marshal/Unmarshal results for seeded moduli of
   every byte length 1..520 and the key-id derivations of issuers of every type
   (SHA-256 supplied by the harness next to the logged bytes)."""
import vlib
from checks import ages_common as ag
from checks import c04


def describe(e, case):
    return "token key / key id event rejected by DER.tla / Trace_Keys: %s; case %s" % (e["_why"], vlib.json.dumps(c04.short(case))[:300])


def run(ctx):
    ctx.model_check("MC_DER", ctx.pick("MC_DER.cfg", "MC_DER_thorough.cfg"), workers=8)
    ctx.build_harness()
    n, files, cases = ctx.record_and_validate("keys", "Trace_Keys", describe=describe, key=lambda e, c: "keys " + e["_why"], shards=4)
    kinds = {}
    for c in cases:
        k = c["op"] + ("/" + c["kind"] if "kind" in c else "")
        kinds[k] = kinds.get(k, 0) + 1
    an, acases = ag.run(ctx, ['keyid', 'rekey'])   # Ages.tla: every schedule of phases on one long-lived object, each phase scaled to n operations
    return ctx.finish({
        **ag.coverage(an, acases),
        "traces_validated_against_impl": n,
        "evaluations": len(cases),
        "distinct_nontrivial": len({vlib.json.dumps(c, sort_keys=True) for c in cases}),
        "rule": "Spki case = one (modulus, exponent): both Marshal forms and Unmarshal of each, compared with the DER that TLC "
                "builds; KeyId case = one issuer + one request created for it; distinct = distinct inputs",
        "cases_by_kind": kinds,
        "samples": [c04.short(c) for c in vlib.sample(cases, 4)],
        "exhaustive": False,
        "exhaustive_part": "modulus byte lengths 1..520 all covered (values seeded); DER laws exhaustive on the spec domain",
    }, [
        "SHA-256 is computed by the harness with crypto/sha256 over the logged bytes; TLC states which value equals which digest",
        "the RSASSA-PSS AlgorithmIdentifier constant in DER.tla is transcribed from RFC 9578 (confirmed against the Rust vectors' pkS prefix)",
    ])


def replay(ctx, path):
    if vlib.json.load(open(path)).get("family") == "ages":
        return ag.replay(ctx, path)
    return ctx.replay_case(path, "keys", "Trace_Keys")
