"""Shared by C13 (ECDSA fork) and C14 (Ed25519 fork): SigForks.tla, Entropy.tla."""
import vlib
from checks import c04


def describe(e, case):
    info = {k: e.get(k) for k in ("op", "curve", "cls", "kind", "fn", "avail", "chunk", "err_with_data", "errkind", "need", "coin", "outcome",
                                  "nil_out", "valid_out", "valid", "fork", "std", "ok", "same", "verifies", "msglen", "same_outcome",
                                  "same_consumed", "same_keys", "same_error", "consumed", "rneg", "sneg", "panic") if k in e}
    for k in ("r", "s", "sig", "A", "seed"):
        if k in e:
            info[k + "_hex"] = bytes(e[k]).hex()[:140]
    return "event rejected by SigForks.tla / Entropy.tla: failed %s; event %s" % (e["_why"], vlib.json.dumps(info))


def run(ctx, arg):
    ctx.build_harness()
    n, files, cases = ctx.record_and_validate("sigforks", "Trace_SigForks", describe=describe, extra=["-arg", arg],
                                               key=lambda e, c: "sigforks %s %s %s" % (e.get("op"), e.get("curve", ""), e["_why"]))
    kinds = {}
    for c in cases:
        k = c["op"] + ("/" + c["curve"] if "curve" in c else "")
        kinds[k] = kinds.get(k, 0) + 1
    return n, cases, kinds
