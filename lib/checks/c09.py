"""C09 - attester origin bookkeeping stays one-to-one over every request history.

M: Attester.tla (implementation-shaped: two maps written in the code's order)
   checked on its complete state graph: FunctionalBinding, StateIsLog,
   NoSpuriousReject, UnverifiedRefused, RepeatAndFreshAccepted, RejectKeepsBindings.
R: every behaviour up to the depth (Gen_Attester) is executed on a real
   RateLimitedAttester with a recording cache;
V: those and long seeded random histories over a larger world are validated by
   Trace_Attester (verdict of every call, registered clients, and a snapshot of
   every client's clientIndices after every step)."""
import vlib
from checks import attester_common as ac


def run(ctx):
    ctx.prove("AttesterProofs")   # unbounded (TLAPS) versions of the model-level invariants TLC checks below
    n, cases, kinds, steps, nbeh = ac.run(ctx, "Trace_Attester_C09.cfg", ["tlc", "random"], ctx.pick(3, 4))
    return ctx.finish({
        "traces_validated_against_impl": len(cases),
        "events_validated": n,
        "evaluations": steps,
        "distinct_nontrivial": len({vlib.json.dumps(c["steps"], sort_keys=True) for c in cases}),
        "rule": "a case is one history of VerifyRequest/FinalizeIndex calls on a fresh attester: all TLC behaviours of the stated "
                "depth (2 clients, 3 origins of which two share an index key, 2 anon IDs, 4 request classes) and seeded random "
                "histories of 30-70 steps over 2-8 clients, 6 origins, 5 anon IDs; distinct = distinct step sequences; evaluations = steps",
        "histories_by_kind": kinds,
        "tlc_behaviours": nbeh,
        "samples": [ac.short(c) for c in vlib.sample(cases, 3)],
        "exhaustive": True,
        "exhaustive_part": "all call sequences of length %d over the generator alphabet; complete state graph on the specification" % ctx.pick(3, 4),
    }, [
        "issuer-side blinding in cheap steps uses the library's BlindPublicKeyWithContext (checked against the independent reference in every step); every 50th TLC behaviour and every 10th random history run full issuance",
        "request classes are constructed by the harness (what it corrupted) and the specification predicts the verdict from the class",
    ])


def replay(ctx, path):
    return ctx.replay_case(path, "attester", "Trace_Attester", cfg="Trace_Attester_C09.cfg")
