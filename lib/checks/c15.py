"""C15 - Ed25519 key blinding yields ordinary, invertible, context-bound Ed25519 keys.

M: KeyBlind.tla (Deterministic = TRUE): the blinding laws plus SignDeterministic.
V: structured and seeded random operation sequences on real Ed25519 keys;
   Trace_KeyBlind requires logged key equalities = normal-form equalities,
   crypto/ed25519.Verify and the fork's Verify = the specification's verdict,
   blind-key signatures deterministic (one identifier per signature term), and
   every blinded key = SHA-512(blind || 00 || ctx)[0:32] mod L times the key,
   computed by a math/big Edwards-curve reference."""
import vlib
from checks import keyblind_common as kc


def run(ctx):
    ctx.prove("KeyBlindProofs")   # unbounded (TLAPS) versions of the model-level invariants TLC checks below
    n, cases, ops, nops = kc.run(ctx, "ed25519", "MC_KeyBlind_ed")
    return ctx.finish({
        "traces_validated_against_impl": len(cases),
        "events_validated": n,
        "evaluations": nops,
        "distinct_nontrivial": len({vlib.json.dumps(s, sort_keys=True) for c in cases for s in c.get("steps", [c])}),
        "rule": "evaluations = key-blinding operations executed on real Ed25519 keys; distinct = distinct (operation, arguments)",
        "operations": ops,
        "samples": [vlib.trim({"scheme": c["scheme"], "kind": c["kind"], "steps": c.get("steps", [])[:6]}) for c in vlib.sample(cases, 2)],
        "exhaustive": False,
    }, [
        "SHA-512, scalar and point arithmetic are uninterpreted in TLA+; blinded keys are compared with a math/big Edwards reference (own point decoding, affine addition, double-and-add)",
        "blinds include all-0xff, leading-zero and scalar-one byte strings; contexts include empty and 320 bytes; messages include empty and 128 bytes",
    ])


def replay(ctx, path):
    return ctx.replay_case(path, "keyblind", "Trace_KeyBlind")
