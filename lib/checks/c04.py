"""C04 - wire codecs round-trip, re-encode stably and keep request types apart.

M: Messages.tla (grammar of every wire structure) checked exhaustively by
   MC_Messages at scaled-down widths: RoundTrip, CanonicalNoLonger, TypesApart,
   StepEqualsElementLength, Total. ObjectReuse.tla: MarshalIsCurrent over the
   complete state graph; the stale-cache variant is a negative control.
R: Gen_Reuse emits every Marshal/Unmarshal sequence up to the depth; each is
   executed on every request type of the real library.
V: Trace_Codec validates all recorded decoder / encoder / reuse events at the
   real widths: TLC itself decodes each logged input and re-encodes each logged
   value with Messages.tla."""
import os

import vlib
from checks import ages_common as ag

VAC = ["NA_t1req", "NA_t2req", "NA_t3req", "NA_t5req", "NA_inner", "NA_challenge", "NA_token2",
       "NA_batchreq", "NA_batchresp", "NA_batch2", "NA_resp2", "NA_t5two"]


def short(case):
    c = dict(case)
    return vlib.trim(c, 24)


def describe(e, case):
    return "wire codec event rejected by Messages.tla: %s; failed obligations %s; case %s" % (
        e.get("op", "") + "/" + e.get("m", ""), e["_why"], vlib.json.dumps(short(case))[:400])


def key(e, case):
    return "wire %s" % e["_why"]


def spec_side(ctx):
    ctx.model_check("MC_Messages", ctx.pick("MC_Messages.cfg", "MC_Messages_thorough.cfg"), workers=6)
    ctx.model_check("ObjectReuse", "MC_Reuse.cfg", workers=1)
    ctx.model_check("ObjectReuse", "MC_Reuse_stale.cfg", workers=1, expect_violation="Invariant MarshalIsCurrent is violated")
    if ctx.thorough:
        d = ctx._specdir("vac")
        tmpl = open(os.path.join(vlib.SPEC, "MC_Messages_vacuity.cfg.tmpl")).read()
        for inv in VAC:
            open(os.path.join(d, "vac_%s.cfg" % inv), "w").write(tmpl.replace("@INV@", inv))
            r = ctx.tlc("MC_Messages", "vac_%s.cfg" % inv, workers=6, cwd=d)
            if "is violated" not in r["out"]:
                raise vlib.Infra("vacuity control %s: no input reaches that case in MC_Messages" % inv)
        ctx.notes.append("vacuity controls passed: every decoder accepts some enumerated input, incl. multi-element lists")


def run(ctx):
    ctx.prove("ObjectReuseProofs")   # TLAPS: MarshalIsCurrent after ANY call sequence on one object (intended design)
    spec_side(ctx)
    beh = ctx.generate("Gen_Reuse", overrides={"Depth": ctx.pick(4, 5)}, raw=True)
    bpath = os.path.join(ctx.scratch, "reuse-behaviours.txt")
    open(bpath, "w").write("\n".join(beh) + "\n")
    ctx.build_harness()
    n, files, cases = ctx.record_and_validate("wire", "Trace_Codec", describe=describe, key=key,
                                               cfg="Trace_Codec.cfg", env={"VERIF_REUSE_BEHAVIOURS": bpath})
    ops = {}
    for c in cases:
        k = c["op"] + "/" + c["m"]
        ops[k] = ops.get(k, 0) + 1
    distinct = len({vlib.json.dumps(c, sort_keys=True) for c in cases})
    an, acases = ag.run(ctx, ['codec-t1', 'codec-t5', 'codecgap-t1', 'codecgap-t5'])   # Ages.tla: every schedule of phases on one long-lived object, each phase scaled to n operations
    return ctx.finish({
        **ag.coverage(an, acases),
        "traces_validated_against_impl": n,
        "evaluations": len(cases),
        "distinct_nontrivial": distinct,
        "rule": "a case is one decoder call (honest message, grammar-derived mutation, foreign-type message, Rust vector, "
                "random string), one encoder call on a seeded well-formed value, or one TLC-generated reuse behaviour on one "
                "request type; distinct = distinct case inputs; all are non-trivial: TLC recomputes the verdict/value/encoding",
        "cases_by_kind": ops,
        "reuse_behaviours": len(beh),
        "samples": [short(c) for c in vlib.sample(cases, 4)],
        "exhaustive": False,
        "exhaustive_part": "grammar laws: all strings up to the configured length at scaled-down widths; reuse: all call sequences up to depth %d" % ctx.pick(4, 5),
    }, [
        "Messages.tla is the grammar of RFC 9578 / the rate-limit and batched-token drafts at the widths Ne=49, Nk=48/256/64",
        "values at real widths are sampled (seeded), not enumerated; TokenChallenge origin lists are compared through their comma-joined wire form",
        "EncapKey acceptance of non-honest keys depends on go-hpke (public key validity), so must-accept is asserted only for honestly generated keys",
    ])


def replay(ctx, path):
    if vlib.json.load(open(path)).get("family") == "ages":
        return ag.replay(ctx, path)
    return ctx.replay_case(path, "wire", "Trace_Codec", cfg="Trace_Codec.cfg")
