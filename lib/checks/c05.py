"""C05 - generic batch issuance keeps order and count and isolates failures.

M: Batch.tla (the per-slot fill loop as coded, list encoding/decoding, per-slot
   finalization): CountAndOrder, PresentIff, PresentFinalizes, Isolation over
   every configuration and request sequence; Completes (liveness).
R: Gen_Batch emits every (configuration, request sequence up to the length);
   each is executed on the real batch client / issuer / decoder / finalizers,
   with the batch request handed over directly and through Marshal/Unmarshal.
V: Trace_Batch compares the recorded slots with Batch.tla."""
import os

import vlib
from checks import ages_common as ag
from checks import verdicts_common as vc
from checks import c04


def describe(e, case):
    return "batch run rejected by Batch.tla: failed %s; cfg=%s kinds=%s wire=%s err=%r slots=%s" % (
        e["_why"], e.get("cfg"), e.get("kinds"), e.get("wire"), e.get("err"), vlib.json.dumps(e.get("slots"))[:300])


def run(ctx):
    ctx.prove("BatchProofs")   # TLAPS: count/order, slot isolation, present-iff-servable for batches of ANY length
    ctx.model_check("Batch", ctx.pick("MC_Batch.cfg", "MC_Batch_thorough.cfg"), workers=8)
    beh = ctx.generate("Gen_Batch", workers=1, overrides={"MaxLen": ctx.pick(3, 4)})
    bpath = os.path.join(ctx.scratch, "batch-behaviours.json")
    vlib.json.dump(beh, open(bpath, "w"))
    ctx.build_harness()
    n, files, cases = ctx.record_and_validate("batch", "Trace_Batch", describe=describe, env={"VERIF_BATCH_BEHAVIOURS": bpath},
                                               key=lambda e, c: "batch %s" % e["_why"])
    vn, vcases, vdepth = vc.run(ctx, ["batchissuer"])   # Verdicts.tla: ONE batch issuer object over every history of batches
    failing = sum(1 for c in cases if any(k in ("1unk", "1bad", "2unk", "2bad") for k in c["reqs"]) or c["cfg"] != "both")
    an, acases = ag.run(ctx, ['batchissuer', 'batchrot'])   # Ages.tla: every schedule of phases on one long-lived object, each phase scaled to n operations
    return ctx.finish({
        **ag.coverage(an, acases),
        "traces_validated_against_impl": n,
        "evaluations": len(cases),
        "distinct_nontrivial": len({vlib.json.dumps([c["cfg"], c["reqs"], c["wire"]]) for c in cases if len(c["reqs"]) > 0}),
        "rule": "a case is one batch run for one (configuration, request kinds, wire/direct); distinct = distinct such triples; "
                "%d of them contain a request that must come back absent" % failing,
        "tlc_behaviours": len(beh),
        **vc.coverage(vn, vcases, vdepth),
        "samples": [c04.short(c) for c in vlib.sample(cases, 4)],
        "exhaustive": True,
        "exhaustive_part": "all request sequences of length 1..%d over 6 kinds x 5 issuer configurations x {direct, over the wire}" % ctx.pick(3, 4),
    }, [
        "a failing issuer of a matching type and key id is a stub implementing the Issuer interface; unknown key ids are a byte that no configured issuer ends in",
        "token validity as in C01 (independent oracle)",
    ])


def replay(ctx, path):
    if vlib.json.load(open(path)).get("family") == "ages":
        return ag.replay(ctx, path)
    if vlib.json.load(open(path)).get("family") == "verdicts":
        return vc.replay(ctx, path)
    return ctx.replay_case(path, "batch", "Trace_Batch")
