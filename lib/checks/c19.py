"""C19 - QUIC varints and length-prefixed byte strings are exact and bounds-safe.

M: Varint.tla; MC_Varint checks the eight varint laws exhaustively on the
   specification (all values 0..MaxVal, all powers of two +-1, all inputs of
   length <= 2 over the full byte alphabet, boundary-alphabet inputs up to 9
   bytes, declared-length cases in every width).
V: the Go driver calls every quicwire function on exhaustive small domains,
   boundaries and seeded values; Trace_Varint recomputes every result."""
import vlib


def case_fields(e):
    keep = {"Val": ["op", "v", "prefix"], "In": ["op", "b"], "Bytes": ["op", "prefix", "s"]}
    return {k: e[k] for k in keep.get(e.get("op"), ["op"]) if k in e}


def describe(e):
    return "quicwire result differs from Varint.tla for %s" % vlib.json.dumps(case_fields(e))


def run(ctx):
    ctx.model_check("MC_Varint", ctx.pick("MC_Varint.cfg", "MC_Varint_thorough.cfg"))
    ctx.build_harness()
    n, files = ctx.record_and_validate("varint", "Trace_Varint", case_fields, describe)
    evs = vlib.read_events(files[:1], 4000)
    distinct = len({vlib.json.dumps(case_fields(e), sort_keys=True) for f in files for e in vlib.read_events([f])})
    return ctx.finish({
        "traces_validated_against_impl": n,
        "evaluations": n,
        "distinct_nontrivial": distinct,
        "rule": "one event = one value through AppendVarint/SizeVarint/ConsumeVarint(+Int64), or one input string "
                "through all five Consume* decoders, or one string through Append/Consume*Bytes; distinct = distinct "
                "(op, inputs); every event is non-trivial (its results are recomputed by Varint.tla)",
        "samples": [case_fields(e) for e in vlib.sample(evs, 4)],
        "exhaustive": False,
        "exhaustive_part": "values 0..%d and all 1-byte inputs exhaustively on the code; laws exhaustively on the spec domain" % (2**17 + 3 if ctx.thorough else 2**14 + 63),
    }, [
        "TLC evaluates Varint.tla correctly; values above 2^62-1 are outside the property (AppendVarint/SizeVarint panic by contract)",
        "values between the exhaustive range and 2^62-1 are covered by boundaries, powers of two +-1 and seeded samples, not exhaustively (TLC validates ~5k events/s)",
    ])


def replay(ctx, path):
    obj = vlib.json.load(open(path))
    ctx.build_harness()
    cases = vlib.os.path.join(ctx.scratch, "replay-cases.ndjson")
    with open(cases, "w") as fh:
        fh.write(vlib.json.dumps(obj["case"]) + "\n")
    f = ctx.record("varint", shards=1, infile=cases, tag="replay")
    n, rej = ctx.validate("Trace_Varint", f)
    if rej:
        print("VIOLATION property=%s replay=%s" % (ctx.prop, path))
        print("  " + describe(rej[0][2]))
        return 1
    print("replayed case is accepted by the specification on the current tree")
    return 0
