"""C19 - QUIC varints and length-prefixed byte strings are exact and bounds-safe.

M: Varint.tla; MC_Varint checks the eight varint laws exhaustively on the
   specification (all values 0..MaxVal, all powers of two +-1, all inputs of
   length <= 2 over the full byte alphabet, boundary-alphabet inputs up to 9
   bytes, declared-length cases in every width).
V: the Go driver calls every quicwire function on exhaustive small domains,
   boundaries and seeded values; Trace_Varint recomputes every result."""
import vlib
from checks import ages_common as ag


def case_fields(e):
    keep = {"Val": ["op", "v", "prefix"], "In": ["op", "b"], "Bytes": ["op", "prefix", "s"]}
    return {k: e[k] for k in keep.get(e.get("op"), ["op"]) if k in e}


def describe(e):
    return "quicwire result differs from Varint.tla for %s" % vlib.json.dumps(case_fields(e))


def run(ctx):
    ctx.model_check("MC_Varint", ctx.pick("MC_Varint.cfg", "MC_Varint_thorough.cfg"))
    ctx.build_harness()
    n, files, cases = ctx.record_and_validate("varint", "Trace_Varint",
                                               describe=lambda e, c: "quicwire result differs from Varint.tla for %s" % vlib.json.dumps(c))
    distinct = len({vlib.json.dumps(c, sort_keys=True) for c in cases})
    an, acases = ag.run(ctx, ['varint'])   # Ages.tla: every schedule of phases on one long-lived object, each phase scaled to n operations
    return ctx.finish({
        **ag.coverage(an, acases),
        "traces_validated_against_impl": n,
        "evaluations": n,
        "distinct_nontrivial": distinct,
        "rule": "one event = one value through AppendVarint/SizeVarint/ConsumeVarint(+Int64), or one input string "
                "through all five Consume* decoders, or one string through Append/Consume*Bytes; distinct = distinct "
                "(op, inputs); every event is non-trivial (its results are recomputed by Varint.tla)",
        "samples": vlib.sample(cases, 4),
        "exhaustive": False,
        "exhaustive_part": "values 0..%d and all 1-byte inputs exhaustively on the code; laws exhaustively on the spec domain" % (2**17 + 3 if ctx.thorough else 2**14 + 63),
    }, [
        "TLC evaluates Varint.tla correctly; values above 2^62-1 are outside the property (AppendVarint/SizeVarint panic by contract)",
        "values between the exhaustive range and 2^62-1 are covered by boundaries, powers of two +-1 and seeded samples, not exhaustively (TLC validates ~5k events/s)",
    ])


def replay(ctx, path):
    if vlib.json.load(open(path)).get("family") == "ages":
        return ag.replay(ctx, path)
    return ctx.replay_case(path, "varint", "Trace_Varint")
