"""Shared by C06, C08, C09: the attester family (Attester.tla)."""
import os

import vlib
from checks import c04


def describe(e, case):
    info = {k: e.get(k) for k in ("op", "c", "o", "a", "class", "variant", "bit", "ok", "err", "idx", "ref_ok", "brk_ref_ok", "puts", "registered") if k in e}
    return "attester event rejected by Attester.tla: failed %s; event %s; history kind %s (%d steps)" % (
        e["_why"], vlib.json.dumps(info), case.get("kind"), len(case.get("steps", [])))


def run(ctx, prop_cfg, groups, gen_depth, mc=True):
    if mc:
        ctx.model_check("MC_Attester", ctx.pick("MC_Attester.cfg", "MC_Attester_thorough.cfg"))
    env = {}
    beh = []
    if "tlc" in groups:
        beh = ctx.generate("Gen_Attester", workers=8, overrides={"Depth": gen_depth}, raw=True)
        bpath = os.path.join(ctx.scratch, "attester-behaviours.txt")
        open(bpath, "w").write("\n".join(beh) + "\n")
        env["VERIF_ATTESTER_BEHAVIOURS"] = bpath
    ctx.build_harness()
    n, files, cases = ctx.record_and_validate("attester", "Trace_Attester", describe=describe, cfg=prop_cfg, env=env,
                                               key=lambda e, c: "attester %s %s" % (e.get("op"), e["_why"]),
                                               extra=["-arg", ",".join(groups)])
    kinds = {}
    steps = 0
    for c in cases:
        kinds[c["kind"]] = kinds.get(c["kind"], 0) + 1
        steps += len(c["steps"])
    return n, cases, kinds, steps, len(beh)


def short(c):
    return c04.short(c)
