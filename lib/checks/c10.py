"""C10 - issuer-side token verification accepts exactly the tokens it issued.

M: Issuance.tla: VerifyExact (a VOPRF token verifies under key k iff it was
   issued under k) over all runs of the model.
V: Verify of honest tokens of types 1 and 5 and of altered ones: each bit of
   each field (quick: one seeded bit per byte), the type field, another key,
   the other token type, field-length shifts that keep the concatenation,
   short/long/empty fields, authenticator prefixes. Trace_Issuance requires
   verdict = the independent FullEvaluate comparison over the concatenated
   bytes, honest accepted, listed alterations rejected."""
import vlib
from checks import ages_common as ag
from checks import verdicts_common as vc
from checks import issuance_common as ic


def run(ctx):
    if ctx.thorough:
        ctx.prove("IssuanceProofs")   # unbounded (TLAPS): accepted => honest content under the pinned key; tokens ignore the blind; verify-exact
    for t in (1, 5):
        ctx.model_check("MC_Issuance", ctx.pick("MC_Issuance_t%d.cfg" % t, "MC_Issuance_t%d_thorough.cfg" % t))
    n, cases, kinds = ic.run(ctx, "C10", ["verify"])
    vn, vcases, vdepth = vc.run(ctx, ['t1verify', 't5verify'])   # Verdicts.tla: every history of presentations on one long-lived object
    an, acases = ag.run(ctx, ['t1verify', 't5verify', 'rekey'])   # Ages.tla: every schedule of phases on one long-lived object, each phase scaled to n operations
    return ctx.finish({
        **ag.coverage(an, acases),
        "traces_validated_against_impl": n,
        "evaluations": len(cases),
        "distinct_nontrivial": ic.distinct(cases),
        "rule": "a case is one Verify call on one (possibly altered) token; distinct = distinct (type, alteration)",
        "calls_by_kind": kinds,
        **vc.coverage(vn, vcases, vdepth),
        "samples": [ic.short(c) for c in vlib.sample(cases, 4)],
        "exhaustive": ctx.thorough,
        "exhaustive_part": "every bit of every token field" if ctx.thorough else "one seeded bit per byte of every field, every bit of the type field",
    }, [
        "the reference verdict is circl's FullEvaluate over type || nonce || context || key id concatenated by the harness, compared byte for byte",
    ])


def replay(ctx, path):
    if vlib.json.load(open(path)).get("family") == "ages":
        return ag.replay(ctx, path)
    if vlib.json.load(open(path)).get("family") == "verdicts":
        return vc.replay(ctx, path)
    return ctx.replay_case(path, "issuance", "Trace_Issuance", cfg="Trace_Issuance_C10.cfg")
