"""C08 - the anonymous issuer origin ID is stable per client and origin, and nothing else.

M: Algebra.tla + Attester.tla: IndexStable (the ID term does not mention the
   request blind) and IndexInjective (equal IDs iff same client and same index key).
V: histories with full issuance (fresh blind, nonce, challenge every time) and
   random histories; every returned ID is interned (equal bytes <=> equal name)
   and Trace_Attester requires the interning to coincide with the specification's
   terms, every ID to equal the harness's independent HKDF-SHA-384 / XMD /
   crypto/elliptic reference, and the issuer's returned key to equal the
   reference issuer-blinded key."""
import vlib
from checks import neighbours_common as nb
from checks import ages_common as ag
from checks import verdicts_common as vc
from checks import attester_common as ac


def run(ctx):
    if ctx.thorough:
        ctx.prove("AttesterProofs")   # unbounded (TLAPS) versions of the model-level invariants TLC checks below
    n, cases, kinds, steps, nbeh = ac.run(ctx, "Trace_Attester_C08.cfg", ["index", "random"], 0)
    # Verdicts.tla: every history of honest and refused requests on one long-lived issuer; an answer is sound only if the
    # issuer-blinded request key is the reference's for THAT request (the value the origin ID is derived from)
    vn, vcases, vdepth = vc.run(ctx, ["t3issue"])
    ids = sum(1 for c in cases for s in c["steps"] if s.get("k") == "F")
    an, acases = ag.run(ctx, ['rlissuer'])   # Ages.tla: every schedule of phases on one long-lived object, each phase scaled to n operations
    nn, ncases = nb.run(ctx)   # Neighbours.tla: every history of registrations, look-ups and requests on two issuers side by side
    return ctx.finish({
        **nb.coverage(nn, ncases),
        **ag.coverage(an, acases),
        "traces_validated_against_impl": len(cases),
        "events_validated": n,
        "evaluations": ids,
        "distinct_nontrivial": len({vlib.json.dumps(c["steps"], sort_keys=True) for c in cases}),
        "rule": "evaluations = FinalizeIndex calls, each with a fresh random request blind; the index-stability history repeats "
                "every (client, origin) pair with fresh blind/nonce/challenge through full issuance; distinct = distinct histories",
        "histories_by_kind": kinds,
        **vc.coverage(vn, vcases, vdepth),
        "samples": [ac.short(c) for c in vlib.sample(cases, 2)],
        "exhaustive": False,
    }, [
        "HKDF, XMD hash-to-field and P-384 multiplication are uninterpreted in TLA+; their concrete correctness enters through the harness's independent reference (own RFC 5869 / RFC 9380 code, crypto/elliptic)",
        "'blind-key bytes' in the blinding factor are the big-endian integer bytes of the key (the API takes keys as integers)",
        "distinctness of IDs of distinct clients / index keys holds up to collisions of probability 2^-190",
    ])


def replay(ctx, path):
    if vlib.json.load(open(path)).get("family") == "neighbours":
        return nb.replay(ctx, path)
    if vlib.json.load(open(path)).get("family") == "ages":
        return ag.replay(ctx, path)
    if vlib.json.load(open(path)).get("family") == "verdicts":
        return vc.replay(ctx, path)
    return ctx.replay_case(path, "attester", "Trace_Attester", cfg="Trace_Attester_C08.cfg")
