"""C02 - a client only ever outputs tokens that verify and belong to its own request.

M: Issuance.tla with the attacker: OnlyGoodTokens, ListedMutationsRejected,
   ForeignKeyRejected over all attacker choices (two requests, two keys, batch 2).
V: runs with one mutation applied to the response: every listed one (each bit
   of each response field, foreign key, foreign request, drop/dup/swap/permute,
   element of another batch) and unlisted ones (truncate, extend, random).
   TLC rebuilds the symbolic run, applies the mutation and requires the
   library's verdict to equal FinalizeCheck; any token output must pass the
   independent oracle and carry the request's nonce, digest and key id."""
import vlib
from checks import ages_common as ag
from checks import verdicts_common as vc
from checks import issuance_common as ic


def run(ctx):
    ctx.prove("IssuanceProofs")   # unbounded (TLAPS): accepted => honest content under the pinned key; tokens ignore the blind; verify-exact
    ic.model_check(ctx)
    n, cases, kinds = ic.run(ctx, "C02", ["mutations"])
    vn, vcases, vdepth = vc.run(ctx, ["t1final", "t2final", "t5final", "t3final"])   # Verdicts.tla: one request state finalizing every history of responses
    rejecting = sum(v for k, v in kinds.items() if not k.endswith("/Id"))
    an, acases = ag.run(ctx, ['t1final', 't5final', 't3held'])   # Ages.tla: every schedule of phases on one long-lived object, each phase scaled to n operations
    return ctx.finish({
        **ag.coverage(an, acases),
        "traces_validated_against_impl": n,
        "evaluations": len(cases),
        "distinct_nontrivial": ic.distinct(cases),
        "rule": "a case is one run with one mutation of the response; distinct = distinct (type, batch size, mutation incl. field and bit)",
        "runs_by_kind": kinds,
        **vc.coverage(vn, vcases, vdepth),
        "mutated_runs": rejecting,
        "samples": [ic.short(c) for c in vlib.sample(cases, 4)],
        "exhaustive": ctx.thorough,
        "exhaustive_part": ("every bit of every response field" if ctx.thorough else "every bit of proofs / nonces / length fields, one seeded bit per byte elsewhere") + "; all permutations of batches up to %d" % ctx.pick(4, 5),
    }, [
        "'all responses an attacker can send' is covered as the closure of the mutation alphabet plus random strings, not as all byte strings",
        "a type-3 response under a foreign key exists only for a request sealed to that issuer, so ForeignKey there is a foreign-issuer response to another request",
    ])


def replay(ctx, path):
    if vlib.json.load(open(path)).get("family") == "ages":
        return ag.replay(ctx, path)
    if vlib.json.load(open(path)).get("family") == "verdicts":
        return vc.replay(ctx, path)
    return ctx.replay_case(path, "issuance", "Trace_Issuance", cfg="Trace_Issuance_C02.cfg")
