"""C20 - origin names are recovered exactly; their length leaks only in 32-byte buckets.

M: OriginPad.tla (Pad, Unpad, Blocks, WireSize, the issuer's registered set);
   MC_OriginPad checks UnpadInvertsPad, PaddedLenLaw, WireSizeDependsOnBlocksOnly
   and NearMissRefused for every name length up to the bound over name patterns.
V: Trace_Origin validates recorded pad/unpad calls for every length and recorded
   issuer histories (look-alike origins registered, real requests evaluated):
   logged request size = WireSize(Blocks(len)), served iff registered."""
import vlib
from checks import neighbours_common as nb
from checks import ages_common as ag
from checks import verdicts_common as vc
from checks import c04


def describe(e, case):
    return "origin event rejected by OriginPad.tla: %s %s; name length %s" % (e.get("op"), e["_why"], len(e.get("name", [])))


def run(ctx):
    ctx.model_check("MC_OriginPad", ctx.pick("MC_OriginPad.cfg", "MC_OriginPad_thorough.cfg"))
    ctx.build_harness()
    n, files, cases = ctx.record_and_validate("origin", "Trace_Origin", describe=describe, key=lambda e, c: "origin %s %s" % (e.get("op"), e["_why"]))
    vn, vcases, vdepth = vc.run(ctx, ["rlorigins"])   # Verdicts.tla: one issuer, every history of requests for look-alike names
    hist = [c for c in cases if c["op"] == "Hist"]
    an, acases = ag.run(ctx, ['rlmany', 'rlrare'])   # Ages.tla: every schedule of phases on one long-lived object, each phase scaled to n operations
    nn, ncases = nb.run(ctx)   # Neighbours.tla: every history of registrations, look-ups and requests on two issuers side by side
    return ctx.finish({
        **nb.coverage(nn, ncases),
        **ag.coverage(an, acases),
        "traces_validated_against_impl": len(hist),
        "events_validated": n,
        **vc.coverage(vn, vcases, vdepth),
        "evaluations": len(cases),
        "distinct_nontrivial": len({vlib.json.dumps(c, sort_keys=True) for c in cases}),
        "rule": "Pad case = one name (seeded, also with an inner / trailing NUL) through pad+unpad; Hist case = one issuer history: "
                "look-alike origins registered, a real request for the name evaluated (refused), the name registered, evaluated "
                "again (served), a look-alike evaluated (served); distinct = distinct inputs",
        "name_lengths": "0..%d" % (4100 if ctx.thorough else 130) + ("" if ctx.thorough else " and every multiple of 32 +-1 up to 4096"),
        "samples": [c04.short(c) for c in vlib.sample(cases, 3)],
        "exhaustive": False,
        "exhaustive_part": "every name length in the stated range (name bytes seeded)",
    }, [
        "WireSize in OriginPad.tla is computed from the type-3 request grammar (49-byte request key, 32-byte enc, 16-byte AEAD tag, 96-byte signature)",
        "names ending in a zero byte are outside the property and are not requested (they are registered as look-alikes)",
    ])


def replay(ctx, path):
    if vlib.json.load(open(path)).get("family") == "neighbours":
        return nb.replay(ctx, path)
    if vlib.json.load(open(path)).get("family") == "ages":
        return ag.replay(ctx, path)
    if vlib.json.load(open(path)).get("family") == "verdicts":
        return vc.replay(ctx, path)
    return ctx.replay_case(path, "origin", "Trace_Origin")
