"""C13 - the ECDSA fork accepts and produces exactly standard ECDSA.

M: SigForks.tla: the decision structure of verification (0 < r, s < N from the
   logged bytes against the curve orders; DER.tla's strict SEQUENCE{INTEGER,
   INTEGER}) with the curve equation uninterpreted; Entropy.tla: allowed
   outcomes of GenerateKey / Sign for every failure position of the reader
   (FailClosed, OutcomeAllowed, CoinOnlyMattersAtBoundary).
V: per curve: (r, s) class products (valid, 0, negative, N, +N, N-1, 1, huge,
   N-s) on real signatures; DER mutation closure, hand-made DER deviations and
   random strings; cross signing in both directions (raw, ASN.1, crypto.Signer,
   key-blinded, generated keys); every entropy script (failure position 0..need+2
   x chunking x error delivery x error kind) for the five consumers.
   Trace_SigForks requires fork = crypto/ecdsa everywhere, rejection when the
   structure says so, acceptance of valid ones, fail-closed entropy outcomes."""
import vlib
from checks import ages_common as ag
from checks import verdicts_common as vc
from checks import sigforks_common as sc


def run(ctx):
    ctx.model_check("Entropy", "MC_Entropy.cfg", workers=2)
    ctx.model_check("MC_DER", ctx.pick("MC_DER.cfg", "MC_DER_thorough.cfg"), workers=8)
    n, cases, kinds = sc.run(ctx, "ecdsa")
    vn, vcases, vdepth = vc.run(ctx, ['ecdsa'])   # Verdicts.tla: every history of presentations on one long-lived object
    an, acases = ag.run(ctx, ['ecdsa'])   # Ages.tla: every schedule of phases on one long-lived object, each phase scaled to n operations
    return ctx.finish({
        **ag.coverage(an, acases),
        "traces_validated_against_impl": n,
        "evaluations": len(cases),
        "distinct_nontrivial": len({vlib.json.dumps(c, sort_keys=True) for c in cases}),
        "rule": "a case is one verification of one (r, s) or DER string by both implementations, one cross-signing round, or one "
                "consumer on one reader script; distinct = distinct inputs",
        "cases_by_kind": kinds,
        **vc.coverage(vn, vcases, vdepth),
        "samples": [vlib.trim(c, 24) for c in vlib.sample(cases, 4)],
        "exhaustive": False,
        "exhaustive_part": "entropy scripts: every failure position x 3 chunkings x 2 error deliveries for 5 consumers x 4 curves",
    }, [
        "the verification equation is uninterpreted: arithmetic equivalence with crypto/ecdsa is exercised on the sampled inputs only",
        "MaybeReadByte's coin is not observable; at the boundary (exactly 32 bytes available) both outcomes are allowed",
    ])


def replay(ctx, path):
    if vlib.json.load(open(path)).get("family") == "ages":
        return ag.replay(ctx, path)
    if vlib.json.load(open(path)).get("family") == "verdicts":
        return vc.replay(ctx, path)
    return ctx.replay_case(path, "sigforks", "Trace_SigForks")
