"""C14 - the Ed25519 fork is bit-compatible with standard Ed25519.

M: SigForks.tla: the structural part of Ed25519 verification (64 bytes, top
   three bits clear, S < L computed by TLC from the logged bytes); Entropy.tla
   for GenerateKey.
V: key derivation and signing for seeded seeds / message lengths 0..2000
   compared byte for byte with crypto/ed25519; verification on the product of
   S classes (canonical, S+L, S+2L, L, L-1, 0, top bits) x R and A classes
   (honest, sign flipped, the eight small-order points, non-canonical y >= p
   encodings, x = 0 with sign bit, off-curve) plus bit flips and lengths;
   GenerateKey of both implementations on identical failing reader scripts.
   Trace_SigForks requires identical verdicts / bytes / reader consumption."""
import vlib
from checks import ages_common as ag
from checks import verdicts_common as vc
from checks import sigforks_common as sc


def run(ctx):
    ctx.model_check("Entropy", "MC_Entropy.cfg", workers=2)
    n, cases, kinds = sc.run(ctx, "ed25519")
    vn, vcases, vdepth = vc.run(ctx, ["ed25519"])   # Verdicts.tla: every history of presentations
    an, acases = ag.run(ctx, ['ed25519'])   # Ages.tla: every schedule of phases on one long-lived object, each phase scaled to n operations
    return ctx.finish({
        **ag.coverage(an, acases),
        "traces_validated_against_impl": n,
        "evaluations": len(cases),
        "distinct_nontrivial": len({vlib.json.dumps(c, sort_keys=True) for c in cases}),
        "rule": "a case is one seed through key derivation, one (seed, message) through signing, one (key bytes, signature bytes, "
                "message) through both verifiers, or one reader script through both GenerateKey; distinct = distinct inputs",
        "cases_by_kind": kinds,
        **vc.coverage(vn, vcases, vdepth),
        "samples": [vlib.trim(c, 24) for c in vlib.sample(cases, 4)],
        "exhaustive": False,
    }, [
        "NOT covered: the field / scalar / point arithmetic of the fork 'for all inputs incl. rare carry patterns' - a TLA+ "
        "specification cannot state 255-bit arithmetic; it is exercised only through the sampled seeds, messages and encodings",
        "the internal edwards25519 package cannot be imported from outside the module; only the public API is driven",
    ])


def replay(ctx, path):
    if vlib.json.load(open(path)).get("family") == "ages":
        return ag.replay(ctx, path)
    if vlib.json.load(open(path)).get("family") == "verdicts":
        return vc.replay(ctx, path)
    return ctx.replay_case(path, "sigforks", "Trace_SigForks")
