"""Shared by C12 (ECDSA) and C15 (Ed25519): the key-blinding family (KeyBlind.tla over Algebra.tla)."""
import vlib
from checks import c04


def describe(e, case):
    info = {k: e.get(k) for k in ("op", "in", "sk", "b", "ctx", "d", "out", "sig", "key", "ok", "ref_ok", "fork", "std", "panic") if k in e}
    return "key-blinding event rejected by KeyBlind.tla: failed %s; scheme %s; event %s" % (e["_why"], case.get("scheme"), vlib.json.dumps(info))


def run(ctx, scheme_arg, mc_cfg):
    ctx.model_check("KeyBlind", ctx.pick(mc_cfg + ".cfg", mc_cfg + "_thorough.cfg"))
    ctx.build_harness()
    n, files, cases = ctx.record_and_validate("keyblind", "Trace_KeyBlind", describe=describe, extra=["-arg", scheme_arg],
                                               key=lambda e, c: "keyblind %s %s %s" % (c.get("scheme"), e.get("op"), e["_why"]))
    ops = {}
    for c in cases:
        for s in c.get("steps", []):
            k = c["scheme"] + "/" + s["op"]
            ops[k] = ops.get(k, 0) + 1
    nops = sum(ops.values())
    return n, cases, ops, nops
