"""Shared by C06, C07, C10, C13, C14: verdicts over histories (Verdicts.tla).

M: Verdicts.tla: one long-lived verifier with a memo in front of its check; VerdictIsFunction (the verdict on a value
   is its authenticity, whatever was presented before) holds for the intended design and is violated by the named
   deviations (memo keyed by part of the value, value remembered before it passed, refusals remembered under a lossy
   key) - negative controls.
R: Gen_Verdicts emits EVERY history up to the depth over the kind's classes (honest values, their extensions /
   trimmed / shifted / flipped relatives, foreign values); each is replayed on one real object, every class standing
   for one concrete byte string per history.
V: Trace_Verdicts advances the specification's state by the intended decision and requires the recorded verdict to
   be that decision."""
import os

import vlib

NEG = [("MC_Verdicts_lossykey.cfg", "lossy-key"), ("MC_Verdicts_memobeforecheck.cfg", "memo-before-check"),
       ("MC_Verdicts_lossynegative.cfg", "lossy-negative")]


def describe(e, case):
    return "verdict rejected by Verdicts.tla: failed %s; kind=%s history=%s step=%s class=%s accepted=%s reference=%r panic=%r" % (
        e["_why"], case.get("kind"), case.get("hist"), e.get("i"), e.get("x"), e.get("ok"), e.get("ref"), e.get("panic"))


def key(e, case):
    return "verdicts %s %s %s" % (case.get("kind"), e.get("x"), e["_why"])


def run(ctx, kinds, depth=None):
    """Returns (events, cases). depth: history length (default 3 quick / 4 thorough)."""
    depth = depth or ctx.pick(3, 4)
    if ctx.thorough:
        ctx.prove("VerdictsProofs")   # TLAPS: VerdictIsFunction for any kind, any class table, histories of any length
    for k in kinds:
        q = '"%s"' % k
        ctx.model_check("Verdicts", "MC_Verdicts.cfg", workers=4, overrides={"Kind": q, "Depth": depth + 1})
        for cfg, dev in NEG:
            ctx.model_check("Verdicts", cfg, workers=1, overrides={"Kind": q}, expect_violation="Invariant VerdictIsFunction is violated")
    beh = []
    for k in kinds:
        for b in ctx.generate("Verdicts", cfg="Gen_Verdicts.cfg", workers=1, overrides={"Kind": '"%s"' % k, "Depth": depth}, raw=True):
            m = vlib.re.match(r'"(\w+)", <<(.*)>>', b, flags=vlib.re.S)
            if not m:
                raise vlib.Infra("unparsable behaviour of Gen_Verdicts: %r" % b)
            beh.append({"kind": m.group(1), "hist": [x.strip().strip('"') for x in m.group(2).split(",") if x.strip()]})
    bpath = os.path.join(ctx.scratch, "verdict-behaviours.json")
    vlib.json.dump(beh, open(bpath, "w"))
    ctx.build_harness()
    n, files, cases = ctx.record_and_validate("verdicts", "Trace_Verdicts", describe=describe, key=key,
                                               env={"VERIF_VERDICT_BEHAVIOURS": bpath})
    return n, cases, depth


def coverage(n, cases, depth):
    kinds = {}
    for c in cases:
        kinds[c["kind"]] = kinds.get(c["kind"], 0) + 1
    return {"verdict_histories": len(cases), "verdict_events": n, "verdict_history_depth": depth, "verdict_histories_by_kind": kinds,
            "verdict_histories_exhaustive": "every history of %d presentations over each kind's classes" % depth}


def replay(ctx, path):
    bpath = os.path.join(ctx.scratch, "verdict-behaviours.json")
    vlib.json.dump([], open(bpath, "w"))
    return ctx.replay_case(path, "verdicts", "Trace_Verdicts")
