"""C01 - honest issuance over the wire always yields a valid, correctly bound token.

M: Issuance.tla restricted to the honest network: HonestAccepted, OnlyGoodTokens
   (safety, MC_Issuance_t*), HonestCompletes under weak fairness (MCL_Issuance).
V: complete honest runs of all four types over the configuration space, every
   message crossing the wire as bytes; Trace_Issuance requires completion, the
   exact token layout (Messages.tla, with SHA-256 digests supplied next to the
   data) and validity under the issuer key (independent oracle)."""
import vlib
from checks import ages_common as ag
from checks import verdicts_common as vc
from checks import issuance_common as ic


def run(ctx):
    if ctx.thorough:
        ctx.prove("IssuanceProofs")   # unbounded (TLAPS): accepted => honest content under the pinned key; tokens ignore the blind; verify-exact
    ic.model_check(ctx, liveness=True)
    n, cases, kinds = ic.run(ctx, "C01", ["honest"])
    # Verdicts.tla: every history of honest and refused requests on ONE long-lived issuer (and one request object per issuer side)
    vn, vcases, vdepth = vc.run(ctx, ["t1issue", "t2issue", "t5issue", "t3issue"])
    an, acases = ag.run(ctx, ['t5issue', 'rlissuer'])   # Ages.tla: one type-5 issuer over tens of thousands of requests
    return ctx.finish({
        **ag.coverage(an, acases),
        "traces_validated_against_impl": n,
        "evaluations": len(cases),
        "distinct_nontrivial": ic.distinct(cases),
        "rule": "a case is one complete honest run (create, marshal, unmarshal by the issuer, evaluate, finalize, independent "
                "verification) for one (type, challenge length, batch size, origin length) with fresh keys' randomness; distinct = "
                "distinct configurations (repetitions with fresh randomness are counted once)",
        "runs_by_kind": kinds,
        **vc.coverage(vn, vcases, vdepth),
        "samples": [ic.short(c) for c in vlib.sample(cases, 4)],
        "exhaustive": False,
    }, [
        "token validity is decided outside the client: circl FullEvaluate + Issuer.Verify (types 1, 5), crypto/rsa.VerifyPSS (types 2, 3)",
        "RSA keys are 2048-bit keys from a pool of four; VOPRF keys are derived from the seed; nonces, challenges and blinds are sampled",
    ])


def replay(ctx, path):
    if vlib.json.load(open(path)).get("family") == "ages":
        return ag.replay(ctx, path)
    if vlib.json.load(open(path)).get("family") == "verdicts":
        return vc.replay(ctx, path)
    return ctx.replay_case(path, "issuance", "Trace_Issuance", cfg="Trace_Issuance_C01.cfg")
