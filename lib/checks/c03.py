"""C03 - no byte string from a peer can crash or exhaust a decoder or protocol step.

M: Messages.tla / TLSWire.tla define every decoder as a total function whose
   reads are guarded by length comparisons; MC_Messages checks `Total` (and the
   codec laws) over all short strings. The consumers behind the decoders are
   total functions into {ok, error} / {true, false} (Trace_Codec, Robust = TRUE).
V: two recorded traces, executed serially inside each of several harness
   processes so that per-call allocation can be measured: every wire decoder
   (family wire) and every other consumer of peer bytes (family robust) on
   honest inputs, the grammar-derived mutation closure and random strings.
   TLC requires of every event: no panic, returned within the time limit,
   allocation <= AllocBaseKiB + AllocPerByte*len(input), result in the
   function's result classes, grammar must-reject inputs rejected."""
import vlib
from checks import ages_common as ag
from checks import c04


def describe(e, case):
    what = e.get("fn") or e.get("m")
    return "%s on %d input bytes: panic=%r timeout=%s alloc=%sKiB res=%s; failed obligations %s" % (
        what, len(e.get("in", e.get("b", []))), e.get("panic"), e.get("timeout"), e.get("alloc_kib"),
        e.get("res", e.get("ok")), e["_why"])


def key(e, case):
    return "robust %s" % e["_why"]


def run(ctx):
    ctx.model_check("MC_Messages", ctx.pick("MC_Messages.cfg", "MC_Messages_thorough.cfg"), workers=6)
    ctx.build_harness()
    parts = min(vlib.NCPU, 16)
    try:
        n1, f1, cases1 = ctx.record_and_validate("wire", "Trace_Codec", describe=describe, key=key, cfg="Trace_Robust.cfg",
                                                  extra=["-arg", "measure"], parts=parts)
        n2, f2, cases2 = ctx.record_and_validate("robust", "Trace_Codec", describe=describe, key=key, cfg="Trace_Robust.cfg",
                                                  parts=parts)
    except vlib.LibPanic as e:
        # the driver itself died: a protocol step panicked outside the per-call recover, i.e. while the driver was
        # producing honest messages (requests, responses, tokens) with the library. That is a panic on peer bytes.
        ctx.violation("a protocol step panicked inside the library while the driver was building its honest messages: %s\n%s"
                      % (e.frame, e.stack[:1200]),
                      {"libpanic": True, "family": "wire", "harness_args": [a for a in e.harness_args], "frame": e.frame,
                       "stack": e.stack}, key="libpanic " + e.frame)
        return ctx.finish({"traces_validated_against_impl": 0, "evaluations": 0, "distinct_nontrivial": 0,
                           "rule": "driver died from a library panic before any trace was recorded", "exhaustive": False},
                          ["no trace recorded: the library panicked while the driver was building honest messages"])
    cases = cases1 + cases2
    kinds = {}
    for c in cases:
        k = c.get("fn") or (c["op"] + "/" + c["m"])
        kinds[k] = kinds.get(k, 0) + 1
    distinct = len({vlib.json.dumps(c, sort_keys=True) for c in cases})
    an, acases = ag.run(ctx, ['attester', 'batchissuer-ff', 'batchissuer-00'])   # Ages.tla: every schedule of phases on one long-lived object, each phase scaled to n operations
    return ctx.finish({
        **ag.coverage(an, acases),
        "traces_validated_against_impl": n1 + n2,
        "evaluations": len(cases),
        "distinct_nontrivial": distinct,
        "rule": "a case is one call of one consumer of peer bytes (13 decoders, %d other consumers) on an honest message, one "
                "element of its mutation closure (every truncation, extensions, every length/count field set to each boundary "
                "value in every varint width, type tags, one bit flip per byte), or a seeded random string; distinct = distinct "
                "(consumer, input)" % len([k for k in kinds if "/" not in k or k.startswith("t") or k.startswith("a")]),
        "cases_by_consumer": kinds,
        "samples": [c04.short(c) for c in vlib.sample(cases, 4)],
        "exhaustive": False,
        "resource_bound": "alloc <= 1024 KiB + 1 KiB per input byte (honest maximum measured: ~50 KiB); per-call limit 5 s",
    }, [
        "black-box: a crash that needs a byte pattern outside the mutation closure and the random strings is not found",
        "allocation is TotalAlloc delta around a call executed alone in its process; 'terminates' is a 5 s limit",
        "documented contract panics are excluded: ed25519.Verify with a key that is not 32 bytes",
    ])


def replay(ctx, path):
    if vlib.json.load(open(path)).get("family") == "ages":
        return ag.replay(ctx, path)
    obj = vlib.json.load(open(path))
    return ctx.replay_case(path, obj["family"], "Trace_Codec", cfg="Trace_Robust.cfg")
