"""C11 - issuance with fixed blinds is reproducible and the token ignores the blind.

M: Issuance.tla: TokenIgnoresBlind (the output F(k, x) / Sig(k, x) does not
   mention the request randomness) over all runs of the model.
V: a matrix of deterministic runs (types 1, 2, 5; two keys; two nonce/challenge
   pairs; salts; a pool of blinds incl. scalar one and leading-zero encodings):
   request and token bytes are interned and Trace_Issuance keeps tables
   requiring: equal arguments => equal request, different blind => different
   request, equal (key, nonce, challenge, salt) => equal token. The three Rust
   interop vectors are reproduced byte for byte (requests, batch request, tokens)."""
import vlib
from checks import ages_common as ag
from checks import issuance_common as ic


def run(ctx):
    if ctx.thorough:
        ctx.prove("IssuanceProofs")   # unbounded (TLAPS): accepted => honest content under the pinned key; tokens ignore the blind; verify-exact
    for t in (1, 2, 5):
        ctx.model_check("MC_Issuance", ctx.pick("MC_Issuance_t%d.cfg" % t, "MC_Issuance_t%d_thorough.cfg" % t))
    n, cases, kinds = ic.run(ctx, "C11", ["det"], shards=2)
    rows = sum(len(c.get("rows", [])) for c in cases)
    an, acases = ag.run(ctx, ['t1det'])   # Ages.tla: every schedule of phases on one long-lived object, each phase scaled to n operations
    return ctx.finish({
        **ag.coverage(an, acases),
        "traces_validated_against_impl": n,
        "evaluations": rows + 3,
        "distinct_nontrivial": len({vlib.json.dumps(r, sort_keys=True) for c in cases for r in c.get("rows", [])}) + 3,
        "rule": "evaluations = deterministic runs (one per row of the matrix) + the three Rust vectors; distinct = distinct (type, key, nonce/challenge, blind, salt)",
        "samples": [r for c in cases for r in c.get("rows", [])][:4],
        "exhaustive": True,
        "exhaustive_part": "all pairs of the blind pool for every (type, key, nonce/challenge, salt) of the matrix",
    }, [
        "blinds are a seeded pool plus scalar one and leading-zero encodings (thorough: 16 blinds incl. N-1)",
        "the Rust vectors are taken from tokens/batched/batched-issuance-test-vectors-rust.json in /repo",
    ])


def replay(ctx, path):
    if vlib.json.load(open(path)).get("family") == "ages":
        return ag.replay(ctx, path)
    return ctx.replay_case(path, "issuance", "Trace_Issuance", cfg="Trace_Issuance_C11.cfg")
