"""Shared by C07, C08, C20: two issuers side by side, reconfigured while they serve (Neighbours.tla).

M: Neighbours.tla: OwnRegistrations (an issuer answers for exactly what was registered WITH IT, under the index key it was
   last given; asking changes nothing) holds for the intended design over every history of 5 operations on two issuers
   and two origins, and fails for a shared table, a get-or-create accessor and insert-if-absent registration.
R: Gen_Neighbours emits EVERY history of 3 operations (1 728; thorough 4: 20 736); each is replayed on two real issuers in one process,
   alternately built from one token key and from two.
V: Trace_Neighbours advances the specification and requires the recorded answers and the matched index key version to
   be the model's."""
import os
import re

import vlib

NEG = ["MC_Neighbours_sharedtable.cfg", "MC_Neighbours_lookupregisters.cfg", "MC_Neighbours_insertifabsent.cfg"]


def describe(e, case):
    return "operation rejected by Neighbours.tla: failed %s; kind=%s history=%s step %s: %s(%s, %s) answered=%s matched=%s/%s panic=%r" % (
        e["_why"], case.get("kind"), case.get("hist"), e.get("i"), e.get("op"), e.get("x"), e.get("o"), e.get("ok"), e.get("match_x"), e.get("ver"), e.get("panic"))


def key(e, case):
    return "neighbours %s %s" % (e.get("op"), e["_why"])


def run(ctx):
    if ctx.thorough:
        ctx.prove("NeighboursProofs")   # TLAPS: OwnRegistrations for any issuers, any origins, histories of any length
    ctx.model_check("Neighbours", "MC_Neighbours.cfg", workers=4, overrides={"Depth": ctx.pick(4, 5)})
    for cfg in NEG:
        ctx.model_check("Neighbours", cfg, workers=1, expect_violation="Invariant OwnRegistrations is violated")
    beh = []
    for b in ctx.generate("Neighbours", cfg="Gen_Neighbours.cfg", workers=1, raw=True, overrides={"Depth": ctx.pick(3, 4)}):
        steps = re.findall(r'<<"(\w+)", "(\w+)", "(\w+)">>', b)
        if not steps:
            raise vlib.Infra("unparsable behaviour of Gen_Neighbours: %r" % b)
        beh.append([list(s) for s in steps])
    bpath = os.path.join(ctx.scratch, "neighbours-behaviours.json")
    vlib.json.dump(beh, open(bpath, "w"))
    ctx.build_harness()
    n, files, cases = ctx.record_and_validate("neighbours", "Trace_Neighbours", describe=describe, key=key, env={"VERIF_NEIGHBOURS_BEHAVIOURS": bpath})
    return n, cases


def coverage(n, cases):
    return {"neighbour_histories": len(cases), "neighbour_events": n,
            "neighbour_rule": "every history of registrations, look-ups and authentic requests of the given length on two issuers and two origins, replayed on two real issuers in one process (built from one token key / from two, alternately)"}


def replay(ctx, path):
    bpath = os.path.join(ctx.scratch, "neighbours-behaviours.json")
    vlib.json.dump([], open(bpath, "w"))
    return ctx.replay_case(path, "neighbours", "Trace_Neighbours")
