--------------------------- MODULE Trace_KeyBlind ---------------------------
(***************************************************************************)
(* Trace validation for properties C12 (ECDSA, four curves) and C15        *)
(* (Ed25519): random sequences of key-blinding operations on real keys,    *)
(* with every produced public key and signature interned by its bytes.     *)
(* The trace is accepted only if                                           *)
(*   - two logged keys carry the same identifier exactly when their        *)
(*     KeyBlind/Algebra terms have the same normal form (unblinding        *)
(*     inverts, blinding commutes, blind and context matter),              *)
(*   - both verifiers (the fork's and the standard library's) return the   *)
(*     verdict the specification computes for the signature term,          *)
(*   - every blinded key equals the harness's independent reference        *)
(*     (factor from its own XMD / SHA-512 code, multiplication by          *)
(*     crypto/elliptic / a math/big Edwards model),                        *)
(*   - Ed25519 blind-key signing is deterministic.                         *)
(***************************************************************************)
EXTENDS KeyBlind, Json, TLC

Trace == ndJsonDeserialize("trace.ndjson")

CONSTANT Enforce
VARIABLES l, keyTab, sigTab, det
tvars == <<kvars, l, keyTab, sigTab, det>>

Known(id) == \E p \in keyTab : p[1] = id
TermOf(id) == (CHOOSE p \in keyTab : p[1] = id)[2]
BindOK(id, term) ==
  /\ \A p \in keyTab : p[1] = id => p[2] = term
  /\ \A p \in keyTab : p[2] = term => p[1] = id
SigKnown(id) == \E p \in sigTab : p[1] = id
SigOf(id) == (CHOOSE p \in sigTab : p[1] = id)[2]
\* a signature identifier always names one signature term; for a deterministic
\* scheme a signature term also has only one identifier
SigBindOK(id, term) ==
  /\ \A p \in sigTab : p[1] = id => p[2] = term
  /\ det => \A p \in sigTab : p[2] = term => p[1] = id

OutTerm(e) ==
  CASE e.op = "Pub" -> Pk(e.sk)
    [] e.op = "Blind" -> Blind(TermOf(e.in), Hb(e.b, e.ctx))
    [] e.op = "Unblind" -> Unblind(TermOf(e.in), Hb(e.b, e.ctx))

SigTerm(e) == IF e.op = "BSign" THEN BlindSigTerm(e.sk, e.b, e.ctx, e.d) ELSE Sig(Pk(e.sk), e.d)

Obl(e) ==
  CASE e.op = "KNew" -> <<>>
    [] e.op = "Pub" -> << <<"key-identity", BindOK(e.out, OutTerm(e))>> >>
    [] e.op \in {"Blind", "Unblind"} -> <<
         <<"quiet", e.panic = "">>,
         <<"known-input", Known(e.in)>>,
         <<"op-ok", e.ok>>,
         <<"key-identity", (Known(e.in) /\ e.ok) => BindOK(e.out, OutTerm(e))>>,
         <<"matches-reference", (e.ok /\ e.op = "Blind") => e.ref_ok>> >>
    [] e.op \in {"BSign", "Sign"} -> <<
         <<"quiet", e.panic = "">>,
         <<"op-ok", e.ok>>,
         <<"signature-identity", e.ok => SigBindOK(e.sig, SigTerm(e))>> >>
    [] e.op = "BlindRef" -> <<
         <<"quiet", e.panic = "">>,
         <<"op-ok", e.ok>>,
         <<"matches-reference", e.ok => e.ref_ok>>,
         <<"context-matters", e.ok => e.last_byte_matters>> >>
    \* the same (key, blind, context) combinations evaluated by several goroutines at once: still functions of their arguments
    [] e.op = "KStress" -> <<
         <<"quiet", e.panic = "">>,
         <<"matches-reference", e.wrong = 0>> >>
    [] e.op = "BlindBad" -> <<
         <<"quiet", e.panic = "">>,
         <<"invalid-key-refused", ~e.decodable => e.refused>> >>
    [] e.op = "Verify" -> <<
         <<"quiet", e.panic = "">>,
         <<"known-input", Known(e.key) /\ SigKnown(e.sig)>>,
         <<"fork-verdict", (Known(e.key) /\ SigKnown(e.sig)) => (e.fork <=> Verifies(TermOf(e.key), e.d, SigOf(e.sig)))>>,
         <<"std-verdict", (Known(e.key) /\ SigKnown(e.sig)) => (e.std <=> Verifies(TermOf(e.key), e.d, SigOf(e.sig)))>> >>
    [] OTHER -> << <<"unknown-event", FALSE>> >>

Failed(e) == LET o == Obl(e) IN {o[i][1] : i \in {j \in 1..Len(o) : o[j][1] \in Enforce /\ ~o[j][2]}}

TInit == KInit /\ l = 1 /\ keyTab = {} /\ sigTab = {} /\ det = FALSE
TNext ==
  /\ l <= Len(Trace)
  /\ LET e == Trace[l]
         f == Failed(e)
     IN /\ IF f = {} THEN TRUE ELSE PrintT("REJECT " \o ToString(l) \o " " \o e.op \o " " \o ToString(f))
        /\ CASE e.op = "KNew" -> keyTab' = {} /\ sigTab' = {} /\ det' = e.deterministic
             [] e.op = "Pub" -> keyTab' = keyTab \cup {<<e.out, OutTerm(e)>>} /\ UNCHANGED <<sigTab, det>>
             [] e.op \in {"Blind", "Unblind"} /\ Known(e.in) /\ e.ok ->
                  keyTab' = keyTab \cup {<<e.out, OutTerm(e)>>} /\ UNCHANGED <<sigTab, det>>
             [] e.op \in {"BSign", "Sign"} /\ e.ok -> sigTab' = sigTab \cup {<<e.sig, SigTerm(e)>>} /\ UNCHANGED <<keyTab, det>>
             [] OTHER -> UNCHANGED <<keyTab, sigTab, det>>
  /\ IF l = Len(Trace) THEN PrintT("DONE " \o ToString(l)) ELSE TRUE
  /\ l' = l + 1
  /\ UNCHANGED kvars
TSpec == TInit /\ [][TNext]_tvars
=============================================================================
