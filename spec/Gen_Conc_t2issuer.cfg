SPECIFICATION Spec
CONSTANTS
  Procs = {"g1", "g2"}
  Ops = {"Evaluate", "TokenKeyID", "TokenKey"}
  OpsPerProc = 2
  Design = "eager"
INVARIANT EmitJ
INVARIANT NoRace
CHECK_DEADLOCK FALSE
