SPECIFICATION Spec
CONSTANTS
  Kind = "ecdsa"
  Depth = 3
  Deviation = "none"
INVARIANT FrameCondition
INVARIANT Emit
CHECK_DEADLOCK FALSE
