---------------------------- MODULE Trace_Memory ----------------------------
(***************************************************************************)
(* Trace validation for property C16.  Each MCall event is one API call of *)
(* a TLC-generated history (Memory.tla), executed twice on the real        *)
(* library inside guarded arenas with two different spare-capacity fills:  *)
(*   changed    names of the tracked regions (arguments incl. spare         *)
(*              capacity and guard bytes, slices handed out earlier) whose *)
(*              bytes differ from their snapshot after the call            *)
(*   classes    the region classes tracked so far                          *)
(*   det_same   the deterministic part of the result was the same under    *)
(*              both fills                                                 *)
(***************************************************************************)
EXTENDS Memory, Json

Trace == ndJsonDeserialize("trace.ndjson")
VARIABLE l

SetOf(s) == {s[i] : i \in 1..Len(s)}

Obl(e) ==
  \* creation (and refused creation attempts with arguments of other lengths) leaves its arguments alone, too
  CASE e.op = "MNew" -> << <<"frame-condition", e.changed = <<>> >> >>
    [] e.op = "MCall" -> <<
         <<"quiet", e.panic = "">>,
         <<"frame-condition", e.changed = <<>> >>,
         <<"spare-capacity-irrelevant", e.det_same>>,
         <<"call-in-alphabet", e.call \in CallsOf(e.kind)>>,
         <<"tracked-regions-cover-model",
             (ArgsOf(e.kind, e.call) \cup (IF e.res = "ok" THEN HandsOf(e.kind, e.call) ELSE {})) \subseteq SetOf(e.classes)>> >>
    [] OTHER -> << <<"unknown-event", FALSE>> >>

Failed(e) == LET o == Obl(e) IN {o[i][1] : i \in {j \in 1..Len(o) : ~o[j][2]}}

TInit == Init /\ l = 1
TNext ==
  /\ l <= Len(Trace)
  /\ LET f == Failed(Trace[l])
     IN IF f = {} THEN TRUE ELSE PrintT("REJECT " \o ToString(l) \o " " \o Trace[l].op \o " " \o ToString(f))
  /\ IF l = Len(Trace) THEN PrintT("DONE " \o ToString(l)) ELSE TRUE
  /\ l' = l + 1
  /\ UNCHANGED vars
TSpec == TInit /\ [][TNext]_<<vars, l>>
=============================================================================
