---------------------------- MODULE Trace_Varint ----------------------------
(***************************************************************************)
(* Trace validation for property C19.  Each line of trace.ndjson is one    *)
(* group of real quicwire calls with arguments and results; the recorded   *)
(* results must be exactly what Varint.tla computes.  Events are           *)
(* independent, so a rejected event is reported (REJECT line) and the      *)
(* cursor moves on, which lets one run examine the whole trace.  The trace *)
(* is accepted iff no REJECT line is printed and DONE reports every line.  *)
(***************************************************************************)
EXTENDS Varint, Json, TLC

Trace == ndJsonDeserialize("trace.ndjson")

VARIABLE l

NoPanic(s) == s = ""

\* AppendVarint / SizeVarint / ConsumeVarint on one value.
ValOK(e) ==
  LET n == VarintSize(e.v)
  IN IF n = 0 THEN TRUE          \* above 2^62-1: outside the property
     ELSE /\ NoPanic(e.append_panic) /\ NoPanic(e.size_panic) /\ NoPanic(e.dec_panic)
          /\ e.out = e.prefix \o VarintEnc(e.v)      \* prefix untouched, shortest form
          /\ e.spare_ok                              \* ... and nothing but that form is written to the destination
          /\ e.size = n
          /\ e.dec_n = n /\ e.dec_v = e.v /\ e.dec_i64 = e.v

\* Every decoder on one input string.
InOK(e) ==
  LET d   == VarintDec(e.b)
      db  == VarintBytesDec(e.b)
      d8  == Uint8BytesDec(e.b)
      d32 == Uint32Dec(e.b)
      d64 == Uint64Dec(e.b)
  IN /\ NoPanic(e.cv_panic) /\ NoPanic(e.cvb_panic) /\ NoPanic(e.c8_panic)
     /\ NoPanic(e.u32_panic) /\ NoPanic(e.u64_panic)
     /\ IF d.ok THEN e.cv_n = d.n /\ e.cv_v = d.val ELSE e.cv_n < 0
     /\ IF db.ok THEN e.cvb_n = db.n /\ e.cvb_out = db.out
                 ELSE e.cvb_n < 0 /\ e.cvb_out = <<>>
     /\ IF d8.ok THEN e.c8_n = d8.n /\ e.c8_out = d8.out
                 ELSE e.c8_n < 0 /\ e.c8_out = <<>>
     /\ IF d32.ok THEN e.u32_n = 4 /\ e.u32_v = d32.val ELSE e.u32_n < 0
     /\ IF d64.ok THEN e.u64_n = 8 /\ e.u64_v = d64.val ELSE e.u64_n < 0

\* Length-prefixed strings round-trip.
BytesOK(e) ==
  /\ NoPanic(e.avb_panic)
  /\ e.avb_out = e.prefix \o VarintBytesEnc(e.s)
  /\ e.avb_back = e.s
  \* (in-place framing - the payload lies behind the destination, where its encoding puts it - is a round trip too)
  /\ NoPanic(e.inplace_panic) /\ e.inplace_out = VarintBytesEnc(e.s)
  /\ e.avb_n = Len(VarintBytesEnc(e.s))
  \* a string too long for an 8-bit length prefix is refused (the library panics): it never yields an encoding, which
  \* could not decode back to the string
  /\ Len(e.s) > 255 => e.a8_out = <<>>
  /\ Len(e.s) <= 255 =>
       /\ NoPanic(e.a8_panic)
       /\ e.a8_out = e.prefix \o Uint8BytesEnc(e.s)
       /\ e.a8_back = e.s
       /\ e.a8_n = Len(e.s) + 1

EventOK(e) ==
  CASE e.op = "Val"   -> ValOK(e)
    [] e.op = "In"    -> InOK(e)
    [] e.op = "Bytes" -> BytesOK(e)
    \* bodies of hundreds of kilobytes: compared byte for byte by the driver with its own encoding
    [] e.op = "BigBytes" -> NoPanic(e.panic) /\ e.enc_ok /\ e.dec_ok
    [] OTHER          -> FALSE

Init == l = 1

Next ==
  /\ l <= Len(Trace)
  /\ IF EventOK(Trace[l]) THEN TRUE ELSE PrintT("REJECT " \o ToString(l) \o " " \o Trace[l].op \o " {}")
  /\ IF l = Len(Trace) THEN PrintT("DONE " \o ToString(l)) ELSE TRUE
  /\ l' = l + 1

Spec == Init /\ [][Next]_l
=============================================================================
