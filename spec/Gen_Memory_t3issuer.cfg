SPECIFICATION Spec
CONSTANTS
  Kind = "t3issuer"
  Depth = 3
  Deviation = "none"
INVARIANT FrameCondition
INVARIANT Emit
CHECK_DEADLOCK FALSE
