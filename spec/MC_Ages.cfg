SPECIFICATION Spec
CONSTANTS
  R = 2
  W = 4
  B = 2
  MaxOps = 7
  Deviation = "none"
INVARIANT TypeOK
INVARIANT Ageless
CHECK_DEADLOCK FALSE
