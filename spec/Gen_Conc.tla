------------------------------ MODULE Gen_Conc ------------------------------
(* Program generator for Concurrency.tla: every initial state is one program. *)
EXTENDS Concurrency, Json
EmitJ == (\E p \in Procs : pc[p] # [i |-> 1, step |-> 1]) \/ PrintT(<<"BEHAVIOUR", ToJson(prog)>>)
=============================================================================
