SPECIFICATION Spec
CONSTANTS
  Kind = "ed25519"
  Depth = 3
  Deviation = "none"
INVARIANT FrameCondition
INVARIANT Emit
CHECK_DEADLOCK FALSE
