SPECIFICATION Spec
CONSTANTS
  R = 2
  W = 4
  B = 2
  MaxOps = 7
  Deviation = "ring-swept"
INVARIANT TypeOK
INVARIANT YoungIsBlind
INVARIANT OldIsRightAgain
INVARIANT Ageless
CHECK_DEADLOCK FALSE
