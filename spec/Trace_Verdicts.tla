---------------------------- MODULE Trace_Verdicts ----------------------------
(***************************************************************************)
(* Trace validation for Verdicts.tla (properties C06, C07, C10, C13, C14   *)
(* over histories).  The trace is a concatenation of histories, each       *)
(* replayed on ONE long-lived real verifier object (event field i = 1      *)
(* starts a new object); every event is one presentation of the concrete   *)
(* value a class stands for in that history, with the real verdict.  The   *)
(* state of the specification (hist, verdicts, memo, refused) is advanced  *)
(* by the intended design's decision (Deviation "none"); the recorded      *)
(* verdict must be that decision.                                           *)
(***************************************************************************)
EXTENDS Verdicts, Json

CONSTANT Enforce
Trace == ndJsonDeserialize("trace.ndjson")
VARIABLE l

\* the object's memo before event e (a new history starts with a new object)
MemoAt(e)    == IF e.i = 1 THEN {} ELSE memo
RefusedAt(e) == IF e.i = 1 THEN {} ELSE refused
\* what is known of the implementation's leniency before event e: the lenient classes seen accepted (the
\* specification's variable) and those seen refused (refused, above); a lenient class not yet seen is decided by e
Lenient(e)   == e.x \in LenientOf(e.kind)
LeniencyAt(e) == IF e.i = 1 THEN {} ELSE leniency
LeniencyFor(e) == IF Lenient(e) /\ e.x \notin RefusedAt(e) /\ e.ok THEN LeniencyAt(e) \cup {e.x} ELSE LeniencyAt(e)
Decision(e)  == VerdictIn(e.kind, "none", LeniencyFor(e), MemoAt(e), RefusedAt(e), e.x)

Obl(e) ==
  IF e.x \notin NamesOf(e.kind) THEN << <<"unknown-class", FALSE>> >>
  ELSE <<
    <<"quiet", e.panic = "">>,
    \* whatever was presented before, the verdict is the one the value deserves
    <<"verdict-is-function-of-the-value", e.ok = Decision(e)>>,
    <<"authentic-iff-accepted", Lenient(e) \/ e.ok = ValidIn(e.kind, e.x)>>,
    \* beyond the listed properties (an observation): a response followed by further bytes is refused
    <<"beyond:response-with-trailing-bytes-refused", Lenient(e) => ~e.ok>>,
    \* what an accepting call hands out (a token, for the finalizing kinds) passes the independent oracle
    <<"accepted-output-is-sound", e.ok => e.sound>>,
    \* (the driver's independent reference - FullEvaluate, crypto/ecdsa, crypto/ed25519 - agrees that the concrete
    \* value it built is of the class it is presented as)
    <<"reference-agrees-with-class", e.ref = "" \/ ((e.ref = "true") = ValidIn(e.kind, e.x))>> >>

Failed(e) == LET o == Obl(e) IN {o[i][1] : i \in {j \in 1..Len(o) : o[j][1] \in Enforce /\ ~o[j][2]}}

TInit == Init /\ l = 1
TNext ==
  /\ l <= Len(Trace)
  /\ LET e == Trace[l]
         f == Failed(e)
         ok == IF e.x \in NamesOf(e.kind) THEN Decision(e) ELSE FALSE
     IN /\ IF f = {} THEN TRUE ELSE PrintT("REJECT " \o ToString(l) \o " Present " \o ToString(f))
        /\ hist' = IF e.i = 1 THEN <<e.x>> ELSE Append(hist, e.x)
        /\ verdicts' = IF e.i = 1 THEN <<ok>> ELSE Append(verdicts, ok)
        /\ memo' = IF ok THEN MemoAt(e) \cup {e.x} ELSE MemoAt(e)
        /\ refused' = IF ok THEN RefusedAt(e) ELSE RefusedAt(e) \cup {e.x}
        /\ leniency' = LeniencyFor(e)
  /\ IF l = Len(Trace) THEN PrintT("DONE " \o ToString(l)) ELSE TRUE
  /\ l' = l + 1
TSpec == TInit /\ [][TNext]_<<vars, l>>

\* along the validated trace the specification's own invariant holds of the advanced state
MemoHoldsAuthenticOnly == \A m \in memo : m \in leniency \/ \E k \in {"t1verify", "t5verify", "rlissuer", "attester", "ecdsa", "ed25519", "t1final", "t2final", "t3final", "t5final", "batchissuer", "rlorigins", "t1issue", "t2issue", "t5issue", "t3issue"} :
                             m \in NamesOf(k) /\ ValidIn(k, m)
=============================================================================
