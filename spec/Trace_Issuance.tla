--------------------------- MODULE Trace_Issuance ---------------------------
(***************************************************************************)
(* Trace validation for the issuance properties C01, C02, C07, C10, C11.   *)
(* Events recorded from the real library:                                  *)
(*   Run      one complete issuance run of one token type over the wire,   *)
(*            with one mutation (from the alphabet of Issuance.tla, or an  *)
(*            unlisted one) applied to the response before finalization   *)
(*   Verify   issuer-side Verify of a (possibly altered) token             *)
(*   RLEval   RateLimitedIssuer.Evaluate on a (possibly altered) request   *)
(*   Det      request creation with caller-supplied blinds + finalization  *)
(*   Vector   reproduction of one shipped Rust interop vector              *)
(* For a Run, TLC rebuilds the symbolic request state and response of      *)
(* Issuance.tla, applies the logged mutation and evaluates FinalizeCheck:  *)
(* the library's verdict must equal the specification's.  Tokens are       *)
(* checked at byte level with Messages.tla.                                *)
(***************************************************************************)
EXTENDS Issuance, Messages, Json

Trace == ndJsonDeserialize("trace.ndjson")

CONSTANT Enforce

VARIABLES l, reqTab, tokTab, elemTab
tvars == <<vars, l, reqTab, tokTab, elemTab>>

Modelled == {"Id", "Flip", "ForeignKey", "ForeignKeyCollide", "ForeignReq", "Drop", "Dup", "Swap", "Perm"}
Listed   == Modelled \ {"Id"}

St1(e) == ReqState("r1", e.t, "k1", "n1", e.n)
St2(e) == ReqState("r2", e.t, "k1", "n2", e.n)

Honest(e, k) == [to |-> "r1", from |-> "r1", key |-> k, body |-> HonestBody(e.t, k, St1(e).sent, "r1"), mut |-> "Id"]

IsIdentityPerm(p) == \A j \in 1..Len(p) : p[j] = j

Delivered(e) ==
  LET k == e.mut.kind IN
  CASE k = "Id"         -> Honest(e, "k1")
    [] k \in {"ForeignKey", "ForeignKeyCollide"} -> Honest(e, "k2")     \* (colliding truncated key ids are still different keys)
    [] k = "ForeignReq" -> [to |-> "r1", from |-> "r2", key |-> "k1", body |-> HonestBody(e.t, "k1", St2(e).sent, "r2"), mut |-> "ForeignReq"]
    [] k = "Flip"       -> MutateT(e.t, Honest(e, "k1"), [kind |-> "Flip", f |-> e.mut.f])
    [] k = "Drop"       -> MutateT(e.t, Honest(e, "k1"), [kind |-> "Drop", i |-> e.mut.i])
    [] k = "Dup"        -> MutateT(e.t, Honest(e, "k1"), [kind |-> "Dup", i |-> e.mut.i])
    [] k = "Swap"       -> MutateT(e.t, Honest(e, "k1"), [kind |-> "Swap"])
    [] k = "Perm"       -> MutateT(e.t, Honest(e, "k1"), [kind |-> "Perm", p |-> e.mut.p])

Predicted(e) == FinalizeCheck(St1(e), "r1", Delivered(e))

TokenName(t) == IF t = 1 THEN "token1" ELSE IF t = 2 THEN "token2" ELSE IF t = 3 THEN "token3" ELSE "token5"

\* the token is exactly type || nonce || SHA-256(challenge) || key id || authenticator
LayoutOK(e, i) ==
  LET d == DecToken(e.tokens[i], e.t)
  IN /\ d.ok /\ Len(d.rest) = 0
     /\ d.val.type = e.t
     /\ d.val.nonce = e.nonces[i]
     /\ d.val.context = e.ctx
     /\ d.val.key_id = e.keyid
     /\ Len(d.val.auth) = AuthLen(e.t)
     /\ Len(e.tokens[i]) = 2 + 3 * Nid + AuthLen(e.t)

\* Refinement of the symbolic messages to the byte grammar of Messages.tla: what the client
\* put on the wire is exactly one request of its type (canonically encoded, carrying the last
\* byte of the key id), and what the issuer answered is exactly one response of that type.
PaddedOriginLen(n) == IF n = 0 THEN 32 ELSE 32 * ((n + 31) \div 32)
RequestOnWireOK(e) ==
  CASE e.t \in {1, 2} ->
         LET d == DecBasicReq(e.req, e.t) IN d.ok /\ Len(d.rest) = 0 /\ d.val.key_id = e.keyid[Nid]
    [] e.t = 5 ->
         LET d == DecT5Req(e.req)
         IN d.ok /\ Len(d.rest) = 0 /\ d.val.key_id = e.keyid[Nid] /\ Len(d.val.elems) = e.n /\ EncT5Req(d.val) = e.req
    [] e.t = 3 ->
         LET d == DecT3Req(e.req)
         IN d.ok /\ Len(d.rest) = 0 /\ EncT3Req(d.val) = e.req
            /\ Len(d.val.enc_req) = 32 + (1 + Nb2 + 2 + PaddedOriginLen(e.olen)) + 16
ResponseOnWireOK(e) ==
  CASE e.t = 1 -> LET d == DecT1Resp(e.resp) IN d.ok /\ Len(d.rest) = 0
    [] e.t = 2 -> Len(e.resp) = Nresp2
    [] e.t = 5 -> LET d == DecT5Resp(e.resp) IN d.ok /\ Len(d.rest) = 0 /\ Len(d.val.elems) = e.n /\ EncT5Resp(d.val) = e.resp
    [] e.t = 3 -> Len(e.resp) = 16 + Nb2 + 16

RunObl(e) == <<
  <<"request-on-wire-is-grammar", (e.mut.kind = "Id" /\ e.create_ok) => RequestOnWireOK(e)>>,
  <<"response-on-wire-is-grammar", (e.mut.kind = "Id" /\ e.eval_ok) => ResponseOnWireOK(e)>>,
  <<"quiet", e.panic = "">>,
  <<"honest-completes", e.mut.kind = "Id" => (e.create_ok /\ e.decode_ok /\ e.eval_ok /\ e.fin_ok /\ Len(e.tokens) = NTok(e.t, e.n))>>,
  <<"model-verdict", (e.mut.kind \in Modelled /\ e.eval_ok) => (e.fin_ok <=> Predicted(e).ok)>>,
  <<"listed-mutation-rejected", (e.mut.kind \in Listed /\ ~(e.mut.kind = "Perm" /\ IsIdentityPerm(e.mut.p))) => ~e.fin_ok>>,
  <<"count", e.fin_ok => Len(e.tokens) = NTok(e.t, e.n)>>,
  <<"token-layout", e.fin_ok => \A i \in 1..Len(e.tokens) : LayoutOK(e, i)>>,
  <<"token-verifies-under-pinned-key", e.fin_ok => \A i \in 1..Len(e.oracle) : e.oracle[i]>>,
  <<"issuer-verify-accepts", (e.fin_ok /\ e.t \in {1, 5}) => \A i \in 1..Len(e.iverify) : e.iverify[i]>> >>

VerifyObl(e) == <<
  <<"quiet", e.panic = "">>,
  <<"verify-exact", e.ok <=> e.ref_ok>>,
  <<"honest-token-accepted", e.tmut.kind = "Id" => e.ok>>,
  <<"listed-alteration-rejected", e.tmut.kind \in {"Flip", "OtherKey", "OtherType", "TypeField"} => ~e.ok>> >>

RLQ(e) ==
  LET k == e.cls.kind
      h == HonestRL("registered")
  IN CASE k \in {"Id", "IdLong", "ResealedHonest", "ReplaySame"} -> h
       [] k = "ReplayEncOtherKey" -> [h EXCEPT !.aadBound = FALSE]      \* sealed for another request key
       [] k = "ReplayEncFlipped" -> [h EXCEPT !.sealedToMe = FALSE]
       [] k = "Flip" -> RLFlip(h, e.cls.f)
       [] k = "Unregistered" -> [h EXCEPT !.origin = "other"]
       [] k = "ForeignIssuer" -> [h EXCEPT !.sealedToMe = FALSE]
       [] k = "OtherSigner" -> [h EXCEPT !.sigOK = FALSE]
       [] k = "OtherContents" -> [h EXCEPT !.sigOK = FALSE]
       [] k = "NoSig" -> [h EXCEPT !.complete = FALSE]
       [] k = "Trailing" -> [h EXCEPT !.complete = FALSE]
       [] k = "BadInner" -> [h EXCEPT !.innerOK = FALSE]
       [] k = "WrongAAD" -> [h EXCEPT !.aadBound = FALSE]
       [] k = "BadKey" -> [h EXCEPT !.keyOK = FALSE, !.aadBound = FALSE, !.sigOK = FALSE]

RLObl(e) == <<
  <<"quiet", e.panic = "">>,
  <<"signs-only-authentic", e.ok <=> RLAccepts(RLQ(e), {"registered"})>>,
  <<"no-response-on-error", ~e.ok => (e.resp_len = 0 /\ e.key_len = 0)>>,
  <<"response-shape", e.ok => (e.resp_len = 16 + Nb2 + 16 /\ e.key_len = Npk)>> >>

Args(e)   == <<e.t, e.key, e.nc, e.blind, e.salt>>
NoBlind(e) == <<e.t, e.key, e.nc, e.salt>>

DetObl(e) == <<
  \* (a request made with a zero-length salt cannot be finalized: the PSS check expects the full salt length)
  \* (neither can a request made with the degenerate all-zero blind, wherever the library notices it)
  <<"det-run-ok", e.ok \/ (e.salt \in {"empty", "nil"} /\ e.req # "") \/ e.degenerate>>,
  \* whatever finalization returns verifies - under every blind, also the degenerate one
  <<"no-invalid-token", ~e.bad_token>>,
  <<"create-is-pure", \A p \in reqTab : p[1] = Args(e) => p[2] = e.req>>,
  <<"blind-changes-request", \A p \in reqTab : (NoBlind([t |-> p[1][1], key |-> p[1][2], nc |-> p[1][3], salt |-> p[1][5]]) = NoBlind(e)
                                                /\ p[1][4] # e.blind /\ ~p[3] /\ ~e.degenerate) => p[2] # e.req>>,
  \* (degenerate blinds - zero in any encoding, malformed - are exempt: several names denote the same scalar)
  <<"token-ignores-blind", e.ok => \A p \in tokTab : p[1] = NoBlind(e) => p[2] = e.tok>>,
  \* finalizing the same state again (a retry) gives the same token or an error, never another token
  <<"token-ignores-run", e.refin \in {"none", "same", "error"}>>,
  \* a blinded element is a function of (key, nonce, blind) wherever it stands in a batch, and of nothing else
  <<"element-is-function-of-its-own-blind", \A i \in 1..Len(e.elems) : \A p \in elemTab :
        (p[1] = <<e.t, e.key, e.elems[i][1], e.elems[i][2]>>) <=> (p[2] = e.elems[i][3])>> >>

\* the same argument sets evaluated by many goroutines at once (one shared key object): still one request, one token
StressObl(e) == <<
  <<"det-run-ok", e.errors = 0>>,
  <<"create-is-pure", e.distinct_req = 1>>,
  <<"token-ignores-blind", e.distinct_tok = 1>> >>

\* sequences of honest issuances through long-lived objects (one issuer, one request object on the issuer side, the
\* client's tokens kept): every run completes with the right number of valid tokens, and tokens returned earlier
\* still read and verify as they did
SeqRunObl(e) == <<
  <<"quiet", e.panic = "">>,
  <<"honest-completes", e.ok>>,
  <<"count", e.ok => e.count = e.n>>,
  <<"token-verifies-under-pinned-key", e.ok => e.valid>>,
  \* a second finalization of the same response, after the caller has overwritten the tokens the first one returned
  \* (its own values), again returns only tokens that verify
  <<"retry-returns-valid-tokens", e.again_ok>> >>
SeqRetainedObl(e) == <<
  <<"returned-tokens-keep-their-value", e.same /\ e.valid>> >>

VectorObl(e) == <<
  <<"vector-request-bytes", e.req_eq>>,
  <<"vector-token-bytes", e.tok_eq>>,
  <<"vector-batch-request-bytes", e.batch_eq>> >>

Obl(e) ==
  CASE e.op = "Run" -> RunObl(e)
    [] e.op = "Verify" -> VerifyObl(e)
    [] e.op = "RLEval" -> RLObl(e)
    \* many honest issuances through the same long-lived objects: run number n is like run number 1
    [] e.op = "Endure" -> << <<"quiet", e.panic = "">>, <<"honest-completes", e.done = e.n /\ e.first_bad = -1>> >>
    \* an honest value presented under every other 16-bit token type: never accepted
    [] e.op = "TypeSweep" -> << <<"quiet", e.panic = "">>, <<"only-own-type-accepted", e.accepted = 0 /\ e.tried > 0>> >>
    [] e.op = "Det" -> DetObl(e)
    [] e.op = "DetNew" -> <<>>
    [] e.op = "DetStress" -> StressObl(e)
    [] e.op = "SeqRun" -> SeqRunObl(e)
    [] e.op = "SeqRetained" -> SeqRetainedObl(e)
    [] e.op = "Vector" -> VectorObl(e)
    [] OTHER -> << <<"unknown-event", FALSE>> >>

Failed(e) == LET o == Obl(e) IN {o[i][1] : i \in {j \in 1..Len(o) : o[j][1] \in Enforce /\ ~o[j][2]}}

TInit == Init /\ l = 1 /\ reqTab = {} /\ tokTab = {} /\ elemTab = {}
TNext ==
  /\ l <= Len(Trace)
  /\ LET e == Trace[l]
         f == Failed(e)
     IN /\ IF f = {} THEN TRUE ELSE PrintT("REJECT " \o ToString(l) \o " " \o e.op \o " " \o ToString(f))
        /\ CASE e.op = "DetNew" -> reqTab' = {} /\ tokTab' = {} /\ elemTab' = {}
             [] e.op = "Det" /\ e.req # "" ->
                  /\ reqTab' = reqTab \cup {<<Args(e), e.req, e.degenerate>>}
                  /\ tokTab' = IF e.ok THEN tokTab \cup {<<NoBlind(e), e.tok>>} ELSE tokTab
                  /\ elemTab' = elemTab \cup {<<<<e.t, e.key, e.elems[i][1], e.elems[i][2]>>, e.elems[i][3]>> : i \in 1..Len(e.elems)}
             [] OTHER -> UNCHANGED <<reqTab, tokTab, elemTab>>
  /\ IF l = Len(Trace) THEN PrintT("DONE " \o ToString(l)) ELSE TRUE
  /\ l' = l + 1
  /\ UNCHANGED vars       \* the symbolic system state is rebuilt per event (St1, Delivered)
TSpec == TInit /\ [][TNext]_tvars
=============================================================================
