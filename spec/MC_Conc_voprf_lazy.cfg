SPECIFICATION Spec
CONSTANTS
  Procs = {"g1", "g2"}
  Ops = {"Evaluate", "Verify", "TokenKeyID", "TokenKey"}
  OpsPerProc = 2
  Design = "lazy"
INVARIANT NoRace
INVARIANT Linearizable
PROPERTY AllFinish
CHECK_DEADLOCK FALSE
