SPECIFICATION GSpec
CONSTANT Invalidate = TRUE
CONSTANT Depth = 4
INVARIANT Emit
INVARIANT MarshalIsCurrent
CHECK_DEADLOCK FALSE
