------------------------------ MODULE Entropy ------------------------------
(***************************************************************************)
(* A failing entropy source and its consumers (properties C13, C14).       *)
(*                                                                         *)
(* A reader script delivers `avail` bytes in chunks and then fails (with   *)
(* the error arriving either together with the last bytes or on the next   *)
(* call); avail = -1 stands for a reader that never fails.  The consumers  *)
(* read with io.ReadFull:                                                  *)
(*   KeyGen(need)   ECDSA GenerateKey: BitSize/8 + 8 bytes; Ed25519: 32    *)
(*   Sign           MaybeReadByte takes 0 or 1 byte (an unlogged coin),    *)
(*                  then 32 bytes are read                                 *)
(* Outcome: "ok" (a key / signature) or "error" (and no output).           *)
(***************************************************************************)
EXTENDS Integers, Sequences

CONSTANTS MaxNeed      \* largest number of bytes a consumer needs in the checked configuration

VARIABLES phase, avail, need, coin, outcome

evars == <<phase, avail, need, coin, outcome>>

\* the set of outcomes the specification allows for a consumer needing `n`
\* bytes after `c` coin bytes when `a` bytes are available before the failure
Allowed(a, n, coins) ==
  {IF a = -1 \/ a >= n + c THEN "ok" ELSE "error" : c \in coins}

KeyGenAllowed(a, n) == Allowed(a, n, {0})
SignAllowed(a)      == Allowed(a, 32, {0, 1})

EInit == /\ phase = "start"
         /\ avail \in -1..(MaxNeed + 2)
         /\ need \in {32, MaxNeed}
         /\ coin \in {0, 1}
         /\ outcome = "none"

\* ReadFull(need + coin): succeeds iff that many bytes arrive before the failure
Consume ==
  /\ phase = "start"
  /\ outcome' = IF avail = -1 \/ avail >= need + coin THEN "ok" ELSE "error"
  /\ phase' = "done"
  /\ UNCHANGED <<avail, need, coin>>

ENext == Consume
ESpec == EInit /\ [][ENext]_evars

\* fail closed: whenever fewer bytes than needed are available the outcome is an error
FailClosed == phase = "done" => (outcome = "ok" <=> (avail = -1 \/ avail >= need + coin))
\* the outcome is always one the Allowed sets predict
OutcomeAllowed == phase = "done" => outcome \in Allowed(avail, need, {coin})
\* with the coin unknown, exactly the boundary avail = need is undetermined
CoinOnlyMattersAtBoundary ==
  \A a \in -1..(MaxNeed + 2) : (Allowed(a, 32, {0, 1}) = {"ok", "error"}) <=> (a = 32)
=============================================================================
