SPECIFICATION Spec
CONSTANTS
  Kind = "t2state"
  Depth = 3
  Deviation = "none"
INVARIANT FrameCondition
INVARIANT Emit
CHECK_DEADLOCK FALSE
