--------------------------- MODULE IssuanceProofs ---------------------------
(***************************************************************************)
(* Machine-checked (TLAPS) proofs about Issuance.tla for ARBITRARY sets of *)
(* keys, requests, nonce/challenge choices and ANY batch size: whatever a  *)
(* client outputs - whatever is on the network, i.e. for every attacker,   *)
(* not only the listed mutation alphabet - is the token of its own request *)
(* under the pinned key (C02), tokens do not depend on request randomness  *)
(* (C11), and issuer-side verification accepts under exactly one key       *)
(* (C10).  TLC checks the same invariants for the small constants of       *)
(* MC_Issuance_t*.cfg.                                                     *)
(***************************************************************************)
EXTENDS Issuance, TLAPS

ASSUME ConstAssump == MaxBatch \in Nat /\ Types \subseteq {1, 2, 3, 5}

CONSTANT AnyMessage      \* any set of messages whatsoever (used by AnyAttacker)

ReqStates(rid) == {ReqState(rid, t, k, nc, n) : t \in Types, k \in Keys, nc \in Ncs, n \in 1..MaxBatch}

Auth(t, k, x) == IF IsVoprf(t) THEN F(k, x) ELSE Sig(k, x)
GoodTok(st, i) == [input |-> TokenInput(st.t, st.nc, i, st.k), auth |-> Auth(st.t, st.k, TokenInput(st.t, st.nc, i, st.k))]

Inv ==
  /\ DOMAIN reqs \subseteq Rids
  /\ \A rid \in DOMAIN reqs : \E t \in Types, k \in Keys, nc \in Ncs, n \in 1..MaxBatch : reqs[rid] = ReqState(rid, t, k, nc, n)
  /\ \A o \in out : /\ o.rid \in DOMAIN reqs
                    /\ o.i \in 1..reqs[o.rid].n
                    /\ o.tok = GoodTok(reqs[o.rid], o.i)

(* the code's check sequence, for EVERY message: if it accepts, it outputs the request's own tokens *)
LEMMA FinalizeSound ==
  ASSUME NEW rid, NEW t \in Types, NEW k \in Keys, NEW nc \in Ncs, NEW n \in 1..MaxBatch, NEW m
  PROVE LET st == ReqState(rid, t, k, nc, n)
            res == FinalizeCheck(st, rid, m)
        IN res.ok => /\ Len(res.toks) = st.n
                     /\ \A i \in 1..st.n : res.toks[i] = GoodTok(st, i)
<1> DEFINE st == ReqState(rid, t, k, nc, n)
           res == FinalizeCheck(st, rid, m)
<1> SUFFICES ASSUME res.ok PROVE Len(res.toks) = st.n /\ \A i \in 1..st.n : res.toks[i] = GoodTok(st, i)
  OBVIOUS
<1>0. st.t = t /\ st.k = k /\ st.nc = nc /\ st.n = NTok(t, n) /\ st.n \in Nat
  BY ConstAssump DEF ReqState, NTok
<1>1. CASE IsVoprf(t)
  <2>1. res = Toks([i \in 1..st.n |-> [input |-> TokenInput(st.t, st.nc, i, st.k), auth |-> F(st.k, TokenInput(st.t, st.nc, i, st.k))]])
    BY <1>1, <1>0 DEF FinalizeCheck, FinFail, Toks
  <2>2. res.toks = [i \in 1..st.n |-> [input |-> TokenInput(st.t, st.nc, i, st.k), auth |-> F(st.k, TokenInput(st.t, st.nc, i, st.k))]]
    BY <2>1 DEF Toks
  <2>3. Len(res.toks) = st.n
    BY <2>2, <1>0
  <2> QED
    BY <2>2, <2>3, <1>1, <1>0 DEF GoodTok, Auth
<1>2. CASE ~IsVoprf(t)
  <2>0. st.n = 1
    BY <1>2, <1>0 DEF NTok, IsVoprf
  <2>1. res = Toks(<<[input |-> TokenInput(st.t, st.nc, 1, st.k), auth |-> Sig(st.k, TokenInput(st.t, st.nc, 1, st.k))]>>)
    BY <1>2, <1>0 DEF FinalizeCheck, FinFail, Toks
  <2>2. res.toks = <<[input |-> TokenInput(st.t, st.nc, 1, st.k), auth |-> Sig(st.k, TokenInput(st.t, st.nc, 1, st.k))]>>
    BY <2>1 DEF Toks
  <2> QED
    BY <2>0, <2>2, <1>2, <1>0 DEF GoodTok, Auth
<1> QED
  BY <1>1, <1>2

LEMMA InitInv == Init => Inv
  BY DEF Init, Inv

LEMMA CreateInv ==
  ASSUME Inv, NEW rid \in Rids, NEW t \in Types, NEW k \in Keys, NEW nc \in Ncs, NEW n \in 1..MaxBatch, ClientCreate(rid, t, k, nc, n)
  PROVE Inv'
<1>1. reqs' = [x \in DOMAIN reqs \cup {rid} |-> IF x = rid THEN ReqState(rid, t, k, nc, n) ELSE reqs[x]] /\ out' = out /\ rid \notin DOMAIN reqs
  BY DEF ClientCreate
<1>2. DOMAIN reqs' = DOMAIN reqs \cup {rid} /\ reqs'[rid] = ReqState(rid, t, k, nc, n) /\ \A x \in DOMAIN reqs : reqs'[x] = reqs[x]
  BY <1>1
<1>3. \A x \in DOMAIN reqs' : \E t2 \in Types, k2 \in Keys, nc2 \in Ncs, n2 \in 1..MaxBatch : reqs'[x] = ReqState(x, t2, k2, nc2, n2)
  BY <1>2 DEF Inv
<1>4. \A o \in out' : o.rid \in DOMAIN reqs' /\ o.i \in 1..reqs'[o.rid].n /\ o.tok = GoodTok(reqs'[o.rid], o.i)
  BY <1>1, <1>2 DEF Inv
<1> QED
  BY <1>2, <1>3, <1>4 DEF Inv

LEMMA FinalizeInv ==
  ASSUME Inv, NEW rid \in Rids, NEW m \in net, ClientFinalize(rid, m)
  PROVE Inv'
<1>1. rid \in DOMAIN reqs /\ reqs' = reqs
  BY DEF ClientFinalize
<1> DEFINE res == FinalizeResult(rid, m)
<1>2. CASE ~res.ok
  BY <1>1, <1>2 DEF ClientFinalize, Inv
<1>3. CASE res.ok
  <2>1. out' = out \cup {[rid |-> rid, i |-> i, tok |-> res.toks[i], mut |-> m.mut] : i \in 1..Len(res.toks)}
    BY <1>3 DEF ClientFinalize
  <2>2. PICK t \in Types, k \in Keys, nc \in Ncs, n \in 1..MaxBatch : reqs[rid] = ReqState(rid, t, k, nc, n)
    BY <1>1 DEF Inv
  <2>3. Len(res.toks) = reqs[rid].n /\ \A i \in 1..reqs[rid].n : res.toks[i] = GoodTok(reqs[rid], i)
    BY <1>3, <2>2, FinalizeSound DEF FinalizeResult
  <2>4. \A o \in out' : o.rid \in DOMAIN reqs /\ o.i \in 1..reqs[o.rid].n /\ o.tok = GoodTok(reqs[o.rid], o.i)
    BY <2>1, <2>3, <1>1 DEF Inv
  <2> QED
    BY <2>4, <1>1 DEF Inv
<1> QED
  BY <1>2, <1>3

THEOREM Safety == Spec => []Inv
<1>1. Inv /\ [Next]_vars => Inv'
  <2> SUFFICES ASSUME Inv, [Next]_vars PROVE Inv'
    OBVIOUS
  <2>1. CASE UNCHANGED vars
    BY <2>1 DEF vars, Inv
  <2>2. ASSUME NEW k \in Keys, NEW rid \in Rids, IssuerEvaluate(k, rid) PROVE Inv'
    BY <2>2 DEF IssuerEvaluate, Inv
  <2>3. ASSUME NEW m \in net, NEW mut \in Mutations(m), Attack(m, mut) PROVE Inv'
    BY <2>3 DEF Attack, Inv
  <2> QED
    BY <2>1, <2>2, <2>3, CreateInv, FinalizeInv DEF Next
<1> QED
  BY InitInv, <1>1, PTL DEF Spec

(* The attacker of Spec is the listed alphabet; the argument above never looks at the message, so the same holds    *)
(* when ANY message may appear on the network (AnyNext): acceptance implies the right token, for every attacker.   *)
Inject(m) == net' = net \cup {m} /\ UNCHANGED <<reqs, out, refused>>
AnySpec == Init /\ [][Next \/ \E m \in AnyMessage : Inject(m)]_vars

THEOREM AnyAttacker == AnySpec => []Inv
<1>1. Inv /\ [Next \/ \E m \in AnyMessage : Inject(m)]_vars => Inv'
  <2> SUFFICES ASSUME Inv, [Next \/ \E m \in AnyMessage : Inject(m)]_vars PROVE Inv'
    OBVIOUS
  <2>1. CASE UNCHANGED vars
    BY <2>1 DEF vars, Inv
  <2>2. ASSUME NEW k \in Keys, NEW rid \in Rids, IssuerEvaluate(k, rid) PROVE Inv'
    BY <2>2 DEF IssuerEvaluate, Inv
  <2>3. ASSUME NEW m \in net, NEW mut \in Mutations(m), Attack(m, mut) PROVE Inv'
    BY <2>3 DEF Attack, Inv
  <2>4. ASSUME NEW m \in AnyMessage, Inject(m) PROVE Inv'
    BY <2>4 DEF Inject, Inv
  <2> QED
    BY <2>1, <2>2, <2>3, <2>4, CreateInv, FinalizeInv DEF Next
<1> QED
  BY InitInv, <1>1, PTL DEF AnySpec

(* the invariants TLC checks in MC_Issuance follow from Inv *)
LEMMA StateFields ==
  ASSUME NEW rid, NEW t \in Types, NEW k \in Keys, NEW nc \in Ncs, NEW n \in 1..MaxBatch
  PROVE LET st == ReqState(rid, t, k, nc, n) IN st.t = t /\ st.k = k /\ st.nc = nc
  BY DEF ReqState

THEOREM Consequences == Inv => OnlyGoodTokens /\ TokenIgnoresBlind /\ VerifyExact
<1> SUFFICES ASSUME Inv PROVE OnlyGoodTokens /\ TokenIgnoresBlind /\ VerifyExact
  OBVIOUS
<1>0. \A o \in out : o.rid \in DOMAIN reqs /\ o.tok = GoodTok(reqs[o.rid], o.i)
                       /\ reqs[o.rid].t \in Types /\ reqs[o.rid].k \in Keys
  BY StateFields DEF Inv
<1>1. OnlyGoodTokens
  BY <1>0 DEF OnlyGoodTokens, GoodTok, Auth, ValidAuth
<1>2. TokenIgnoresBlind
  <2> SUFFICES ASSUME NEW o1 \in out, NEW o2 \in out, o1.tok.input = o2.tok.input PROVE o1.tok.auth = o2.tok.auth
    BY DEF TokenIgnoresBlind
  <2> DEFINE s1 == reqs[o1.rid]
             s2 == reqs[o2.rid]
  <2>1. o1.tok = GoodTok(s1, o1.i) /\ o2.tok = GoodTok(s2, o2.i)
    BY <1>0
  <2>2. TokenInput(s1.t, s1.nc, o1.i, s1.k) = TokenInput(s2.t, s2.nc, o2.i, s2.k)
    BY <2>1 DEF GoodTok
  <2>3. s1.t = s2.t /\ s1.k = s2.k
    BY <2>2 DEF TokenInput
  <2> QED
    BY <2>1, <2>2, <2>3 DEF GoodTok, Auth
<1>3. VerifyExact
  <2> SUFFICES ASSUME NEW o \in out, NEW k \in Keys, IsVoprf(reqs[o.rid].t)
               PROVE IssuerVerify(k, reqs[o.rid].t, o.tok.input, o.tok.auth) <=> k = reqs[o.rid].k
    BY DEF VerifyExact
  <2>1. o.tok.auth = F(reqs[o.rid].k, o.tok.input)
    BY <1>0 DEF GoodTok, Auth
  <2> QED
    BY <2>1 DEF IssuerVerify, F
<1> QED
  BY <1>1, <1>2, <1>3

(* C02, stronger than the listed alphabet: a response is accepted ONLY IF its content is exactly the honest answer   *)
(* to this very request under the pinned key - so every change of any part that the checks read is refused.         *)
HonestContent(st, rid, b) ==
  IF IsVoprf(st.t)
    THEN /\ b.framed
         /\ Len(b.elems) = st.n
         /\ \A i \in 1..st.n : b.elems[i] = Ev(st.k, st.sent[i])
         /\ b.proof = Pf(st.k, st.sent, b.elems)
    ELSE /\ b.sig = BSig(st.k, st.sent[1])
         /\ st.t = 3 => (b.sealedTo = rid /\ b.rnonce # Junk)

THEOREM AcceptedIsHonest ==
  ASSUME NEW rid, NEW t \in Types, NEW k \in Keys, NEW nc \in Ncs, NEW n \in 1..MaxBatch, NEW m
  PROVE LET st == ReqState(rid, t, k, nc, n)
        IN FinalizeCheck(st, rid, m).ok => HonestContent(st, rid, m.body)
<1> DEFINE st == ReqState(rid, t, k, nc, n)
           b == m.body
<1> SUFFICES ASSUME FinalizeCheck(st, rid, m).ok PROVE HonestContent(st, rid, b)
  OBVIOUS
<1>0. st.t = t /\ st.k = k /\ st.n = NTok(t, n) /\ st.n \in Nat
  BY ConstAssump DEF ReqState, NTok
<1>1. CASE IsVoprf(t)
  <2>1. b.framed /\ Len(b.elems) = st.n /\ b.proof = Pf(st.k, st.sent, b.elems) /\ ~(\E i \in 1..st.n : b.elems[i] # Ev(st.k, st.sent[i]))
    BY <1>1, <1>0 DEF FinalizeCheck, FinFail, Toks
  <2> QED
    BY <2>1, <1>1, <1>0 DEF HonestContent
<1>2. CASE ~IsVoprf(t)
  <2>1. b.sig = BSig(st.k, st.sent[1]) /\ ~(st.t = 3 /\ (b.rnonce = Junk \/ b.sealedTo # rid))
    BY <1>2, <1>0 DEF FinalizeCheck, FinFail, Toks
  <2> QED
    BY <2>1, <1>2, <1>0 DEF HonestContent
<1> QED
  BY <1>1, <1>2

(* and the honest answer is accepted (C01, design level): completeness of the same checks *)
THEOREM HonestIsAccepted ==
  ASSUME NEW rid, NEW t \in Types, NEW k \in Keys, NEW nc \in Ncs, NEW n \in 1..MaxBatch
  PROVE LET st == ReqState(rid, t, k, nc, n)
            m == [to |-> rid, from |-> rid, key |-> k, body |-> HonestBody(t, k, st.sent, rid), mut |-> "Id"]
        IN FinalizeCheck(st, rid, m).ok
<1> DEFINE st == ReqState(rid, t, k, nc, n)
           m == [to |-> rid, from |-> rid, key |-> k, body |-> HonestBody(t, k, st.sent, rid), mut |-> "Id"]
           b == m.body
<1>0. st.t = t /\ st.k = k /\ st.n = NTok(t, n) /\ st.n \in Nat /\ st.sent = Blinded(t, rid, nc, n, k)
  BY ConstAssump DEF ReqState, NTok
<1>s. Len(st.sent) = st.n /\ DOMAIN st.sent = 1..st.n
  BY <1>0 DEF Blinded
<1>1. CASE IsVoprf(t)
  <2>1. b = [framed |-> TRUE, elems |-> [i \in 1..Len(st.sent) |-> Ev(k, st.sent[i])],
             proof |-> Pf(k, st.sent, [i \in 1..Len(st.sent) |-> Ev(k, st.sent[i])])]
    BY <1>1 DEF HonestBody
  <2>2. b.framed /\ Len(b.elems) = st.n /\ b.proof = Pf(st.k, st.sent, b.elems)
    BY <2>1, <1>s, <1>0
  <2>3. \A i \in 1..st.n : b.elems[i] = Ev(st.k, st.sent[i]) /\ b.elems[i] # Junk
    BY <2>1, <1>s, <1>0 DEF Ev, Junk
  <2> QED
    BY <2>2, <2>3, <1>1, <1>0, <1>s DEF FinalizeCheck, Toks, FinFail
<1>2. CASE ~IsVoprf(t)
  <2>0. t \in {2, 3}
    BY <1>2, ConstAssump DEF IsVoprf
  <2>1. b.sig = BSig(k, st.sent[1]) /\ b.sig # Junk
    BY <1>2, <2>0 DEF HonestBody, BSig, Junk
  <2>2. t = 3 => (b.rnonce # Junk /\ b.sealedTo = rid)
    BY <1>2 DEF HonestBody, Junk, IsVoprf
  <2> QED
    BY <2>1, <2>2, <1>2, <1>0 DEF FinalizeCheck, Toks, FinFail
<1> QED
  BY <1>1, <1>2

---------------------------------------------------------------------------
(* C02, the listed alphabet, for arbitrary constants and batch sizes: every listed mutation of an honest response,   *)
(* an honest response to another request, and an honest response under another key are refused.                      *)
HonestMsg(rid, t, kk, sent) == [to |-> rid, from |-> rid, key |-> kk, body |-> HonestBody(t, kk, sent, rid), mut |-> "Id"]

LEMMA SentFacts ==
  ASSUME NEW rid, NEW t \in Types, NEW k \in Keys, NEW nc \in Ncs, NEW n \in 1..MaxBatch
  PROVE LET st == ReqState(rid, t, k, nc, n)
        IN /\ st.t = t /\ st.k = k /\ st.n = NTok(t, n) /\ st.n \in Nat /\ st.n >= 1
           /\ Len(st.sent) = st.n /\ DOMAIN st.sent = 1..st.n
           /\ \A i \in 1..st.n : st.sent[i] = (IF IsVoprf(t) THEN Bl(TokenInput(t, nc, i, k), <<rid, i>>) ELSE BMsg(TokenInput(t, nc, i, k), <<rid, i>>))
  BY ConstAssump DEF ReqState, NTok, Blinded

THEOREM ForeignKeyRefused ==
  ASSUME NEW rid, NEW t \in Types, NEW k \in Keys, NEW nc \in Ncs, NEW n \in 1..MaxBatch, NEW kk \in Keys, kk # k
  PROVE LET st == ReqState(rid, t, k, nc, n) IN ~FinalizeCheck(st, rid, HonestMsg(rid, t, kk, st.sent)).ok
<1> DEFINE st == ReqState(rid, t, k, nc, n)
           m == HonestMsg(rid, t, kk, st.sent)
           b == m.body
<1>0. st.t = t /\ st.k = k /\ st.n \in Nat /\ st.n >= 1 /\ Len(st.sent) = st.n
  BY SentFacts
<1> SUFFICES ASSUME FinalizeCheck(st, rid, m).ok PROVE FALSE
  OBVIOUS
<1>1. HonestContent(st, rid, b)
  BY AcceptedIsHonest
<1>2. CASE IsVoprf(t)
  <2>1. b.elems = [i \in 1..Len(st.sent) |-> Ev(kk, st.sent[i])]
    BY <1>2 DEF HonestMsg, HonestBody
  <2>2. b.elems[1] = Ev(kk, st.sent[1]) /\ b.elems[1] = Ev(k, st.sent[1])
    BY <2>1, <1>0, <1>1, <1>2 DEF HonestContent
  <2> QED
    BY <2>2 DEF Ev
<1>3. CASE ~IsVoprf(t)
  <2>0. t \in {2, 3}
    BY <1>3, ConstAssump DEF IsVoprf
  <2>1. b.sig = BSig(kk, st.sent[1]) /\ b.sig = BSig(k, st.sent[1])
    BY <1>3, <1>0, <1>1, <2>0 DEF HonestMsg, HonestBody, HonestContent
  <2> QED
    BY <2>1 DEF BSig
<1> QED
  BY <1>2, <1>3

THEOREM ForeignRequestRefused ==
  ASSUME NEW rid, NEW t \in Types, NEW k \in Keys, NEW nc \in Ncs, NEW n \in 1..MaxBatch,
         NEW r2, NEW k2 \in Keys, NEW nc2 \in Ncs, NEW n2 \in 1..MaxBatch, NEW kk \in Keys, r2 # rid
  PROVE LET st == ReqState(rid, t, k, nc, n)
            st2 == ReqState(r2, t, k2, nc2, n2)
        IN ~FinalizeCheck(st2, r2, [HonestMsg(rid, t, kk, st.sent) EXCEPT !.to = r2, !.mut = "ForeignReq"]).ok
<1> DEFINE st == ReqState(rid, t, k, nc, n)
           st2 == ReqState(r2, t, k2, nc2, n2)
           m == [HonestMsg(rid, t, kk, st.sent) EXCEPT !.to = r2, !.mut = "ForeignReq"]
           b == m.body
<1>0. st.t = t /\ st.n \in Nat /\ st.n >= 1 /\ Len(st.sent) = st.n
      /\ st.sent[1] = (IF IsVoprf(t) THEN Bl(TokenInput(t, nc, 1, k), <<rid, 1>>) ELSE BMsg(TokenInput(t, nc, 1, k), <<rid, 1>>))
  BY SentFacts
<1>1. st2.t = t /\ st2.k = k2 /\ st2.n \in Nat /\ st2.n >= 1
      /\ st2.sent[1] = (IF IsVoprf(t) THEN Bl(TokenInput(t, nc2, 1, k2), <<r2, 1>>) ELSE BMsg(TokenInput(t, nc2, 1, k2), <<r2, 1>>))
  BY SentFacts
<1>b. b = HonestBody(t, kk, st.sent, rid)
  BY DEF HonestMsg
<1> SUFFICES ASSUME FinalizeCheck(st2, r2, m).ok PROVE FALSE
  OBVIOUS
<1>2. HonestContent(st2, r2, b)
  BY AcceptedIsHonest
<1>3. CASE IsVoprf(t)
  <2>1. b.elems[1] = Ev(kk, st.sent[1])
    BY <1>3, <1>0, <1>b DEF HonestBody
  <2>2. b.elems[1] = Ev(k2, st2.sent[1])
    BY <1>3, <1>1, <1>2 DEF HonestContent
  <2>3. st.sent[1] = st2.sent[1]
    BY <2>1, <2>2 DEF Ev
  <2> QED
    BY <2>3, <1>0, <1>1, <1>3 DEF Bl
<1>4. CASE ~IsVoprf(t)
  <2>0. t \in {2, 3}
    BY <1>4, ConstAssump DEF IsVoprf
  <2>1. b.sig = BSig(kk, st.sent[1])
    BY <1>4, <2>0, <1>b DEF HonestBody
  <2>2. b.sig = BSig(k2, st2.sent[1])
    BY <1>4, <1>1, <1>2 DEF HonestContent
  <2>3. st.sent[1] = st2.sent[1]
    BY <2>1, <2>2 DEF BSig
  <2> QED
    BY <2>3, <1>0, <1>1, <1>4 DEF BMsg
<1> QED
  BY <1>3, <1>4

THEOREM FlipRefused ==
  ASSUME NEW rid, NEW t \in Types, NEW k \in Keys, NEW nc \in Ncs, NEW n \in 1..MaxBatch, NEW f \in Fields(t)
  PROVE LET st == ReqState(rid, t, k, nc, n)
            m == HonestMsg(rid, t, k, st.sent)
        IN ~FinalizeCheck(st, rid, [m EXCEPT !.body = Garble(t, m.body, f), !.mut = "Flip"]).ok
<1> DEFINE st == ReqState(rid, t, k, nc, n)
           m == HonestMsg(rid, t, k, st.sent)
           m2 == [m EXCEPT !.body = Garble(t, m.body, f), !.mut = "Flip"]
           b == m.body
           b2 == m2.body
<1>0. st.t = t /\ st.k = k /\ st.n \in Nat /\ st.n >= 1 /\ Len(st.sent) = st.n
  BY SentFacts
<1>b. b = HonestBody(t, k, st.sent, rid) /\ b2 = Garble(t, b, f)
  BY DEF HonestMsg
<1> SUFFICES ASSUME FinalizeCheck(st, rid, m2).ok PROVE FALSE
  OBVIOUS
<1>1. HonestContent(st, rid, b2)
  BY AcceptedIsHonest
<1>2. CASE IsVoprf(t)
  <2>0. f \in {"len", "elem", "proof"}
    BY <1>2 DEF Fields, IsVoprf
  <2>1. b = [framed |-> TRUE, elems |-> [i \in 1..Len(st.sent) |-> Ev(k, st.sent[i])],
             proof |-> Pf(k, st.sent, [i \in 1..Len(st.sent) |-> Ev(k, st.sent[i])])]
    BY <1>2, <1>b DEF HonestBody
  <2>2. b2.framed /\ b2.elems[1] = Ev(k, st.sent[1]) /\ b2.proof = Pf(k, st.sent, b2.elems)
    BY <1>1, <1>2, <1>0 DEF HonestContent
  <2>3. CASE f = "len"
    BY <2>3, <2>1, <2>2, <1>b DEF Garble
  <2>4. CASE f = "elem"
    <3>1. b2 = [b EXCEPT !.elems[1] = Junk]
      BY <2>4, <1>b DEF Garble
    <3>2. b2.elems[1] = Junk
      BY <3>1, <2>1, <1>0
    <3> QED
      BY <3>2, <2>2 DEF Junk, Ev
  <2>5. CASE f = "proof"
    <3>1. b2.proof = Junk
      BY <2>5, <2>1, <1>b DEF Garble
    <3> QED
      BY <3>1, <2>2 DEF Junk, Pf
  <2> QED
    BY <2>0, <2>3, <2>4, <2>5
<1>3. CASE ~IsVoprf(t)
  <2>0. t \in {2, 3} /\ f \in {"sig", "rnonce", "ct"} /\ (t = 2 => f = "sig")
    BY <1>3, ConstAssump DEF Fields, IsVoprf
  <2>1. b2.sig = BSig(k, st.sent[1]) /\ (t = 3 => b2.rnonce # Junk)
    BY <1>1, <1>3, <1>0 DEF HonestContent
  <2>2. CASE f = "sig" \/ f = "ct"
    <3>1. b2.sig = Junk
      BY <2>2, <2>0, <1>3, <1>b DEF Garble, HonestBody
    <3> QED
      BY <3>1, <2>1 DEF Junk, BSig
  <2>3. CASE f = "rnonce"
    <3>1. t = 3 /\ b2.rnonce = Junk
      BY <2>3, <2>0, <1>3, <1>b DEF Garble, HonestBody
    <3> QED
      BY <3>1, <2>1
  <2> QED
    BY <2>0, <2>2, <2>3
<1> QED
  BY <1>2, <1>3

(* type 5 list mutations: one element less or more is a count mismatch; swapping the first two changes the list the proof was made for *)
THEOREM ListMutationsRefused ==
  ASSUME NEW rid, NEW k \in Keys, NEW nc \in Ncs, NEW n \in 1..MaxBatch, 5 \in Types
  PROVE LET st == ReqState(rid, 5, k, nc, n)
            m == HonestMsg(rid, 5, k, st.sent)
        IN /\ \A i \in 1..Len(m.body.elems) : ~FinalizeCheck(st, rid, [m EXCEPT !.body.elems = DropAt(m.body.elems, i), !.mut = "Drop"]).ok
           /\ \A i \in 1..Len(m.body.elems) : ~FinalizeCheck(st, rid, [m EXCEPT !.body.elems = DupAt(m.body.elems, i), !.mut = "Dup"]).ok
           /\ Len(m.body.elems) >= 2 => ~FinalizeCheck(st, rid, [m EXCEPT !.body.elems = SwapFirstTwo(m.body.elems), !.mut = "Swap"]).ok
<1> DEFINE st == ReqState(rid, 5, k, nc, n)
           m == HonestMsg(rid, 5, k, st.sent)
           b == m.body
           es == b.elems
<1>0. st.t = 5 /\ st.k = k /\ st.n \in Nat /\ st.n >= 1 /\ Len(st.sent) = st.n /\ IsVoprf(5)
      /\ \A i \in 1..st.n : st.sent[i] = Bl(TokenInput(5, nc, i, k), <<rid, i>>)
  BY SentFacts DEF IsVoprf
<1>1. b = [framed |-> TRUE, elems |-> [i \in 1..Len(st.sent) |-> Ev(k, st.sent[i])],
           proof |-> Pf(k, st.sent, [i \in 1..Len(st.sent) |-> Ev(k, st.sent[i])])]
  BY <1>0 DEF HonestMsg, HonestBody
<1>2. Len(es) = st.n /\ es = [i \in 1..st.n |-> Ev(k, st.sent[i])]
  BY <1>1, <1>0
<1>3. ASSUME NEW i \in 1..Len(es) PROVE ~FinalizeCheck(st, rid, [m EXCEPT !.body.elems = DropAt(es, i), !.mut = "Drop"]).ok
  <2> DEFINE m2 == [m EXCEPT !.body.elems = DropAt(es, i), !.mut = "Drop"]
  <2>1. m2.body.elems = DropAt(es, i)
    BY <1>1 DEF HonestMsg
  <2>2. Len(DropAt(es, i)) = st.n - 1
    BY <1>2, <1>0 DEF DropAt
  <2> SUFFICES ASSUME FinalizeCheck(st, rid, m2).ok PROVE FALSE
    OBVIOUS
  <2>3. HonestContent(st, rid, m2.body)
    BY AcceptedIsHonest, <1>0
  <2> QED
    BY <2>1, <2>2, <2>3, <1>0 DEF HonestContent
<1>4. ASSUME NEW i \in 1..Len(es) PROVE ~FinalizeCheck(st, rid, [m EXCEPT !.body.elems = DupAt(es, i), !.mut = "Dup"]).ok
  <2> DEFINE m2 == [m EXCEPT !.body.elems = DupAt(es, i), !.mut = "Dup"]
  <2>1. m2.body.elems = DupAt(es, i)
    BY <1>1 DEF HonestMsg
  <2>2. Len(DupAt(es, i)) = st.n + 1
    BY <1>2, <1>0 DEF DupAt
  <2> SUFFICES ASSUME FinalizeCheck(st, rid, m2).ok PROVE FALSE
    OBVIOUS
  <2>3. HonestContent(st, rid, m2.body)
    BY AcceptedIsHonest, <1>0
  <2> QED
    BY <2>1, <2>2, <2>3, <1>0 DEF HonestContent
<1>5. ASSUME Len(es) >= 2 PROVE ~FinalizeCheck(st, rid, [m EXCEPT !.body.elems = SwapFirstTwo(es), !.mut = "Swap"]).ok
  <2> DEFINE m2 == [m EXCEPT !.body.elems = SwapFirstTwo(es), !.mut = "Swap"]
  <2>1. m2.body.elems = SwapFirstTwo(es)
    BY <1>1 DEF HonestMsg
  <2>2. SwapFirstTwo(es)[1] = es[2] /\ es[2] = Ev(k, st.sent[2]) /\ 2 \in 1..st.n
    BY <1>2, <1>5, <1>0 DEF SwapFirstTwo
  <2> SUFFICES ASSUME FinalizeCheck(st, rid, m2).ok PROVE FALSE
    OBVIOUS
  <2>3. HonestContent(st, rid, m2.body)
    BY AcceptedIsHonest, <1>0
  <2>4. m2.body.elems[1] = Ev(k, st.sent[1])
    BY <2>3, <1>0 DEF HonestContent
  <2>5. st.sent[1] = st.sent[2]
    BY <2>1, <2>2, <2>4 DEF Ev
  <2>6. st.sent[1] = Bl(TokenInput(5, nc, 1, k), <<rid, 1>>) /\ st.sent[2] = Bl(TokenInput(5, nc, 2, k), <<rid, 2>>)
    BY <1>0, <2>2
  <2> QED
    BY <2>5, <2>6 DEF Bl
<1> QED
  BY <1>3, <1>4, <1>5
=============================================================================
