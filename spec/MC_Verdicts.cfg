SPECIFICATION Spec
CONSTANTS
  Kind = "t1verify"
  Depth = 4
  Deviation = "none"
INVARIANT TypeOK
INVARIANT VerdictIsFunction
INVARIANT MemoSound
CHECK_DEADLOCK FALSE
