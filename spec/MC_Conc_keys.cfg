SPECIFICATION Spec
CONSTANTS
  Procs = {"g1", "g2"}
  Ops = {"EdSign", "EdVerify", "EdBlind", "EcSign", "EcVerify", "EcBlind"}
  OpsPerProc = 2
  Design = "eager"
INVARIANT NoRace
INVARIANT Linearizable
PROPERTY AllFinish
CHECK_DEADLOCK FALSE
