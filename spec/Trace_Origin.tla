---------------------------- MODULE Trace_Origin ----------------------------
(***************************************************************************)
(* Trace validation for property C20.  Events from the real library:       *)
(*   Pad        padOriginName / unpadOriginName on one name                *)
(*   ONew       a fresh rate-limited issuer (no origin registered)         *)
(*   Register   AddOriginWithIndexKey(origin)                              *)
(*   Evaluate   a real client request for `name` (size of its encoding     *)
(*              logged) evaluated by that issuer: served or refused        *)
(* The issuer's origin table is the specification variable `registered`.   *)
(***************************************************************************)
EXTENDS OriginPad, Json, TLC

Trace == ndJsonDeserialize("trace.ndjson")
VARIABLE l
vars == <<l, registered>>

Obl(e) ==
  CASE e.op = "Pad" -> <<
         <<"pad", e.padded = Pad(e.name)>>,
         <<"unpad-of-logged", e.unpadded = Unpad(e.padded)>>,
         <<"unpad-inverts-pad", ~EndsInZero(e.name) => e.unpadded = e.name>> >>
    [] e.op = "ONew" -> <<>>
    [] e.op = "Register" -> <<>>
    [] e.op = "Evaluate" -> <<
         <<"quiet", e.panic = "">>,        \* (no panic, and the issuer answered within the driver's time limit)
         <<"create-ok", e.created>>,
         <<"wire-size-depends-on-blocks-only", e.created => e.size = WireSize(Len(e.name))>>,
         <<"served-iff-registered", e.created => (e.served <=> Served(e.name))>> >>
    [] OTHER -> << <<"unknown-event", FALSE>> >>

Failed(e) == LET o == Obl(e) IN {o[i][1] : i \in {j \in 1..Len(o) : ~o[j][2]}}

Init == l = 1 /\ registered = {}
Next ==
  /\ l <= Len(Trace)
  /\ LET e == Trace[l]
         f == Failed(e)
     IN /\ IF f = {} THEN TRUE ELSE PrintT("REJECT " \o ToString(l) \o " " \o e.op \o " " \o ToString(f))
        /\ CASE e.op = "ONew" -> registered' = {}
             [] e.op = "Register" -> Register(e.origin)
             [] OTHER -> UNCHANGED registered
  /\ IF l = Len(Trace) THEN PrintT("DONE " \o ToString(l)) ELSE TRUE
  /\ l' = l + 1
Spec == Init /\ [][Next]_vars
=============================================================================
