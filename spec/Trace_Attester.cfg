SPECIFICATION TSpec
CONSTANTS
  BaseKeys = {"c1", "c2", "c3", "c4", "c5", "c6", "c7", "c8"}
  Clients = {"c1", "c2", "c3", "c4", "c5", "c6", "c7", "c8"}
  BlindKeys = {"k1", "k2", "k3", "k4", "b"}
  ClientBlinds = {"b"}
  Contexts = {"CB", "IB"}
  Origins = {"o1", "o2", "o3", "o4", "o5", "o6"}
  IndexKeyOf <- TrIndexKeyOf
  Anons = {"a0", "a1", "a2", "a3", "a4", "a5", "a6", "a7", "a8"}
  ClientBlindCtx = "CB"
  IssuerBlindCtx = "IB"
  Enforce = {"quiet", "accepts-iff-authentic", "put-only-on-first-accept", "registered-after", "verdict", "id-stable-and-injective", "returned-ids-keep-their-value", "id-is-hkdf-reference", "issuer-key-is-reference", "client-indices-match-model", "known-origins-match-model", "unknown-event"}
CHECK_DEADLOCK FALSE
