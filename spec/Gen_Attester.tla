---------------------------- MODULE Gen_Attester ----------------------------
(***************************************************************************)
(* Behaviour generator for Attester.tla: every sequence of calls up to     *)
(* Depth (over representative request classes) is a behaviour; the         *)
(* maximal ones are printed and executed on a real RateLimitedAttester;    *)
(* the recorded events are then validated by Trace_Attester.               *)
(***************************************************************************)
EXTENDS Attester

CONSTANT Depth
VARIABLE hist
MCIndexKeyOf == ("o1" :> "k1") @@ ("o2" :> "k1") @@ ("o3" :> "k2")

QGen == {"good", "badsig", "badkey", "badcky"}
QOf(n) == [sigOK |-> n # "badsig", keyOK |-> n # "badkey", ckeyOK |-> n # "badcky"]

GInit == Init /\ hist = ""
GNext == /\ Len(hist) < Depth * 12
         /\ \/ \E c \in Clients, n \in QGen :
                 VerifyRequest(c, QOf(n)) /\ hist' = hist \o " V:" \o c \o ":" \o n \o ((IF n = "good" THEN "  " ELSE ""))
            \/ \E c \in Clients, o \in Origins, a \in Anons :
                 FinalizeIndex(c, o, a, "b1") /\ hist' = hist \o " F:" \o c \o ":" \o o \o ":" \o a \o " "
GSpec == GInit /\ [][GNext]_<<vars, hist>>

\* every step appends exactly 12 characters, so Len(hist) = 12 * number of steps
Emit == Len(hist) < Depth * 12 \/ PrintT(<<"BEHAVIOUR", hist>>)
=============================================================================
