SPECIFICATION Spec
CONSTANTS
  Kinds = {"1ok", "1unk", "1bad", "2ok", "2unk", "2bad", "1okB", "1okC"}
  Configs = {"both", "t1only", "t2only", "firstfails", "none", "crosscollide", "samecollide", "samecollide2", "onlyfails"}
  MaxLen = 4
INVARIANT CountAndOrder
INVARIANT PresentIff
INVARIANT PresentFinalizes
INVARIANT Isolation
PROPERTY Completes
CHECK_DEADLOCK FALSE
