--------------------------- MODULE AttesterProofs ---------------------------
(***************************************************************************)
(* Machine-checked (TLAPS) proofs about Attester.tla for ARBITRARY sets of *)
(* clients, origins, blinds and anonymous IDs - TLC checks the same        *)
(* statements exhaustively for the small constants of MC_Attester.cfg;     *)
(* these proofs remove the bound from the design-level part of C08 / C09 / *)
(* C06.  Nothing here is bound to the code: that is Trace_Attester's job.  *)
(***************************************************************************)
EXTENDS Attester, TLAPS

ASSUME ConstAssump ==
  /\ Clients \subseteq BaseKeys
  /\ IndexKeyOf \in [Origins -> BlindKeys]
  /\ ClientBlinds \subseteq BlindKeys
  /\ ClientBlindCtx \in Contexts
  /\ IssuerBlindCtx \in Contexts

(* C08, design level: blinding by the client's per-request blind cancels, whatever the blind. *)
THEOREM IndexStableThm == IndexStable
<1>1. SUFFICES ASSUME NEW c \in Clients, NEW o \in Origins, NEW b \in ClientBlinds
               PROVE IdxOf(c, o, b) = IdxSpec(c, o)
  BY DEF IndexStable
<1> DEFINE h1 == Hb(b, ClientBlindCtx)
           h2 == Hb(IndexKeyOf[o], IssuerBlindCtx)
<1>2. h1 \in Atoms /\ h2 \in Atoms
  BY ConstAssump DEF Atoms, Hb
<1>3. Unblind(Blind(Blind(Pk(c), h1), h2), h1) = Blind(Pk(c), h2)
  BY <1>2 DEF Unblind, Blind, Pk, ZeroExp
<1>4. QED
  BY <1>3 DEF IdxOf, IdxSpec, IssuerBlinded, ReqKey

---------------------------------------------------------------------------
(* C06 / C09, design level: the cache is exactly the log of accepted pairs, registered = verified, and an issuer  *)
(* origin ID of a client is never bound to two anonymous origin IDs - as an inductive invariant of Spec.          *)
IdxValsOf(c, o) == {IdxOf(c, o, b) : b \in ClientBlinds}
IdxVals == UNION {UNION {IdxValsOf(c, o) : o \in Origins} : c \in Clients}

Inv ==
  /\ DOMAIN cache = verified
  /\ verified \subseteq Clients
  /\ accepted \subseteq Clients \X IdxVals \X Anons
  /\ \A p \in accepted : p[1] \in DOMAIN cache
  /\ \A c \in DOMAIN cache : cache[c].ci = {<<p[2], p[3]>> : p \in {q \in accepted : q[1] = c}}
  /\ FunctionalBinding

LEMMA InitInv == Init => Inv
  BY DEF Init, Inv, FunctionalBinding

LEMMA VerifyInv == ASSUME Inv, NEW c \in Clients, NEW q \in ReqClasses, VerifyRequest(c, q) PROVE Inv'
<1> USE DEF Inv, VerifyRequest, Registered, EmptyState, FunctionalBinding
<1>1. CASE VerifyOK(q) /\ c \notin DOMAIN cache
  <2>1. cache' = [x \in DOMAIN cache \cup {c} |-> IF x = c THEN EmptyState ELSE cache[x]] /\ verified' = verified \cup {c} /\ accepted' = accepted
    BY <1>1
  <2>2. \A p \in accepted : p[1] # c
    BY <1>1
  <2>3. cache'[c].ci = {}
    BY <2>1
  <2>4. {<<p[2], p[3]>> : p \in {q2 \in accepted' : q2[1] = c}} = {}
    BY <2>1, <2>2
  <2>5. \A x \in DOMAIN cache : cache'[x] = cache[x]
    BY <2>1, <1>1
  <2> QED
    BY <2>1, <2>2, <2>3, <2>4, <2>5
<1>2. CASE VerifyOK(q) /\ c \in DOMAIN cache
  <2>1. cache' = cache /\ verified' = verified /\ accepted' = accepted
    BY <1>2
  <2> QED
    BY <2>1
<1>3. CASE ~VerifyOK(q)
  <2>1. cache' = cache /\ verified' = verified /\ accepted' = accepted
    BY <1>3
  <2> QED
    BY <2>1
<1> QED
  BY <1>1, <1>2, <1>3

LEMMA LookupUnique ==
  ASSUME NEW m, NEW k, NEW v, <<k, v>> \in m, \A p1, p2 \in m : p1[1] = p2[1] => p1[2] = p2[2]
  PROVE Has(m, k) /\ Lookup(m, k) = v
<1>1. \E p \in m : p[1] = k
  OBVIOUS
<1>2. Has(m, k)
  BY <1>1 DEF Has
<1> DEFINE w == CHOOSE p \in m : p[1] = k
<1>3. w \in m /\ w[1] = k
  BY <1>1
<1>4. w[2] = v
  BY <1>3
<1> QED
  BY <1>1, <1>2, <1>4 DEF Lookup

LEMMA FinalizeInv ==
  ASSUME Inv, NEW c \in Clients, NEW o \in Origins, NEW a \in Anons, NEW b \in ClientBlinds, FinalizeIndex(c, o, a, b)
  PROVE Inv'
<1> DEFINE idx == IdxOf(c, o, b)
           res == FinalizeOutcome(c, o, a, b)
<1> idx \in IdxVals
  <2>1. idx \in IdxValsOf(c, o)
    BY DEF IdxValsOf
  <2>2. IdxValsOf(c, o) \in {IdxValsOf(c, o2) : o2 \in Origins}
    OBVIOUS
  <2>3. idx \in UNION {IdxValsOf(c, o2) : o2 \in Origins}
    BY <2>1, <2>2
  <2>4. UNION {IdxValsOf(c, o2) : o2 \in Origins} \in {UNION {IdxValsOf(c2, o2) : o2 \in Origins} : c2 \in Clients}
    OBVIOUS
  <2> QED
    BY <2>3, <2>4 DEF IdxVals
<1>1. CASE c \notin DOMAIN cache
  <2>1. UNCHANGED vars
    BY <1>1 DEF FinalizeIndex, FinalizeOutcome, Registered
  <2> QED
    BY <2>1 DEF vars, Inv, FunctionalBinding
<1>2. CASE c \in DOMAIN cache
  <2> DEFINE st == cache[c]
             oi2 == IF Has(st.oi, a) THEN st.oi ELSE st.oi \cup {<<a, idx>>}
             mine == {q \in accepted : q[1] = c}
  <2>0. st.ci = {<<p[2], p[3]>> : p \in mine}
    BY <1>2 DEF Inv
  <2>f. \A p1, p2 \in st.ci : p1[1] = p2[1] => p1[2] = p2[2]
    BY <2>0 DEF Inv, FunctionalBinding
  <2>1. CASE Has(st.ci, idx) /\ Lookup(st.ci, idx) # a
    <3>1. res = "conflict"
      BY <1>2, <2>1 DEF FinalizeOutcome, Registered
    <3>2. cache' = [cache EXCEPT ![c] = [oi |-> oi2, ci |-> st.ci]] /\ accepted' = accepted /\ verified' = verified
      BY <1>2, <3>1 DEF FinalizeIndex, FinalizeOutcome, Registered
    <3>3. DOMAIN cache' = DOMAIN cache /\ \A x \in DOMAIN cache : cache'[x].ci = cache[x].ci
      BY <3>2, <1>2
    <3> QED
      BY <3>2, <3>3 DEF Inv, FunctionalBinding
  <2>2. CASE ~(Has(st.ci, idx) /\ Lookup(st.ci, idx) # a)
    <3>1. res = "ok"
      BY <1>2, <2>2 DEF FinalizeOutcome, Registered
    <3>2. /\ cache' = [cache EXCEPT ![c] = [oi |-> oi2, ci |-> {p \in st.ci : p[1] # idx} \cup {<<idx, a>>}]]
          /\ accepted' = accepted \cup {<<c, idx, a>>} /\ verified' = verified
      BY <1>2, <3>1 DEF FinalizeIndex, FinalizeOutcome, Registered
    <3>3. \A p \in mine : p[2] = idx => p[3] = a
      <4> SUFFICES ASSUME NEW p \in mine, p[2] = idx PROVE p[3] = a
        OBVIOUS
      <4>1. <<idx, p[3]>> \in st.ci
        BY <2>0
      <4>2. Has(st.ci, idx) /\ Lookup(st.ci, idx) = p[3]
        BY <4>1, <2>f, LookupUnique
      <4> QED
        BY <4>2, <2>2
    <3>4. FunctionalBinding'
      BY <3>2, <3>3 DEF Inv, FunctionalBinding
    <3>5. DOMAIN cache' = DOMAIN cache /\ \A x \in DOMAIN cache \ {c} : cache'[x].ci = cache[x].ci
      BY <3>2, <1>2
    <3>6. cache'[c].ci = {p \in st.ci : p[1] # idx} \cup {<<idx, a>>}
      BY <3>2, <1>2
    <3> DEFINE mine2 == {q \in accepted' : q[1] = c}
    <3>7. mine2 = mine \cup {<<c, idx, a>>}
      BY <3>2
    <3>8. {p \in st.ci : p[1] # idx} \cup {<<idx, a>>} = {<<p[2], p[3]>> : p \in mine2}
      <4>1. ASSUME NEW z \in {p \in st.ci : p[1] # idx} \cup {<<idx, a>>} PROVE z \in {<<p[2], p[3]>> : p \in mine2}
        <5>1. CASE z = <<idx, a>>
          <6>1. <<c, idx, a>> \in mine2
            BY <3>7
          <6>2. <<c, idx, a>>[2] = idx /\ <<c, idx, a>>[3] = a
            OBVIOUS
          <6> QED
            BY <5>1, <6>1, <6>2
        <5>2. CASE z \in st.ci
          BY <5>2, <2>0, <3>7
        <5> QED
          BY <5>1, <5>2
      <4>2. ASSUME NEW z \in {<<p[2], p[3]>> : p \in mine2} PROVE z \in {p \in st.ci : p[1] # idx} \cup {<<idx, a>>}
        <5>1. PICK p \in mine2 : z = <<p[2], p[3]>>
          OBVIOUS
        <5>2. CASE p = <<c, idx, a>>
          BY <5>1, <5>2
        <5>3. CASE p \in mine
          <6>1. z \in st.ci
            BY <5>1, <5>3, <2>0
          <6>2. CASE p[2] = idx
            BY <5>1, <5>3, <6>2, <3>3
          <6>3. CASE p[2] # idx
            BY <5>1, <6>1, <6>3
          <6> QED
            BY <6>2, <6>3
        <5> QED
          BY <5>2, <5>3, <3>7
      <4> QED
        BY <4>1, <4>2
    <3>9. \A x \in DOMAIN cache \ {c} : {q \in accepted' : q[1] = x} = {q \in accepted : q[1] = x}
      BY <3>2
    <3>10. \A x \in DOMAIN cache' : cache'[x].ci = {<<p[2], p[3]>> : p \in {q \in accepted' : q[1] = x}}
      BY <3>5, <3>6, <3>8, <3>9 DEF Inv
    <3>11. accepted' \subseteq Clients \X IdxVals \X Anons
      BY <3>2 DEF Inv
    <3>12. \A p \in accepted' : p[1] \in DOMAIN cache'
      BY <3>2, <3>5, <1>2 DEF Inv
    <3> QED
      BY <3>2, <3>4, <3>5, <3>10, <3>11, <3>12 DEF Inv
  <2> QED
    BY <2>1, <2>2
<1> QED
  BY <1>1, <1>2

THEOREM Safety == Spec => []Inv
<1>1. Inv /\ [Next]_vars => Inv'
  <2> SUFFICES ASSUME Inv, [Next]_vars PROVE Inv'
    OBVIOUS
  <2>1. CASE UNCHANGED vars
    BY <2>1 DEF vars, Inv, FunctionalBinding
  <2>2. CASE Next
    BY <2>2, VerifyInv, FinalizeInv DEF Next
  <2> QED
    BY <2>1, <2>2
<1> QED
  BY InitInv, <1>1, PTL DEF Spec

(* the properties TLC checks as invariants in MC_Attester follow from Inv *)
THEOREM Spec => [](RegisteredOnlyVerified /\ FunctionalBinding /\ StateIsLog)
<1>1. Inv => RegisteredOnlyVerified /\ FunctionalBinding /\ StateIsLog
  BY DEF Inv, RegisteredOnlyVerified, StateIsLog, Registered
<1> QED
  BY <1>1, Safety, PTL

THEOREM IndexInjectiveThm == IndexInjective
<1> SUFFICES ASSUME NEW x1 \in Clients, NEW x2 \in Clients, NEW p1 \in Origins, NEW p2 \in Origins
             PROVE IdxSpec(x1, p1) = IdxSpec(x2, p2) <=> (x1 = x2 /\ IndexKeyOf[p1] = IndexKeyOf[p2])
  BY DEF IndexInjective
<1> DEFINE h1 == Hb(IndexKeyOf[p1], IssuerBlindCtx)
           h2 == Hb(IndexKeyOf[p2], IssuerBlindCtx)
<1>1. h1 \in Atoms /\ h2 \in Atoms
  BY ConstAssump DEF Atoms, Hb
<1>2. ASSUME IdxSpec(x1, p1) = IdxSpec(x2, p2) PROVE x1 = x2 /\ IndexKeyOf[p1] = IndexKeyOf[p2]
  <2>1. Pk(x1) = Pk(x2) /\ Blind(Pk(x1), h1) = Blind(Pk(x2), h2)
    BY <1>2 DEF IdxSpec, Hkdf
  <2>2. x1 = x2
    BY <2>1 DEF Pk
  <2>3. Blind(Pk(x1), h1).e[h1] = 1
    BY <1>1 DEF Blind, Pk, ZeroExp
  <2>4. h1 # h2 => Blind(Pk(x2), h2).e[h1] = 0
    BY <1>1 DEF Blind, Pk, ZeroExp
  <2>5. h1 = h2
    BY <2>1, <2>3, <2>4
  <2> QED
    BY <2>2, <2>5 DEF Hb
<1>3. ASSUME x1 = x2, IndexKeyOf[p1] = IndexKeyOf[p2] PROVE IdxSpec(x1, p1) = IdxSpec(x2, p2)
  BY <1>3 DEF IdxSpec
<1> QED
  BY <1>2, <1>3

(* the remaining state predicates of MC_Attester are consequences of Inv and index stability *)
THEOREM Consequences == Inv => UnverifiedRefused /\ NoSpuriousReject /\ RepeatAndFreshAccepted
<1> SUFFICES ASSUME Inv PROVE UnverifiedRefused /\ NoSpuriousReject /\ RepeatAndFreshAccepted
  OBVIOUS
<1>s. \A c \in Clients, o \in Origins, b \in ClientBlinds : IdxOf(c, o, b) = IdxSpec(c, o)
  BY IndexStableThm DEF IndexStable
<1>1. UnverifiedRefused
  BY DEF Inv, UnverifiedRefused, FinalizeOutcome, Registered
<1>2. NoSpuriousReject
  <2> SUFFICES ASSUME NEW c \in Clients, NEW o \in Origins, NEW a \in Anons, NEW b \in ClientBlinds,
                      FinalizeOutcome(c, o, a, b) = "conflict"
               PROVE \E p \in accepted : p[1] = c /\ p[2] = IdxSpec(c, o) /\ p[3] # a
    BY DEF NoSpuriousReject
  <2> DEFINE idx == IdxOf(c, o, b)
             ci == cache[c].ci
  <2>1. c \in DOMAIN cache /\ Has(ci, idx) /\ Lookup(ci, idx) # a
    BY DEF FinalizeOutcome, Registered
  <2>2. ci = {<<p[2], p[3]>> : p \in {q \in accepted : q[1] = c}}
    BY <2>1 DEF Inv
  <2> DEFINE w == CHOOSE p \in ci : p[1] = idx
  <2>3. w \in ci /\ w[1] = idx /\ w[2] # a
    BY <2>1 DEF Has, Lookup
  <2>4. PICK p \in accepted : p[1] = c /\ w = <<p[2], p[3]>>
    BY <2>2, <2>3
  <2> QED
    BY <2>3, <2>4, <1>s
<1>3. RepeatAndFreshAccepted
  <2> SUFFICES ASSUME NEW c \in Registered, NEW o \in Origins, NEW a \in Anons, NEW b \in ClientBlinds,
                      <<c, IdxSpec(c, o), a>> \in accepted \/ ~\E p \in accepted : p[1] = c /\ p[2] = IdxSpec(c, o)
               PROVE FinalizeOutcome(c, o, a, b) = "ok"
    BY DEF RepeatAndFreshAccepted
  <2> DEFINE idx == IdxOf(c, o, b)
             ci == cache[c].ci
  <2>0. c \in Clients /\ c \in DOMAIN cache
    BY DEF Inv, Registered
  <2>1. idx = IdxSpec(c, o)
    BY <1>s, <2>0
  <2>2. ci = {<<p[2], p[3]>> : p \in {q \in accepted : q[1] = c}}
    BY <2>0 DEF Inv
  <2>f. \A p1, p2 \in ci : p1[1] = p2[1] => p1[2] = p2[2]
    BY <2>2 DEF Inv, FunctionalBinding
  <2>3. CASE <<c, IdxSpec(c, o), a>> \in accepted
    <3>1. <<idx, a>> \in ci
      BY <2>3, <2>1, <2>2
    <3>2. Lookup(ci, idx) = a
      BY <3>1, <2>f, LookupUnique
    <3> QED
      BY <3>2, <2>0 DEF FinalizeOutcome, Registered
  <2>4. CASE ~\E p \in accepted : p[1] = c /\ p[2] = IdxSpec(c, o)
    <3>1. ~Has(ci, idx)
      BY <2>4, <2>1, <2>2 DEF Has
    <3> QED
      BY <3>1, <2>0 DEF FinalizeOutcome, Registered
  <2> QED
    BY <2>3, <2>4
<1> QED
  BY <1>1, <1>2, <1>3
=============================================================================
