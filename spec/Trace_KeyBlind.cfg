SPECIFICATION TSpec
CONSTANTS
  BaseKeys = {"s1", "s2", "s3"}
  BlindKeys = {"b1", "b2", "b3", "b4", "lead0", "geN", "one", "bzero"}
  Contexts = {"", "ctxA", "ctxB", "long", "rare1", "rare2", "rare3"}
  Digests = {"d0", "d1", "d2", "dlong", "dlong0", "dlongf"}
  MaxDepth = 100
  Deterministic = FALSE
  Enforce = {"quiet", "known-input", "op-ok", "key-identity", "matches-reference", "signature-identity", "fork-verdict", "context-matters", "invalid-key-refused", "std-verdict", "unknown-event"}
CHECK_DEADLOCK FALSE
