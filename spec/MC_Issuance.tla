---------------------------- MODULE MC_Issuance ----------------------------
EXTENDS Issuance
\* at most two responses in flight, at most two outstanding finalizations recorded
Bound == Cardinality(net) <= 2 /\ Cardinality(out) <= 4 /\ Cardinality(refused) <= 3
\* tighter bound for the batched type (the mutation alphabet is larger)
Bound5 == Cardinality(net) <= 1 /\ Cardinality(out) <= 2 /\ Cardinality(refused) <= 1
RLFlipsRejected == EveryFlipRejected({"o1", "o2"}) /\ ~RLAccepts(HonestRL("o3"), {"o1", "o2"})
=============================================================================
