SPECIFICATION TSpec
CONSTANTS
  Procs = {"g1"}
  Ops = {"Verify"}
  OpsPerProc = 1
  Design = "eager"
CHECK_DEADLOCK FALSE
