SPECIFICATION TSpec
CONSTANTS
  R = 2
  W = 4
  B = 2
  MaxOps = 0
  Deviation = "none"
  Enforce = {"quiet", "schedule-follows-model", "ageless", "every-operation-ran"}
INVARIANT Ageless
CHECK_DEADLOCK FALSE
