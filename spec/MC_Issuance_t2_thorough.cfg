SPECIFICATION Spec
CONSTANTS
  Keys = {"k1", "k2"}
  Rids = {"r1", "r2"}
  Ncs = {"n1", "n2"}
  Types = {2}
  MaxBatch = 1
CONSTRAINT Bound
INVARIANT OnlyGoodTokens
INVARIANT ListedMutationsRejected
INVARIANT ForeignKeyRejected
INVARIANT HonestAccepted
INVARIANT VerifyExact
INVARIANT TokenIgnoresBlind
