------------------------------- MODULE Ages -------------------------------
(***************************************************************************)
(* A long-lived object in long use.  Every listed property is a statement  *)
(* about single answers (a token verifies, a request is refused, an ID is  *)
(* stable, an encoding is canonical); issuers, verifiers, attesters,       *)
(* clients, reused codec objects and the packages behind them live for a   *)
(* whole process.  The specification of all of them is AGELESS: the answer *)
(* to a presented item is its truth, however many operations came before,  *)
(* and an item answered once is answered the same way when it comes back.  *)
(*                                                                         *)
(* The intended design holds no bounded resource.  Three deviations are    *)
(* the shapes only a long run uncovers (negative controls):                *)
(*   "ring-stale-index"  a memo ring of R slots in front of the decision;  *)
(*                       on eviction the slot is reused but the evicted    *)
(*                       item stays in the index, so it resolves to the    *)
(*                       newcomer's answer                                 *)
(*   "counter-wrap"      an operation counter of W values; the operation   *)
(*                       on which it wraps is answered wrongly (refused or *)
(*                       crashed) whatever is presented                    *)
(*   "budget-leak"       a budget of B, taken per operation and given back *)
(*                       only on acceptance; when it is gone everything is *)
(*                       refused                                           *)
(*   "ring-swept"        the same ring, whose stale index entries are      *)
(*                       swept once 2R items are indexed: the evicted item *)
(*                       resolves wrongly only while it comes back within  *)
(*                       a WINDOW (more than R, fewer than 2R newcomers    *)
(*                       later) - why the drivers run a schedule at        *)
(*                       several scales                                    *)
(* Each violates Ageless, and none of them before the resource is used up  *)
(* (YoungIsBlind): a history shorter than the table cannot see them.  That *)
(* is why the drivers scale every phase of a generated schedule to more    *)
(* operations than any table they are to find (Gen_Ages emits every        *)
(* schedule of phases; fam_ages.go runs each phase n times).               *)
(***************************************************************************)
EXTENDS Integers, Sequences, FiniteSets, TLC

CONSTANTS R, W, B,      \* ring slots, counter values, budget
          MaxOps,       \* operations per history (model checking) / phases per schedule (generation)
          Deviation

Ops == {"honest", "refused", "same", "probe"}
\* honest   a fresh authentic item                  -> accepted
\* refused  a fresh item that must be refused       -> refused
\* same     the first item ever presented, again    -> as the first time
\* probe    the oldest item not yet re-presented    -> as the first time

VARIABLES age,        \* operations so far
          items,      \* items presented so far, in order: [good |-> BOOLEAN]
          probed,     \* how many of the oldest items were re-presented
          ring, index, nxt,   \* deviation "ring-stale-index": slot -> item number, item number -> slot, next slot
          budget,     \* deviation "budget-leak"
          last,       \* [item, answer] of the last operation, <<>> initially
          sched       \* the operation names so far (what the generator emits)

vars == <<age, items, probed, ring, index, nxt, budget, last, sched>>

Truth(i) == IF items[i].good THEN "accept" ELSE "refuse"

Init ==
  /\ age = 0 /\ items = <<>> /\ probed = 0
  /\ ring = [s \in 0..(R - 1) |-> 0] /\ index = <<>> /\ nxt = 0
  /\ budget = B
  /\ last = <<>> /\ sched = <<>>

\* the decision on item number i of its[] (a new or an old one)
Decide(i, its) ==
  LET t == IF its[i].good THEN "accept" ELSE "refuse" IN
  CASE Deviation \in {"ring-stale-index", "ring-swept"} ->
         IF i \in DOMAIN index /\ index[i] # R       \* indexed: the answer of whatever the slot holds NOW
           THEN (IF its[ring[index[i]]].good THEN "accept" ELSE "refuse")
           ELSE t
    [] Deviation = "counter-wrap" -> IF (age + 1) % W = 0 THEN "refuse" ELSE t
    [] Deviation = "budget-leak" -> IF budget = 0 THEN "refuse" ELSE t
    [] OTHER -> t

\* bookkeeping of the deviations after deciding item i
Remember(i, its) ==
  /\ IF Deviation \in {"ring-stale-index", "ring-swept"} /\ ~(i \in DOMAIN index /\ index[i] # R)
       THEN /\ ring' = [ring EXCEPT ![nxt] = i]
            /\ nxt' = (nxt + 1) % R
            \* the evicted item keeps its index entry (the defect); R marks "not indexed"
            /\ LET kept == [j \in 1..Len(its) |-> IF j = i THEN nxt ELSE IF j \in DOMAIN index THEN index[j] ELSE R]
                   ring2 == [ring EXCEPT ![nxt] = i]
               IN index' = IF Deviation = "ring-swept" /\ Cardinality({j \in DOMAIN kept : kept[j] # R}) >= 2 * R
                             THEN [j \in DOMAIN kept |-> IF kept[j] # R /\ ring2[kept[j]] = j THEN kept[j] ELSE R]   \* the sweep
                             ELSE kept
       ELSE UNCHANGED <<ring, nxt, index>>
  /\ IF Deviation = "budget-leak" /\ budget > 0 /\ Decide(i, its) = "refuse"
       THEN budget' = budget - 1 ELSE UNCHANGED budget

Present(op, i, its) ==
  /\ age' = age + 1
  /\ items' = its
  /\ last' = <<i, Decide(i, its)>>
  /\ Remember(i, its)
  /\ sched' = Append(sched, op)

Honest  == Present("honest", Len(items) + 1, Append(items, [good |-> TRUE])) /\ UNCHANGED probed
Refused == Present("refused", Len(items) + 1, Append(items, [good |-> FALSE])) /\ UNCHANGED probed
Same    == Len(items) > 0 /\ Present("same", 1, items) /\ UNCHANGED probed
Probe   == probed < Len(items) /\ Present("probe", probed + 1, items) /\ probed' = probed + 1

Next == age < MaxOps /\ (Honest \/ Refused \/ Same \/ Probe)

Spec == Init /\ [][Next]_vars

----------------------------------------------------------------------------
TypeOK == age \in 0..MaxOps /\ Len(items) <= age /\ probed <= Len(items) /\ budget \in 0..B /\ nxt \in 0..(R - 1)

\* THE property: the answer is the truth of the item, at any age
Ageless == last = <<>> \/ last[2] = Truth(last[1])

\* the deviations are invisible until their resource is used up
YoungIsBlind ==
  (age <= (CASE Deviation \in {"ring-stale-index", "ring-swept"} -> R [] Deviation = "counter-wrap" -> W - 1 [] Deviation = "budget-leak" -> B [] OTHER -> 0))
     => Ageless

\* "ring-swept": an item that comes back after the sweep is answered rightly again - the wrong answer lives in a window
\* (checked with the deviation: the FIRST item, re-presented when at least 2R + 1 items have been presented, is right)
OldIsRightAgain ==
  (Deviation = "ring-swept" /\ last # <<>> /\ last[1] = 1 /\ Len(items) >= 2 * R + 1) => last[2] = Truth(1)

----------------------------------------------------------------------------
\* Generation: every schedule of up to MaxOps phases (the drivers run each phase n times; two equal phases in a row
\* are one longer phase, so they are not generated)
GenNext == Next /\ (sched = <<>> \/ sched'[Len(sched')] # sched[Len(sched)])
Emit == PrintT(<<"BEHAVIOUR", sched>>)
=============================================================================
