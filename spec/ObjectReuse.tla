---------------------------- MODULE ObjectReuse ----------------------------
(***************************************************************************)
(* A message object with a cached encoding, as the request types of pat-go *)
(* are built: Marshal returns the cache when it is set and fills it        *)
(* otherwise; Unmarshal(b) overwrites the decoded fields.                  *)
(*                                                                         *)
(* Values are abstract: "v0" is the zero value of a fresh object, "v1" and *)
(* "v2" two distinct well-formed values, input "g" is garbage the decoder  *)
(* rejects.  Enc is injective on values.                                   *)
(*                                                                         *)
(* Invalidate = TRUE is the intended design (an accepting Unmarshal        *)
(* invalidates the cache); Invalidate = FALSE is the named deviation       *)
(* "stale cache", which TLC shows to violate MarshalIsCurrent.             *)
(***************************************************************************)
EXTENDS Sequences, Naturals

CONSTANT Invalidate

VARIABLES val,      \* value held: "v0", "v1", "v2" or "unknown" (after a rejected decode)
          cache,    \* "none" or the value whose encoding is cached
          out       \* what the last Marshal returned ("none" before any)

vars == <<val, cache, out>>

Values == {"v1", "v2"}
Inputs == {"v1", "v2", "g"}        \* Unmarshal(Enc(v1)), Unmarshal(Enc(v2)), Unmarshal(garbage)

Init == val = "v0" /\ cache = "none" /\ out = "none"

Marshal ==
  /\ IF cache # "none" THEN out' = cache /\ UNCHANGED cache
     ELSE out' = val /\ cache' = val
  /\ UNCHANGED val

Unmarshal(x) ==
  /\ IF x \in Values
       THEN /\ val' = x
            /\ cache' = IF Invalidate THEN "none" ELSE cache
       ELSE \* rejected: the fields may be partly overwritten; the cache is kept
            /\ val' = "unknown"
            /\ UNCHANGED cache
  /\ out' = "none"

Next == Marshal \/ \E x \in Inputs : Unmarshal(x)

Spec == Init /\ [][Next]_vars

\* After an accepting Unmarshal (and until a rejected one), Marshal returns the
\* encoding of the value the object holds, whatever it held before.
MarshalIsCurrent == (out # "none" /\ val # "unknown") => out = val
=============================================================================
