SPECIFICATION Spec
CONSTANTS
  Kind = "attester"
  Depth = 3
  Deviation = "none"
INVARIANT FrameCondition
INVARIANT Emit
CHECK_DEADLOCK FALSE
