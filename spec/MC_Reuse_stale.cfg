SPECIFICATION Spec
CONSTANT Invalidate = FALSE
INVARIANT MarshalIsCurrent
