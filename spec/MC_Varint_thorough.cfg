SPECIFICATION Spec
CONSTANT MaxVal = 131075
INVARIANT ValLaws
INVARIANT InLaws
CHECK_DEADLOCK FALSE
