------------------------------ MODULE TLSWire ------------------------------
(***************************************************************************)
(* Reader / writer combinators for the TLS presentation language           *)
(* (uintN, fixed arrays, opaque<..> with 8/16-bit length) and for          *)
(* varint-prefixed lists, in the style of cryptobyte.String: a reader      *)
(* takes the remaining input and returns either Fail or the value read and *)
(* the new remaining input.  A reader never looks past the end of its      *)
(* input: every SubSeq below is guarded by a length comparison (this is    *)
(* the `need(n)` before `take(n)` discipline of property C03).             *)
(***************************************************************************)
EXTENDS Varint

Ok(v, rest) == [ok |-> TRUE, val |-> v, rest |-> rest]

RdU8(s)  == IF Len(s) < 1 THEN Fail ELSE Ok(s[1], Drop(s, 1))
RdU16(s) == IF Len(s) < 2 THEN Fail ELSE Ok(s[1] * 256 + s[2], Drop(s, 2))
RdFixed(s, n) == IF Len(s) < n THEN Fail ELSE Ok(Take(s, n), Drop(s, n))
RdVec8(s) ==
  IF Len(s) < 1 THEN Fail
  ELSE IF Len(s) - 1 < s[1] THEN Fail
  ELSE Ok(Slice(s, 2, s[1]), Drop(s, 1 + s[1]))
RdVec16(s) ==
  IF Len(s) < 2 THEN Fail
  ELSE LET n == s[1] * 256 + s[2]
       IN IF Len(s) - 2 < n THEN Fail
          ELSE Ok(Slice(s, 3, n), Drop(s, 2 + n))
\* varint-length-prefixed opaque string
RdVarVec(s) ==
  LET d == VarintBytesDec(s)
  IN IF ~d.ok THEN Fail ELSE Ok(d.out, Drop(s, d.n))

WrU8(n)    == <<n>>
WrU16(n)   == <<n \div 256, n % 256>>
WrVec8(b)  == <<Len(b)>> \o b
WrVec16(b) == WrU16(Len(b)) \o b
WrVarVec(b) == VarintBytesEnc(b)

\* Split a string into consecutive chunks of n bytes (Len(s) % n = 0).
Chunks(s, n) == [i \in 1..(Len(s) \div n) |-> Slice(s, (i - 1) * n + 1, n)]

RECURSIVE Concat(_)
Concat(ss) == IF Len(ss) = 0 THEN <<>> ELSE Head(ss) \o Concat(Tail(ss))
=============================================================================
