SPECIFICATION Spec
CONSTANTS
  Kind = "t3state"
  Depth = 2
  Deviation = "append-to-handed-out"
INVARIANT FrameCondition
CHECK_DEADLOCK FALSE
