SPECIFICATION Spec
CONSTANTS
  Kind = "t5issuer"
  Depth = 3
  Deviation = "none"
INVARIANT FrameCondition
INVARIANT Emit
CHECK_DEADLOCK FALSE
