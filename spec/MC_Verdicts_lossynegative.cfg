SPECIFICATION Spec
CONSTANTS
  Kind = "t1verify"
  Depth = 3
  Deviation = "lossy-negative"
INVARIANT VerdictIsFunction
CHECK_DEADLOCK FALSE
