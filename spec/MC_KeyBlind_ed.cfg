SPECIFICATION KSpec
CONSTANTS
  BaseKeys = {"s1", "s2"}
  BlindKeys = {"b1", "b2"}
  Contexts = {"", "ctxA"}
  Digests = {"d1", "d2"}
  MaxDepth = 2
  Deterministic = TRUE
INVARIANT SignVerifiesUnderBlinded
INVARIANT NotUnderOtherKeys
INVARIANT UnblindInverts
INVARIANT BlindCommutes
INVARIANT BlindAndContextMatter
INVARIANT BlindChangesKey
INVARIANT PoolSignaturesSound
INVARIANT SignDeterministic
CHECK_DEADLOCK FALSE
