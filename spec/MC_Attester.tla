---------------------------- MODULE MC_Attester ----------------------------
EXTENDS Attester
\* o1 and o2 share an index key: their issuer origin IDs collide for every client
MCIndexKeyOf == ("o1" :> "k1") @@ ("o2" :> "k1") @@ ("o3" :> "k2")
=============================================================================
