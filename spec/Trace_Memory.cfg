SPECIFICATION TSpec
CONSTANTS
  Kind = "codec"
  Depth = 0
  Deviation = "none"
CHECK_DEADLOCK FALSE
