------------------------------- MODULE Bytes -------------------------------
(***************************************************************************)
(* Byte strings as sequences over 0..255.                                  *)
(*                                                                         *)
(* TLC integers are 32-bit, so any quantity of pat-go that can exceed      *)
(* 2^31-1 (varint values, declared lengths, RSA moduli, scalars) is a byte *)
(* string here, never an Int.  Ints are used only for lengths of messages  *)
(* that actually exist (at most a few thousand bytes).                     *)
(***************************************************************************)
EXTENDS Integers, Sequences, FiniteSets

Byte == 0..255

IsBytes(s) == /\ DOMAIN s = 1..Len(s)
              /\ \A i \in 1..Len(s) : s[i] \in Byte

Zeros(n) == [i \in 1..n |-> 0]

Take(s, n) == SubSeq(s, 1, n)
Drop(s, n) == SubSeq(s, n + 1, Len(s))
Slice(s, from, n) == SubSeq(s, from, from + n - 1)     \* 1-based, n bytes

AllZero(s) == \A i \in 1..Len(s) : s[i] = 0

\* Big-endian value of a string of at most 3 bytes (fits an Int).
BE(s) == IF Len(s) = 0 THEN 0
         ELSE IF Len(s) = 1 THEN s[1]
         ELSE IF Len(s) = 2 THEN s[1] * 256 + s[2]
         ELSE s[1] * 65536 + s[2] * 256 + s[3]

U8Enc(n)  == <<n>>
U16Enc(n) == <<n \div 256, n % 256>>

\* Big-endian encoding of a small Int on exactly k bytes (k <= 8, n < 2^31).
RECURSIVE BEEnc(_, _)
BEEnc(n, k) == IF k = 0 THEN <<>> ELSE Append(BEEnc(n \div 256, k - 1), n % 256)

\* Lexicographic comparison of equal-length strings = numeric comparison of
\* the big-endian values.  -1, 0, 1.
RECURSIVE FirstDiff(_, _, _)
FirstDiff(a, b, i) == IF i > Len(a) THEN 0 ELSE IF a[i] # b[i] THEN i ELSE FirstDiff(a, b, i + 1)

CmpBE(a, b) ==
  LET i == FirstDiff(a, b, 1)
  IN IF i = 0 THEN 0 ELSE IF a[i] < b[i] THEN -1 ELSE 1

\* Numeric comparison of two big-endian strings of any lengths.
RECURSIVE FirstNonZero(_, _)
FirstNonZero(s, i) == IF i > Len(s) THEN 0 ELSE IF s[i] # 0 THEN i ELSE FirstNonZero(s, i + 1)

RECURSIVE LastNonZero(_, _)
LastNonZero(s, i) == IF i = 0 THEN 0 ELSE IF s[i] # 0 THEN i ELSE LastNonZero(s, i - 1)

StripLeadingZeros(s) ==
  LET k == FirstNonZero(s, 1)
  IN IF k = 0 THEN <<>> ELSE SubSeq(s, k, Len(s))

CmpNum(a, b) ==
  LET x == StripLeadingZeros(a)
      y == StripLeadingZeros(b)
  IN IF Len(x) < Len(y) THEN -1
     ELSE IF Len(x) > Len(y) THEN 1
     ELSE CmpBE(x, y)

\* Little-endian string reversed to big-endian.
Reverse(s) == [i \in 1..Len(s) |-> s[Len(s) + 1 - i]]

\* Value of a big-endian string as an Int when it is < 2^31, else -1.
SmallInt(s) ==
  LET t == StripLeadingZeros(s)
  IN IF Len(t) > 4 THEN -1
     ELSE IF Len(t) = 4 /\ t[1] >= 128 THEN -1
     ELSE IF Len(t) = 4 THEN t[1] * 16777216 + BE(SubSeq(t, 2, 4))
     ELSE BE(t)

Max(a, b) == IF a > b THEN a ELSE b
Min(a, b) == IF a < b THEN a ELSE b
=============================================================================
