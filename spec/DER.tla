-------------------------------- MODULE DER --------------------------------
(***************************************************************************)
(* The DER needed by pat-go: TLV writer / reader over byte strings, the    *)
(* two SubjectPublicKeyInfo forms of an RSA token key, and the strict      *)
(* ECDSA-Sig-Value SEQUENCE { INTEGER r, INTEGER s }.                      *)
(*                                                                         *)
(* The RSASSA-PSS AlgorithmIdentifier is written out byte for byte from    *)
(* RFC 9578 (token type 0x0002: SHA-384, MGF1 with SHA-384, salt 48) - it  *)
(* is not derived from the Go code.  Big numbers (modulus, r, s) are       *)
(* big-endian byte strings; the exponent is a byte string as well.         *)
(***************************************************************************)
EXTENDS Bytes

DFail == [ok |-> FALSE]

\* definite length, minimal form (lengths below 2^16 suffice here)
DerLen(n) == IF n < 128 THEN <<n>>
             ELSE IF n < 256 THEN <<129, n>>
             ELSE <<130, n \div 256, n % 256>>

Tlv(tag, content) == <<tag>> \o DerLen(Len(content)) \o content

\* non-negative INTEGER from a big-endian magnitude: minimal, sign octet if needed
DerUInt(mag) ==
  LET m == StripLeadingZeros(mag)
  IN Tlv(2, IF Len(m) = 0 THEN <<0>> ELSE IF m[1] >= 128 THEN <<0>> \o m ELSE m)

\* AlgorithmIdentifier  id-RSASSA-PSS { sha384, mgf1SHA384, saltLength 48 }   (RFC 9578)
PssAlgId == << 48, 61,
   6, 9, 42, 134, 72, 134, 247, 13, 1, 1, 10,
   48, 48,
     160, 13, 48, 11, 6, 9, 96, 134, 72, 1, 101, 3, 4, 2, 2,
     161, 26, 48, 24, 6, 9, 42, 134, 72, 134, 247, 13, 1, 1, 8,
                 48, 11, 6, 9, 96, 134, 72, 1, 101, 3, 4, 2, 2,
     162, 3, 2, 1, 48 >>

\* AlgorithmIdentifier  rsaEncryption with NULL parameters   (RFC 3279)
RsaAlgId == << 48, 13, 6, 9, 42, 134, 72, 134, 247, 13, 1, 1, 1, 5, 0 >>

RsaPublicKey(n, e) == Tlv(48, DerUInt(n) \o DerUInt(e))

Spki(alg, n, e) == Tlv(48, alg \o Tlv(3, <<0>> \o RsaPublicKey(n, e)))
SpkiPss(n, e) == Spki(PssAlgId, n, e)
SpkiRsa(n, e) == Spki(RsaAlgId, n, e)

---------------------------------------------------------------------------
\* Reader: one TLV from the front of s. Lengths must be definite and minimal.
RdTlv(s) ==
  IF Len(s) < 2 THEN DFail
  ELSE LET tag == s[1]
           l1  == s[2]
       IN IF l1 < 128 THEN
            IF Len(s) - 2 < l1 THEN DFail
            ELSE [ok |-> TRUE, tag |-> tag, val |-> Slice(s, 3, l1), rest |-> Drop(s, 2 + l1)]
          ELSE IF l1 = 129 THEN
            IF Len(s) < 3 \/ s[3] < 128 \/ Len(s) - 3 < s[3] THEN DFail
            ELSE [ok |-> TRUE, tag |-> tag, val |-> Slice(s, 4, s[3]), rest |-> Drop(s, 3 + s[3])]
          ELSE IF l1 = 130 THEN
            IF Len(s) < 4 THEN DFail
            ELSE LET n == s[3] * 256 + s[4]
                 IN IF n < 256 \/ Len(s) - 4 < n THEN DFail
                    ELSE [ok |-> TRUE, tag |-> tag, val |-> Slice(s, 5, n), rest |-> Drop(s, 4 + n)]
          ELSE DFail

\* Strict non-negative DER INTEGER content -> magnitude without leading zeros.
\* Fails on empty content, on non-minimal encodings and on negative values.
UIntMag(c) ==
  IF Len(c) = 0 THEN DFail
  ELSE IF c[1] >= 128 THEN DFail                                    \* negative
  ELSE IF Len(c) >= 2 /\ c[1] = 0 /\ c[2] < 128 THEN DFail           \* non-minimal
  ELSE [ok |-> TRUE, mag |-> StripLeadingZeros(c)]

\* Any strict DER INTEGER content: [ok, neg, mag]; mag of a negative value is not computed.
IntClass(c) ==
  IF Len(c) = 0 THEN DFail
  ELSE IF Len(c) >= 2 /\ c[1] = 0 /\ c[2] < 128 THEN DFail
  ELSE IF Len(c) >= 2 /\ c[1] = 255 /\ c[2] >= 128 THEN DFail
  ELSE [ok |-> TRUE, neg |-> c[1] >= 128, mag |-> StripLeadingZeros(c)]

\* SubjectPublicKeyInfo -> modulus and exponent magnitudes (either algorithm).
ParseSpki(b) ==
  LET outer == RdTlv(b) IN IF ~outer.ok \/ outer.tag # 48 THEN DFail ELSE
  LET alg == RdTlv(outer.val) IN IF ~alg.ok \/ alg.tag # 48 THEN DFail ELSE
  LET bits == RdTlv(alg.rest) IN IF ~bits.ok \/ bits.tag # 3 \/ Len(bits.val) < 1 \/ bits.val[1] # 0 THEN DFail ELSE
  LET key == RdTlv(Drop(bits.val, 1)) IN IF ~key.ok \/ key.tag # 48 THEN DFail ELSE
  LET n == RdTlv(key.val) IN IF ~n.ok \/ n.tag # 2 THEN DFail ELSE
  LET e == RdTlv(n.rest) IN IF ~e.ok \/ e.tag # 2 THEN DFail ELSE
  LET nm == UIntMag(n.val) em == UIntMag(e.val) IN IF ~nm.ok \/ ~em.ok THEN DFail ELSE
  [ok |-> TRUE, n |-> nm.mag, e |-> em.mag, alg |-> <<48>> \o DerLen(Len(alg.val)) \o alg.val]

---------------------------------------------------------------------------
\* ECDSA-Sig-Value: strict SEQUENCE { INTEGER r, INTEGER s }, nothing after.
EcdsaSig(r, s) == Tlv(48, DerUInt(r) \o DerUInt(s))

ParseEcdsaSig(b) ==
  LET seq == RdTlv(b) IN IF ~seq.ok \/ seq.tag # 48 \/ Len(seq.rest) # 0 THEN DFail ELSE
  LET r == RdTlv(seq.val) IN IF ~r.ok \/ r.tag # 2 THEN DFail ELSE
  LET s == RdTlv(r.rest) IN IF ~s.ok \/ s.tag # 2 \/ Len(s.rest) # 0 THEN DFail ELSE
  LET rc == IntClass(r.val) sc == IntClass(s.val) IN IF ~rc.ok \/ ~sc.ok THEN DFail ELSE
  [ok |-> TRUE, r |-> rc, s |-> sc]
=============================================================================
