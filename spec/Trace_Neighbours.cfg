SPECIFICATION TSpec
CONSTANTS
  Issuers = {"A", "B"}
  Origins = {"o1", "o2"}
  Depth = 0
  Deviation = "none"
  Enforce = {"quiet", "own-registrations", "current-index-key", "unknown-event"}
CHECK_DEADLOCK FALSE
