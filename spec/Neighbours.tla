----------------------------- MODULE Neighbours -----------------------------
(***************************************************************************)
(* Two rate-limited issuers side by side in one process, reconfigured      *)
(* while they serve.  Each issuer OWNS its registration table: an origin   *)
(* is served by the issuer it was registered with, under the index key it  *)
(* was LAST registered with there; asking about an origin changes nothing. *)
(*   Reg(x, o)   origin o is registered with issuer x under a fresh index  *)
(*               key (a version number per issuer and origin)              *)
(*   Look(x, o)  the accessor: is o registered with x (OriginIndexKey)     *)
(*   Ask(x, o)   an authentic request for o addressed to x: answered iff o *)
(*               is registered WITH x, and then with the blinded request   *)
(*               key of x's current index key for o                        *)
(* Named deviations (negative controls), the shapes wave 14 produced:      *)
(*   "shared-table"      one table for all issuers (keyed by origin only)  *)
(*   "lookup-registers"  the accessor is get-or-create                     *)
(*   "insert-if-absent"  registering again keeps the old index key         *)
(* Gen_Neighbours emits every history up to Depth; the drivers replay each *)
(* on two real issuers (built from one token key, or from two).            *)
(***************************************************************************)
EXTENDS Integers, Sequences, FiniteSets, TLC

CONSTANTS Issuers, Origins, Depth, Deviation

VARIABLES regs,     \* what each issuer serves in the code under the deviation: [Issuers -> [subset of Origins -> version]]
          truth,    \* what each issuer was told: the same under the intended design
          vers,     \* registrations so far per <<issuer, origin>> (the next version number)
          last,     \* the last operation with its answer: <<op, x, o, answered, version>> or <<>>
          hist

vars == <<regs, truth, vers, last, hist>>

Empty == [o \in {} |-> 0]
Put(f, o, v) == [p \in DOMAIN f \cup {o} |-> IF p = o THEN v ELSE f[p]]

Init ==
  /\ regs = [x \in Issuers |-> Empty] /\ truth = [x \in Issuers |-> Empty]
  /\ vers = [p \in Issuers \X Origins |-> 0]
  /\ last = <<>> /\ hist = <<>>

\* the table issuer x consults under the deviation
Table(x) == IF Deviation = "shared-table" THEN regs[CHOOSE y \in Issuers : TRUE] ELSE regs[x]
Slot(x)  == IF Deviation = "shared-table" THEN CHOOSE y \in Issuers : TRUE ELSE x

Reg(x, o) ==
  LET v == vers[<<x, o>>] + 1
      keep == Deviation = "insert-if-absent" /\ o \in DOMAIN Table(x)
  IN /\ vers' = [vers EXCEPT ![<<x, o>>] = v]
     /\ truth' = [truth EXCEPT ![x] = Put(truth[x], o, v)]
     /\ regs' = IF keep THEN regs ELSE [regs EXCEPT ![Slot(x)] = Put(Table(x), o, v)]
     /\ last' = <<"Reg", x, o, TRUE, v>>
     /\ hist' = Append(hist, <<"Reg", x, o>>)

Look(x, o) ==
  /\ last' = <<"Look", x, o, o \in DOMAIN Table(x), 0>>
  /\ regs' = IF Deviation = "lookup-registers" /\ o \notin DOMAIN Table(x)
               THEN [regs EXCEPT ![Slot(x)] = Put(Table(x), o, 0)] ELSE regs
  /\ hist' = Append(hist, <<"Look", x, o>>)
  /\ UNCHANGED <<truth, vers>>

Ask(x, o) ==
  /\ last' = <<"Ask", x, o, o \in DOMAIN Table(x), IF o \in DOMAIN Table(x) THEN Table(x)[o] ELSE 0>>
  /\ hist' = Append(hist, <<"Ask", x, o>>)
  /\ UNCHANGED <<regs, truth, vers>>

Next == Len(hist) < Depth /\ \E x \in Issuers, o \in Origins : Reg(x, o) \/ Look(x, o) \/ Ask(x, o)

Spec == Init /\ [][Next]_vars

----------------------------------------------------------------------------
\* THE property: an issuer answers for exactly what was registered WITH IT, under the key it was last given
OwnRegistrations ==
  last = <<>> \/ last[1] = "Reg" \/
    LET x == last[2]
        o == last[3]
    IN /\ last[4] = (o \in DOMAIN truth[x])
       /\ (last[1] = "Ask" /\ last[4]) => last[5] = truth[x][o]

Emit == Len(hist) < Depth \/ PrintT(<<"BEHAVIOUR", hist>>)
=============================================================================
