------------------------------- MODULE MC_DER -------------------------------
(***************************************************************************)
(* Exhaustive check of the token-key laws of property C18 on DER.tla:      *)
(* parsing inverts both SubjectPublicKeyInfo forms for every modulus of    *)
(* 1..MaxN bytes over a boundary alphabet (plus long moduli crossing the   *)
(* DER length-form boundaries) and a set of exponents.                     *)
(***************************************************************************)
EXTENDS DER, TLC

CONSTANT MaxN
VARIABLE x

A == {0, 1, 127, 128, 255}
Exps == {<<1>>, <<3>>, <<1, 0, 1>>, <<127, 255, 255, 255>>, <<128>>, <<255, 255>>}

\* long moduli: length L with given first byte, rest a fixed pattern
Long(L, first) == [i \in 1..L |-> IF i = 1 THEN first ELSE (i * 7) % 256]
Lens == {100, 117, 118, 119, 120, 121, 122, 123, 124, 125, 126, 127, 128, 129, 130, 200, 235, 236, 237, 238, 239, 240, 241, 242,
         243, 244, 245, 246, 247, 248, 249, 250, 251, 252, 253, 254, 255, 256, 257, 258, 384, 511, 512, 513, 520}

Init == x = [kind |-> "root"]
Next ==
  /\ x.kind = "root"
  /\ \/ \E L \in 1..MaxN : \E n \in [1..L -> A] : \E e \in Exps : x' = [kind |-> "key", n |-> n, e |-> e]
     \/ \E L \in Lens : \E f \in {1, 127, 128, 255} : \E e \in Exps : x' = [kind |-> "key", n |-> Long(L, f), e |-> e]
Spec == Init /\ [][Next]_x

ParseInverts ==
  x.kind = "key" =>
    /\ LET p == ParseSpki(SpkiPss(x.n, x.e))
       IN p.ok /\ p.n = StripLeadingZeros(x.n) /\ p.e = StripLeadingZeros(x.e) /\ p.alg = PssAlgId
    /\ LET p == ParseSpki(SpkiRsa(x.n, x.e))
       IN p.ok /\ p.n = StripLeadingZeros(x.n) /\ p.e = StripLeadingZeros(x.e) /\ p.alg = RsaAlgId

\* the encoder output is itself well-formed DER of exactly its own length
SelfDelimiting ==
  x.kind = "key" => LET t == RdTlv(SpkiPss(x.n, x.e)) IN t.ok /\ Len(t.rest) = 0 /\ t.tag = 48

SigRoundTrip ==
  x.kind = "key" => LET p == ParseEcdsaSig(EcdsaSig(x.n, x.e))
                    IN p.ok /\ ~p.r.neg /\ p.r.mag = StripLeadingZeros(x.n) /\ p.s.mag = StripLeadingZeros(x.e)
=============================================================================
