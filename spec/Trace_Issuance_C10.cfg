SPECIFICATION TSpec
CONSTANTS
  Keys = {"k1", "k2"}
  Rids = {"r1", "r2"}
  Ncs = {"n1", "n2"}
  Types = {1, 2, 3, 5}
  MaxBatch = 64
  Ne1 = 49
  Nb2 = 256
  Npk = 49
  Nid = 32
  Nsig = 96
  Nel5 = 32
  Nproof1 = 96
  Nproof5 = 64
  Nauth1 = 48
  Nauth2 = 256
  Nauth5 = 64
  Enforce = {"quiet", "verify-exact", "honest-token-accepted", "listed-alteration-rejected", "only-own-type-accepted", "unknown-event"}
CHECK_DEADLOCK FALSE
