INIT Init
NEXT GenNext
CONSTANTS
  R = 2
  W = 4
  B = 2
  MaxOps = 3
  Deviation = "none"
INVARIANT Ageless
INVARIANT Emit
CHECK_DEADLOCK FALSE
