SPECIFICATION GSpec
CONSTANTS
  Depth = 3
  BaseKeys = {"c1", "c2"}
  Clients = {"c1", "c2"}
  BlindKeys = {"k1", "k2", "b1"}
  ClientBlinds = {"b1"}
  Contexts = {"CB", "IB"}
  Origins = {"o1", "o2", "o3"}
  IndexKeyOf <- MCIndexKeyOf
  Anons = {"a1", "a2"}
  ClientBlindCtx = "CB"
  IssuerBlindCtx = "IB"
INVARIANT Emit
INVARIANT FunctionalBinding
INVARIANT StateIsLog
CHECK_DEADLOCK FALSE
