SPECIFICATION Spec
CONSTANT MaxN = 4
INVARIANT ParseInverts
INVARIANT SelfDelimiting
INVARIANT SigRoundTrip
CHECK_DEADLOCK FALSE
