---- MODULE Ages_TTrace_1791031572 ----
EXTENDS Sequences, TLCExt, Toolbox, Naturals, TLC, Ages

_expression ==
    LET Ages_TEExpression == INSTANCE Ages_TEExpression
    IN Ages_TEExpression!expression
----

_trace ==
    LET Ages_TETrace == INSTANCE Ages_TETrace
    IN Ages_TETrace!trace
----

_inv ==
    ~(
        TLCGet("level") = Len(_TETrace)
        /\
        sched = (<<"honest", "honest", "refused", "same">>)
        /\
        last = (<<1, "refuse">>)
        /\
        ring = ((0 :> 3 @@ 1 :> 2))
        /\
        index = (<<0, 1, 0>>)
        /\
        nxt = (1)
        /\
        probed = (0)
        /\
        items = (<<[good |-> TRUE], [good |-> TRUE], [good |-> FALSE]>>)
        /\
        age = (4)
        /\
        budget = (2)
    )
----

_init ==
    /\ index = _TETrace[1].index
    /\ probed = _TETrace[1].probed
    /\ items = _TETrace[1].items
    /\ sched = _TETrace[1].sched
    /\ age = _TETrace[1].age
    /\ budget = _TETrace[1].budget
    /\ last = _TETrace[1].last
    /\ nxt = _TETrace[1].nxt
    /\ ring = _TETrace[1].ring
----

_next ==
    /\ \E i,j \in DOMAIN _TETrace:
        /\ \/ /\ j = i + 1
              /\ i = TLCGet("level")
        /\ index  = _TETrace[i].index
        /\ index' = _TETrace[j].index
        /\ probed  = _TETrace[i].probed
        /\ probed' = _TETrace[j].probed
        /\ items  = _TETrace[i].items
        /\ items' = _TETrace[j].items
        /\ sched  = _TETrace[i].sched
        /\ sched' = _TETrace[j].sched
        /\ age  = _TETrace[i].age
        /\ age' = _TETrace[j].age
        /\ budget  = _TETrace[i].budget
        /\ budget' = _TETrace[j].budget
        /\ last  = _TETrace[i].last
        /\ last' = _TETrace[j].last
        /\ nxt  = _TETrace[i].nxt
        /\ nxt' = _TETrace[j].nxt
        /\ ring  = _TETrace[i].ring
        /\ ring' = _TETrace[j].ring

\* Uncomment the ASSUME below to write the states of the error trace
\* to the given file in Json format. Note that you can pass any tuple
\* to `JsonSerialize`. For example, a sub-sequence of _TETrace.
    \* ASSUME
    \*     LET J == INSTANCE Json
    \*         IN J!JsonSerialize("Ages_TTrace_1791031572.json", _TETrace)

=============================================================================

 Note that you can extract this module `Ages_TEExpression`
  to a dedicated file to reuse `expression` (the module in the 
  dedicated `Ages_TEExpression.tla` file takes precedence 
  over the module `Ages_TEExpression` below).

---- MODULE Ages_TEExpression ----
EXTENDS Sequences, TLCExt, Toolbox, Naturals, TLC, Ages

expression == 
    [
        \* To hide variables of the `Ages` spec from the error trace,
        \* remove the variables below.  The trace will be written in the order
        \* of the fields of this record.
        index |-> index
        ,probed |-> probed
        ,items |-> items
        ,sched |-> sched
        ,age |-> age
        ,budget |-> budget
        ,last |-> last
        ,nxt |-> nxt
        ,ring |-> ring
        
        \* Put additional constant-, state-, and action-level expressions here:
        \* ,_stateNumber |-> _TEPosition
        \* ,_indexUnchanged |-> index = index'
        
        \* Format the `index` variable as Json value.
        \* ,_indexJson |->
        \*     LET J == INSTANCE Json
        \*     IN J!ToJson(index)
        
        \* Lastly, you may build expressions over arbitrary sets of states by
        \* leveraging the _TETrace operator.  For example, this is how to
        \* count the number of times a spec variable changed up to the current
        \* state in the trace.
        \* ,_indexModCount |->
        \*     LET F[s \in DOMAIN _TETrace] ==
        \*         IF s = 1 THEN 0
        \*         ELSE IF _TETrace[s].index # _TETrace[s-1].index
        \*             THEN 1 + F[s-1] ELSE F[s-1]
        \*     IN F[_TEPosition - 1]
    ]

=============================================================================



Parsing and semantic processing can take forever if the trace below is long.
 In this case, it is advised to uncomment the module below to deserialize the
 trace from a generated binary file.

\*
\*---- MODULE Ages_TETrace ----
\*EXTENDS IOUtils, TLC, Ages
\*
\*trace == IODeserialize("Ages_TTrace_1791031572.bin", TRUE)
\*
\*=============================================================================
\*

---- MODULE Ages_TETrace ----
EXTENDS TLC, Ages

trace == 
    <<
    ([sched |-> <<>>,last |-> <<>>,ring |-> (0 :> 0 @@ 1 :> 0),index |-> <<>>,nxt |-> 0,probed |-> 0,items |-> <<>>,age |-> 0,budget |-> 2]),
    ([sched |-> <<"honest">>,last |-> <<1, "accept">>,ring |-> (0 :> 1 @@ 1 :> 0),index |-> <<0>>,nxt |-> 1,probed |-> 0,items |-> <<[good |-> TRUE]>>,age |-> 1,budget |-> 2]),
    ([sched |-> <<"honest", "honest">>,last |-> <<2, "accept">>,ring |-> (0 :> 1 @@ 1 :> 2),index |-> <<0, 1>>,nxt |-> 0,probed |-> 0,items |-> <<[good |-> TRUE], [good |-> TRUE]>>,age |-> 2,budget |-> 2]),
    ([sched |-> <<"honest", "honest", "refused">>,last |-> <<3, "refuse">>,ring |-> (0 :> 3 @@ 1 :> 2),index |-> <<0, 1, 0>>,nxt |-> 1,probed |-> 0,items |-> <<[good |-> TRUE], [good |-> TRUE], [good |-> FALSE]>>,age |-> 3,budget |-> 2]),
    ([sched |-> <<"honest", "honest", "refused", "same">>,last |-> <<1, "refuse">>,ring |-> (0 :> 3 @@ 1 :> 2),index |-> <<0, 1, 0>>,nxt |-> 1,probed |-> 0,items |-> <<[good |-> TRUE], [good |-> TRUE], [good |-> FALSE]>>,age |-> 4,budget |-> 2])
    >>
----


=============================================================================

---- CONFIG Ages_TTrace_1791031572 ----
CONSTANTS
    R = 2
    W = 4
    B = 2
    MaxOps = 7
    Deviation = "ring-stale-index"

INVARIANT
    _inv

CHECK_DEADLOCK
    \* CHECK_DEADLOCK off because of PROPERTY or INVARIANT above.
    FALSE

INIT
    _init

NEXT
    _next

CONSTANT
    _TETrace <- _trace

ALIAS
    _expression
=============================================================================
\* Generated on Sat Oct 03 12:46:13 UTC 2026