----------------------------- MODULE Trace_Ages -----------------------------
(***************************************************************************)
(* Trace validation for Ages.tla.  The trace is a concatenation of         *)
(* schedules, each run on ONE long-lived real object (event field i = 1    *)
(* starts a new object); an event is one PHASE of a schedule: the          *)
(* operation of the model performed n times on n concrete items (honest /  *)
(* refused: n fresh items; same: the first item n times; probe: the n      *)
(* items of the oldest phase not yet re-presented).  The specification's   *)
(* state is advanced by the matching action of Ages.tla (intended design); *)
(* the answer recorded for the phase (the common answer to its n           *)
(* operations, "diverged" if they were not all answered alike or the       *)
(* driver's independent reference disagreed with an output) must be the    *)
(* model's answer, and the phase probed must be the model's item.          *)
(***************************************************************************)
EXTENDS Ages, Json

CONSTANT Enforce
Trace == ndJsonDeserialize("trace.ndjson")
VARIABLE l

\* state at the event: a fresh object when i = 1
At(e, v, fresh) == IF e.i = 1 THEN fresh ELSE v
ItemsAt(e)  == At(e, items, <<>>)
ProbedAt(e) == At(e, probed, 0)

\* the item number and the items after the phase, by the actions of Ages.tla
Step(e) ==
  LET its == ItemsAt(e) IN
  CASE e.ph = "honest"  -> [en |-> TRUE, i |-> Len(its) + 1, its |-> Append(its, [good |-> TRUE]), probed |-> ProbedAt(e)]
    [] e.ph = "refused" -> [en |-> TRUE, i |-> Len(its) + 1, its |-> Append(its, [good |-> FALSE]), probed |-> ProbedAt(e)]
    [] e.ph = "same"    -> [en |-> Len(its) > 0, i |-> 1, its |-> its, probed |-> ProbedAt(e)]
    [] e.ph = "probe"   -> [en |-> ProbedAt(e) < Len(its), i |-> ProbedAt(e) + 1, its |-> its, probed |-> ProbedAt(e) + 1]
    [] OTHER -> [en |-> FALSE, i |-> 0, its |-> its, probed |-> ProbedAt(e)]

Obl(e) ==
  LET s == Step(e) IN
  IF ~s.en THEN << <<"schedule-follows-model", FALSE>> >>
  ELSE <<
    <<"quiet", e.panic = "">>,
    <<"schedule-follows-model", e.item = s.i>>,
    \* THE property (Ageless): the n operations of the phase were answered as the model answers the item
    <<"ageless", e.ans = (IF s.its[s.i].good THEN "accept" ELSE "refuse")>>,
    <<"every-operation-ran", e.done = e.n /\ e.first_bad = -1>> >>

Failed(e) == LET o == Obl(e) IN {o[i][1] : i \in {j \in 1..Len(o) : o[j][1] \in Enforce /\ ~o[j][2]}}

TInit == Init /\ l = 1
TNext ==
  /\ l <= Len(Trace)
  /\ LET e == Trace[l]
         f == Failed(e)
         s == Step(e)
     IN /\ IF f = {} THEN TRUE ELSE PrintT("REJECT " \o ToString(l) \o " Phase " \o ToString(f))
        /\ age' = At(e, age, 0) + 1
        /\ items' = s.its
        /\ probed' = s.probed
        /\ last' = IF s.en THEN <<s.i, IF s.its[s.i].good THEN "accept" ELSE "refuse">> ELSE <<>>
        /\ sched' = Append(At(e, sched, <<>>), e.ph)
        /\ UNCHANGED <<ring, index, nxt, budget>>
  /\ IF l = Len(Trace) THEN PrintT("DONE " \o ToString(l)) ELSE TRUE
  /\ l' = l + 1
TSpec == TInit /\ [][TNext]_<<vars, l>>
=============================================================================
