SPECIFICATION Spec
CONSTANT MaxVal = 16448
INVARIANT ValLaws
INVARIANT InLaws
CHECK_DEADLOCK FALSE
