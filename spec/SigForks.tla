------------------------------ MODULE SigForks ------------------------------
(***************************************************************************)
(* Decision structure of signature verification in the two forks, against  *)
(* which their verdicts and the standard library's are compared            *)
(* (properties C13, C14).  The curve equation itself is uninterpreted: for *)
(* inputs that pass the structural checks the only requirement is that the *)
(* fork and the reference agree; for inputs that fail them, both must      *)
(* reject.                                                                 *)
(***************************************************************************)
EXTENDS DER

\* group orders, big-endian
OrderOf(curve) ==
  CASE curve = "P224" -> <<255,255,255,255,255,255,255,255,255,255,255,255,255,255,22,162,224,184,240,62,19,221,41,69,92,92,42,61>>
    [] curve = "P256" -> <<255,255,255,255,0,0,0,0,255,255,255,255,255,255,255,255,188,230,250,173,167,23,158,132,243,185,202,194,252,99,37,81>>
    [] curve = "P384" -> <<255,255,255,255,255,255,255,255,255,255,255,255,255,255,255,255,255,255,255,255,255,255,255,255,199,99,77,129,244,55,45,223,
                           88,26,13,178,72,176,167,122,236,236,25,106,204,197,41,115>>
    [] curve = "P521" -> <<1,255,255,255,255,255,255,255,255,255,255,255,255,255,255,255,255,255,255,255,255,255,255,255,255,255,255,255,255,255,255,255,255,255,
                           250,81,134,135,131,191,47,150,107,127,204,1,72,247,9,165,208,59,181,201,184,137,156,71,174,187,111,183,30,145,56,100,9>>

\* 0 < v < N for a (sign, magnitude) integer
InRange(neg, mag, curve) ==
  /\ ~neg
  /\ Len(StripLeadingZeros(mag)) > 0
  /\ CmpNum(mag, OrderOf(curve)) < 0

\* ECDSA raw (r, s): out of range => both verifiers reject
EcdsaRangeOK(e) == InRange(e.rneg, e.r, e.curve) /\ InRange(e.sneg, e.s, e.curve)

\* ASN.1: not a strict SEQUENCE { INTEGER, INTEGER } => both reject; otherwise range as above
EcdsaDerOK(sig, curve) ==
  LET p == ParseEcdsaSig(sig)
  IN p.ok /\ InRange(p.r.neg, p.r.mag, curve) /\ InRange(p.s.neg, p.s.mag, curve)

\* Ed25519: order of the prime-order subgroup, big-endian
EdL == <<16,0,0,0,0,0,0,0,0,0,0,0,0,0,0,0,20,222,249,222,162,247,156,214,88,18,99,26,92,245,211,237>>

\* structural part of Ed25519 verification: 64 bytes, top three bits of the
\* last byte clear, S (little-endian, bytes 33..64) canonical (< L)
EdStructOK(sig) ==
  /\ Len(sig) = 64
  /\ sig[64] < 32
  /\ CmpBE(Reverse(SubSeq(sig, 33, 64)), EdL) < 0
=============================================================================
