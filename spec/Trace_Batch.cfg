SPECIFICATION TSpec
CONSTANTS
  Kinds = {"1ok"}
  Configs = {"both"}
  MaxLen = 1
CHECK_DEADLOCK FALSE
