-------------------------- MODULE Trace_Neighbours --------------------------
(***************************************************************************)
(* Trace validation for Neighbours.tla: a concatenation of histories, each *)
(* replayed on two real rate-limited issuers in one process (event field   *)
(* i = 1 starts a new pair).  The specification's state is advanced by the *)
(* intended design; the recorded answer must be the model's: a lookup or a *)
(* request is answered iff the origin is registered with THAT issuer, and  *)
(* the blinded request key of an answered request is the reference's for   *)
(* the index key the origin was LAST registered with there (the driver     *)
(* logs which issuer's which key version its reference matched).           *)
(***************************************************************************)
EXTENDS Neighbours, Json

CONSTANT Enforce
Trace == ndJsonDeserialize("trace.ndjson")
VARIABLE l

TruthAt(e) == IF e.i = 1 THEN [x \in Issuers |-> Empty] ELSE truth
VersAt(e)  == IF e.i = 1 THEN [p \in Issuers \X Origins |-> 0] ELSE vers

Obl(e) ==
  LET t == TruthAt(e) IN
  CASE e.op = "Reg" -> << <<"quiet", e.panic = "">> >>
    [] e.op = "Look" -> <<
         <<"quiet", e.panic = "">>,
         <<"own-registrations", e.ok = (e.o \in DOMAIN t[e.x])>> >>
    [] e.op = "Ask" -> <<
         <<"quiet", e.panic = "">>,
         <<"own-registrations", e.ok = (e.o \in DOMAIN t[e.x])>>,
         <<"current-index-key", (e.ok /\ e.o \in DOMAIN t[e.x]) => (e.match_x = e.x /\ e.ver = t[e.x][e.o])>> >>
    [] OTHER -> << <<"unknown-event", FALSE>> >>

Failed(e) == LET o == Obl(e) IN {o[i][1] : i \in {j \in 1..Len(o) : o[j][1] \in Enforce /\ ~o[j][2]}}

TInit == Init /\ l = 1
TNext ==
  /\ l <= Len(Trace)
  /\ LET e == Trace[l]
         f == Failed(e)
         t == TruthAt(e)
         v == VersAt(e)
     IN /\ IF f = {} THEN TRUE ELSE PrintT("REJECT " \o ToString(l) \o " " \o e.op \o " " \o ToString(f))
        /\ IF e.op = "Reg"
             THEN /\ vers' = [v EXCEPT ![<<e.x, e.o>>] = v[<<e.x, e.o>>] + 1]
                  /\ truth' = [t EXCEPT ![e.x] = Put(t[e.x], e.o, v[<<e.x, e.o>>] + 1)]
             ELSE /\ vers' = v /\ truth' = t
        /\ regs' = truth'
        /\ last' = <<>>
        /\ hist' = IF e.i = 1 THEN <<<<e.op, e.x, e.o>>>> ELSE Append(hist, <<e.op, e.x, e.o>>)
  /\ IF l = Len(Trace) THEN PrintT("DONE " \o ToString(l)) ELSE TRUE
  /\ l' = l + 1
TSpec == TInit /\ [][TNext]_<<vars, l>>
=============================================================================
