---- MODULE Neighbours_TTrace_1791035653 ----
EXTENDS Sequences, TLCExt, Toolbox, Neighbours, Naturals, TLC

_expression ==
    LET Neighbours_TEExpression == INSTANCE Neighbours_TEExpression
    IN Neighbours_TEExpression!expression
----

_trace ==
    LET Neighbours_TETrace == INSTANCE Neighbours_TETrace
    IN Neighbours_TETrace!trace
----

_inv ==
    ~(
        TLCGet("level") = Len(_TETrace)
        /\
        hist = (<<<<"Reg", "A", "o1">>, <<"Look", "B", "o1">>>>)
        /\
        truth = ([A |-> [o1 |-> 1], B |-> <<>>])
        /\
        last = (<<"Look", "B", "o1", TRUE, 0>>)
        /\
        vers = ((<<"A", "o1">> :> 1 @@ <<"A", "o2">> :> 0 @@ <<"B", "o1">> :> 0 @@ <<"B", "o2">> :> 0))
        /\
        regs = ([A |-> [o1 |-> 1], B |-> <<>>])
    )
----

_init ==
    /\ vers = _TETrace[1].vers
    /\ last = _TETrace[1].last
    /\ regs = _TETrace[1].regs
    /\ hist = _TETrace[1].hist
    /\ truth = _TETrace[1].truth
----

_next ==
    /\ \E i,j \in DOMAIN _TETrace:
        /\ \/ /\ j = i + 1
              /\ i = TLCGet("level")
        /\ vers  = _TETrace[i].vers
        /\ vers' = _TETrace[j].vers
        /\ last  = _TETrace[i].last
        /\ last' = _TETrace[j].last
        /\ regs  = _TETrace[i].regs
        /\ regs' = _TETrace[j].regs
        /\ hist  = _TETrace[i].hist
        /\ hist' = _TETrace[j].hist
        /\ truth  = _TETrace[i].truth
        /\ truth' = _TETrace[j].truth

\* Uncomment the ASSUME below to write the states of the error trace
\* to the given file in Json format. Note that you can pass any tuple
\* to `JsonSerialize`. For example, a sub-sequence of _TETrace.
    \* ASSUME
    \*     LET J == INSTANCE Json
    \*         IN J!JsonSerialize("Neighbours_TTrace_1791035653.json", _TETrace)

=============================================================================

 Note that you can extract this module `Neighbours_TEExpression`
  to a dedicated file to reuse `expression` (the module in the 
  dedicated `Neighbours_TEExpression.tla` file takes precedence 
  over the module `Neighbours_TEExpression` below).

---- MODULE Neighbours_TEExpression ----
EXTENDS Sequences, TLCExt, Toolbox, Neighbours, Naturals, TLC

expression == 
    [
        \* To hide variables of the `Neighbours` spec from the error trace,
        \* remove the variables below.  The trace will be written in the order
        \* of the fields of this record.
        vers |-> vers
        ,last |-> last
        ,regs |-> regs
        ,hist |-> hist
        ,truth |-> truth
        
        \* Put additional constant-, state-, and action-level expressions here:
        \* ,_stateNumber |-> _TEPosition
        \* ,_versUnchanged |-> vers = vers'
        
        \* Format the `vers` variable as Json value.
        \* ,_versJson |->
        \*     LET J == INSTANCE Json
        \*     IN J!ToJson(vers)
        
        \* Lastly, you may build expressions over arbitrary sets of states by
        \* leveraging the _TETrace operator.  For example, this is how to
        \* count the number of times a spec variable changed up to the current
        \* state in the trace.
        \* ,_versModCount |->
        \*     LET F[s \in DOMAIN _TETrace] ==
        \*         IF s = 1 THEN 0
        \*         ELSE IF _TETrace[s].vers # _TETrace[s-1].vers
        \*             THEN 1 + F[s-1] ELSE F[s-1]
        \*     IN F[_TEPosition - 1]
    ]

=============================================================================



Parsing and semantic processing can take forever if the trace below is long.
 In this case, it is advised to uncomment the module below to deserialize the
 trace from a generated binary file.

\*
\*---- MODULE Neighbours_TETrace ----
\*EXTENDS IOUtils, Neighbours, TLC
\*
\*trace == IODeserialize("Neighbours_TTrace_1791035653.bin", TRUE)
\*
\*=============================================================================
\*

---- MODULE Neighbours_TETrace ----
EXTENDS Neighbours, TLC

trace == 
    <<
    ([hist |-> <<>>,truth |-> [A |-> <<>>, B |-> <<>>],last |-> <<>>,vers |-> (<<"A", "o1">> :> 0 @@ <<"A", "o2">> :> 0 @@ <<"B", "o1">> :> 0 @@ <<"B", "o2">> :> 0),regs |-> [A |-> <<>>, B |-> <<>>]]),
    ([hist |-> <<<<"Reg", "A", "o1">>>>,truth |-> [A |-> [o1 |-> 1], B |-> <<>>],last |-> <<"Reg", "A", "o1", TRUE, 1>>,vers |-> (<<"A", "o1">> :> 1 @@ <<"A", "o2">> :> 0 @@ <<"B", "o1">> :> 0 @@ <<"B", "o2">> :> 0),regs |-> [A |-> [o1 |-> 1], B |-> <<>>]]),
    ([hist |-> <<<<"Reg", "A", "o1">>, <<"Look", "B", "o1">>>>,truth |-> [A |-> [o1 |-> 1], B |-> <<>>],last |-> <<"Look", "B", "o1", TRUE, 0>>,vers |-> (<<"A", "o1">> :> 1 @@ <<"A", "o2">> :> 0 @@ <<"B", "o1">> :> 0 @@ <<"B", "o2">> :> 0),regs |-> [A |-> [o1 |-> 1], B |-> <<>>]])
    >>
----


=============================================================================

---- CONFIG Neighbours_TTrace_1791035653 ----
CONSTANTS
    Issuers = { "A" , "B" }
    Origins = { "o1" , "o2" }
    Depth = 5
    Deviation = "shared-table"

INVARIANT
    _inv

CHECK_DEADLOCK
    \* CHECK_DEADLOCK off because of PROPERTY or INVARIANT above.
    FALSE

INIT
    _init

NEXT
    _next

CONSTANT
    _TETrace <- _trace

ALIAS
    _expression
=============================================================================
\* Generated on Sat Oct 03 13:54:14 UTC 2026