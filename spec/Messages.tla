------------------------------ MODULE Messages ------------------------------
(***************************************************************************)
(* The grammar of every wire structure of pat-go, as an encoder Enc_X and  *)
(* a prefix decoder Dec_X (value read + remaining input) per structure.    *)
(* The widths are constants so that the exhaustive configuration can use   *)
(* scaled-down values while trace validation uses the real ones            *)
(* (Ne1 = 49, Nb2 = 256, Npk = 49, Nid = 32, Nsig = 96, Nel5 = 32, ...).   *)
(*                                                                         *)
(* These are the *grammars* (RFC 9578, the rate-limit and batched-token    *)
(* drafts), not transcriptions of the Go decoders: a Dec_X accepts exactly *)
(* the byte strings that start with an encoding of a well-formed value.    *)
(***************************************************************************)
EXTENDS TLSWire

CONSTANTS Ne1,      \* type 1 blinded element (49)
          Nb2,      \* type 2/3 blinded message (256)
          Npk,      \* type 3 request key (49)
          Nid,      \* nonce / context / key id / name key id (32)
          Nsig,     \* type 3 request signature (96)
          Nel5,     \* type 5 element (32)
          Nproof1,  \* type 1 DLEQ proof (96)
          Nproof5,  \* type 5 DLEQ proof (64)
          Nauth1, Nauth2, Nauth5   \* authenticator lengths 48, 256, 64

T1 == 1   T2 == 2   T3 == 3   T5 == 5

Nresp1 == Ne1 + Nproof1          \* type 1 token response (145)
Nresp2 == Nb2                    \* type 2 token response (256)

AuthLen(t) == IF t = T1 THEN Nauth1 ELSE IF t = T5 THEN Nauth5 ELSE Nauth2

---------------------------------------------------------------------------
(* Token *)
EncToken(v) == WrU16(v.type) \o v.nonce \o v.context \o v.key_id \o v.auth

WFToken(v, t) == /\ v.type = t /\ Len(v.nonce) = Nid /\ Len(v.context) = Nid
                 /\ Len(v.key_id) = Nid /\ Len(v.auth) = AuthLen(t)

\* The token decoders of the library are per type and do not check the tag.
DecToken(b, t) ==
  LET ty == RdU16(b) IN IF ~ty.ok THEN Fail ELSE
  LET n == RdFixed(ty.rest, Nid) IN IF ~n.ok THEN Fail ELSE
  LET c == RdFixed(n.rest, Nid) IN IF ~c.ok THEN Fail ELSE
  LET k == RdFixed(c.rest, Nid) IN IF ~k.ok THEN Fail ELSE
  LET a == RdFixed(k.rest, AuthLen(t)) IN IF ~a.ok THEN Fail ELSE
  Ok([type |-> ty.val, nonce |-> n.val, context |-> c.val, key_id |-> k.val, auth |-> a.val], a.rest)

\* What the authenticator is computed over.
AuthInput(v) == WrU16(v.type) \o v.nonce \o v.context \o v.key_id

---------------------------------------------------------------------------
(* TokenChallenge: origin_info is the comma-joined list on the wire *)
EncChallenge(v) == WrU16(v.type) \o WrVec16(v.issuer) \o WrVec8(v.nonce) \o WrVec16(v.origin)

DecChallenge(b) ==
  LET ty == RdU16(b) IN IF ~ty.ok THEN Fail ELSE
  LET i == RdVec16(ty.rest) IN IF ~i.ok \/ Len(i.val) = 0 THEN Fail ELSE
  LET n == RdVec8(i.rest) IN IF ~n.ok THEN Fail ELSE
  LET o == RdVec16(n.rest) IN IF ~o.ok THEN Fail ELSE
  Ok([type |-> ty.val, issuer |-> i.val, nonce |-> n.val, origin |-> o.val], o.rest)

WFChallenge(v) == Len(v.issuer) >= 1 /\ Len(v.issuer) < 65536 /\ Len(v.nonce) <= 255 /\ Len(v.origin) < 65536

\* The list view of origin_info: split at commas (0x2c).
RECURSIVE SplitComma(_)
SplitComma(s) ==
  LET cs == {i \in 1..Len(s) : s[i] = 44}
  IN IF cs = {} THEN <<s>>
     ELSE LET c == CHOOSE i \in cs : \A j \in cs : i <= j
          IN <<SubSeq(s, 1, c - 1)>> \o SplitComma(SubSeq(s, c + 1, Len(s)))

---------------------------------------------------------------------------
(* TokenRequest types 1 and 2: uint16 type; uint8 truncated key id; blinded[N] *)
EncBasicReq(t, v) == WrU16(t) \o WrU8(v.key_id) \o v.blinded

BasicLen(t) == IF t = T1 THEN Ne1 ELSE Nb2

DecBasicReq(b, t) ==
  LET ty == RdU16(b) IN IF ~ty.ok \/ ty.val # t THEN Fail ELSE
  LET k == RdU8(ty.rest) IN IF ~k.ok THEN Fail ELSE
  LET e == RdFixed(k.rest, BasicLen(t)) IN IF ~e.ok THEN Fail ELSE
  Ok([key_id |-> k.val, blinded |-> e.val], e.rest)

WFBasicReq(v, t) == v.key_id \in Byte /\ Len(v.blinded) = BasicLen(t)

---------------------------------------------------------------------------
(* TokenRequest type 5: type; key id; varint-prefixed list of Nel5-byte elements *)
EncT5Req(v) == WrU16(T5) \o WrU8(v.key_id) \o WrVarVec(Concat(v.elems))

DecT5Req(b) ==
  LET ty == RdU16(b) IN IF ~ty.ok \/ ty.val # T5 THEN Fail ELSE
  LET k == RdU8(ty.rest) IN IF ~k.ok THEN Fail ELSE
  LET l == RdVarVec(k.rest) IN IF ~l.ok \/ Len(l.val) % Nel5 # 0 THEN Fail ELSE
  Ok([key_id |-> k.val, elems |-> Chunks(l.val, Nel5)], l.rest)

WFT5Req(v) == v.key_id \in Byte /\ \A i \in 1..Len(v.elems) : Len(v.elems[i]) = Nel5

---------------------------------------------------------------------------
(* TokenRequest type 3 (rate limited); complete parse: nothing may follow *)
EncT3Req(v) == WrU16(T3) \o v.request_key \o v.name_key_id \o WrVec16(v.enc_req) \o v.sig

EncT3SigInput(v) == WrU16(T3) \o v.request_key \o v.name_key_id \o WrVec16(v.enc_req)

DecT3Req(b) ==
  LET ty == RdU16(b) IN IF ~ty.ok \/ ty.val # T3 THEN Fail ELSE
  LET rk == RdFixed(ty.rest, Npk) IN IF ~rk.ok THEN Fail ELSE
  LET nk == RdFixed(rk.rest, Nid) IN IF ~nk.ok THEN Fail ELSE
  LET e == RdVec16(nk.rest) IN IF ~e.ok \/ Len(e.val) = 0 THEN Fail ELSE
  LET s == RdFixed(e.rest, Nsig) IN IF ~s.ok THEN Fail ELSE
  Ok([request_key |-> rk.val, name_key_id |-> nk.val, enc_req |-> e.val, sig |-> s.val], s.rest)

WFT3Req(v) == /\ Len(v.request_key) = Npk /\ Len(v.name_key_id) = Nid
              /\ Len(v.enc_req) >= 1 /\ Len(v.enc_req) < 65536 /\ Len(v.sig) = Nsig

---------------------------------------------------------------------------
(* InnerTokenRequest (plaintext of the HPKE-sealed part of a type 3 request) *)
EncInner(v) == WrU8(v.key_id) \o v.blinded \o WrVec16(v.padded)

DecInner(b) ==
  LET k == RdU8(b) IN IF ~k.ok THEN Fail ELSE
  LET m == RdFixed(k.rest, Nb2) IN IF ~m.ok THEN Fail ELSE
  LET p == RdVec16(m.rest) IN IF ~p.ok THEN Fail ELSE
  Ok([key_id |-> k.val, blinded |-> m.val, padded |-> p.val], p.rest)

WFInner(v) == v.key_id \in Byte /\ Len(v.blinded) = Nb2 /\ Len(v.padded) < 65536

---------------------------------------------------------------------------
(* EncapKey: key id; KEM id; public key (width fixed by the KEM); KDF; AEAD *)
EncEncap(v) == WrU8(v.id) \o WrU16(v.kem) \o v.pk \o WrU16(v.kdf) \o WrU16(v.aead)

KemPkLen(kem) == IF kem = 32 THEN 32          \* DHKEM(X25519)
                 ELSE IF kem = 33 THEN 56     \* DHKEM(X448)
                 ELSE IF kem = 16 THEN 65     \* DHKEM(P-256)
                 ELSE IF kem = 18 THEN 133    \* DHKEM(P-521)
                 ELSE -1

DecEncap(b) ==
  LET i == RdU8(b) IN IF ~i.ok THEN Fail ELSE
  LET km == RdU16(i.rest) IN IF ~km.ok \/ KemPkLen(km.val) < 0 THEN Fail ELSE
  LET pk == RdFixed(km.rest, KemPkLen(km.val)) IN IF ~pk.ok THEN Fail ELSE
  LET kd == RdU16(pk.rest) IN IF ~kd.ok THEN Fail ELSE
  LET ae == RdU16(kd.rest) IN IF ~ae.ok THEN Fail ELSE
  Ok([id |-> i.val, kem |-> km.val, pk |-> pk.val, kdf |-> kd.val, aead |-> ae.val], ae.rest)

---------------------------------------------------------------------------
(* Generic batch request: varint-prefixed concatenation of type 1/2 requests *)
EncBatchElem(r) == EncBasicReq(r.type, r)
EncBatchReq(rs) == WrVarVec(Concat([i \in 1..Len(rs) |-> EncBatchElem(rs[i])]))

\* Walk the list body: each step consumes exactly one element encoding.
RECURSIVE DecBatchBody(_)
DecBatchBody(s) ==
  IF Len(s) = 0 THEN [ok |-> TRUE, val |-> <<>>]
  ELSE LET ty == RdU16(s) IN
       IF ~ty.ok \/ ty.val \notin {T1, T2} THEN Fail
       ELSE LET e == DecBasicReq(s, ty.val) IN
            IF ~e.ok THEN Fail
            ELSE LET r == DecBatchBody(e.rest) IN
                 IF ~r.ok THEN Fail
                 ELSE [ok |-> TRUE,
                       val |-> <<[type |-> ty.val, key_id |-> e.val.key_id, blinded |-> e.val.blinded]>> \o r.val]

DecBatchReq(b) ==
  LET l == RdVarVec(b) IN IF ~l.ok THEN Fail ELSE
  LET body == DecBatchBody(l.val) IN IF ~body.ok THEN Fail ELSE
  Ok(body.val, l.rest)

WFBatchReq(rs) == \A i \in 1..Len(rs) : rs[i].type \in {T1, T2} /\ WFBasicReq(rs[i], rs[i].type)

---------------------------------------------------------------------------
(* Generic batch response list: varint-prefixed; entry = 00 | 01 type response *)
\* The decoded value is the list of response strings, absent = empty string;
\* the type of a present entry is determined by the response length.
RespType(r) == IF Len(r) = Nresp1 THEN T1 ELSE IF Len(r) = Nresp2 THEN T2 ELSE 0

EncBatchEntry(r) == IF Len(r) = 0 THEN <<0>> ELSE <<1>> \o WrU16(RespType(r)) \o r
EncBatchResp(rs) == WrVarVec(Concat([i \in 1..Len(rs) |-> EncBatchEntry(rs[i])]))

RECURSIVE DecBatchRespBody(_)
DecBatchRespBody(s) ==
  IF Len(s) = 0 THEN [ok |-> TRUE, val |-> <<>>]
  ELSE IF s[1] = 0 THEN
         LET r == DecBatchRespBody(Drop(s, 1)) IN
         IF ~r.ok THEN Fail ELSE [ok |-> TRUE, val |-> <<<<>>>> \o r.val]
  ELSE IF s[1] = 1 THEN
         LET ty == RdU16(Drop(s, 1)) IN
         IF ~ty.ok \/ ty.val \notin {T1, T2} THEN Fail
         ELSE LET e == RdFixed(ty.rest, IF ty.val = T1 THEN Nresp1 ELSE Nresp2) IN
              IF ~e.ok THEN Fail
              ELSE LET r == DecBatchRespBody(e.rest) IN
                   IF ~r.ok THEN Fail ELSE [ok |-> TRUE, val |-> <<e.val>> \o r.val]
  ELSE Fail

DecBatchResp(b) ==
  LET l == RdVarVec(b) IN IF ~l.ok THEN Fail ELSE
  LET body == DecBatchRespBody(l.val) IN IF ~body.ok THEN Fail ELSE
  Ok(body.val, l.rest)

WFBatchResp(rs) == \A i \in 1..Len(rs) : Len(rs[i]) \in {0, Nresp1, Nresp2}

---------------------------------------------------------------------------
(* Token responses of types 1 and 5 *)
DecT1Resp(b) ==
  LET e == RdFixed(b, Ne1) IN IF ~e.ok THEN Fail ELSE
  LET p == RdFixed(e.rest, Nproof1) IN IF ~p.ok THEN Fail ELSE
  Ok([elem |-> e.val, proof |-> p.val], p.rest)

EncT5Resp(v) == WrVarVec(Concat(v.elems)) \o v.proof

DecT5Resp(b) ==
  LET l == RdVarVec(b) IN IF ~l.ok \/ Len(l.val) % Nel5 # 0 THEN Fail ELSE
  LET p == RdFixed(l.rest, Nproof5) IN IF ~p.ok THEN Fail ELSE
  Ok([elems |-> Chunks(l.val, Nel5), proof |-> p.val], p.rest)

---------------------------------------------------------------------------
(* Uniform access by message name, used by the codec configurations. *)
Dec(m, b) ==
  CASE m = "t1req"     -> DecBasicReq(b, T1)
    [] m = "t2req"     -> DecBasicReq(b, T2)
    [] m = "t3req"     -> DecT3Req(b)
    [] m = "t5req"     -> DecT5Req(b)
    [] m = "inner"     -> DecInner(b)
    [] m = "encap"     -> DecEncap(b)
    [] m = "challenge" -> DecChallenge(b)
    [] m = "token1"    -> DecToken(b, T1)
    [] m = "token2"    -> DecToken(b, T2)
    [] m = "token3"    -> DecToken(b, T3)
    [] m = "token5"    -> DecToken(b, T5)
    [] m = "batchreq"  -> DecBatchReq(b)
    [] m = "batchresp" -> DecBatchResp(b)

Enc(m, v) ==
  CASE m = "t1req"     -> EncBasicReq(T1, v)
    [] m = "t2req"     -> EncBasicReq(T2, v)
    [] m = "t3req"     -> EncT3Req(v)
    [] m = "t5req"     -> EncT5Req(v)
    [] m = "inner"     -> EncInner(v)
    [] m = "encap"     -> EncEncap(v)
    [] m = "challenge" -> EncChallenge(v)
    [] m = "token1"    -> EncToken(v)
    [] m = "token2"    -> EncToken(v)
    [] m = "token3"    -> EncToken(v)
    [] m = "token5"    -> EncToken(v)
    [] m = "batchreq"  -> EncBatchReq(v)
    [] m = "batchresp" -> EncBatchResp(v)

\* The type tag a request decoder insists on (0 = none).
TagOf(m) == CASE m = "t1req" -> T1 [] m = "t2req" -> T2 [] m = "t3req" -> T3
              [] m = "t5req" -> T5 [] OTHER -> 0

\* A complete (no trailing data) parse is required only of the type 3 request.
Complete(m) == m = "t3req"

(***************************************************************************)
(* The obligations of property C04 on one decoder call: the library was    *)
(* given b, answered accepted (+ value v when accepted).                   *)
(***************************************************************************)
\* b is the canonical encoding of a well-formed value: must be accepted, as that value.
Canonical(m, b) == LET d == Dec(m, b) IN d.ok /\ Len(d.rest) = 0 /\ Enc(m, d.val) = b

\* b carries a foreign type tag (request decoders), or trailing data where a
\* complete parse is required: must be rejected.
MustReject(m, b) ==
  \/ TagOf(m) # 0 /\ (Len(b) < 2 \/ b[1] * 256 + b[2] # TagOf(m))
  \/ Complete(m) /\ LET d == Dec(m, b) IN d.ok /\ Len(d.rest) > 0

\* Whatever else was accepted: the canonical encoding of the decoded value is
\* no longer than b and decodes (by the grammar) to the same value.
AcceptedOK(m, b, v) ==
  LET e == Enc(m, v)
      d == Dec(m, e)
  IN Len(e) <= Len(b) /\ d.ok /\ Len(d.rest) = 0 /\ d.val = v

DecodeObligation(m, b, accepted, v) ==
  /\ Canonical(m, b) => accepted /\ v = Dec(m, b).val
  /\ MustReject(m, b) => ~accepted
  /\ accepted => AcceptedOK(m, b, v)
=============================================================================
