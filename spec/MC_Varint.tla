----------------------------- MODULE MC_Varint -----------------------------
(***************************************************************************)
(* Exhaustive check of the varint laws (property C19) on the specification *)
(* over complete small domains: one TLC state per domain element.          *)
(***************************************************************************)
EXTENDS Varint, TLC

CONSTANT MaxVal   \* values 0..MaxVal are enumerated exhaustively
VARIABLE x      \* root | shard a | [kind |-> "val", v |-> v8] | [kind |-> "in", b |-> bytes]

Pow2(k) == [i \in 1..8 |-> IF i = 8 - (k \div 8) THEN 2 ^ (k % 8) ELSE 0]
\* 2^k - 1 : all bits below k set
Pow2m1(k) == [i \in 1..8 |->
                IF i > 8 - (k \div 8) THEN 255
                ELSE IF i = 8 - (k \div 8) THEN 2 ^ (k % 8) - 1 ELSE 0]
Pow2p1(k) == IF k = 0 THEN <<0,0,0,0,0,0,0,2>> ELSE [Pow2(k) EXCEPT ![8] = @ + 1]

\* The search is two-level (root -> 256 shards -> elements) only so that TLC's
\* workers share the work; every element is one state.
ValShard(a) == {BEEnc(n, 8) : n \in {m \in 0..MaxVal : m % 256 = a}}

ValDomain ==
       {Pow2(k)   : k \in 0..63}
  \cup {Pow2m1(k) : k \in 0..63}
  \cup {Pow2p1(k) : k \in 0..63}
  \cup {T63, T16383, T2p30, T2p62, [i \in 1..8 |-> 255]}

B8 == {0, 63, 64, 127, 128, 191, 192, 255}

TailSet(L) == [1..L -> {0, 255}]

InDomain ==
     {<<>>}
  \cup {<<a>> : a \in Byte}
  \cup UNION {{<<a>> \o t : a \in B8, t \in TailSet(L)} : L \in 2..8}
  \* length-prefixed strings: every width, declared length d, r bytes present
  \cup {VarintEncWidth(LenV8(d), w) \o [i \in 1..r |-> 7] :
          w \in {1, 2, 4, 8}, d \in {0, 1, 2, 3, 4, 5, 63}, r \in 0..5}
  \cup {VarintEncWidth(v, 8) \o [i \in 1..r |-> 7] :
          v \in {T2p30, T2p62, Pow2(31), Pow2(32), Pow2(61)}, r \in 0..3}

Exts == {<<>>, <<0>>, <<255>>, <<1, 2, 3, 4, 5, 6, 7, 8, 9>>}

Init == x = [kind |-> "root"]
Next == \/ /\ x.kind = "root"
           /\ \/ \E a \in Byte : x' = [kind |-> "shard", a |-> a]
              \/ \E v \in ValDomain : x' = [kind |-> "val", v |-> v]
              \/ \E b \in InDomain  : x' = [kind |-> "in", b |-> b]
        \/ /\ x.kind = "shard"
           /\ \/ \E v \in ValShard(x.a) : x' = [kind |-> "val", v |-> v]
              \/ \E b \in Byte : x' = [kind |-> "in", b |-> <<x.a, b>>]
Spec == Init /\ [][Next]_x

ValLaws ==
  x.kind = "val" =>
    /\ EncShortest(x.v)
    /\ SizeMatches(x.v)
    /\ DecInverts(x.v)

InLaws ==
  x.kind = "in" =>
    /\ DecFailsIffShort(x.b)
    /\ DecCanonical(x.b)
    /\ \A e \in Exts : DecReadsAnnouncedOnly(x.b, e)
    /\ DeclaredTooLongIsError(x.b)
    /\ Len(x.b) <= 300 => BytesRoundTrip(x.b) /\ Uint8RoundTrip(x.b)
=============================================================================
