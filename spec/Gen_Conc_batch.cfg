SPECIFICATION Spec
CONSTANTS
  Procs = {"g1", "g2"}
  Ops = {"EvaluateBatch"}
  OpsPerProc = 2
  Design = "eager"
INVARIANT EmitJ
INVARIANT NoRace
CHECK_DEADLOCK FALSE
