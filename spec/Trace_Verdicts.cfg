SPECIFICATION TSpec
CONSTANTS
  Kind = "t1verify"
  Depth = 0
  Deviation = "none"
  Enforce = {"quiet", "verdict-is-function-of-the-value", "authentic-iff-accepted", "accepted-output-is-sound", "beyond:response-with-trailing-bytes-refused", "reference-agrees-with-class", "unknown-class"}
INVARIANT MemoHoldsAuthenticOnly
CHECK_DEADLOCK FALSE
