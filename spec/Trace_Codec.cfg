SPECIFICATION Spec
CONSTANTS
  Robust = FALSE
  AllocBaseKiB = 1024
  AllocPerByte = 1
  Ne1 = 49
  Nb2 = 256
  Npk = 49
  Nid = 32
  Nsig = 96
  Nel5 = 32
  Nproof1 = 96
  Nproof5 = 64
  Nauth1 = 48
  Nauth2 = 256
  Nauth5 = 64
CHECK_DEADLOCK FALSE
