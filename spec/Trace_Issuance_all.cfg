SPECIFICATION TSpec
CONSTANTS
  Keys = {"k1", "k2"}
  Rids = {"r1", "r2"}
  Ncs = {"n1", "n2"}
  Types = {1, 2, 3, 5}
  MaxBatch = 64
  Ne1 = 49
  Nb2 = 256
  Npk = 49
  Nid = 32
  Nsig = 96
  Nel5 = 32
  Nproof1 = 96
  Nproof5 = 64
  Nauth1 = 48
  Nauth2 = 256
  Nauth5 = 64
  Enforce = {"no-invalid-token", "retry-returns-valid-tokens", "returned-tokens-keep-their-value", "quiet", "request-on-wire-is-grammar", "response-on-wire-is-grammar", "honest-completes", "count", "token-layout", "token-verifies-under-pinned-key", "issuer-verify-accepts", "model-verdict", "listed-mutation-rejected", "signs-only-authentic", "no-response-on-error", "response-shape", "verify-exact", "honest-token-accepted", "listed-alteration-rejected", "det-run-ok", "create-is-pure", "blind-changes-request", "token-ignores-blind", "token-ignores-run", "element-is-function-of-its-own-blind", "vector-request-bytes", "vector-token-bytes", "vector-batch-request-bytes", "only-own-type-accepted", "unknown-event"}
CHECK_DEADLOCK FALSE
