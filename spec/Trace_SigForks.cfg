SPECIFICATION TSpec
CONSTANT Enforce = {"quiet", "fork-equals-std", "out-of-range-rejected", "valid-accepted", "malformed-der-rejected", "cross-verifies", "outcome-allowed", "error-means-no-output", "ok-means-valid-output", "key-equals-std", "signature-equals-std", "verifies", "structurally-bad-rejected", "same-as-std", "arguments-unchanged", "same-verdict-when-repeated", "unknown-event", "beyond:quiet", "beyond:public-key-equal-as-std", "beyond:private-key-equal-as-std", "beyond:public-returns-the-public-part", "beyond:key-of-another-type-is-not-equal"}
CHECK_DEADLOCK FALSE
