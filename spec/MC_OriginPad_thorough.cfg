SPECIFICATION Spec
CONSTANT MaxLen = 200
INVARIANT UnpadInvertsPad
INVARIANT PaddedLenLaw
INVARIANT WireSizeDependsOnBlocksOnly
INVARIANT NearMissRefused
CHECK_DEADLOCK FALSE
