----------------------------- MODULE AgesProofs -----------------------------
(***************************************************************************)
(* TLAPS: in the intended design (Deviation = "none": no ring, no counter, *)
(* no budget in front of the decision) a long-lived object is ageless      *)
(* after ANY number of operations - the bounded check of MC_Ages.cfg (7    *)
(* operations) lifted to histories of any length.  The three deviations    *)
(* are refuted by TLC (MC_Ages_*.cfg).                                     *)
(***************************************************************************)
EXTENDS Ages, TLAPS

LEMMA DecideNone ==
  ASSUME Deviation = "none", NEW i, NEW its
  PROVE  Decide(i, its) = (IF its[i].good THEN "accept" ELSE "refuse")
  BY DEF Decide

LEMMA PresentAgeless ==
  ASSUME Deviation = "none", NEW op, NEW i, NEW its, Present(op, i, its)
  PROVE  Ageless'
  <1>1. last' = <<i, Decide(i, its)>> /\ items' = its
    BY DEF Present
  <1>2. last'[1] = i /\ last'[2] = Decide(i, its)
    BY <1>1
  <1>3. Decide(i, its) = (IF its[i].good THEN "accept" ELSE "refuse")
    BY DecideNone
  <1> QED
    BY <1>1, <1>2, <1>3 DEF Ageless, Truth

THEOREM AgelessAlways == (Deviation = "none") => (Spec => []Ageless)
<1>a. SUFFICES ASSUME Deviation = "none" PROVE Spec => []Ageless
  OBVIOUS
<1>1. Init => Ageless
  BY DEF Init, Ageless
<1>2. Ageless /\ [Next]_vars => Ageless'
  <2> SUFFICES ASSUME Ageless, [Next]_vars PROVE Ageless'
    OBVIOUS
  <2>1. CASE UNCHANGED vars
    BY <2>1 DEF vars, Ageless, Truth
  <2>2. CASE Honest
    BY <2>2, <1>a, PresentAgeless DEF Honest
  <2>3. CASE Refused
    BY <2>3, <1>a, PresentAgeless DEF Refused
  <2>4. CASE Same
    BY <2>4, <1>a, PresentAgeless DEF Same
  <2>5. CASE Probe
    BY <2>5, <1>a, PresentAgeless DEF Probe
  <2> QED
    BY <2>1, <2>2, <2>3, <2>4, <2>5 DEF Next
<1> QED
  BY <1>1, <1>2, PTL DEF Spec
=============================================================================
