SPECIFICATION Spec
CONSTANT Invalidate = TRUE
INVARIANT MarshalIsCurrent
