SPECIFICATION Spec
CONSTANTS
  Issuers = {"A", "B"}
  Origins = {"o1", "o2"}
  Depth = 5
  Deviation = "insert-if-absent"
INVARIANT OwnRegistrations
CHECK_DEADLOCK FALSE
