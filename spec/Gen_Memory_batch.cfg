SPECIFICATION Spec
CONSTANTS
  Kind = "batch"
  Depth = 3
  Deviation = "none"
INVARIANT FrameCondition
INVARIANT Emit
CHECK_DEADLOCK FALSE
