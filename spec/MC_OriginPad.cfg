SPECIFICATION Spec
CONSTANT MaxLen = 100
INVARIANT UnpadInvertsPad
INVARIANT PaddedLenLaw
INVARIANT WireSizeDependsOnBlocksOnly
INVARIANT NearMissRefused
CHECK_DEADLOCK FALSE
