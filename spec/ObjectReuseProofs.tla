-------------------------- MODULE ObjectReuseProofs --------------------------
(***************************************************************************)
(* TLAPS: with Invalidate = TRUE (the intended design, and the code after  *)
(* fixes D1-D3) MarshalIsCurrent holds after ANY sequence of Marshal /     *)
(* Unmarshal calls on one object.  TLC checks the same for the sequences   *)
(* of Gen_Reuse (depth 4/5) and shows the violation for Invalidate = FALSE.*)
(***************************************************************************)
EXTENDS ObjectReuse, TLAPS

Inv == /\ (cache # "none" /\ val # "unknown") => cache = val
       /\ MarshalIsCurrent

THEOREM Current == (Invalidate = TRUE) => (Spec => []MarshalIsCurrent)
<1> SUFFICES ASSUME Invalidate = TRUE PROVE Spec => []MarshalIsCurrent
  OBVIOUS
<1>1. Init => Inv
  BY DEF Init, Inv, MarshalIsCurrent
<1>2. Inv /\ [Next]_vars => Inv'
  <2> SUFFICES ASSUME Inv, [Next]_vars PROVE Inv'
    OBVIOUS
  <2>1. CASE UNCHANGED vars
    BY <2>1 DEF vars, Inv, MarshalIsCurrent
  <2>2. CASE Marshal
    BY <2>2 DEF Marshal, Inv, MarshalIsCurrent
  <2>3. ASSUME NEW x \in Inputs, Unmarshal(x) PROVE Inv'
    BY <2>3 DEF Unmarshal, Inv, MarshalIsCurrent, Values, Inputs
  <2> QED
    BY <2>1, <2>2, <2>3 DEF Next
<1>3. Inv => MarshalIsCurrent
  BY DEF Inv
<1> QED
  BY <1>1, <1>2, <1>3, PTL DEF Spec
=============================================================================
