SPECIFICATION ESpec
CONSTANT MaxNeed = 74
INVARIANT FailClosed
INVARIANT OutcomeAllowed
INVARIANT CoinOnlyMattersAtBoundary
CHECK_DEADLOCK FALSE
