----------------------------- MODULE Gen_Reuse -----------------------------
(***************************************************************************)
(* Behaviour generator for ObjectReuse: every sequence of Marshal /        *)
(* Unmarshal(x) steps up to Depth is a behaviour; each is printed once     *)
(* (as a word over M, 1, 2, G) and replayed on every request type of the   *)
(* real library by the harness.                                            *)
(***************************************************************************)
EXTENDS ObjectReuse, TLC

CONSTANT Depth
VARIABLE hist

GInit == Init /\ hist = ""
GNext == /\ Len(hist) < Depth
         /\ \/ Marshal /\ hist' = hist \o "M"
            \/ Unmarshal("v1") /\ hist' = hist \o "1"
            \/ Unmarshal("v2") /\ hist' = hist \o "2"
            \/ Unmarshal("g")  /\ hist' = hist \o "G"
GSpec == GInit /\ [][GNext]_<<vars, hist>>

Emit == hist = "" \/ PrintT(<<"BEHAVIOUR", hist>>)
=============================================================================
