--------------------------- MODULE Trace_Attester ---------------------------
(***************************************************************************)
(* Trace validation for properties C06, C08 and C09: events recorded from  *)
(* a real RateLimitedAttester (recording ClientStateCache, snapshot hook)  *)
(* are replayed against the actions of Attester.tla.                       *)
(*                                                                         *)
(*   ANew            a fresh attester with an empty cache                  *)
(*   VerifyRequest   c, request class q (how the harness built it), the    *)
(*                   verdict, cache Put calls, registered clients after    *)
(*   FinalizeIndex   c, origin, anon, verdict, returned ID (interned:      *)
(*                   equal bytes <=> equal identifier), whether it equals  *)
(*                   the harness's independent HKDF/XMD reference, and a   *)
(*                   snapshot of every registered client's clientIndices   *)
(*                                                                         *)
(* `intern` binds logged identifiers to the specification's ID terms:      *)
(* the trace is accepted only if two logged IDs are equal exactly when the *)
(* specification's terms are equal (C08: stable per client and index key,  *)
(* distinct otherwise).  The trace world is fixed (see the cfg).           *)
(***************************************************************************)
EXTENDS Attester, Json

Trace == ndJsonDeserialize("trace.ndjson")

CONSTANT Enforce          \* names of the obligations this configuration enforces (one cfg per property)

VARIABLES l, intern      \* intern: set of <<logged id, ID term>>
tvars == <<vars, l, intern>>

TrIndexKeyOf == ("o1" :> "k1") @@ ("o2" :> "k1") @@ ("o3" :> "k2") @@ ("o4" :> "k3") @@ ("o5" :> "k3") @@ ("o6" :> "k4")

Q(e) == [sigOK |-> e.q.sigOK, keyOK |-> e.q.keyOK, ckeyOK |-> e.q.ckeyOK]

\* binding of a logged id to a term is consistent and injective
BindOK(id, term) ==
  /\ \A p \in intern : p[1] = id => p[2] = term
  /\ \A p \in intern : p[2] = term => p[1] = id
Bind(id, term) == intern \cup {<<id, term>>}
TermOf(id, tbl) == IF \E p \in tbl : p[1] = id THEN (CHOOSE p \in tbl : p[1] = id)[2] ELSE <<"unbound", id>>

SnapOK(snap, tbl, cch) ==
  /\ {s.c : s \in {snap[i] : i \in 1..Len(snap)}} = DOMAIN cch
  /\ \A i \in 1..Len(snap) :
       LET s == snap[i] IN
         s.c \in DOMAIN cch =>
           {<<TermOf(s.ci[j][1], tbl), s.ci[j][2]>> : j \in 1..Len(s.ci)} = cch[s.c].ci

\* the anonymous origin IDs a client's state knows (the keys of originIndices) are the model's: in particular a call that
\* is turned down - or a VerifyRequest, which has no business with the maps - adds none
SnapOriginsOK(snap, cch) ==
  \A i \in 1..Len(snap) :
    LET s == snap[i] IN
      s.c \in DOMAIN cch => {s.oi[j][1] : j \in 1..Len(s.oi)} = {p[1] : p \in cch[s.c].oi}

Obl(e) ==
  CASE e.op = "ANew" -> <<>>
    [] e.op = "VerifyRequest" -> <<
         \* Named tolerance: a request OBJECT with a field longer than its 16-bit length prefix can carry cannot come from
         \* the wire; the library's encoder panics on it while rebuilding the signed message.  The panic is tolerated
         \* (the caller built an unencodable object); ACCEPTING such a request is not.
         <<"quiet", e.panic = "" \/ e.variant = "oversize-enc">>,
         <<"accepts-iff-authentic", e.ok <=> VerifyOK(Q(e))>>,
         <<"put-only-on-first-accept", e.puts = (IF VerifyOK(Q(e)) /\ e.c \notin Registered THEN 1 ELSE 0)>>,
         <<"registered-after", {e.registered[i] : i \in 1..Len(e.registered)} =
                                 (IF VerifyOK(Q(e)) THEN Registered \cup {e.c} ELSE Registered)>> >>
    [] e.op = "FinalizeIndex" ->
         LET res == FinalizeOutcome(e.c, e.o, e.a, "b") IN <<
         <<"quiet", e.panic = "">>,
         \* (a client key presented in another encoding than the compressed one is not the client's identity)
         <<"verdict", e.ok <=> (res = "ok" /\ e.ckform = "compressed")>>,
         <<"id-stable-and-injective", e.ok => BindOK(e.idx, IdxSpec(e.c, e.o))>>,
         <<"id-is-hkdf-reference", e.ok => e.ref_ok>>,
         <<"issuer-key-is-reference", e.brk_ref_ok>> >>
    [] e.op = "Issuance" -> << <<"beyond:honest-issuance-completes", e.ok>> >>   \* (property C01; here an observation)
    [] e.op = "Retained" -> << <<"returned-ids-keep-their-value", e.unchanged>> >>
    [] e.op = "Snapshot" -> <<
         <<"client-indices-match-model", SnapOK(e.snap, intern, cache)>>,
         <<"known-origins-match-model", SnapOriginsOK(e.snap, cache)>> >>
    [] OTHER -> << <<"unknown-event", FALSE>> >>

Failed(e) == LET o == Obl(e) IN {o[i][1] : i \in {j \in 1..Len(o) : o[j][1] \in Enforce /\ ~o[j][2]}}

TInit == Init /\ l = 1 /\ intern = {}

TNext ==
  /\ l <= Len(Trace)
  /\ LET e == Trace[l]
         f == Failed(e)
     IN /\ IF f = {} THEN TRUE ELSE PrintT("REJECT " \o ToString(l) \o " " \o e.op \o " " \o ToString(f))
        /\ CASE e.op = "ANew" -> /\ cache' = <<>> /\ accepted' = {} /\ verified' = {} /\ intern' = {}
             [] e.op = "VerifyRequest" -> VerifyRequest(e.c, Q(e)) /\ UNCHANGED intern
             [] e.op = "FinalizeIndex" ->
                  /\ FinalizeIndex(e.c, e.o, e.a, "b")
                  /\ intern' = IF e.ok THEN Bind(e.idx, IdxSpec(e.c, e.o)) ELSE intern
             [] OTHER -> UNCHANGED <<vars, intern>>
  /\ IF l = Len(Trace) THEN PrintT("DONE " \o ToString(l)) ELSE TRUE
  /\ l' = l + 1

TSpec == TInit /\ [][TNext]_tvars
=============================================================================
