---------------------------- MODULE MC_Messages ----------------------------
(***************************************************************************)
(* Exhaustive check of the codec laws of property C04 (and the totality    *)
(* clause of C03) on the grammar itself, with scaled-down field widths:    *)
(* every byte string up to MaxLen over a boundary alphabet, against every  *)
(* decoder, and every well-formed value over a small alphabet.             *)
(***************************************************************************)
EXTENDS Messages, TLC

CONSTANTS MaxLen,    \* all strings over A up to this length
          MaxLen3    \* all strings over A3 (optionally behind a type tag) up to this length

VARIABLE x

Msgs == {"t1req", "t2req", "t3req", "t5req", "inner", "challenge",
         "token1", "token2", "token3", "token5", "batchreq", "batchresp"}

A == {0, 1, 2, 3, 5, 64, 255}

Strs(n) == [1..n -> A]
A3 == {0, 1, 255}
Strs3(n) == [1..n -> A3]
Tags == {<<>>, <<0, 1>>, <<0, 2>>, <<0, 3>>, <<0, 5>>}

Init == x = [kind |-> "root"]
Next ==
  \/ /\ x.kind = "root"
     /\ \/ \E n \in 0..2 : \E s \in Strs(n) : x' = [kind |-> "in", b |-> s]
        \/ \E p \in Strs(2) : x' = [kind |-> "shard", p |-> p]
        \/ \E p \in Tags : \E a \in A3 : x' = [kind |-> "shard3", p |-> p \o <<a>>]
        \/ \E p \in {<<>>, <<0, 5, 1>>} : \E q \in Strs3(2) : x' = [kind |-> "framed", p |-> p, q |-> q]
        \/ \E m \in {"t1req", "t2req"} : \E k \in A : \E e \in Strs(BasicLen(IF m = "t1req" THEN T1 ELSE T2)) :
             x' = [kind |-> "val", m |-> m, v |-> [key_id |-> k, blinded |-> e]]
        \/ \E k \in A : \E n \in 0..2 : \E es \in [1..n -> Strs(Nel5)] :
             x' = [kind |-> "val", m |-> "t5req", v |-> [key_id |-> k, elems |-> es]]
        \/ \E n \in 0..2 : \E rs \in [1..n -> {[type |-> t, key_id |-> k, blinded |-> [i \in 1..BasicLen(t) |-> f]] :
                                                  t \in {T1, T2}, k \in {0, 255}, f \in {0, 5}}] :
             x' = [kind |-> "val", m |-> "batchreq", v |-> rs]
        \/ \E n \in 0..3 : \E rs \in [1..n -> {<<>>, [i \in 1..Nresp1 |-> 1], [i \in 1..Nresp2 |-> 0]}] :
             x' = [kind |-> "val", m |-> "batchresp", v |-> rs]
        \/ \E rk \in Strs(Npk) : \E e \in UNION {Strs(n) : n \in 1..2} : \E s \in {[i \in 1..Nsig |-> 3]} :
             x' = [kind |-> "val", m |-> "t3req",
                   v |-> [request_key |-> rk, name_key_id |-> [i \in 1..Nid |-> 64], enc_req |-> e, sig |-> s]]
        \/ \E k \in A : \E p \in UNION {Strs(n) : n \in 0..2} :
             x' = [kind |-> "val", m |-> "inner", v |-> [key_id |-> k, blinded |-> [i \in 1..Nb2 |-> 2], padded |-> p]]
        \/ \E t \in {0, 2, 255} : \E i \in UNION {Strs(n) : n \in 1..2} : \E n \in UNION {Strs(n) : n \in 0..1} :
             \E o \in {<<>>, <<1>>, <<1, 44, 2>>, <<44>>} :
             x' = [kind |-> "val", m |-> "challenge", v |-> [type |-> t, issuer |-> i, nonce |-> n, origin |-> o]]
  \/ /\ x.kind = "shard"
     /\ \E n \in 1..(MaxLen - 2) : \E s \in Strs(n) : x' = [kind |-> "in", b |-> x.p \o s]

  \/ /\ x.kind = "shard3"
     /\ \E n \in 0..(MaxLen3 - 1) : \E s \in Strs3(n) : x' = [kind |-> "in", b |-> x.p \o s]

  \* a correctly framed list body (length prefix = body length) so that
  \* multi-element lists are reached
  \/ /\ x.kind = "framed"
     /\ \E n \in 0..(MaxLen3 - 1) : \E s \in Strs3(n) :
          x' = [kind |-> "in", b |-> x.p \o <<Len(x.q) + n>> \o x.q \o s]

Spec == Init /\ [][Next]_x

Consumed(b, d) == Take(b, Len(b) - Len(d.rest))

\* Dec(Enc(v)) = v, completely.
RoundTrip ==
  x.kind = "val" => LET d == Dec(x.m, Enc(x.m, x.v)) IN d.ok /\ d.val = x.v /\ Len(d.rest) = 0

\* Whatever a grammar decoder accepts re-encodes to at most what it consumed,
\* and that canonical encoding decodes to the same value.
CanonicalNoLonger ==
  x.kind = "in" => \A m \in Msgs :
    LET d == Dec(m, x.b) IN d.ok => AcceptedOK(m, Consumed(x.b, d), d.val)

\* Request decoders keep the types apart; the batch decoder carries types 1, 2 only.
TypesApart ==
  x.kind = "in" =>
    /\ \A m \in {"t1req", "t2req", "t3req", "t5req"} :
         Dec(m, x.b).ok => (Len(x.b) >= 2 /\ x.b[1] * 256 + x.b[2] = TagOf(m))
    /\ \A m1, m2 \in {"t1req", "t2req", "t3req", "t5req"} :
         (m1 # m2 /\ Dec(m1, x.b).ok) => ~Dec(m2, x.b).ok
    /\ LET d == Dec("batchreq", x.b) IN
         d.ok => \A i \in 1..Len(d.val) : d.val[i].type \in {T1, T2}

\* The batch walker consumes the list in steps of exactly one element encoding.
StepEqualsElementLength ==
  x.kind = "in" =>
    LET d == Dec("batchreq", x.b) IN
      d.ok => LET l == RdVarVec(x.b)
              IN Len(l.val) = Len(Concat([i \in 1..Len(d.val) |-> EncBatchElem(d.val[i])]))

\* Vacuity controls: each of these is expected to be VIOLATED (some input is
\* accepted by that decoder); bin/check runs them as negative controls.
NeverAccepts(m) == x.kind = "in" => ~Dec(m, x.b).ok
NA_t1req == NeverAccepts("t1req")         NA_t2req == NeverAccepts("t2req")
NA_t3req == NeverAccepts("t3req")         NA_t5req == NeverAccepts("t5req")
NA_inner == NeverAccepts("inner")         NA_challenge == NeverAccepts("challenge")
NA_token2 == NeverAccepts("token2")       NA_batchreq == NeverAccepts("batchreq")
NA_batchresp == NeverAccepts("batchresp")
NA_batch2 == x.kind = "in" => LET d == Dec("batchreq", x.b) IN ~(d.ok /\ Len(d.val) >= 2)
NA_resp2 == x.kind = "in" => LET d == Dec("batchresp", x.b) IN ~(d.ok /\ Len(d.val) >= 2 /\ \E i \in 1..Len(d.val) : Len(d.val[i]) > 0)
NA_t5two == x.kind = "in" => LET d == Dec("t5req", x.b) IN ~(d.ok /\ Len(d.val.elems) >= 2)

\* Totality (C03 on the grammar): every decoder returns Fail or a value on every input.
Total ==
  x.kind = "in" => \A m \in Msgs : Dec(m, x.b).ok \in BOOLEAN
=============================================================================
