SPECIFICATION Spec
CONSTANTS
  MaxLen = 5
  MaxLen3 = 8
  Ne1 = 1
  Nb2 = 2
  Npk = 1
  Nid = 1
  Nsig = 1
  Nel5 = 2
  Nproof1 = 1
  Nproof5 = 1
  Nauth1 = 1
  Nauth2 = 2
  Nauth5 = 1
INVARIANT RoundTrip
INVARIANT CanonicalNoLonger
INVARIANT TypesApart
INVARIANT StepEqualsElementLength
INVARIANT Total
CHECK_DEADLOCK FALSE
