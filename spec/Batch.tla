-------------------------------- MODULE Batch --------------------------------
(***************************************************************************)
(* Generic batch issuance (tokens/batched): a list of type-1 / type-2      *)
(* token requests is answered slot by slot.  Implementation-shaped: the    *)
(* issuer fills one response slot per request with the result of the       *)
(* FIRST configured issuer of the request's type whose truncated key id    *)
(* matches AND whose evaluation succeeds; the list is encoded with one     *)
(* present/absent status per slot; the client decodes the list and         *)
(* finalizes each present slot against its own request state.              *)
(***************************************************************************)
EXTENDS Integers, Sequences, FiniteSets

CONSTANTS Kinds,      \* request kinds, see KindInfo
          Configs,    \* issuer configurations: name -> sequence of issuers
          MaxLen      \* batches of 1..MaxLen requests

\* A request kind: token type, the truncated key id it carries, whether its
\* blinded element / message is well formed.
KindInfo(k) ==
  CASE k = "1ok"  -> [type |-> 1, id |-> "A", wellformed |-> TRUE]
    [] k = "1unk" -> [type |-> 1, id |-> "Z", wellformed |-> TRUE]     \* no configured issuer has this id
    [] k = "1bad" -> [type |-> 1, id |-> "A", wellformed |-> FALSE]    \* element does not decode
    [] k = "2ok"  -> [type |-> 2, id |-> "B", wellformed |-> TRUE]
    [] k = "2unk" -> [type |-> 2, id |-> "Z", wellformed |-> TRUE]
    [] k = "2bad" -> [type |-> 2, id |-> "B", wellformed |-> FALSE]    \* message out of range for the key
    [] k = "1okB" -> [type |-> 1, id |-> "B", wellformed |-> TRUE]     \* a type-1 key whose id ends like the type-2 key's
    [] k = "1okC" -> [type |-> 1, id |-> "A", wellformed |-> TRUE]     \* ANOTHER type-1 key whose id ends like key k1's
    \* a type-2 request that no client state of ours made: its blinded message is 2^e mod N, so the blind signature is
    \* the integer 2 - 255 leading zero bytes in its fixed-length encoding (servable; nobody can finalize it)
    [] k = "2tiny" -> [type |-> 2, id |-> "B", wellformed |-> TRUE]
    \* a type-1 request carrying the FIRST byte of key k1's id (not its last): no configured issuer has this id
    [] k = "1unkF" -> [type |-> 1, id |-> "F", wellformed |-> TRUE]

\* An issuer: type, truncated key id, key, and whether it is a stub that
\* always fails (standing for any evaluation error).
Iss(t, id, key, fails) == [type |-> t, id |-> id, key |-> key, fails |-> fails]

ConfigOf(c) ==
  CASE c = "both"       -> <<Iss(1, "A", "k1", FALSE), Iss(2, "B", "k2", FALSE)>>
    [] c = "t1only"     -> <<Iss(1, "A", "k1", FALSE)>>
    [] c = "t2only"     -> <<Iss(2, "B", "k2", FALSE)>>
    [] c = "firstfails" -> <<Iss(1, "A", "kx", TRUE), Iss(1, "A", "k1", FALSE), Iss(2, "B", "kx", TRUE), Iss(2, "B", "k2", FALSE)>>
    [] c = "crosscollide" -> <<Iss(2, "B", "k2", FALSE), Iss(1, "B", "k1b", FALSE)>>   \* truncated ids collide across types
    \* truncated ids collide WITHIN a type (two keys, e.g. a rotation): the request carries one byte of the key id, so
    \* the first configured issuer with that byte answers every such request - also those made for the other key
    [] c = "samecollide"  -> <<Iss(1, "A", "k1", FALSE), Iss(1, "A", "k1c", FALSE)>>
    [] c = "samecollide2" -> <<Iss(1, "A", "k1c", FALSE), Iss(1, "A", "k1", FALSE), Iss(2, "B", "k2", FALSE)>>
    [] c = "onlyfails"  -> <<Iss(1, "A", "kx", TRUE), Iss(2, "B", "k2", FALSE)>>      \* the only type-1 issuer refuses everything
    [] c = "none"       -> <<>>

VARIABLES cfg, reqs, phase, slots, wire, decoded, finalized
vars == <<cfg, reqs, phase, slots, wire, decoded, finalized>>

Absent == <<"absent">>
Present(t, key, j) == <<"present", t, key, j>>     \* a response of issuer key `key` to request number j

EvalSucceeds(iss, r) == ~iss.fails /\ r.wellformed

\* the fill loop of EvaluateBatch for one request: first issuer of the type,
\* with matching id, that evaluates successfully
FillSlot(c, k, j) ==
  LET r == KindInfo(k)
      is == ConfigOf(c)
      ok == {i \in 1..Len(is) : is[i].type = r.type /\ is[i].id = r.id /\ EvalSucceeds(is[i], r)}
  IN IF ok = {} THEN Absent
     ELSE LET i == CHOOSE x \in ok : \A y \in ok : x <= y
          IN Present(r.type, is[i].key, j)

Init == /\ cfg \in Configs
        /\ reqs \in UNION {[1..n -> Kinds] : n \in 1..MaxLen}
        /\ phase = "created" /\ slots = <<>> /\ wire = <<>> /\ decoded = <<>> /\ finalized = <<>>

EvaluateBatch ==
  /\ phase = "created"
  /\ slots' = [j \in 1..Len(reqs) |-> FillSlot(cfg, reqs[j], j)]
  /\ wire' = slots'                       \* one status + response per slot, in order
  /\ phase' = "evaluated"
  /\ UNCHANGED <<cfg, reqs, decoded, finalized>>

DecodeList ==
  /\ phase = "evaluated"
  /\ decoded' = wire
  /\ phase' = "decoded"
  /\ UNCHANGED <<cfg, reqs, slots, wire, finalized>>

\* finalizing slot j with request state j: a present response finalizes iff it
\* answers request j (under the key that request was created for)
ExpectedKey(k) == IF k = "1okB" THEN "k1b" ELSE IF k = "1okC" THEN "k1c" ELSE IF k = "2tiny" THEN "nobody"
                  ELSE IF KindInfo(k).type = 1 THEN "k1" ELSE "k2"
FinalizeSlot(j) ==
  IF decoded[j] = Absent THEN "absent"
  ELSE IF decoded[j][4] = j /\ decoded[j][3] = ExpectedKey(reqs[j]) THEN "token" ELSE "error"

FinalizeAll ==
  /\ phase = "decoded"
  /\ finalized' = [j \in 1..Len(decoded) |-> FinalizeSlot(j)]
  /\ phase' = "done"
  /\ UNCHANGED <<cfg, reqs, slots, wire, decoded>>

Next == EvaluateBatch \/ DecodeList \/ FinalizeAll
Spec == Init /\ [][Next]_vars /\ WF_vars(Next)

---------------------------------------------------------------------------
\* one entry per request, in request order
CountAndOrder == phase \in {"decoded", "done"} => Len(decoded) = Len(reqs)

\* present exactly when a configured issuer of that type and truncated id evaluates it successfully
Servable(c, k) == \E i \in 1..Len(ConfigOf(c)) :
                    LET is == ConfigOf(c)[i] r == KindInfo(k)
                    IN is.type = r.type /\ is.id = r.id /\ EvalSucceeds(is, r)
PresentIff == phase \in {"decoded", "done"} =>
   \A j \in 1..Len(reqs) : (decoded[j] # Absent) <=> Servable(cfg, reqs[j])

\* Named deviation (inherent in the one-byte key id, not a defect): when two configured issuers of one type share the
\* truncated id, the FIRST answers, and a request made for the other key gets an answer its client refuses.
AnsweredByOtherKey(c, k) ==
  LET s == FillSlot(c, k, 1) IN s # Absent /\ s[3] # ExpectedKey(k)

\* a present entry finalizes to a valid token under its own request's state
PresentFinalizes == phase = "done" =>
   \A j \in 1..Len(reqs) : finalized[j] = (IF ~Servable(cfg, reqs[j]) THEN "absent"
                                           ELSE IF AnsweredByOtherKey(cfg, reqs[j]) THEN "error" ELSE "token")

\* a failing request never changes the entries of the others: slot j is a
\* function of the configuration and request j alone
Isolation == phase \in {"evaluated", "decoded", "done"} =>
   \A j \in 1..Len(reqs) : slots[j] = FillSlot(cfg, reqs[j], j)

Completes == <>(phase = "done")
=============================================================================
