------------------------------- MODULE Memory -------------------------------
(***************************************************************************)
(* The memory-ownership discipline of the pat-go API (property C16) over   *)
(* abstract regions.  A region is a backing array including its spare      *)
(* capacity.  Every API call is given argument regions, may hand out       *)
(* result regions, and owns only its private storage:                      *)
(*                                                                         *)
(*   frame condition   a call writes no region it was given as an argument *)
(*                     (neither within the slice length nor in the spare   *)
(*                     capacity behind it) and no region handed out by an  *)
(*                     earlier call on the same object                     *)
(*                                                                         *)
(* The object kinds and their call alphabets below generate the call       *)
(* histories that are executed on the real library inside guarded arenas.  *)
(* `Deviation` names the ways the code has been seen to break the          *)
(* discipline; with Deviation = "none" (the intended design) TLC shows the *)
(* frame condition, with the named deviations it shows the violation.      *)
(***************************************************************************)
EXTENDS Sequences, FiniteSets, Naturals, TLC

CONSTANTS Kind,        \* the object kind explored by a configuration
          Depth,       \* number of calls after creation
          Deviation    \* "none" | "append-to-argument" | "append-to-handed-out" | "token-in-state-buffer"

VARIABLES hist,        \* sequence of call names so far (the behaviour)
          handed,      \* regions handed out so far
          written      \* regions written by the last call that the call did not own

vars == <<hist, handed, written>>

\* call alphabets per object kind (after the implicit Create)
CallsOf(k) ==
  CASE k \in {"t1state", "t2state", "t3state", "t5state"} -> {"Request", "Marshal", "FinGood", "FinBad", "FinShort"}
    [] k \in {"t1issuer", "t5issuer"} -> {"Evaluate", "Verify", "KeyID", "Key"}
    [] k = "t2issuer" -> {"Evaluate", "KeyID", "Key"}
    [] k = "t3issuer" -> {"Evaluate", "EvaluateBad", "KeyID", "NameKey"}
    [] k = "attester" -> {"VerifyGood", "VerifyBad", "Finalize"}
    [] k = "batch"    -> {"Marshal", "Unmarshal", "Evaluate", "DecodeResp"}
    [] k = "ecdsa"    -> {"Blind", "Unblind", "BlindSign", "Sign", "Verify", "VerifyASN1", "CreateKey"}
    [] k = "ed25519"  -> {"Blind", "Unblind", "BlindSign", "Sign", "Verify"}
    [] k = "codec"    -> {"Unmarshal", "Marshal", "UnmarshalBad"}

\* regions a call is given (arguments) and hands out (results), by name
ArgsOf(k, c) ==
  CASE c \in {"FinGood", "FinBad", "FinShort"} -> {"arg.response"}
    [] c \in {"Evaluate", "EvaluateBad"} -> IF k = "batch" THEN {} ELSE {"arg.request"}
    [] c = "Verify" /\ k \in {"t1issuer", "t5issuer"} -> {"arg.token"}
    [] c \in {"VerifyGood", "VerifyBad"} -> {"arg.request", "arg.blind", "arg.clientkey", "arg.anon"}
    [] c = "Finalize" -> {"arg.clientkey", "arg.blind", "arg.blindedkey", "arg.anon"}
    [] c \in {"Unmarshal", "UnmarshalBad", "DecodeResp"} -> {"arg.bytes"}
    [] c = "CreateKey" -> {"arg.blind"}        \* the encoding a (blind) key object is made from stays the caller's
    [] c \in {"Blind", "Unblind"} -> {"arg.key", "arg.blind", "arg.context"}
    [] c = "BlindSign" -> {"arg.key", "arg.blind", "arg.context", "arg.message"}
    [] c = "Sign" -> {"arg.key", "arg.message"}
    [] c = "Verify" /\ k = "ecdsa" -> {"arg.key", "arg.message"}          \* r and s are integers, not a byte string
    [] c \in {"VerifyASN1"} \/ (c = "Verify" /\ k = "ed25519") -> {"arg.key", "arg.message", "arg.signature"}
    [] OTHER -> {}

HandsOf(k, c) ==
  CASE c = "Request" -> {"out.request.fields"}
    [] c = "Marshal" -> {"out.encoding"}
    [] c = "FinGood" -> {"out.token"}
    [] c \in {"Evaluate", "EvaluateBad"} -> {"out.response"}
    [] c \in {"KeyID", "Key", "NameKey"} -> {"out.key"}
    [] c = "Finalize" -> {"out.index"}
    [] c \in {"Unmarshal", "DecodeResp"} -> {"out.fields"}
    [] c \in {"Blind", "Unblind"} -> {"out.key"}
    [] c \in {"BlindSign", "Sign"} -> {"out.signature"}
    [] OTHER -> {}

\* the regions handed out by creation itself
CreatedRegions(k) ==
  IF k \in {"t1state", "t2state", "t3state", "t5state"} THEN {"arg.challenge", "arg.nonce", "arg.keyid", "out.state"} ELSE {}

\* calls that have been seen to build a derived byte string by append()
AppendsOntoArgument(k, c) == k \in {"ed25519", "ecdsa"} /\ c \in {"Blind", "Unblind", "BlindSign"}   \* blind || 0x00 || context
AppendsOntoHandedOut(k, c) == k = "t3state" /\ c \in {"FinGood", "FinBad"}                  \* enc || response nonce
\* third deviation seen in the code (D15): the token is assembled by append() in the request state's own buffer, which
\* has spare capacity, and the returned token points into it - a second successful finalization on the same state
\* writes (the same bytes) into the token handed out by the first
BuildsTokenInStateBuffer(k, c) == k = "t1state" /\ c = "FinGood"

Init == hist = <<>> /\ handed = CreatedRegions(Kind) /\ written = {}

Call(c) ==
  /\ Len(hist) < Depth
  /\ hist' = Append(hist, c)
  /\ handed' = handed \cup ArgsOf(Kind, c) \cup HandsOf(Kind, c)      \* the caller still owns what it passed in
  /\ written' = IF Deviation = "append-to-argument" /\ AppendsOntoArgument(Kind, c) THEN {"arg.blind"}
                ELSE IF Deviation = "append-to-handed-out" /\ AppendsOntoHandedOut(Kind, c) /\ "out.request.fields" \in handed
                  THEN {"out.request.fields"}
                ELSE IF Deviation = "token-in-state-buffer" /\ BuildsTokenInStateBuffer(Kind, c) /\ "out.token" \in handed
                  THEN {"out.token"}
                ELSE {}

Next == \E c \in CallsOf(Kind) : Call(c)
Spec == Init /\ [][Next]_vars

\* C16: no call writes a region it does not own
FrameCondition == written \cap handed = {}

\* every maximal behaviour is printed for replay on the real library
Emit == Len(hist) < Depth \/ PrintT(<<"BEHAVIOUR", Kind, hist>>)
=============================================================================
