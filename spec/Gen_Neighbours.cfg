SPECIFICATION Spec
CONSTANTS
  Issuers = {"A", "B"}
  Origins = {"o1", "o2"}
  Depth = 3
  Deviation = "none"
INVARIANT OwnRegistrations
INVARIANT Emit
CHECK_DEADLOCK FALSE
