SPECIFICATION Spec
CONSTANT MaxN = 6
INVARIANT ParseInverts
INVARIANT SelfDelimiting
INVARIANT SigRoundTrip
CHECK_DEADLOCK FALSE
