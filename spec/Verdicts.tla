------------------------------ MODULE Verdicts ------------------------------
(***************************************************************************)
(* Every verifier of the library - token verification of the VOPRF types,  *)
(* the rate-limited issuer's request check, the attester's request check,  *)
(* ECDSA and Ed25519 signature verification - is a FUNCTION of the value   *)
(* it is shown: its verdict does not depend on what the same object (or    *)
(* the package) was shown before; neither does a client's request state    *)
(* depend, when it finalizes a response, on the responses it was handed    *)
(* before.  The properties C02, C06, C07, C10, C13 and C14 are stated for  *)
(* all inputs; for an object that lives long that means all inputs after   *)
(* all histories.                                                           *)
(*                                                                         *)
(* Implementation-shaped: one long-lived verifier object with a memo in    *)
(* front of its check (a cache of parsed keys, of verified tokens, of      *)
(* request fingerprints - the places where the code, or an optimisation of *)
(* it, keeps state).  The intended design keys the memo by the whole value *)
(* and fills it only after a successful check; the ways to get that wrong  *)
(* are named deviations which TLC shows to violate VerdictIsFunction       *)
(* (negative controls, MC_Verdicts_*.cfg).                                  *)
(*                                                                         *)
(* The input alphabet of a verifier kind is a small set of CLASSES; in a   *)
(* history each class stands for ONE concrete value (the same bytes every  *)
(* time it is presented).  Gen_Verdicts emits every history up to Depth;   *)
(* the Go driver replays each on a real object; Trace_Verdicts requires    *)
(* the recorded verdict of every step to be Valid(class).                   *)
(***************************************************************************)
EXTENDS Integers, Sequences, FiniteSets, TLC

CONSTANTS Kind,        \* which verifier
          Depth,       \* histories of up to Depth presentations
          Deviation    \* "none" | "lossy-key" | "memo-before-check" | "lossy-negative"

\* A class: its name, whether the value is authentic, and the honest value it
\* was derived from ("base": what a memo key that drops, truncates or does not
\* frame part of the value would see).
Cls(n, v, b) == [name |-> n, valid |-> v, base |-> b]

ClassesOf(k) ==
  CASE k \in {"t1verify", "t5verify"} -> {
         Cls("honest",  TRUE,  "honest"),    \* a token the issuer's key produced
         Cls("honest2", TRUE,  "honest2"),   \* another one
         Cls("nonce+",  FALSE, "honest"),    \* honest with a byte appended to the nonce
         Cls("keyid+",  FALSE, "honest"),    \* ... to the key id
         Cls("shift",   FALSE, "honest"),    \* the last key-id byte moved to the authenticator
         Cls("flip",    FALSE, "honest"),    \* one authenticator bit flipped
         Cls("other",   FALSE, "other") }    \* a token of another key
    [] k = "rlissuer" -> {
         Cls("honest",  TRUE,  "honest"),
         Cls("honest2", TRUE,  "honest2"),
         Cls("sigflip", FALSE, "honest"),    \* one signature bit flipped
         Cls("encflip", FALSE, "honest"),    \* one ciphertext bit flipped (signature no longer matches)
         Cls("trailing",FALSE, "honest"),    \* one byte appended to the encoding
         Cls("signer",  FALSE, "honest"),    \* same contents, signed by another key
         Cls("unreg",   FALSE, "unreg") }    \* authentic, for an origin the issuer does not serve
    \* the rate-limited issuer's origin lookup: authentic requests, each for another origin NAME; two names are registered
    \* (the second longer than two padding blocks); a name is a byte string, and look-alikes are other origins
    [] k = "rlorigins" -> {
         Cls("reg",      TRUE,  "reg"),      \* the registered name
         Cls("long",     TRUE,  "long"),     \* the long registered name
         Cls("prefix32", FALSE, "long"),     \* its first 32 bytes
         Cls("dot",      FALSE, "reg"),      \* the registered name followed by a dot
         Cls("upper",    FALSE, "reg"),      \* ... in upper case
         Cls("nul",      FALSE, "reg"),      \* ... followed by a zero byte and more
         Cls("comma",    FALSE, "reg"),      \* ... followed by a comma and another name (a list is not a name)
         Cls("other",    FALSE, "other") }   \* an unrelated name
    [] k = "attester" -> {
         Cls("good",    TRUE,  "good"),      \* client c1's request, its key, its blind
         Cls("good2",   TRUE,  "good2"),     \* client c2's
         Cls("ckey+",   FALSE, "good"),      \* c1's request with c1's key followed by one byte
         Cls("sigflip", FALSE, "good"),
         Cls("blind",   FALSE, "good"),      \* c1's request under another blind
         Cls("cross",   FALSE, "good2") }    \* c2's request presented under c1's key
    [] k = "ecdsa" -> {
         Cls("valid",   TRUE,  "valid"),
         Cls("valid2",  TRUE,  "valid2"),
         Cls("negs",    TRUE,  "valid"),     \* (r, N - s): the other valid signature of the same digest
         Cls("shift",   FALSE, "valid"),     \* digest || r[0], r[1..], s
         Cls("swap",    FALSE, "valid"),     \* (s, r)
         Cls("sflip",   FALSE, "valid"),
         Cls("digest",  FALSE, "valid") }    \* the signature against another digest
    \* a client's request state finalizing issuer responses (C02: the verifier is the client)
    [] k \in {"t1final", "t2final", "t5final"} -> {
         Cls("honest",   TRUE,  "honest"),    \* the issuer's response to this request
         Cls("reissued", TRUE,  "honest"),    \* the issuer's response to the same request, evaluated again
         Cls("flip",     FALSE, "honest"),    \* one bit flipped
         Cls("foreign",  FALSE, "foreign"),   \* another key's response to this request
         Cls("otherreq", FALSE, "otherreq"),  \* this key's response to another request
         Cls("trailing", FALSE, "honest"),    \* the response followed by one byte
         Cls("short",    FALSE, "honest") }   \* the response without its last byte
    [] k = "t3final" -> {
         Cls("honest",   TRUE,  "honest"),
         Cls("flip",     FALSE, "honest"),
         Cls("otherreq", FALSE, "otherreq"),
         Cls("trailing", FALSE, "honest"),
         Cls("short",    FALSE, "honest") }
    \* issuers as long-lived servers: a value is one encoded request; "accepted" = answered; what an answer is worth is
    \* judged by the client state that made the request (the token verifies; for type 3 the blinded request key is the
    \* reference's for THAT request).  Refusals have no consequences: whatever was refused before, an honest request
    \* gets its own answer.
    [] k \in {"t1issue", "t2issue"} -> {
         Cls("honest",  TRUE,  "honest"),
         Cls("honest2", TRUE,  "honest2"),
         Cls("bad",     FALSE, "honest"),    \* same key id, an element that does not decode / a message above the modulus
         Cls("short",   FALSE, "honest") }   \* ... one byte short
    [] k = "t5issue" -> {
         Cls("honest",  TRUE,  "honest"),    \* three elements
         Cls("honest2", TRUE,  "honest2"),   \* one element
         Cls("bad2",    FALSE, "honest"),    \* two of the three elements do not decode
         Cls("bad1",    FALSE, "honest") }   \* the last one does not decode
    [] k = "t3issue" -> {
         Cls("honest",    TRUE,  "honest"),     \* client c, blind b, the registered origin
         Cls("sameblind", TRUE,  "honest"),     \* client c, blind b, ANOTHER registered origin (same request key, other index key)
         Cls("honest2",   TRUE,  "honest2"),    \* client c, a fresh blind
         Cls("sigflip",   FALSE, "honest"),
         Cls("unreg",     FALSE, "unreg"),
         Cls("cut",       FALSE, "honest") }    \* the encoding without its last byte
    \* the generic batch issuer (one type-1 and one type-2 issuer configured); a value is an encoded batch request,
    \* the verdict "every entry of the response list is present"
    [] k = "batchissuer" -> {
         Cls("ok1",  TRUE,  "ok1"),     \* one type-1 request for the configured key
         Cls("ok2",  TRUE,  "ok2"),     \* one type-2 request
         Cls("pair", TRUE,  "pair"),    \* both in one batch
         Cls("bad1", FALSE, "ok1"),     \* same type and key id as ok1, an element that does not decode
         Cls("bad2", FALSE, "ok2"),     \* same type and key id as ok2, a message above the modulus
         Cls("unk",  FALSE, "unk") }    \* a key id nobody serves
    [] k = "ed25519" -> {
         Cls("valid",   TRUE,  "valid"),
         Cls("valid2",  TRUE,  "valid2"),
         Cls("s+L",     FALSE, "valid"),     \* S replaced by S + L (the same scalar, non-canonical)
         Cls("sflip",   FALSE, "valid"),
         Cls("msg+",    FALSE, "valid"),     \* the message followed by one byte
         Cls("key",     FALSE, "valid") }    \* another public key

NamesOf(k)    == {c.name : c \in ClassesOf(k)}
ClassIn(k, n) == CHOOSE c \in ClassesOf(k) : c.name = n
ValidIn(k, n) == ClassIn(k, n).valid
BaseIn(k, n)  == ClassIn(k, n).base

Names    == NamesOf(Kind)
Valid(n) == ValidIn(Kind, n)
Base(n)  == BaseIn(Kind, n)

\* Classes on which the properties leave the verdict to the decoder: a complete honest response followed by further
\* bytes may be finalized (to the same, valid token) or refused - C02 constrains what an accepting call returns, not
\* how strict the response decoder is.  An implementation decides such a class ONE way, whatever came before.
LenientOf(k) == IF k \in {"t1final", "t2final", "t3final", "t5final"} THEN {"trailing"} ELSE {}

VARIABLES hist,      \* the classes presented so far
          verdicts,  \* the verdict on each
          memo,      \* values remembered as accepted
          refused,   \* values remembered as refused
          leniency   \* the lenient classes this implementation accepts (fixed)
vars == <<hist, verdicts, memo, refused, leniency>>

Init == hist = <<>> /\ verdicts = <<>> /\ memo = {} /\ refused = {} /\ leniency \in SUBSET LenientOf(Kind)
GenInit == Init /\ leniency = {}     \* (the generator needs each history once)

\* the verdict a value deserves from an implementation with leniency ln
Deserved(k, ln, x) == IF x \in LenientOf(k) THEN x \in ln ELSE ValidIn(k, x)

\* one presentation, as an object of kind k with memo mm / refusals rf decides it
VerdictIn(k, dev, ln, mm, rf, x) ==
  CASE dev = "none" ->              \* memo keyed by the whole value, consulted before the check
         x \in mm \/ Deserved(k, ln, x)
    [] dev = "lossy-key" ->         \* memo keyed by part of the value
         (\E m \in mm : BaseIn(k, m) = BaseIn(k, x)) \/ Deserved(k, ln, x)
    [] dev = "memo-before-check" -> \* the value is remembered when it arrives, not when it has passed
         x \in mm \/ Deserved(k, ln, x)
    [] dev = "lossy-negative" ->    \* refusals remembered under a key that drops part of the value
         ~(\E m \in rf : BaseIn(k, m) = BaseIn(k, x)) /\ Deserved(k, ln, x)
Verdict(x) == VerdictIn(Kind, Deviation, leniency, memo, refused, x)

Present(x) ==
  /\ Len(hist) < Depth
  /\ LET ok == Verdict(x) IN
       /\ verdicts' = Append(verdicts, ok)
       /\ memo' = IF ok \/ Deviation = "memo-before-check" THEN memo \cup {x} ELSE memo
       /\ refused' = IF ok THEN refused ELSE refused \cup {x}
  /\ hist' = Append(hist, x)
  /\ UNCHANGED leniency

Next == \E x \in Names : Present(x)
Spec == Init /\ [][Next]_vars

TypeOK == /\ hist \in Seq(Names) /\ Len(verdicts) = Len(hist)
          /\ memo \subseteq Names /\ refused \subseteq Names /\ leniency \subseteq LenientOf(Kind)

\* The property: whatever came before, a value is accepted iff it is authentic.
VerdictIsFunction == \A i \in 1..Len(hist) : verdicts[i] <=> Deserved(Kind, leniency, hist[i])

\* the intended design's memo holds authentic values only (what makes VerdictIsFunction inductive)
MemoSound == Deviation = "none" => \A m \in memo : Deserved(Kind, leniency, m)

\* generator: one line per complete history
Emit == Len(hist) < Depth \/ PrintT(<<"BEHAVIOUR", Kind, hist>>)
=============================================================================
