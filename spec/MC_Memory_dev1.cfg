SPECIFICATION Spec
CONSTANTS
  Kind = "ed25519"
  Depth = 2
  Deviation = "append-to-argument"
INVARIANT FrameCondition
CHECK_DEADLOCK FALSE
