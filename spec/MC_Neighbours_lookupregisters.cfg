SPECIFICATION Spec
CONSTANTS
  Issuers = {"A", "B"}
  Origins = {"o1", "o2"}
  Depth = 5
  Deviation = "lookup-registers"
INVARIANT OwnRegistrations
CHECK_DEADLOCK FALSE
