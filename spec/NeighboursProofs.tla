-------------------------- MODULE NeighboursProofs --------------------------
(***************************************************************************)
(* TLAPS: in the intended design (Deviation = "none": every issuer owns    *)
(* its table, the accessor only reads, registration overwrites) an issuer  *)
(* answers for exactly what was registered with it, under the index key it *)
(* was last given - for ANY set of issuers and origins and histories of    *)
(* ANY length.  TLC checks the same up to Depth and refutes the three      *)
(* deviations.                                                             *)
(***************************************************************************)
EXTENDS Neighbours, TLAPS

Inv == regs = truth /\ OwnRegistrations

THEOREM Own == (Deviation = "none") => (Spec => []OwnRegistrations)
<1>a. SUFFICES ASSUME Deviation = "none" PROVE Spec => []OwnRegistrations
  OBVIOUS
<1>1. Init => Inv
  BY DEF Init, Inv, OwnRegistrations
<1>2. Inv /\ [Next]_vars => Inv'
  <2> SUFFICES ASSUME Inv, [Next]_vars PROVE Inv'
    OBVIOUS
  <2>1. CASE UNCHANGED vars
    BY <2>1 DEF vars, Inv, OwnRegistrations
  <2>2. ASSUME NEW x \in Issuers, NEW o \in Origins, Reg(x, o) PROVE Inv'
    <3>1. Table(x) = regs[x] /\ Slot(x) = x
      BY <1>a DEF Table, Slot
    <3>2. regs' = [regs EXCEPT ![x] = Put(regs[x], o, vers[<<x, o>>] + 1)]
      BY <2>2, <3>1, <1>a DEF Reg
    <3>3. truth' = [truth EXCEPT ![x] = Put(truth[x], o, vers[<<x, o>>] + 1)]
      BY <2>2 DEF Reg
    <3>4. last' = <<"Reg", x, o, TRUE, vers[<<x, o>>] + 1>>
      BY <2>2 DEF Reg
    <3>5. last'[1] = "Reg"
      BY <3>4
    <3> QED
      BY <3>2, <3>3, <3>5 DEF Inv, OwnRegistrations
  <2>3. ASSUME NEW x \in Issuers, NEW o \in Origins, Look(x, o) PROVE Inv'
    <3>1. Table(x) = regs[x]
      BY <1>a DEF Table
    <3>2. regs' = regs /\ truth' = truth
      BY <2>3, <1>a DEF Look
    <3>3. last' = <<"Look", x, o, o \in DOMAIN regs[x], 0>>
      BY <2>3, <3>1 DEF Look
    <3>4. last'[1] = "Look" /\ last'[2] = x /\ last'[3] = o /\ last'[4] = (o \in DOMAIN regs[x])
      BY <3>3
    <3>5. last' # <<>> /\ last'[1] # "Reg" /\ last'[1] # "Ask"
      BY <3>3
    <3> QED
      BY <3>2, <3>4, <3>5 DEF Inv, OwnRegistrations
  <2>4. ASSUME NEW x \in Issuers, NEW o \in Origins, Ask(x, o) PROVE Inv'
    <3>1. Table(x) = regs[x]
      BY <1>a DEF Table
    <3>2. regs' = regs /\ truth' = truth
      BY <2>4 DEF Ask
    <3>3. last' = <<"Ask", x, o, o \in DOMAIN regs[x], IF o \in DOMAIN regs[x] THEN regs[x][o] ELSE 0>>
      BY <2>4, <3>1 DEF Ask
    <3>4. /\ last'[1] = "Ask" /\ last'[2] = x /\ last'[3] = o /\ last'[4] = (o \in DOMAIN regs[x])
          /\ last'[5] = (IF o \in DOMAIN regs[x] THEN regs[x][o] ELSE 0)
      BY <3>3
    <3> QED
      BY <3>2, <3>4 DEF Inv, OwnRegistrations
  <2> QED
    BY <2>1, <2>2, <2>3, <2>4 DEF Next
<1>3. Inv => OwnRegistrations
  BY DEF Inv
<1> QED
  BY <1>1, <1>2, <1>3, PTL DEF Spec
=============================================================================
