SPECIFICATION Spec
CONSTANTS
  Kind = "t1verify"
  Depth = 3
  Deviation = "memo-before-check"
INVARIANT VerdictIsFunction
CHECK_DEADLOCK FALSE
