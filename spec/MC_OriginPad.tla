---------------------------- MODULE MC_OriginPad ----------------------------
EXTENDS OriginPad, TLC

CONSTANT MaxLen
VARIABLE x

\* name patterns of length n: a^n, a^(n-1) b, a^k 00 a^(n-k-1) (inner NUL), and a trailing NUL
Names(n) ==
  {[i \in 1..n |-> 97]}
  \cup (IF n >= 1 THEN {[i \in 1..n |-> IF i = n THEN 98 ELSE 97]} ELSE {})
  \cup {[i \in 1..n |-> IF i = k THEN 0 ELSE 97] : k \in 1..n}

Init == x = [kind |-> "root"] /\ registered = {}
Next == /\ \/ x.kind = "root" /\ \E n \in 0..MaxLen : x' = [kind |-> "len", n |-> n]
           \/ x.kind = "len" /\ \E nm \in Names(x.n) : x' = [kind |-> "name", nm |-> nm]
        /\ UNCHANGED registered
Spec == Init /\ [][Next]_<<x, registered>>

UnpadInvertsPad == (x.kind = "name" /\ ~EndsInZero(x.nm)) => Unpad(Pad(x.nm)) = x.nm
PaddedLenLaw == x.kind = "name" =>
   /\ Len(Pad(x.nm)) = PaddedLen(Len(x.nm))
   /\ Len(Pad(x.nm)) % 32 = 0 /\ Len(Pad(x.nm)) >= 32
   /\ Len(Pad(x.nm)) >= Len(x.nm) /\ Len(Pad(x.nm)) - Len(x.nm) < 32 + (IF Len(x.nm) = 0 THEN 1 ELSE 0)
   /\ Take(Pad(x.nm), Len(x.nm)) = x.nm
\* two names needing the same number of blocks are indistinguishable by message length
WireSizeDependsOnBlocksOnly == x.kind = "name" =>
   \A m \in 0..MaxLen : Blocks(m) = Blocks(Len(x.nm)) => WireSize(m) = WireSize(Len(x.nm))
\* a name that differs from a registered one is not served (for names not ending in NUL)
Variants(nm) ==
  LET n == Len(nm) IN
  {nm \o <<97>>, nm \o <<0>>, nm \o <<0, 97>>}
  \cup (IF n >= 1 THEN {SubSeq(nm, 1, n - 1), [nm EXCEPT ![n] = 99], [nm EXCEPT ![1] = 0],
                        [nm EXCEPT ![(n + 1) \div 2] = 0]} ELSE {})
NearMissRefused == (x.kind = "name" /\ ~EndsInZero(x.nm)) =>
   \A o \in Variants(x.nm) : (o # x.nm) => Recovered(x.nm) # o
=============================================================================
