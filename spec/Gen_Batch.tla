------------------------------ MODULE Gen_Batch ------------------------------
(* Behaviour generator for Batch.tla: every (configuration, request sequence)
   is one behaviour; printed from the initial states. *)
EXTENDS Batch, Json, TLC
Emit == phase # "created" \/ PrintT(<<"BEHAVIOUR", ToJson([cfg |-> cfg, reqs |-> reqs])>>)
=============================================================================
