SPECIFICATION Spec
CONSTANTS
  Kind = "codec"
  Depth = 3
  Deviation = "none"
INVARIANT FrameCondition
INVARIANT Emit
CHECK_DEADLOCK FALSE
