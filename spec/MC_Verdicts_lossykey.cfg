SPECIFICATION Spec
CONSTANTS
  Kind = "t1verify"
  Depth = 3
  Deviation = "lossy-key"
INVARIANT VerdictIsFunction
CHECK_DEADLOCK FALSE
