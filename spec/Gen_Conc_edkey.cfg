SPECIFICATION Spec
CONSTANTS
  Procs = {"g1", "g2"}
  Ops = {"EdSign", "EdVerify", "EdBlind", "EdBlindSign"}
  OpsPerProc = 2
  Design = "eager"
INVARIANT EmitJ
INVARIANT NoRace
CHECK_DEADLOCK FALSE
