----------------------------- MODULE Concurrency -----------------------------
(***************************************************************************)
(* Goroutines calling operations on shared issuer / key objects (property  *)
(* C17).  An operation is a sequence of atomic accesses to shared cells:   *)
(*                                                                         *)
(*   pub     the public key cached inside a VOPRF private key.  In the     *)
(*           library's dependency it is computed lazily: read the cell; if *)
(*           it is empty, compute the key and write the cell - a           *)
(*           check-then-write pair with no synchronisation.                *)
(*   table   package-level precomputed tables, initialised behind          *)
(*           sync.Once: the first caller writes them inside the once, all  *)
(*           later accesses are reads ordered after it.                    *)
(*   key     the immutable key material of the object (read only).         *)
(*                                                                         *)
(* Design = "eager" is the intended design: the issuer constructor forces   *)
(* the public key before the object is shared, so operations only read     *)
(* `pub`.  Design = "lazy" is the named deviation (first use initialises)  *)
(* for which TLC exhibits the race.  Two accesses race when they are by    *)
(* different goroutines, to the same cell, at least one is a write, and    *)
(* they are not ordered by happens-before (goroutine creation orders       *)
(* construction before everything; a once orders its body before every     *)
(* return from Do; nothing else synchronises).                             *)
(***************************************************************************)
EXTENDS Integers, Sequences, FiniteSets, TLC

CONSTANTS Procs,       \* goroutines
          Ops,         \* operation alphabet of the object kind under test
          OpsPerProc,  \* each goroutine performs this many operations
          Design       \* "eager" | "lazy"

VARIABLES prog,        \* proc -> sequence of operations it will perform (chosen initially: the schedule's program)
          pc,          \* proc -> [op index, step within the operation]
          pub,         \* "empty" | "set"
          seen,        \* proc -> what its current operation read from pub
          onceDone,    \* the sync.Once of the tables has completed
          log,         \* set of unsynchronised accesses so far: [proc, cell, rw]
          results      \* proc -> sequence of results of its completed operations

vars == <<prog, pc, pub, seen, onceDone, log, results>>

\* which shared state an operation touches
UsesPub(op)   == op \in {"Evaluate", "EvaluateBatch", "TokenKey", "TokenKeyID"}
UsesTable(op) == op \in {"EdSign", "EdVerify", "EdBlind", "EdBlindSign", "EcSign", "EcBlindSign"}

Init ==
  /\ prog \in [Procs -> [1..OpsPerProc -> Ops]]
  /\ pc = [p \in Procs |-> [i |-> 1, step |-> 1]]
  /\ pub = IF Design = "eager" THEN "set" ELSE "empty"      \* the constructor forces the key in the intended design
  /\ seen = [p \in Procs |-> "none"]
  /\ onceDone = FALSE
  /\ log = {}
  /\ results = [p \in Procs |-> <<>>]

Cur(p) == prog[p][pc[p].i]
Running(p) == pc[p].i <= OpsPerProc

FinishOp(p) ==
  /\ pc' = [pc EXCEPT ![p] = [i |-> @.i + 1, step |-> 1]]
  /\ results' = [results EXCEPT ![p] = Append(@, <<Cur(p), "pk">>)]     \* the result is a function of the arguments and the (unique) key
  /\ seen' = [seen EXCEPT ![p] = "none"]

\* step 1 of an operation using the public key: read the cell
ReadPub(p) ==
  /\ Running(p) /\ UsesPub(Cur(p)) /\ pc[p].step = 1
  /\ seen' = [seen EXCEPT ![p] = pub]
  /\ log' = log \cup {[proc |-> p, cell |-> "pub", rw |-> "R"]}
  /\ pc' = [pc EXCEPT ![p].step = 2]
  /\ UNCHANGED <<prog, pub, onceDone, results>>

\* step 2: if the cell was empty, compute and write it; then finish
WritePubOrFinish(p) ==
  /\ Running(p) /\ UsesPub(Cur(p)) /\ pc[p].step = 2
  /\ IF seen[p] = "empty"
       THEN /\ pub' = "set"
            /\ log' = log \cup {[proc |-> p, cell |-> "pub", rw |-> "W"]}
       ELSE UNCHANGED <<pub, log>>
  /\ FinishOp(p)
  /\ UNCHANGED <<prog, onceDone>>

\* an operation using the precomputed tables: once.Do (synchronised), then reads
TableOp(p) ==
  /\ Running(p) /\ UsesTable(Cur(p))
  /\ onceDone' = TRUE                 \* the body runs inside the once: ordered before every later Do return
  /\ FinishOp(p)
  /\ UNCHANGED <<prog, pub, log>>

\* an operation touching only immutable key material and per-call state
PureOp(p) ==
  /\ Running(p) /\ ~UsesPub(Cur(p)) /\ ~UsesTable(Cur(p))
  /\ FinishOp(p)
  /\ UNCHANGED <<prog, pub, onceDone, log>>

Next == \E p \in Procs : ReadPub(p) \/ WritePubOrFinish(p) \/ TableOp(p) \/ PureOp(p)
Spec == Init /\ [][Next]_vars /\ WF_vars(Next)

---------------------------------------------------------------------------
\* no two unsynchronised conflicting accesses by different goroutines
NoRace == \A a, b \in log : ~(a.proc # b.proc /\ a.cell = b.cell /\ (a.rw = "W" \/ b.rw = "W"))

\* every call returns what a sequential call with the same arguments returns
Linearizable == \A p \in Procs : \A i \in 1..Len(results[p]) : results[p][i] = <<prog[p][i], "pk">>

AllFinish == <>(\A p \in Procs : ~Running(p))

\* every program (who calls what concurrently on a fresh object) is printed for replay
Emit == (\E p \in Procs : pc[p] # [i |-> 1, step |-> 1]) \/ PrintT(<<"BEHAVIOUR", prog>>)
=============================================================================
