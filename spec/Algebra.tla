------------------------------ MODULE Algebra ------------------------------
(***************************************************************************)
(* Symbolic model of the key-blinding algebra used by the rate-limited     *)
(* protocol (and by the ECDSA / Ed25519 key-blinding forks).               *)
(*                                                                         *)
(* A public key is a term  base^(product of blinding factors): the normal  *)
(* form is the base key together with an integer exponent per blinding     *)
(* factor.  Blinding by a factor adds 1 to its exponent, unblinding        *)
(* subtracts 1, so blinding commutes and unblinding cancels by             *)
(* construction of the normal form; what TLC checks is that the            *)
(* protocol-level identities (index stability, injectivity, the ADT laws   *)
(* of KeyBlind.tla) follow.                                                *)
(*                                                                         *)
(* A blinding factor is an atom Hb(blind key, context): hash-to-field of   *)
(* blind-key bytes || 0x00 || context - uninterpreted, injective.          *)
(***************************************************************************)
EXTENDS Integers, FiniteSets

CONSTANTS BaseKeys,     \* key pairs (model values): client keys, signing keys
          BlindKeys,    \* blind keys / index keys (model values)
          Contexts      \* context strings (model values), e.g. ClientBlind, IssuerBlind

Atoms == BlindKeys \X Contexts                \* Hb(blind, ctx)
Hb(b, ctx) == <<b, ctx>>

ZeroExp == [a \in Atoms |-> 0]

\* public key terms
Pk(k) == [base |-> k, e |-> ZeroExp]
Blind(K, a)   == [K EXCEPT !.e[a] = @ + 1]
Unblind(K, a) == [K EXCEPT !.e[a] = @ - 1]

IsPlain(K) == K.e = ZeroExp

\* signature by the secret key behind key term K over message m
Sig(K, m) == [signer |-> K, msg |-> m]
Verifies(K, m, sig) == sig.signer = K /\ sig.msg = m

\* HKDF(salt, ikm, info) as an injective constructor
Hkdf(salt, ikm, info) == <<"hkdf", salt, ikm, info>>
=============================================================================
