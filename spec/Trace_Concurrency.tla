------------------------- MODULE Trace_Concurrency -------------------------
(***************************************************************************)
(* Trace validation for property C17.  Each Conc event is one program of   *)
(* Concurrency.tla (which operations run concurrently, in which order per  *)
(* goroutine, on one freshly constructed shared object) executed on real   *)
(* goroutines in a race-instrumented build: the number of race-detector    *)
(* reports produced while it ran, and whether every call returned what the *)
(* sequential reference returned.  Concurrency.tla (Design = "eager")      *)
(* predicts NoRace and Linearizable for every program.                     *)
(***************************************************************************)
EXTENDS Concurrency, Json

Trace == ndJsonDeserialize("trace.ndjson")
VARIABLE l

AllOps == {"Evaluate", "EvaluateBatch", "Verify", "TokenKeyID", "TokenKey", "NameKey",
           "EcSign", "EcVerify", "EcBlind", "EcBlindSign", "EdSign", "EdVerify", "EdBlind", "EdBlindSign"}

Obl(e) == <<
  <<"quiet", e.panic = "">>,
  <<"program-in-alphabet", \A g \in 1..Len(e.prog) : \A i \in 1..Len(e.prog[g]) : e.prog[g][i] \in AllOps>>,
  <<"no-data-race", e.races = 0>>,
  <<"results-as-sequential", e.results_ok>> >>

Failed(e) == LET o == Obl(e) IN {o[i][1] : i \in {j \in 1..Len(o) : ~o[j][2]}}

TInit == Init /\ l = 1
TNext ==
  /\ l <= Len(Trace)
  /\ LET f == Failed(Trace[l])
     IN IF f = {} THEN TRUE ELSE PrintT("REJECT " \o ToString(l) \o " Conc " \o ToString(f))
  /\ IF l = Len(Trace) THEN PrintT("DONE " \o ToString(l)) ELSE TRUE
  /\ l' = l + 1
  /\ UNCHANGED vars
TSpec == TInit /\ [][TNext]_<<vars, l>>
=============================================================================
