SPECIFICATION Spec
CONSTANTS
  Kind = "t3state"
  Depth = 3
  Deviation = "none"
INVARIANT FrameCondition
INVARIANT Emit
CHECK_DEADLOCK FALSE
