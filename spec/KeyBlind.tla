------------------------------ MODULE KeyBlind ------------------------------
(***************************************************************************)
(* The key-blinding abstract data type of the ECDSA and Ed25519 forks, over *)
(* the symbolic algebra of Algebra.tla: a pool of public-key terms and a   *)
(* pool of signatures grow by the API operations                           *)
(*    Blind / Unblind (PublicKeyWithContext), BlindKeySign, Sign, Verify.  *)
(* The laws of properties C12 / C15 are invariants of every reachable      *)
(* pool.                                                                   *)
(***************************************************************************)
EXTENDS Algebra, Sequences

CONSTANTS Digests,          \* messages / digests (model values or strings)
          MaxDepth,         \* at most this many blinding operations applied to a key
          Deterministic     \* TRUE for Ed25519: signing is a function of (key, blind, context, message)

VARIABLES cur,      \* [term, depth]: the public-key term being worked on (every term of depth <= MaxDepth is reachable)
          sigs      \* set of [sig, n]: signatures produced so far (n distinguishes randomized signatures)

kvars == <<cur, sigs>>
keys == {cur}

KInit == /\ cur \in {[term |-> Pk(k), depth |-> 0] : k \in BaseKeys}
         /\ sigs = {}

DoBlind(x, b, ctx) ==
  /\ x = cur /\ x.depth < MaxDepth
  /\ cur' = [term |-> Blind(x.term, Hb(b, ctx)), depth |-> x.depth + 1]
  /\ UNCHANGED sigs

DoUnblind(x, b, ctx) ==
  /\ x = cur /\ x.depth < MaxDepth
  /\ cur' = [term |-> Unblind(x.term, Hb(b, ctx)), depth |-> x.depth + 1]
  /\ UNCHANGED sigs

\* a signature made with signing key k blinded by (b, ctx) is a signature by the blinded key
BlindSigTerm(k, b, ctx, d) == Sig(Blind(Pk(k), Hb(b, ctx)), d)

DoBlindKeySign(k, b, ctx, d) ==
  /\ Cardinality(sigs) < 2
  /\ sigs' = sigs \cup {[sig |-> BlindSigTerm(k, b, ctx, d), n |-> IF Deterministic THEN 0 ELSE Cardinality(sigs)]}
  /\ UNCHANGED cur

DoSign(k, d) ==
  /\ Cardinality(sigs) < 2
  /\ sigs' = sigs \cup {[sig |-> Sig(Pk(k), d), n |-> IF Deterministic THEN 0 ELSE Cardinality(sigs)]}
  /\ UNCHANGED cur

KNext ==
  \/ \E x \in keys, b \in BlindKeys, c \in Contexts : DoBlind(x, b, c) \/ DoUnblind(x, b, c)
  \/ \E k \in BaseKeys, b \in BlindKeys, c \in Contexts, d \in Digests : DoBlindKeySign(k, b, c, d)
  \/ \E k \in BaseKeys, d \in Digests : DoSign(k, d)

KSpec == KInit /\ [][KNext]_kvars

---------------------------------------------------------------------------
\* a blind-key signature verifies under the blinded public key ...
SignVerifiesUnderBlinded ==
  \A k \in BaseKeys, b \in BlindKeys, c \in Contexts, d \in Digests :
    Verifies(Blind(Pk(k), Hb(b, c)), d, BlindSigTerm(k, b, c, d))
\* ... and not under the unblinded key, another blind, another context or another message
NotUnderOtherKeys ==
  \A k \in BaseKeys, b, b2 \in BlindKeys, c, c2 \in Contexts, d, d2 \in Digests :
    /\ ~Verifies(Pk(k), d, BlindSigTerm(k, b, c, d))
    /\ (b2 # b \/ c2 # c) => ~Verifies(Blind(Pk(k), Hb(b2, c2)), d, BlindSigTerm(k, b, c, d))
    /\ d2 # d => ~Verifies(Blind(Pk(k), Hb(b, c)), d2, BlindSigTerm(k, b, c, d))
\* unblinding inverts blinding, for every key in the pool
UnblindInverts ==
  \A x \in keys, b \in BlindKeys, c \in Contexts :
    /\ Unblind(Blind(x.term, Hb(b, c)), Hb(b, c)) = x.term
    /\ Blind(Unblind(x.term, Hb(b, c)), Hb(b, c)) = x.term
\* blinding with two blinds gives the same key in either order
BlindCommutes ==
  \A x \in keys, b1, b2 \in BlindKeys, c1, c2 \in Contexts :
    Blind(Blind(x.term, Hb(b1, c1)), Hb(b2, c2)) = Blind(Blind(x.term, Hb(b2, c2)), Hb(b1, c1))
\* changing the blind or the context changes the blinded key
BlindAndContextMatter ==
  \A x \in keys, b1, b2 \in BlindKeys, c1, c2 \in Contexts :
    (b1 # b2 \/ c1 # c2) => Blind(x.term, Hb(b1, c1)) # Blind(x.term, Hb(b2, c2))
\* a blinded key is never the key itself
BlindChangesKey ==
  \A x \in keys, b \in BlindKeys, c \in Contexts : Blind(x.term, Hb(b, c)) # x.term
\* every signature in the pool verifies under exactly its signer's key term and message
PoolSignaturesSound ==
  \A s \in sigs : \A x \in keys : \A d \in Digests :
    Verifies(x.term, d, s.sig) <=> (x.term = s.sig.signer /\ d = s.sig.msg)
\* Ed25519: signing is deterministic (at most one signature per signer and message)
SignDeterministic ==
  Deterministic => \A s1, s2 \in sigs : s1.sig = s2.sig => s1 = s2
=============================================================================
