SPECIFICATION Spec
CONSTANTS
  BaseKeys = {"c1", "c2"}
  Clients = {"c1", "c2"}
  BlindKeys = {"k1", "k2", "b1", "b2"}
  ClientBlinds = {"b1", "b2"}
  Contexts = {"CB", "IB"}
  Origins = {"o1", "o2", "o3"}
  IndexKeyOf <- MCIndexKeyOf
  Anons = {"a1", "a2", "a3"}
  ClientBlindCtx = "CB"
  IssuerBlindCtx = "IB"
INVARIANT IndexStable
INVARIANT IndexInjective
INVARIANT RegisteredOnlyVerified
INVARIANT FunctionalBinding
INVARIANT StateIsLog
INVARIANT NoSpuriousReject
INVARIANT UnverifiedRefused
INVARIANT RepeatAndFreshAccepted
PROPERTY AcceptOnlyAuthentic
PROPERTY RejectLeavesCache
PROPERTY PutOnlyOnFirstAccept
PROPERTY RejectKeepsBindings
