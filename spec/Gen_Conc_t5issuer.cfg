SPECIFICATION Spec
CONSTANTS
  Procs = {"g1", "g2"}
  Ops = {"Evaluate", "Verify", "TokenKeyID", "TokenKey"}
  OpsPerProc = 2
  Design = "eager"
INVARIANT EmitJ
INVARIANT NoRace
CHECK_DEADLOCK FALSE
