----------------------------- MODULE Trace_Batch -----------------------------
(***************************************************************************)
(* Trace validation for property C05: each event is one complete generic   *)
(* batch run on the real library (BatchedClient.CreateTokenRequest,        *)
(* EvaluateBatch, UnmarshalBatchedTokenResponses, per-slot FinalizeToken)  *)
(* for one TLC-generated (configuration, request sequence); the recorded   *)
(* slot list must be what Batch.tla computes.                              *)
(***************************************************************************)
EXTENDS Batch, Json, TLC

Trace == ndJsonDeserialize("trace.ndjson")
VARIABLE l

Obl(e) == <<
  <<"quiet", e.panic = "">>,
  <<"evaluates", e.eval_ok>>,
  <<"response-list-parses", e.eval_ok => e.parse_ok>>,
  <<"count-and-order", e.parse_ok => Len(e.slots) = Len(e.kinds)>>,
  <<"present-iff-servable", (e.parse_ok /\ Len(e.slots) = Len(e.kinds)) =>
       \A j \in 1..Len(e.kinds) : e.slots[j].present <=> Servable(e.cfg, e.kinds[j])>>,
  <<"present-finalizes-to-valid-token", (e.parse_ok /\ Len(e.slots) = Len(e.kinds)) =>
       \A j \in 1..Len(e.kinds) : e.slots[j].present =>
          IF AnsweredByOtherKey(e.cfg, e.kinds[j]) THEN ~e.slots[j].fin_ok      \* answered under the colliding key: refused by the client
          ELSE (e.slots[j].fin_ok /\ e.slots[j].oracle_ok)>>,
  <<"model-slots", (e.parse_ok /\ Len(e.slots) = Len(e.kinds)) =>
       \A j \in 1..Len(e.kinds) : e.slots[j].present <=> (FillSlot(e.cfg, e.kinds[j], j) # Absent)>> >>

Failed(e) == LET o == Obl(e) IN {o[i][1] : i \in {j \in 1..Len(o) : ~o[j][2]}}

TInit == Init /\ l = 1
TNext ==
  /\ l <= Len(Trace)
  /\ LET f == Failed(Trace[l])
     IN IF f = {} THEN TRUE ELSE PrintT("REJECT " \o ToString(l) \o " Batch " \o ToString(f))
  /\ IF l = Len(Trace) THEN PrintT("DONE " \o ToString(l)) ELSE TRUE
  /\ l' = l + 1
  /\ UNCHANGED vars
TSpec == TInit /\ [][TNext]_<<vars, l>>
=============================================================================
