------------------------------ MODULE Issuance ------------------------------
(***************************************************************************)
(* The issuance protocols of token types 1, 2, 3 and 5 as one transition   *)
(* system over symbolic (Dolev-Yao style) cryptography: clients with       *)
(* request states, issuers with keys, a network that carries requests and  *)
(* responses and an attacker who may replace a response by any mutation of *)
(* the alphabet below before it reaches a client.                          *)
(*                                                                         *)
(* One action per public API call; ClientFinalize is written as the        *)
(* code's sequence of checks.  Cryptographic primitives are term           *)
(* constructors with the equations the checks rely on:                     *)
(*   VOPRF      Bl(x, r) blinded input; Ev(k, e) evaluated element;        *)
(*              Pf(k, es, vs) batch DLEQ proof, valid for key k exactly    *)
(*              when vs[i] = Ev(k, es[i]); unblinding Ev(k, Bl(x, r))      *)
(*              with r gives the output F(k, x) - no r in it               *)
(*   blind RSA  BMsg(x, r) blinded message; BSig(k, m) blind signature;    *)
(*              finalizing BSig(k, BMsg(x, r)) with r gives Sig(k, x)      *)
(*   type 3     the response is AEAD-sealed under a key derived from the   *)
(*              request's own HPKE context and the response nonce          *)
(***************************************************************************)
EXTENDS Integers, Sequences, FiniteSets, TLC

CONSTANTS Keys,        \* issuer key pairs (model values / strings)
          Rids,        \* request identifiers (also identify the client randomness of the request)
          Ncs,         \* (nonce, challenge) choices: two requests with the same nc ask for the same token
          Types,       \* subset of {1, 2, 3, 5} explored by a configuration
          MaxBatch     \* tokens per type 5 request: 1..MaxBatch

VARIABLES reqs,     \* rid -> request state of the client that created it
          net,      \* set of responses in flight: [to, from, body, mut]
          out,      \* tokens output by clients: set of [rid, i, tok]
          refused   \* ghost: set of <<rid, mut>> for which finalization returned an error

vars == <<reqs, net, out, refused>>

Junk == <<"junk">>          \* comparable with every term (terms are tuples)
FinFail == [ok |-> FALSE, toks |-> <<>>]
Toks(ts) == [ok |-> TRUE, toks |-> ts]

\* token input: type || nonce || SHA-256(challenge) || key id; nonce and
\* challenge are determined by (nc, i) in this model
TokenInput(t, nc, i, k) == [type |-> t, nonce |-> <<nc, i>>, ctx |-> <<"ch", nc>>, keyid |-> <<"kid", k>>]

IsVoprf(t) == t \in {1, 5}

Bl(x, r)   == <<"bl", x, r>>
Ev(k, e)   == <<"ev", k, e>>
Pf(k, es, vs) == <<"pf", k, es, vs>>
F(k, x)    == <<"F", k, x>>
BMsg(x, r) == <<"bm", x, r>>
BSig(k, m) == <<"bs", k, m>>
Sig(k, x)  == <<"sig", k, x>>

NTok(t, n) == IF t = 5 THEN n ELSE 1

\* the blinded list a client sends / remembers
Blinded(t, rid, nc, n, k) ==
  [i \in 1..NTok(t, n) |-> IF IsVoprf(t) THEN Bl(TokenInput(t, nc, i, k), <<rid, i>>)
                                          ELSE BMsg(TokenInput(t, nc, i, k), <<rid, i>>)]

\* honest evaluation of a request (as decoded from the wire) under key k
HonestBody(t, k, es, rid) ==
  IF IsVoprf(t)
    THEN [framed |-> TRUE, elems |-> [i \in 1..Len(es) |-> Ev(k, es[i])],
          proof |-> Pf(k, es, [i \in 1..Len(es) |-> Ev(k, es[i])])]
    ELSE IF t = 2 THEN [sig |-> BSig(k, es[1])]
    ELSE \* type 3: sealed to the request's own response key
         [rnonce |-> <<"n">>, sealedTo |-> rid, sig |-> BSig(k, es[1])]

Init == reqs = <<>> /\ net = {} /\ out = {} /\ refused = {}

ReqState(rid, t, k, nc, n) == [t |-> t, k |-> k, nc |-> nc, n |-> NTok(t, n), sent |-> Blinded(t, rid, nc, n, k)]

ClientCreate(rid, t, k, nc, n) ==
  /\ rid \notin DOMAIN reqs
  /\ reqs' = [x \in DOMAIN reqs \cup {rid} |-> IF x = rid THEN ReqState(rid, t, k, nc, n) ELSE reqs[x]]
  /\ UNCHANGED <<net, out, refused>>

\* an issuer holding key k evaluates request rid (the request crosses the wire
\* unchanged: request tampering is properties C06/C07)
IssuerEvaluate(k, rid) ==
  /\ rid \in DOMAIN reqs
  /\ net' = net \cup {[to |-> rid, from |-> rid, key |-> k,
                       body |-> HonestBody(reqs[rid].t, k, reqs[rid].sent, rid), mut |-> "Id"]}
  /\ UNCHANGED <<reqs, out, refused>>

(* The attacker's alphabet, applied to a response in flight (once). *)
Fields(t) == IF t = 1 THEN {"elem", "proof"}
             ELSE IF t = 5 THEN {"len", "elem", "proof"}
             ELSE IF t = 2 THEN {"sig"}
             ELSE {"rnonce", "ct"}

Garble(t, body, f) ==
  CASE f = "elem"   -> [body EXCEPT !.elems[1] = Junk]
    [] f = "proof"  -> [body EXCEPT !.proof = Junk]
    [] f = "len"    -> [body EXCEPT !.framed = FALSE]        \* list framing no longer parses
    [] f = "sig"    -> [body EXCEPT !.sig = Junk]
    [] f = "rnonce" -> [body EXCEPT !.rnonce = Junk]
    [] f = "ct"     -> [body EXCEPT !.sig = Junk]             \* AEAD tag check fails

DropAt(s, i) == [j \in 1..(Len(s) - 1) |-> IF j < i THEN s[j] ELSE s[j + 1]]
DupAt(s, i)  == [j \in 1..(Len(s) + 1) |-> IF j <= i THEN s[j] ELSE s[j - 1]]
SwapFirstTwo(s) == [j \in 1..Len(s) |-> IF j = 1 THEN s[2] ELSE IF j = 2 THEN s[1] ELSE s[j]]

MutateT(t, m, mut) ==
  CASE mut.kind = "Flip" -> [m EXCEPT !.body = Garble(t, m.body, mut.f), !.mut = "Flip"]
    [] mut.kind = "ForeignReq" -> [m EXCEPT !.to = mut.to, !.mut = "ForeignReq"]        \* answer to another request
    [] mut.kind = "Drop" -> [m EXCEPT !.body.elems = DropAt(m.body.elems, mut.i), !.mut = "Drop"]
    [] mut.kind = "Dup"  -> [m EXCEPT !.body.elems = DupAt(m.body.elems, mut.i), !.mut = "Dup"]
    [] mut.kind = "Swap" -> [m EXCEPT !.body.elems = SwapFirstTwo(m.body.elems), !.mut = "Swap"]
    [] mut.kind = "Perm" -> [m EXCEPT !.body.elems = [j \in 1..Len(m.body.elems) |-> m.body.elems[mut.p[j]]], !.mut = "Perm"]

Mutate(m, mut) == MutateT(reqs[m.from].t, m, mut)

Mutations(m) ==
  LET t == reqs[m.from].t IN
       {[kind |-> "Flip", f |-> f] : f \in Fields(t)}
  \cup {[kind |-> "ForeignReq", to |-> r] : r \in {x \in DOMAIN reqs : x # m.from /\ reqs[x].t = t}}
  \cup (IF t = 5 /\ m.body.framed
          THEN {[kind |-> "Drop", i |-> i] : i \in 1..Len(m.body.elems)}
               \cup {[kind |-> "Dup", i |-> i] : i \in 1..Len(m.body.elems)}
               \cup (IF Len(m.body.elems) >= 2 THEN {[kind |-> "Swap"]} ELSE {})
          ELSE {})

Attack(m, mut) ==
  /\ m \in net /\ m.mut = "Id" /\ mut \in Mutations(m)
  /\ net' = (net \ {m}) \cup {Mutate(m, mut)}
  /\ UNCHANGED <<reqs, out, refused>>

(* ClientFinalize: the code's checks, in order.  Returns [ok, toks]. *)
FinalizeCheck(st, rid, m) ==
  LET b  == m.body
  IN IF IsVoprf(st.t) THEN
       IF ~b.framed THEN FinFail                                           \* list does not parse
       ELSE IF Len(b.elems) # st.n THEN FinFail                            \* element count
       ELSE IF \E i \in 1..Len(b.elems) : b.elems[i] = Junk THEN FinFail   \* element does not decode
       ELSE IF b.proof # Pf(st.k, st.sent, b.elems) THEN FinFail           \* DLEQ proof against the PINNED key
       ELSE IF \E i \in 1..st.n : b.elems[i] # Ev(st.k, st.sent[i]) THEN FinFail
       ELSE Toks([i \in 1..st.n |-> [input |-> TokenInput(st.t, st.nc, i, st.k),
                                auth |-> F(st.k, TokenInput(st.t, st.nc, i, st.k))]])
     ELSE
       IF st.t = 3 /\ (b.rnonce = Junk \/ b.sealedTo # rid) THEN FinFail   \* AEAD open under the request's own key
       ELSE IF b.sig = Junk THEN FinFail
       ELSE IF b.sig # BSig(st.k, st.sent[1]) THEN FinFail                 \* blind-RSA finalize + PSS verification under the pinned key
       ELSE Toks(<<[input |-> TokenInput(st.t, st.nc, 1, st.k), auth |-> Sig(st.k, TokenInput(st.t, st.nc, 1, st.k))]>>)

FinalizeResult(rid, m) == FinalizeCheck(reqs[rid], rid, m)

ClientFinalize(rid, m) ==
  /\ m \in net /\ m.to = rid /\ rid \in DOMAIN reqs
  /\ LET res == FinalizeResult(rid, m)
     IN IF ~res.ok
          THEN /\ refused' = refused \cup {<<rid, m.mut, m.key>>}
               /\ UNCHANGED out
          ELSE /\ out' = out \cup {[rid |-> rid, i |-> i, tok |-> res.toks[i], mut |-> m.mut] : i \in 1..Len(res.toks)}
               /\ UNCHANGED refused
  /\ net' = net \ {m}
  /\ UNCHANGED reqs

Next ==
  \/ \E rid \in Rids, t \in Types, k \in Keys, nc \in Ncs, n \in 1..MaxBatch : ClientCreate(rid, t, k, nc, n)
  \/ \E k \in Keys, rid \in Rids : IssuerEvaluate(k, rid)
  \/ \E m \in net : \E mut \in Mutations(m) : Attack(m, mut)
  \/ \E rid \in Rids, m \in net : ClientFinalize(rid, m)

Spec == Init /\ [][Next]_vars

\* The honest system (no attacker, issuers answer with the key the request was
\* created for), with weak fairness of evaluation and finalization.
HonestNext ==
  \/ \E rid \in Rids, t \in Types, k \in Keys, nc \in Ncs, n \in 1..MaxBatch : ClientCreate(rid, t, k, nc, n)
  \/ \E rid \in DOMAIN reqs : IssuerEvaluate(reqs[rid].k, rid)
  \/ \E rid \in Rids, m \in net : ClientFinalize(rid, m)
HonestFair ==
  /\ Init /\ [][HonestNext]_vars
  /\ \A rid \in Rids : WF_vars(rid \in DOMAIN reqs /\ (\A o \in out : o.rid # rid) /\ IssuerEvaluate(reqs[rid].k, rid))
  /\ \A rid \in Rids : WF_vars(\E m \in net : ClientFinalize(rid, m))
\* C01 (liveness part): every honest run completes with a token
HonestCompletes == \A rid \in Rids : (rid \in DOMAIN reqs) ~> (\E o \in out : o.rid = rid)

---------------------------------------------------------------------------
\* does authenticator a verify under key k over input x?  (issuer-side / PSS oracle)
ValidAuth(t, k, x, a) == a = (IF IsVoprf(t) THEN F(k, x) ELSE Sig(k, x))

(* C02: whatever a client outputs verifies under the key the request was created
   for and carries that request's nonce, challenge digest and key id. *)
OnlyGoodTokens ==
  \A o \in out :
    LET st == reqs[o.rid] IN
      /\ ValidAuth(st.t, st.k, o.tok.input, o.tok.auth)
      /\ o.tok.input = TokenInput(st.t, st.nc, o.i, st.k)

(* C02: every listed mutation, and a response under another key, is refused. *)
ListedMutationsRejected ==
  \A o \in out : o.mut = "Id"

ForeignKeyRejected ==
  \A rid \in DOMAIN reqs : \A m \in net :
    (m.to = rid /\ m.key # reqs[rid].k) => ~FinalizeResult(rid, m).ok

(* C01: an honest response to the request itself is finalized, to exactly n tokens. *)
HonestAccepted ==
  \A rid \in DOMAIN reqs : \A m \in net :
    (m.to = rid /\ m.from = rid /\ m.mut = "Id" /\ m.key = reqs[rid].k) =>
       LET res == FinalizeResult(rid, m) IN res.ok /\ Len(res.toks) = reqs[rid].n

(* C10: issuer-side verification accepts exactly the issuer's own evaluations. *)
IssuerVerify(k, t, x, a) == a = F(k, x)
VerifyExact ==
  \A o \in out : \A k \in Keys :
    IsVoprf(reqs[o.rid].t) => (IssuerVerify(k, reqs[o.rid].t, o.tok.input, o.tok.auth) <=> k = reqs[o.rid].k)

---------------------------------------------------------------------------
(* The rate-limited (type 3) issuer's Evaluate as the code's chain of checks
   on an encoded request.  A request is described by what holds of it:
     complete    parses completely: type tag, all fields, nothing missing or trailing
     sealedToMe  the HPKE ciphertext opens under this issuer's name key ...
     aadBound    ... with AAD built from the request key carried by the request
     innerOK     the decrypted inner request parses
     origin      the (unpadded) origin name it carries
     keyOK       the request key decodes to a curve point
     sigOK       the signature verifies under the request key over the whole request *)
RLAccepts(q, registered) ==
  /\ q.complete
  /\ q.sealedToMe /\ q.aadBound
  /\ q.innerOK
  /\ q.origin \in registered
  /\ q.keyOK
  /\ q.sigOK

HonestRL(origin) == [complete |-> TRUE, sealedToMe |-> TRUE, aadBound |-> TRUE, innerOK |-> TRUE,
                     origin |-> origin, keyOK |-> TRUE, sigOK |-> TRUE]

\* what a single-bit change in each field of the encoded request breaks
RLFlip(q, f) ==
  CASE f = "type"        -> [q EXCEPT !.complete = FALSE]
    [] f = "request_key" -> [q EXCEPT !.aadBound = FALSE, !.sigOK = FALSE]      \* (or the point no longer decodes)
    [] f = "name_key_id" -> [q EXCEPT !.sigOK = FALSE]                          \* covered by the signature only
    [] f = "enc_len"     -> [q EXCEPT !.complete = FALSE]
    [] f = "enc"         -> [q EXCEPT !.sealedToMe = FALSE, !.sigOK = FALSE]    \* encapsulated key or ciphertext / tag
    [] f = "sig"         -> [q EXCEPT !.sigOK = FALSE]

RLFields == {"type", "request_key", "name_key_id", "enc_len", "enc", "sig"}

\* C07: every single-bit change of an accepted request is refused
EveryFlipRejected(registered) ==
  \A o \in registered : \A f \in RLFields :
     RLAccepts(HonestRL(o), registered) /\ ~RLAccepts(RLFlip(HonestRL(o), f), registered)

(* C11: the token does not mention the blind (request randomness): two
   finalizations of the same (type, key, nonce, challenge) agree. *)
TokenIgnoresBlind ==
  \A o1, o2 \in out : o1.tok.input = o2.tok.input => o1.tok.auth = o2.tok.auth
=============================================================================
