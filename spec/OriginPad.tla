----------------------------- MODULE OriginPad -----------------------------
(***************************************************************************)
(* Origin names in rate-limited (type 3) token requests: zero padding to   *)
(* whole 32-byte blocks, recovery by stripping trailing zero bytes, the    *)
(* size of the request on the wire as a function of the block count, and   *)
(* the issuer's served-iff-registered decision.                            *)
(***************************************************************************)
EXTENDS Bytes

Block == 32

\* number of 32-byte blocks needed to hold a name of n bytes; one for the empty name
Blocks(n) == IF n = 0 THEN 1 ELSE (n + Block - 1) \div Block

PaddedLen(n) == Block * Blocks(n)

Pad(name) == name \o Zeros(PaddedLen(Len(name)) - Len(name))

Unpad(p) == SubSeq(p, 1, LastNonZero(p, Len(p)))

\* type 3 TokenRequest on the wire: type(2) request_key(49) name_key_id(32)
\* len(2) [ enc(32) AEAD( key_id(1) blinded(256) len(2) padded ) tag(16) ] sig(96)
WireSize(n) == 2 + 49 + 32 + 2 + (32 + (1 + 256 + 2 + PaddedLen(n)) + 16) + 96

EndsInZero(name) == Len(name) > 0 /\ name[Len(name)] = 0

---------------------------------------------------------------------------
(* The issuer's origin table as a state machine. *)
VARIABLE registered       \* set of registered origin names (byte strings)

OInit == registered = {}
Register(o) == registered' = registered \cup {o}

\* The decision for a request carrying origin name `name` (given everything
\* else about the request is authentic): the issuer recovers Unpad(Pad(name))
\* and serves iff that is a registered origin.
Recovered(name) == Unpad(Pad(name))
Served(name) == Recovered(name) \in registered
=============================================================================
