--------------------------- MODULE VerdictsProofs ---------------------------
(***************************************************************************)
(* TLAPS: in the intended design (Deviation = "none": the memo is keyed by *)
(* the whole value and filled only after a successful check) the verdict   *)
(* on every presentation is the verdict the value deserves - for ANY kind, *)
(* any class table, and histories of ANY length.  TLC checks the same for  *)
(* histories up to Depth and shows the violation for the three deviations. *)
(***************************************************************************)
EXTENDS Verdicts, TLAPS, SequenceTheorems

Inv == /\ hist \in Seq(Names)
       /\ verdicts \in Seq(BOOLEAN)
       /\ Len(verdicts) = Len(hist)
       /\ \A m \in memo : Deserved(Kind, leniency, m)
       /\ VerdictIsFunction

THEOREM Exact == (Deviation = "none") => (Spec => []VerdictIsFunction)
<1>a. SUFFICES ASSUME Deviation = "none" PROVE Spec => []VerdictIsFunction
  OBVIOUS
<1>1. Init => Inv
  BY DEF Init, Inv, VerdictIsFunction
<1>2. Inv /\ [Next]_vars => Inv'
  <2> SUFFICES ASSUME Inv, [Next]_vars PROVE Inv'
    OBVIOUS
  <2>1. CASE UNCHANGED vars
    BY <2>1 DEF vars, Inv, VerdictIsFunction
  <2>2. ASSUME NEW x \in Names, Present(x) PROVE Inv'
    <3> DEFINE ok == Verdict(x)
    <3>1. ok <=> Deserved(Kind, leniency, x)
      BY <1>a DEF Inv, Verdict, VerdictIn, ok
    <3>2. /\ hist' = Append(hist, x) /\ verdicts' = Append(verdicts, ok) /\ leniency' = leniency
          /\ memo' = (IF ok THEN memo \cup {x} ELSE memo)
      BY <2>2, <1>a DEF Present, ok
    <3>3. ok \in BOOLEAN
      BY <1>a DEF Verdict, VerdictIn, ok
    <3>4. hist' \in Seq(Names) /\ verdicts' \in Seq(BOOLEAN) /\ Len(verdicts') = Len(hist')
      BY <3>2, <3>3, AppendProperties DEF Inv
    <3>5. \A m \in memo' : Deserved(Kind, leniency', m)
      BY <3>1, <3>2 DEF Inv
    <3>6. VerdictIsFunction'
      <4> SUFFICES ASSUME NEW i \in 1..Len(hist') PROVE verdicts'[i] <=> Deserved(Kind, leniency', hist'[i])
        BY DEF VerdictIsFunction
      <4>1. Len(hist') = Len(hist) + 1
        BY <3>2, AppendProperties DEF Inv
      <4>2. CASE i <= Len(hist)
        <5>1. hist'[i] = hist[i] /\ verdicts'[i] = verdicts[i]
          BY <4>2, <3>2, <3>3, AppendProperties DEF Inv
        <5> QED
          BY <5>1, <4>2, <3>2 DEF Inv, VerdictIsFunction
      <4>3. CASE i = Len(hist) + 1
        <5>1. hist'[i] = x /\ verdicts'[i] = ok
          BY <4>3, <3>2, <3>3, AppendProperties DEF Inv
        <5> QED
          BY <5>1, <3>1, <3>2
      <4> QED
        BY <4>1, <4>2, <4>3 DEF Inv
    <3> QED
      BY <3>4, <3>5, <3>6 DEF Inv
  <2> QED
    BY <2>1, <2>2 DEF Next
<1>3. Inv => VerdictIsFunction
  BY DEF Inv
<1> QED
  BY <1>1, <1>2, <1>3, PTL DEF Spec
=============================================================================
