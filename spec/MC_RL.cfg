SPECIFICATION Spec
CONSTANTS
  Keys = {"k1"}
  Rids = {"r1"}
  Ncs = {"n1"}
  Types = {3}
  MaxBatch = 1
INVARIANT RLFlipsRejected
INVARIANT OnlyGoodTokens
