----------------------------- MODULE Trace_Keys -----------------------------
(***************************************************************************)
(* Trace validation for property C18 (token keys and key identifiers).     *)
(*   Spki     MarshalTokenKeyPSSOID / MarshalTokenKeyRSAEncryptionOID /    *)
(*            UnmarshalTokenKey on one (modulus, exponent)                 *)
(*   KeyId    one issuer: serialized public key, TokenKeyID(), truncated   *)
(*            id carried by a request created for that issuer              *)
(*   NameKey  type 3: EncapKey fields, its encoding, the request's         *)
(*            NameKeyID                                                    *)
(* TLC builds the DER itself (DER.tla) and re-encodes the EncapKey         *)
(* (Messages.tla).  SHA-256 is not computable by TLC: the harness logs     *)
(* crypto/sha256 of the logged byte string next to it (fields sha_pub, ...), and *)
(* the specification states which logged value must equal which digest.    *)
(***************************************************************************)
EXTENDS DER, Json, TLC

Trace == ndJsonDeserialize("trace.ndjson")
VARIABLE l

\* EncapKey encoding, as in Messages.tla (repeated here to keep this module
\* free of the message-width constants)
EncEncap(v) == <<v.id>> \o U16Enc(v.kem) \o v.pk \o U16Enc(v.kdf) \o U16Enc(v.aead)

Obl(e) ==
  CASE e.op = "Spki" -> <<
         <<"quiet", e.panic = "">>,
         <<"pss-is-rfc9578-der", e.pss = SpkiPss(e.n, e.e)>>,
         <<"rsa-is-rfc3279-der", e.rsa_ok => e.rsa = SpkiRsa(e.n, e.e)>>,
         <<"unmarshal-pss-inverts", e.un_pss_ok /\ e.un_pss_n = StripLeadingZeros(e.n) /\ e.un_pss_e = StripLeadingZeros(e.e)>>,
         <<"unmarshal-rsa-inverts", e.rsa_ok => (e.un_rsa_ok /\ e.un_rsa_n = StripLeadingZeros(e.n) /\ e.un_rsa_e = StripLeadingZeros(e.e))>>,
         <<"spec-parse-agrees", LET p == ParseSpki(e.pss) IN p.ok /\ p.n = e.un_pss_n /\ p.e = e.un_pss_e>>,
         \* beyond the listed properties (reported as an observation): MarshalTokenKey(key, legacy) selects the form
         <<"beyond:marshal-token-key-selects-form", e.wrapper_ok /\ e.wrapper_pss = e.pss /\ (e.rsa_ok => e.wrapper_rsa = e.rsa)>> >>
    [] e.op = "KeyId" -> <<
         <<"key-id-is-sha256-of-serialized-key", e.key_id = e.sha_pub>>,
         <<"key-id-32-bytes", Len(e.key_id) = 32>>,
         \* (an issuer value copied the moment its constructor returned reports the same key id)
         <<"key-id-of-a-copy-is-the-key-id", e.copy_same>>,
         <<"truncated-id-is-last-byte", e.trunc = e.sha_pub[32]>>,
         <<"rsa-key-serialized-as-pss-spki", e.kind \in {"t2", "t3"} => e.pub = SpkiPss(e.n, e.e)>>,
         \* beyond the listed properties (observations): the issuer reports its token type; name key pairs compare by value
         <<"beyond:issuer-type-is-the-token-type", e.type = (CASE e.kind = "t1" -> 1 [] e.kind = "t2" -> 2 [] e.kind = "t3" -> 3 [] e.kind = "t5" -> 5)>>,
         <<"beyond:name-key-pairs-compare-by-value", e.encap_eq>> >>
    [] e.op = "NameKey" -> <<
         \* (a key followed by further bytes in its buffer may be refused; if it is accepted it is the key its own bytes encode)
         <<"well-formed-name-key-decodes", e.decoded \/ e.tail_len > 0>>,
         <<"encap-key-encoding", e.decoded => e.marshal = EncEncap(e.fields)>>,
         <<"decoded-name-key-re-encodes-to-what-was-received", e.decoded => e.marshal = e.orig>>,
         <<"name-key-id-is-sha256-of-encoding", e.decoded => e.name_key_id = e.sha_marshal>> >>
    [] OTHER -> << <<"unknown-event", FALSE>> >>

Failed(e) == LET o == Obl(e) IN {o[i][1] : i \in {j \in 1..Len(o) : ~o[j][2]}}

Init == l = 1
Next ==
  /\ l <= Len(Trace)
  /\ LET f == Failed(Trace[l])
     IN IF f = {} THEN TRUE ELSE PrintT("REJECT " \o ToString(l) \o " " \o Trace[l].op \o " " \o ToString(f))
  /\ IF l = Len(Trace) THEN PrintT("DONE " \o ToString(l)) ELSE TRUE
  /\ l' = l + 1
Spec == Init /\ [][Next]_l
=============================================================================
