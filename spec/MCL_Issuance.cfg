SPECIFICATION HonestFair
CONSTANTS
  Keys = {"k1", "k2"}
  Rids = {"r1", "r2"}
  Ncs = {"n1"}
  Types = {1, 2, 3, 5}
  MaxBatch = 2
INVARIANT OnlyGoodTokens
INVARIANT HonestAccepted
PROPERTY HonestCompletes
