------------------------------ MODULE Attester ------------------------------
(***************************************************************************)
(* The rate-limited attester (tokens/type3/attester.go), implementation-   *)
(* shaped: a cache of per-client states, each with the two maps of the     *)
(* code, written in the code's order.  One action per public call.         *)
(*                                                                         *)
(* Deliberate deviation of the code from the ideal, named here:            *)
(*   FinalizeIndex records originIndices[anon] BEFORE the conflict check   *)
(*   (so a rejected call may still add to originIndices).  That map is     *)
(*   never consulted; the properties only speak about clientIndices.       *)
(***************************************************************************)
EXTENDS Algebra, Sequences, TLC

CONSTANTS Clients,       \* = BaseKeys: client key pairs
          Origins,       \* origin names
          IndexKeyOf,    \* [Origins -> BlindKeys]: the issuer's index key per origin (may be shared)
          Anons,         \* anonymous origin IDs chosen by clients
          ClientBlindCtx, IssuerBlindCtx     \* \in Contexts

CONSTANT ClientBlinds     \* \subseteq BlindKeys: per-request client blinds

VARIABLES cache,         \* function: registered clients -> [oi: anon -> idx, ci: idx -> anon]  (partial maps as sets of pairs)
          accepted,      \* ghost: set of <<c, idx, anon>> pairs FinalizeIndex accepted
          verified       \* ghost: clients for which a request was verified

vars == <<cache, accepted, verified>>

Registered == DOMAIN cache

\* The anonymous issuer origin ID the attester derives for client c from a
\* request made with blind b for origin o: it unblinds the issuer-blinded
\* request key with the same blind and feeds HKDF (salt = client key).
ReqKey(c, b) == Blind(Pk(c), Hb(b, ClientBlindCtx))
IssuerBlinded(c, b, o) == Blind(ReqKey(c, b), Hb(IndexKeyOf[o], IssuerBlindCtx))
IdxOf(c, o, b) == Hkdf(Pk(c), Unblind(IssuerBlinded(c, b, o), Hb(b, ClientBlindCtx)), "IssuerOriginAlias")

\* what the property calls the ID: a function of client key and index key only
IdxSpec(c, o) == Hkdf(Pk(c), Blind(Pk(c), Hb(IndexKeyOf[o], IssuerBlindCtx)), "IssuerOriginAlias")

Lookup(m, k) == IF \E p \in m : p[1] = k THEN (CHOOSE p \in m : p[1] = k)[2] ELSE "none"
Has(m, k) == \E p \in m : p[1] = k

EmptyState == [oi |-> {}, ci |-> {}]

Init == /\ cache = <<>>
        /\ accepted = {}
        /\ verified = {}

(* A request is described by what is true of it:
     sigOK     the signature verifies under the request key over the exact contents
     keyOK     request key = Blind(client key, Hb(blind, ClientBlind))
     ckeyOK    the client key argument is a well-formed key                          *)
ReqClasses == [sigOK : BOOLEAN, keyOK : BOOLEAN, ckeyOK : BOOLEAN]

VerifyOK(q) == q.sigOK /\ q.keyOK /\ q.ckeyOK

VerifyRequest(c, q) ==
  /\ cache' = IF VerifyOK(q) /\ c \notin Registered
                THEN [x \in Registered \cup {c} |-> IF x = c THEN EmptyState ELSE cache[x]]
                ELSE cache
  /\ verified' = IF VerifyOK(q) THEN verified \cup {c} ELSE verified
  /\ UNCHANGED accepted

\* outcome of FinalizeIndex in the current state: "ok", "unknown client" or "conflict"
FinalizeOutcome(c, o, a, b) ==
  IF c \notin Registered THEN "unknown client"
  ELSE LET idx == IdxOf(c, o, b)
           st  == cache[c]
       IN IF Has(st.ci, idx) /\ Lookup(st.ci, idx) # a THEN "conflict" ELSE "ok"

FinalizeIndex(c, o, a, b) ==
  LET idx == IdxOf(c, o, b)
      res == FinalizeOutcome(c, o, a, b)
  IN IF res = "unknown client" THEN UNCHANGED vars
     ELSE LET st  == cache[c]
              oi2 == IF Has(st.oi, a) THEN st.oi ELSE st.oi \cup {<<a, idx>>}      \* written before the check
          IN IF res = "conflict"
               THEN /\ cache' = [cache EXCEPT ![c] = [oi |-> oi2, ci |-> st.ci]]
                    /\ UNCHANGED <<accepted, verified>>
               ELSE /\ cache' = [cache EXCEPT ![c] = [oi |-> oi2, ci |-> {p \in st.ci : p[1] # idx} \cup {<<idx, a>>}]]
                    /\ accepted' = accepted \cup {<<c, idx, a>>}
                    /\ UNCHANGED verified

Next == \/ \E c \in Clients, q \in ReqClasses : VerifyRequest(c, q)
        \/ \E c \in Clients, o \in Origins, a \in Anons, b \in ClientBlinds : FinalizeIndex(c, o, a, b)

Spec == Init /\ [][Next]_vars

---------------------------------------------------------------------------
(* C08: the ID depends only on the client key and the origin's index key. *)
IndexStable == \A c \in Clients, o \in Origins, b \in ClientBlinds : IdxOf(c, o, b) = IdxSpec(c, o)
IndexInjective ==
  \A x1, x2 \in Clients, p1, p2 \in Origins :
    IdxSpec(x1, p1) = IdxSpec(x2, p2) <=> (x1 = x2 /\ IndexKeyOf[p1] = IndexKeyOf[p2])

(* C06 *)
RegisteredOnlyVerified == Registered = verified
AcceptOnlyAuthentic ==
  [][\A c \in Clients, q \in ReqClasses :
       VerifyRequest(c, q) => (c \in verified' \ verified => VerifyOK(q))]_vars
RejectLeavesCache ==
  [][\A c \in Clients, q \in ReqClasses :
       (VerifyRequest(c, q) /\ ~VerifyOK(q)) => cache' = cache]_vars
PutOnlyOnFirstAccept ==
  [][\A c \in Clients, q \in ReqClasses :
       VerifyRequest(c, q) => (cache' # cache <=> (VerifyOK(q) /\ c \notin Registered))]_vars

(* C09 *)
\* never two different anonymous origin IDs accepted for one issuer origin ID of one client
FunctionalBinding ==
  \A p, q \in accepted : (p[1] = q[1] /\ p[2] = q[2]) => p[3] = q[3]
\* the implementation state agrees with the accepted log
StateIsLog ==
  \A c \in Registered : cache[c].ci = {<<p[2], p[3]>> : p \in {q \in accepted : q[1] = c}}
\* a call by a registered client is refused only if an accepted pair binds idx to ANOTHER anon
NoSpuriousReject ==
  \A c \in Clients, o \in Origins, a \in Anons, b \in ClientBlinds :
    FinalizeOutcome(c, o, a, b) = "conflict" =>
       \E p \in accepted : p[1] = c /\ p[2] = IdxSpec(c, o) /\ p[3] # a
UnverifiedRefused ==
  \A c \in Clients, o \in Origins, a \in Anons, b \in ClientBlinds :
    c \notin verified => FinalizeOutcome(c, o, a, b) = "unknown client"
RejectKeepsBindings ==
  [][\A c \in Clients, o \in Origins, a \in Anons, b \in ClientBlinds :
       (FinalizeIndex(c, o, a, b) /\ FinalizeOutcome(c, o, a, b) # "ok") =>
          \A x \in Registered : cache'[x].ci = cache[x].ci]_vars
\* a repeat of an accepted pair, and a pair whose issuer origin ID is unbound, are accepted
RepeatAndFreshAccepted ==
  \A c \in Registered, o \in Origins, a \in Anons, b \in ClientBlinds :
    (<<c, IdxSpec(c, o), a>> \in accepted \/ ~\E p \in accepted : p[1] = c /\ p[2] = IdxSpec(c, o))
      => FinalizeOutcome(c, o, a, b) = "ok"
=============================================================================
