INIT GenInit
NEXT Next
CONSTANTS
  Kind = "t1verify"
  Depth = 3
  Deviation = "none"
INVARIANT VerdictIsFunction
INVARIANT Emit
CHECK_DEADLOCK FALSE
