----------------------------- MODULE BatchProofs -----------------------------
(***************************************************************************)
(* Machine-checked (TLAPS) proofs about Batch.tla for batches of ANY       *)
(* length (TLC checks MaxLen <= 3/4): the response list has one entry per  *)
(* request in request order, every slot is a function of the configuration *)
(* and its own request alone (a failing request cannot disturb another     *)
(* slot), and what the client decodes is what the issuer filled in.        *)
(***************************************************************************)
EXTENDS Batch, TLAPS

ASSUME MaxLenNat == MaxLen \in Nat

Inv ==
  /\ phase \in {"created", "evaluated", "decoded", "done"}
  /\ \E n \in 1..MaxLen : reqs \in [1..n -> Kinds]
  /\ phase \in {"evaluated", "decoded", "done"} => slots = [j \in 1..Len(reqs) |-> FillSlot(cfg, reqs[j], j)] /\ wire = slots
  /\ phase \in {"decoded", "done"} => decoded = wire
  /\ phase = "done" => finalized = [j \in 1..Len(decoded) |-> FinalizeSlot(j)]

LEMMA LenReqs == ASSUME NEW n \in Nat, NEW f \in [1..n -> Kinds] PROVE Len(f) = n /\ DOMAIN f = 1..n
  OBVIOUS

THEOREM Safety == Init /\ [][Next]_vars => []Inv
<1>1. Init => Inv
  BY DEF Init, Inv
<1>2. Inv /\ [Next]_vars => Inv'
  <2> SUFFICES ASSUME Inv, [Next]_vars PROVE Inv'
    OBVIOUS
  <2>1. CASE UNCHANGED vars
    BY <2>1 DEF vars, Inv, FinalizeSlot
  <2>2. CASE EvaluateBatch
    BY <2>2 DEF EvaluateBatch, Inv
  <2>3. CASE DecodeList
    BY <2>3 DEF DecodeList, Inv
  <2>4. CASE FinalizeAll
    BY <2>4 DEF FinalizeAll, Inv, FinalizeSlot
  <2> QED
    BY <2>1, <2>2, <2>3, <2>4 DEF Next
<1> QED
  BY <1>1, <1>2, PTL

THEOREM Consequences == Inv => CountAndOrder /\ Isolation
<1> SUFFICES ASSUME Inv PROVE CountAndOrder /\ Isolation
  OBVIOUS
<1>0. PICK n \in 1..MaxLen : reqs \in [1..n -> Kinds]
  BY DEF Inv
<1>1. Len(reqs) = n /\ n \in Nat
  BY <1>0, MaxLenNat, LenReqs
<1>2. Isolation
  BY <1>1 DEF Inv, Isolation
<1>3. CountAndOrder
  <2> SUFFICES ASSUME phase \in {"decoded", "done"} PROVE Len(decoded) = Len(reqs)
    BY DEF CountAndOrder
  <2>1. decoded = [j \in 1..Len(reqs) |-> FillSlot(cfg, reqs[j], j)]
    BY DEF Inv
  <2> QED
    BY <2>1, <1>1
<1> QED
  BY <1>2, <1>3

(* present exactly when some configured issuer of that type and truncated id evaluates the request - whatever the  *)
(* configuration and the kind are (the CHOOSE of the first such issuer never decides presence)                      *)
THEOREM PresentIffServable == \A c, k, j : (FillSlot(c, k, j) # Absent) <=> Servable(c, k)
<1> SUFFICES ASSUME NEW c, NEW k, NEW j PROVE (FillSlot(c, k, j) # Absent) <=> Servable(c, k)
  OBVIOUS
<1> DEFINE r == KindInfo(k)
           is == ConfigOf(c)
           ok == {i \in 1..Len(is) : is[i].type = r.type /\ is[i].id = r.id /\ EvalSucceeds(is[i], r)}
<1>1. Servable(c, k) <=> ok # {}
  BY DEF Servable
<1>2. ok = {} => FillSlot(c, k, j) = Absent
  BY DEF FillSlot
<1>3. ok # {} => FillSlot(c, k, j) # Absent
  <2> SUFFICES ASSUME ok # {} PROVE FillSlot(c, k, j) # Absent
    OBVIOUS
  <2> DEFINE i == CHOOSE x \in ok : \A y \in ok : x <= y
  <2>1. FillSlot(c, k, j) = Present(r.type, is[i].key, j)
    BY DEF FillSlot
  <2> QED
    BY <2>1 DEF Present, Absent
<1> QED
  BY <1>1, <1>2, <1>3

THEOREM PresentIffThm == Inv => PresentIff
<1> SUFFICES ASSUME Inv, phase \in {"decoded", "done"}, NEW j \in 1..Len(reqs)
             PROVE (decoded[j] # Absent) <=> Servable(cfg, reqs[j])
  BY DEF PresentIff
<1>1. decoded[j] = FillSlot(cfg, reqs[j], j)
  BY DEF Inv
<1> QED
  BY <1>1, PresentIffServable
=============================================================================
