SPECIFICATION Spec
CONSTANTS
  Kind = "t1state"
  Depth = 2
  Deviation = "token-in-state-buffer"
INVARIANT FrameCondition
CHECK_DEADLOCK FALSE
