--------------------------- MODULE Trace_SigForks ---------------------------
(***************************************************************************)
(* Trace validation for properties C13 (ECDSA fork) and C14 (Ed25519 fork) *)
(*   VerifyRS     raw (r, s) incl. zero, negative, >= N values             *)
(*   VerifyASN1   byte strings offered as DER signatures                   *)
(*   Cross        signatures produced by one implementation verified by    *)
(*                the other (raw, ASN.1, key-blinded)                      *)
(*   Entropy      GenerateKey / Sign / SignASN1 / BlindKeySign on a        *)
(*                scripted failing reader (Entropy.tla)                    *)
(*   EdKey/EdSign key derivation and signing vs crypto/ed25519, byte-wise  *)
(*   EdVerify     public key / signature byte strings vs crypto/ed25519    *)
(*   EdEntropy    GenerateKey of both implementations on the same script   *)
(***************************************************************************)
EXTENDS SigForks, Json, TLC

Trace == ndJsonDeserialize("trace.ndjson")
CONSTANT Enforce
VARIABLE l

\* Entropy.tla's Allowed, restated over the logged script (Entropy.tla has state variables of its own)
AllowedOut(a, n, coins) == {IF a = -1 \/ a >= n + c THEN "ok" ELSE "error" : c \in coins}

Obl(e) ==
  CASE e.op = "VerifyRS" -> <<
         <<"quiet", e.panic = "">>,
         <<"fork-equals-std", e.fork = e.std>>,
         <<"out-of-range-rejected", ~EcdsaRangeOK(e) => (~e.fork /\ ~e.std)>>,
         <<"valid-accepted", e.valid => (e.fork /\ e.std)>>,
         <<"arguments-unchanged", e.args_same>>,
         <<"same-verdict-when-repeated", e.fork2 = e.fork>> >>
    [] e.op = "VerifyASN1" -> <<
         <<"quiet", e.panic = "">>,
         <<"fork-equals-std", e.fork = e.std>>,
         <<"malformed-der-rejected", ~EcdsaDerOK(e.sig, e.curve) => (~e.fork /\ ~e.std)>>,
         <<"valid-accepted", e.valid => (e.fork /\ e.std)>> >>
    [] e.op = "Cross" -> <<
         <<"quiet", e.panic = "">>,
         <<"cross-verifies", e.ok>> >>
    [] e.op = "Entropy" -> <<
         <<"quiet", e.panic = "">>,
         \* Named tolerance: a failure that happens ONCE and hits the very first read is invisible when that read is the
         \* unlogged one-byte coin read (MaybeReadByte ignores what it reads, errors included - in crypto/ecdsa as well)
         <<"outcome-allowed", e.outcome \in AllowedOut(e.avail, e.need, IF e.coin THEN {0, 1} ELSE {0})
                              \/ (e.transient /\ e.coin /\ (e.avail = 0 \/ (e.avail = 1 /\ e.err_with_data)))>>,
         <<"error-means-no-output", e.outcome = "error" => e.nil_out>>,
         <<"ok-means-valid-output", e.outcome = "ok" => e.valid_out>> >>
    [] e.op = "EdKey" -> << <<"quiet", e.panic = "">>, <<"key-equals-std", e.same>> >>
    [] e.op = "EdSign" -> << <<"quiet", e.panic = "">>, <<"signature-equals-std", e.same>>, <<"verifies", e.verifies>> >>
    [] e.op = "EdVerify" -> <<
         <<"quiet", e.panic = "">>,
         <<"fork-equals-std", e.fork = e.std>>,
         <<"structurally-bad-rejected", ~EdStructOK(e.sig) => (~e.fork /\ ~e.std)>>,
         <<"valid-accepted", e.valid => (e.fork /\ e.std)>> >>
    [] e.op = "EdEntropy" -> <<
         <<"quiet", e.panic = "">>,
         <<"outcome-allowed", e.outcome \in AllowedOut(e.avail, 32, {0})>>,
         <<"same-as-std", e.same_outcome /\ e.same_consumed /\ e.same_keys /\ e.same_error>>,
         \* (the two values GenerateKey returns are independent, as the standard library's are)
         <<"same-as-std", e.independent>>,
         <<"error-means-no-output", e.outcome = "error" => e.nil_out>> >>
    \* the key types' Equal / Public methods - beyond the listed properties (reported as observations, never a verdict)
    [] e.op = "KeyApi" -> <<
         <<"beyond:quiet", e.panic = "">>,
         <<"beyond:public-key-equal-as-std", e.fork_pub_eq = e.std_pub_eq /\ e.std_pub_eq = (e.pair = "same")>>,
         <<"beyond:private-key-equal-as-std", e.fork_priv_eq = e.std_priv_eq /\ e.std_priv_eq = (e.pair = "same")>>,
         <<"beyond:public-returns-the-public-part", e.public_ok>>,
         <<"beyond:key-of-another-type-is-not-equal", ~e.foreign_eq>> >>
    [] OTHER -> << <<"unknown-event", FALSE>> >>

Failed(e) == LET o == Obl(e) IN {o[i][1] : i \in {j \in 1..Len(o) : o[j][1] \in Enforce /\ ~o[j][2]}}

TInit == l = 1
TNext ==
  /\ l <= Len(Trace)
  /\ LET f == Failed(Trace[l])
     IN IF f = {} THEN TRUE ELSE PrintT("REJECT " \o ToString(l) \o " " \o Trace[l].op \o " " \o ToString(f))
  /\ IF l = Len(Trace) THEN PrintT("DONE " \o ToString(l)) ELSE TRUE
  /\ l' = l + 1
TSpec == TInit /\ [][TNext]_l
=============================================================================
