---------------------------- MODULE Trace_Codec ----------------------------
(***************************************************************************)
(* Trace validation for property C04 (wire codecs).  Events recorded from  *)
(* the real library:                                                       *)
(*   Dec        one decoder call: input b, verdict, decoded value,         *)
(*              Marshal() of the object afterwards                         *)
(*   Enc        one encoder call on a given value                          *)
(*   RNew / RUnmarshal / RMarshal   a history of calls on ONE request      *)
(*              object (object reuse); `cur` tracks the value the object   *)
(*              must hold according to ObjectReuse semantics               *)
(* TLC decodes/encodes with the grammar of Messages.tla at the real widths *)
(* and requires the obligations of the property.                           *)
(***************************************************************************)
EXTENDS Messages, Json, TLC

Trace == ndJsonDeserialize("trace.ndjson")

CONSTANTS Robust,         \* TRUE: also require the no-panic / termination / allocation clauses of C03
          AllocBaseKiB,   \* allocation allowed per call regardless of input size
          AllocPerByte    \* plus this many KiB per input byte

VARIABLES l,      \* cursor
          cur     \* [known |-> BOOLEAN, val |-> value held by the reused object]

vars == <<l, cur>>

Unknown == [known |-> FALSE, val |-> <<>>]

Quiet(e) == e.panic = "" /\ ~e.timeout

\* the zero value of each request object
Zero(m) ==
  CASE m \in {"t1req", "t2req"} -> [key_id |-> 0, blinded |-> <<>>]
    [] m = "t3req" -> [request_key |-> <<>>, name_key_id |-> <<>>, enc_req |-> <<>>, sig |-> <<>>]
    [] m = "t5req" -> [key_id |-> 0, elems |-> <<>>]
    [] m = "inner" -> [key_id |-> 0, blinded |-> <<>>, padded |-> <<>>]
    [] m = "batchreq" -> <<>>

\* EncapKey: acceptance also depends on the validity of the public key bytes
\* and on the suite being implemented, which the grammar does not decide; the
\* must-accept obligation is therefore restricted to honestly generated keys.
MustAcceptApplies(e) == e.m # "encap" \/ e.honest

\* A call that panicked or did not return has not accepted anything (whether
\* it may panic at all is property C03, checked with Robust = TRUE).
Accepted(e) == e.ok /\ Quiet(e)

\* Each obligation is a pair <<name, holds>>; the names of the failed ones are
\* reported with a rejected event.
\* With Robust = TRUE (property C03) only the totality / resource clauses and
\* "malformed input is reported" are required of a decoder call; the value
\* obligations below are property C04 (Robust = FALSE).
DecRobustObl(e) == <<
  <<"quiet", Quiet(e)>>,
  <<"alloc", e.alloc_kib <= AllocBaseKiB + AllocPerByte * Len(e.b)>>,
  <<"must-reject", MustReject(e.m, e.b) => ~Accepted(e)>> >>

DecObl(e) == IF Robust THEN DecRobustObl(e) ELSE <<
  <<"must-accept-canonical", (Canonical(e.m, e.b) /\ MustAcceptApplies(e)) => (Accepted(e) /\ e.val = Dec(e.m, e.b).val)>>,
  <<"must-accept-honest", e.honest => Accepted(e)>>,
  <<"must-reject", MustReject(e.m, e.b) => ~Accepted(e)>>,
  <<"accepted-canonical-no-longer-and-redecodes", Accepted(e) => AcceptedOK(e.m, e.b, e.val)>>,
  <<"marshal-after-is-encoding", (Accepted(e) /\ e.has_marshal) => e.marshal_after = Enc(e.m, e.val)>>,
  <<"origin-list-is-split", (Accepted(e) /\ e.m = "challenge") => e.origins = SplitComma(e.val.origin)>> >>


\* A consumer of peer-supplied bytes (C03): a total function into its result
\* classes, within the resource bound; the honest input is served.
ResultClasses(fn) ==
  IF fn \in {"ecdsa.VerifyASN1", "ecdsa.Verify", "ed25519.Verify", "ed25519.Verify/key"}
    THEN {"true", "false"} ELSE {"ok", "error"}

\* For large inputs (their bytes are not in the trace) the bound is proportional with a small factor: 16 bytes
\* allocated per input byte on top of the base allowance.
CallObl(e) == <<
  <<"quiet", Quiet(e)>>,
  <<"alloc", IF e.big THEN e.alloc_kib <= AllocBaseKiB + (16 * e.in_len) \div 1024
                      ELSE e.alloc_kib <= AllocBaseKiB + AllocPerByte * Len(e.in)>>,
  <<"result-class", Quiet(e) => e.res \in ResultClasses(e.fn)>>,
  <<"honest-served", e.honest => e.res = "ok">> >>

\* Accessors next to the codecs - beyond the listed properties (the checks report a rejection of these as an
\* observation, not as a violation): Equal / Equals holds exactly when both encodings decode to the same value,
\* Type() is the tag on the wire, TruncatedTokenKeyID() the key id byte.
KeyIdByte(m, v) == IF m \in {"t1req", "t2req", "t5req"} THEN v.key_id ELSE -1
ApiObl(e) ==
  LET da == Dec(e.m, e.a)
      db == Dec(e.m, e.b)
  IN <<
  <<"beyond:quiet", e.panic = "">>,
  <<"beyond:equal-iff-same-value", (e.ok /\ da.ok /\ db.ok) => (e.equal <=> da.val = db.val)>>,
  <<"beyond:type-is-wire-tag", (e.ok /\ Len(e.a) >= 2) => e.type = e.a[1] * 256 + e.a[2]>>,
  <<"beyond:truncated-id-is-key-id-byte", (e.ok /\ da.ok /\ KeyIdByte(e.m, da.val) >= 0) => e.trunc = KeyIdByte(e.m, da.val)>> >>

Obl(e) ==
  CASE e.op = "Dec" -> DecObl(e)
    [] e.op = "Enc" -> << <<"quiet", Quiet(e)>>, <<"marshal-is-encoding", e.out = Enc(e.m, e.val)>> >>
    [] e.op = "Call" -> CallObl(e)
    [] e.op = "TagSweep" -> << <<"quiet", e.panic = "">>, <<"other-tags-rejected", e.accepted = 0 /\ e.tried > 65000>> >>
    [] e.op = "RNew" -> <<>>
    [] e.op = "RUnmarshal" -> <<
         <<"quiet", Robust => Quiet(e)>>,
         <<"must-accept-canonical", Canonical(e.m, e.b) => (Accepted(e) /\ e.val = Dec(e.m, e.b).val)>>,
         <<"must-reject", MustReject(e.m, e.b) => ~Accepted(e)>>,
         <<"accepted-canonical-no-longer-and-redecodes", Accepted(e) => AcceptedOK(e.m, e.b, e.val)>> >>
    [] e.op = "RConsume" -> << <<"quiet", Quiet(e)>> >>      \* the object's encoding handed to a consumer: changes nothing
    [] e.op = "RMarshal" -> <<
         <<"quiet", Quiet(e)>>,
         <<"marshal-is-current-value", cur.known => e.out = Enc(e.m, cur.val)>> >>
    [] e.op = "Api" -> ApiObl(e)
    [] OTHER -> << <<"unknown-event", FALSE>> >>

Failed(e) == LET o == Obl(e) IN {o[i][1] : i \in {j \in 1..Len(o) : ~o[j][2]}}

\* ObjectReuse semantics: Marshal returns the encoding of the value the object
\* currently holds; an accepting Unmarshal replaces that value whatever the
\* object held (or had cached) before; after a rejected Unmarshal the content is
\* unspecified.
NextCur(e) ==
  CASE e.op = "RNew" -> [known |-> TRUE, val |-> Zero(e.m)]
    [] e.op = "RUnmarshal" -> IF Accepted(e) THEN [known |-> TRUE, val |-> e.val] ELSE Unknown
    [] OTHER -> cur

Init == l = 1 /\ cur = Unknown

Next ==
  /\ l <= Len(Trace)
  /\ LET f == Failed(Trace[l])
     IN IF f = {} THEN TRUE
        ELSE PrintT("REJECT " \o ToString(l) \o " " \o Trace[l].op \o "/"
                    \o (IF Trace[l].op = "Call" THEN Trace[l].fn ELSE Trace[l].m) \o " " \o ToString(f))
  /\ IF l = Len(Trace) THEN PrintT("DONE " \o ToString(l)) ELSE TRUE
  /\ l' = l + 1
  /\ cur' = NextCur(Trace[l])

Spec == Init /\ [][Next]_vars
=============================================================================
