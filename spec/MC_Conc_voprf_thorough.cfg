SPECIFICATION Spec
CONSTANTS
  Procs = {"g1", "g2", "g3"}
  Ops = {"Evaluate", "Verify", "TokenKeyID", "TokenKey"}
  OpsPerProc = 2
  Design = "eager"
INVARIANT NoRace
INVARIANT Linearizable
PROPERTY AllFinish
CHECK_DEADLOCK FALSE
