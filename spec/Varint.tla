------------------------------- MODULE Varint -------------------------------
(***************************************************************************)
(* RFC 9000 section 16 variable-length integers and the length-prefixed    *)
(* byte strings of pat-go/quicwire, as total functions on byte strings.    *)
(*                                                                         *)
(* A varint VALUE is always an 8-byte big-endian string ("v8"): TLC has no *)
(* 62-bit integers.                                                        *)
(***************************************************************************)
EXTENDS Bytes

Fail == [ok |-> FALSE]

IsV8(v) == IsBytes(v) /\ Len(v) = 8

\* Encoded size class of a value; 0 when the value exceeds 2^62-1.
VarintSize(v8) ==
  IF AllZero(SubSeq(v8, 1, 7)) /\ v8[8] <= 63 THEN 1
  ELSE IF AllZero(SubSeq(v8, 1, 6)) /\ v8[7] <= 63 THEN 2
  ELSE IF AllZero(SubSeq(v8, 1, 4)) /\ v8[5] <= 63 THEN 4
  ELSE IF v8[1] <= 63 THEN 8
  ELSE 0

Tag(n) == IF n = 1 THEN 0 ELSE IF n = 2 THEN 64 ELSE IF n = 4 THEN 128 ELSE 192

\* Shortest-form encoding (defined only when VarintSize(v8) # 0).
VarintEnc(v8) ==
  LET n    == VarintSize(v8)
      tail == SubSeq(v8, 9 - n, 8)
  IN [tail EXCEPT ![1] = tail[1] + Tag(n)]

\* Encoding in a chosen (possibly non-minimal) width n \in {1,2,4,8}; used
\* only to build adversarial inputs.
VarintEncWidth(v8, n) ==
  LET tail == SubSeq(v8, 9 - n, 8)
  IN [tail EXCEPT ![1] = (tail[1] % 64) + Tag(n)]

Announced(b0) == IF b0 < 64 THEN 1 ELSE IF b0 < 128 THEN 2 ELSE IF b0 < 192 THEN 4 ELSE 8

\* Decoder: fails exactly when fewer bytes are available than the first
\* byte's top two bits announce; otherwise value and consumed length.
VarintDec(b) ==
  IF Len(b) < 1 THEN Fail
  ELSE LET n == Announced(b[1])
       IN IF Len(b) < n THEN Fail
          ELSE [ok  |-> TRUE,
                n   |-> n,
                val |-> Zeros(8 - n) \o <<b[1] % 64>> \o SubSeq(b, 2, n)]

\* int64(len) as v8, for lengths of existing strings.
LenV8(n) == BEEnc(n, 8)

VarintBytesEnc(s) == VarintEnc(LenV8(Len(s))) \o s

\* Length-prefixed string: declared size compared with what remains, as an
\* unsigned 64-bit comparison (SmallInt = -1 means >= 2^31 > any real input).
VarintBytesDec(b) ==
  LET d == VarintDec(b)
  IN IF ~d.ok THEN Fail
     ELSE LET size == SmallInt(d.val)
              rem  == Len(b) - d.n
          IN IF size < 0 \/ size > rem THEN Fail
             ELSE [ok |-> TRUE, n |-> d.n + size, out |-> Slice(b, d.n + 1, size)]

Uint8BytesEnc(s) == <<Len(s)>> \o s

Uint8BytesDec(b) ==
  IF Len(b) < 1 THEN Fail
  ELSE IF b[1] > Len(b) - 1 THEN Fail
  ELSE [ok |-> TRUE, n |-> 1 + b[1], out |-> Slice(b, 2, b[1])]

Uint32Dec(b) == IF Len(b) < 4 THEN Fail ELSE [ok |-> TRUE, n |-> 4, val |-> Take(b, 4)]
Uint64Dec(b) == IF Len(b) < 8 THEN Fail ELSE [ok |-> TRUE, n |-> 8, val |-> Take(b, 8)]

(***************************************************************************)
(* The laws of property C19, as predicates on a value / an input string.   *)
(***************************************************************************)

\* Class thresholds written independently of VarintSize, as numeric
\* comparisons against the RFC's constants 63, 16383, 2^30-1, 2^62-1.
T63    == <<0,0,0,0,0,0,0,63>>
T16383 == <<0,0,0,0,0,0,63,255>>
T2p30  == <<0,0,0,0,63,255,255,255>>
T2p62  == <<63,255,255,255,255,255,255,255>>

ShortestSize(v8) ==
  IF CmpBE(v8, T63) <= 0 THEN 1
  ELSE IF CmpBE(v8, T16383) <= 0 THEN 2
  ELSE IF CmpBE(v8, T2p30) <= 0 THEN 4
  ELSE IF CmpBE(v8, T2p62) <= 0 THEN 8
  ELSE 0

EncShortest(v8)  == VarintSize(v8) = ShortestSize(v8)
SizeMatches(v8)  == VarintSize(v8) # 0 => Len(VarintEnc(v8)) = VarintSize(v8)
DecInverts(v8)   == VarintSize(v8) # 0 =>
                      LET d == VarintDec(VarintEnc(v8))
                      IN d.ok /\ d.val = v8 /\ d.n = VarintSize(v8)
\* Decoding after arbitrary trailing bytes gives the same result: the
\* decoder depends on the announced bytes only.
DecReadsAnnouncedOnly(b, ext) ==
  LET d == VarintDec(b) IN d.ok => VarintDec(b \o ext) = d
DecFailsIffShort(b) ==
  VarintDec(b).ok <=> (Len(b) >= 1 /\ Len(b) >= Announced(b[1]))
\* Every accepted input re-encodes to something no longer, and of the same value.
DecCanonical(b) ==
  LET d == VarintDec(b)
  IN d.ok => /\ VarintSize(d.val) # 0
             /\ VarintSize(d.val) <= d.n
             /\ VarintDec(VarintEnc(d.val)).val = d.val
BytesRoundTrip(s) ==
  LET d == VarintBytesDec(VarintBytesEnc(s))
  IN d.ok /\ d.out = s /\ d.n = Len(VarintBytesEnc(s))
Uint8RoundTrip(s) ==
  Len(s) <= 255 => LET d == Uint8BytesDec(Uint8BytesEnc(s))
                   IN d.ok /\ d.out = s /\ d.n = Len(s) + 1
\* A declared length larger than what remains is an error; an accepted
\* result lies inside the input.
DeclaredTooLongIsError(b) ==
  LET d == VarintBytesDec(b)
      h == VarintDec(b)
  IN /\ d.ok => d.n <= Len(b) /\ Len(d.out) = d.n - h.n
     /\ (h.ok /\ CmpNum(h.val, LenV8(Len(b) - h.n)) > 0) => ~d.ok
=============================================================================
