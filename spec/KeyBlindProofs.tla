--------------------------- MODULE KeyBlindProofs ---------------------------
(***************************************************************************)
(* Machine-checked (TLAPS) proofs of the key-blinding laws of KeyBlind.tla *)
(* for EVERY key term (any number of blinding operations, any sets of      *)
(* keys, blinds, contexts and digests).  TLC checks the same laws on the   *)
(* reachable pool of MC_KeyBlind (depth <= MaxDepth); these proofs remove  *)
(* the bound from the design-level part of C12 / C15.                      *)
(***************************************************************************)
EXTENDS KeyBlind, TLAPS

KeyTerms == [base : BaseKeys, e : [Atoms -> Int]]

LEMMA AtomIn == \A b \in BlindKeys, c \in Contexts : Hb(b, c) \in Atoms
  BY DEF Hb, Atoms

LEMMA PkTerm == \A k \in BaseKeys : Pk(k) \in KeyTerms
  BY DEF Pk, KeyTerms, ZeroExp

LEMMA BlindTerm == \A K \in KeyTerms, a \in Atoms : Blind(K, a) \in KeyTerms /\ Unblind(K, a) \in KeyTerms
  BY DEF Blind, Unblind, KeyTerms

LEMMA HbInjective == \A b1, b2 \in BlindKeys, c1, c2 \in Contexts : Hb(b1, c1) = Hb(b2, c2) => (b1 = b2 /\ c1 = c2)
  BY DEF Hb

(* the laws, for every key term *)
THEOREM UnblindInvertsAll ==
  \A K \in KeyTerms, a \in Atoms : Unblind(Blind(K, a), a) = K /\ Blind(Unblind(K, a), a) = K
  BY DEF Blind, Unblind, KeyTerms

THEOREM BlindCommutesAll ==
  \A K \in KeyTerms, a1, a2 \in Atoms : Blind(Blind(K, a1), a2) = Blind(Blind(K, a2), a1)
<1> SUFFICES ASSUME NEW K \in KeyTerms, NEW a1 \in Atoms, NEW a2 \in Atoms
             PROVE Blind(Blind(K, a1), a2) = Blind(Blind(K, a2), a1)
  OBVIOUS
<1>1. CASE a1 = a2
  BY <1>1
<1>2. CASE a1 # a2
  <2> DEFINE L == Blind(Blind(K, a1), a2)
             R == Blind(Blind(K, a2), a1)
  <2>1. L.base = R.base /\ L \in KeyTerms /\ R \in KeyTerms
    BY DEF Blind, KeyTerms
  <2>2. \A x \in Atoms : L.e[x] = R.e[x]
    BY <1>2 DEF Blind, KeyTerms
  <2>3. L.e = R.e
    BY <2>1, <2>2 DEF KeyTerms
  <2> QED
    BY <2>1, <2>3 DEF KeyTerms
<1> QED
  BY <1>1, <1>2

THEOREM BlindMattersAll ==
  \A K \in KeyTerms, a1, a2 \in Atoms : a1 # a2 => Blind(K, a1) # Blind(K, a2)
<1> SUFFICES ASSUME NEW K \in KeyTerms, NEW a1 \in Atoms, NEW a2 \in Atoms, a1 # a2
             PROVE Blind(K, a1) # Blind(K, a2)
  OBVIOUS
<1>1. Blind(K, a1).e[a1] = K.e[a1] + 1 /\ Blind(K, a2).e[a1] = K.e[a1] /\ K.e[a1] \in Int
  BY DEF Blind, KeyTerms
<1> QED
  BY <1>1

THEOREM BlindChangesAll ==
  \A K \in KeyTerms, a \in Atoms : Blind(K, a) # K
<1> SUFFICES ASSUME NEW K \in KeyTerms, NEW a \in Atoms PROVE Blind(K, a) # K
  OBVIOUS
<1>1. Blind(K, a).e[a] = K.e[a] + 1 /\ K.e[a] \in Int
  BY DEF Blind, KeyTerms
<1> QED
  BY <1>1

(* the invariants TLC checks in MC_KeyBlind, for unbounded depth *)
TypeOK == cur \in [term : KeyTerms, depth : Nat]

LEMMA TypeInductive == KSpec => []TypeOK
<1>1. KInit => TypeOK
  BY PkTerm DEF KInit, TypeOK
<1>2. TypeOK /\ [KNext]_kvars => TypeOK'
  <2> SUFFICES ASSUME TypeOK, [KNext]_kvars PROVE TypeOK'
    OBVIOUS
  <2>1. CASE UNCHANGED kvars
    BY <2>1 DEF kvars, TypeOK
  <2>2. ASSUME NEW x \in keys, NEW b \in BlindKeys, NEW c \in Contexts, DoBlind(x, b, c) \/ DoUnblind(x, b, c) PROVE TypeOK'
    BY <2>2, AtomIn, BlindTerm DEF DoBlind, DoUnblind, TypeOK, keys
  <2>3. ASSUME NEW k \in BaseKeys, NEW b \in BlindKeys, NEW c \in Contexts, NEW d \in Digests, DoBlindKeySign(k, b, c, d) PROVE TypeOK'
    BY <2>3 DEF DoBlindKeySign, TypeOK
  <2>4. ASSUME NEW k \in BaseKeys, NEW d \in Digests, DoSign(k, d) PROVE TypeOK'
    BY <2>4 DEF DoSign, TypeOK
  <2> QED
    BY <2>1, <2>2, <2>3, <2>4 DEF KNext
<1> QED
  BY <1>1, <1>2, PTL DEF KSpec

THEOREM LawsHold == TypeOK => UnblindInverts /\ BlindCommutes /\ BlindAndContextMatter /\ BlindChangesKey
<1> SUFFICES ASSUME TypeOK PROVE UnblindInverts /\ BlindCommutes /\ BlindAndContextMatter /\ BlindChangesKey
  OBVIOUS
<1>0. \A x \in keys : x.term \in KeyTerms
  BY DEF keys, TypeOK
<1>1. UnblindInverts
  BY <1>0, AtomIn, UnblindInvertsAll DEF UnblindInverts
<1>2. BlindCommutes
  BY <1>0, AtomIn, BlindCommutesAll DEF BlindCommutes
<1>3. BlindAndContextMatter
  BY <1>0, AtomIn, HbInjective, BlindMattersAll DEF BlindAndContextMatter
<1>4. BlindChangesKey
  BY <1>0, AtomIn, BlindChangesAll DEF BlindChangesKey
<1> QED
  BY <1>1, <1>2, <1>3, <1>4

THEOREM Unbounded == KSpec => [](UnblindInverts /\ BlindCommutes /\ BlindAndContextMatter /\ BlindChangesKey)
  BY TypeInductive, LawsHold, PTL

(* signatures: a blind-key signature verifies under the blinded key and under nothing else *)
THEOREM SignLaws == SignVerifiesUnderBlinded /\ NotUnderOtherKeys
<1>1. SignVerifiesUnderBlinded
  BY DEF SignVerifiesUnderBlinded, Verifies, BlindSigTerm, Sig
<1>2. NotUnderOtherKeys
  <2> SUFFICES ASSUME NEW k \in BaseKeys, NEW b \in BlindKeys, NEW b2 \in BlindKeys, NEW c \in Contexts, NEW c2 \in Contexts,
                      NEW d \in Digests, NEW d2 \in Digests
               PROVE /\ ~Verifies(Pk(k), d, BlindSigTerm(k, b, c, d))
                     /\ (b2 # b \/ c2 # c) => ~Verifies(Blind(Pk(k), Hb(b2, c2)), d, BlindSigTerm(k, b, c, d))
                     /\ d2 # d => ~Verifies(Blind(Pk(k), Hb(b, c)), d2, BlindSigTerm(k, b, c, d))
    BY DEF NotUnderOtherKeys
  <2>1. Pk(k) \in KeyTerms /\ Hb(b, c) \in Atoms /\ Hb(b2, c2) \in Atoms
    BY PkTerm, AtomIn
  <2>2. Blind(Pk(k), Hb(b, c)) # Pk(k)
    BY <2>1, BlindChangesAll
  <2>3. (b2 # b \/ c2 # c) => Blind(Pk(k), Hb(b2, c2)) # Blind(Pk(k), Hb(b, c))
    BY <2>1, BlindMattersAll, HbInjective
  <2> QED
    BY <2>2, <2>3 DEF Verifies, BlindSigTerm, Sig
<1> QED
  BY <1>1, <1>2
=============================================================================
