-------------------------- MODULE ConcurrencyProofs --------------------------
(***************************************************************************)
(* TLAPS: in the intended design (Design = "eager": constructors force the *)
(* public key before the object is shared) there is no data race and every *)
(* call returns the sequential result, for ANY number of goroutines, any   *)
(* operation alphabet and any number of operations per goroutine.  TLC     *)
(* checks 2-3 goroutines x 2 operations and exhibits the race for "lazy".  *)
(***************************************************************************)
EXTENDS Concurrency, TLAPS

ASSUME OpsNat == OpsPerProc \in Nat

Inv ==
  /\ prog \in [Procs -> [1..OpsPerProc -> Ops]]
  /\ pc \in [Procs -> [i : Nat, step : {1, 2}]]
  /\ pub = "set"
  /\ \A p \in Procs : seen[p] \in {"none", "set"}
  /\ seen \in [Procs -> {"none", "set"}]
  /\ \A a \in log : a.rw = "R"
  /\ results \in [Procs -> Seq(Ops \X {"pk"})]
  /\ \A p \in Procs : /\ Len(results[p]) = pc[p].i - 1
                      /\ pc[p].i >= 1 /\ pc[p].i <= OpsPerProc + 1
                      /\ \A k \in 1..Len(results[p]) : results[p][k] = <<prog[p][k], "pk">>

LEMMA FinishKeeps ==
  ASSUME Inv, NEW p \in Procs, Running(p), FinishOp(p), UNCHANGED prog
  PROVE /\ pc' \in [Procs -> [i : Nat, step : {1, 2}]]
        /\ results' \in [Procs -> Seq(Ops \X {"pk"})]
        /\ seen' \in [Procs -> {"none", "set"}]
        /\ \A q \in Procs : /\ Len(results'[q]) = pc'[q].i - 1
                            /\ pc'[q].i >= 1 /\ pc'[q].i <= OpsPerProc + 1
                            /\ \A k \in 1..Len(results'[q]) : results'[q][k] = <<prog'[q][k], "pk">>
<1>1. pc[p].i \in 1..OpsPerProc /\ Cur(p) \in Ops /\ Cur(p) = prog[p][pc[p].i]
  BY OpsNat DEF Inv, Running, Cur
<1>2. pc' = [pc EXCEPT ![p] = [i |-> pc[p].i + 1, step |-> 1]]
      /\ results' = [results EXCEPT ![p] = Append(results[p], <<Cur(p), "pk">>)]
      /\ seen' = [seen EXCEPT ![p] = "none"]
  BY DEF FinishOp
<1>3. pc' \in [Procs -> [i : Nat, step : {1, 2}]]
  BY <1>1, <1>2 DEF Inv
<1>4. results' \in [Procs -> Seq(Ops \X {"pk"})]
  BY <1>1, <1>2 DEF Inv
<1>5. seen' \in [Procs -> {"none", "set"}]
  BY <1>2 DEF Inv
<1>6. ASSUME NEW q \in Procs
      PROVE /\ Len(results'[q]) = pc'[q].i - 1
            /\ pc'[q].i >= 1 /\ pc'[q].i <= OpsPerProc + 1
            /\ \A k \in 1..Len(results'[q]) : results'[q][k] = <<prog'[q][k], "pk">>
  <2>1. CASE q # p
    BY <2>1, <1>2 DEF Inv
  <2>2. CASE q = p
    <3>1. results'[p] = Append(results[p], <<Cur(p), "pk">>) /\ pc'[p].i = pc[p].i + 1
      BY <1>2 DEF Inv
    <3>2. results[p] \in Seq(Ops \X {"pk"}) /\ Len(results[p]) = pc[p].i - 1
      BY DEF Inv
    <3>3. Len(results'[p]) = pc[p].i
      BY <3>1, <3>2, <1>1
    <3>4. \A k \in 1..Len(results'[p]) : results'[p][k] = <<prog[p][k], "pk">>
      BY <3>1, <3>2, <3>3, <1>1 DEF Inv
    <3> QED
      BY <2>2, <3>1, <3>3, <3>4, <1>1, OpsNat
  <2> QED
    BY <2>1, <2>2
<1> QED
  BY <1>3, <1>4, <1>5, <1>6

THEOREM EagerSafe == (Design = "eager") => (Spec => [](NoRace /\ Linearizable))
<1> SUFFICES ASSUME Design = "eager" PROVE Spec => [](NoRace /\ Linearizable)
  OBVIOUS
<1>1. Init => Inv
  BY OpsNat DEF Init, Inv
<1>2. Inv /\ [Next]_vars => Inv'
  <2> SUFFICES ASSUME Inv, [Next]_vars PROVE Inv'
    OBVIOUS
  <2>1. CASE UNCHANGED vars
    BY <2>1 DEF vars, Inv
  <2>2. ASSUME NEW p \in Procs, ReadPub(p) PROVE Inv'
    <3>1. seen' = [seen EXCEPT ![p] = "set"] /\ log' = log \cup {[proc |-> p, cell |-> "pub", rw |-> "R"]}
          /\ pc' = [pc EXCEPT ![p].step = 2] /\ UNCHANGED <<prog, pub, onceDone, results>>
      BY <2>2 DEF ReadPub, Inv
    <3> QED
      BY <3>1 DEF Inv
  <2>3. ASSUME NEW p \in Procs, WritePubOrFinish(p) PROVE Inv'
    <3>1. seen[p] # "empty"
      BY DEF Inv
    <3>2. UNCHANGED <<pub, log, prog>> /\ FinishOp(p) /\ Running(p)
      BY <2>3, <3>1 DEF WritePubOrFinish
    <3> QED
      BY <3>2, FinishKeeps DEF Inv
  <2>4. ASSUME NEW p \in Procs, TableOp(p) PROVE Inv'
    <3>1. UNCHANGED <<pub, log, prog>> /\ FinishOp(p) /\ Running(p)
      BY <2>4 DEF TableOp
    <3> QED
      BY <3>1, FinishKeeps DEF Inv
  <2>5. ASSUME NEW p \in Procs, PureOp(p) PROVE Inv'
    <3>1. UNCHANGED <<pub, log, prog>> /\ FinishOp(p) /\ Running(p)
      BY <2>5 DEF PureOp
    <3> QED
      BY <3>1, FinishKeeps DEF Inv
  <2> QED
    BY <2>1, <2>2, <2>3, <2>4, <2>5 DEF Next
<1>3. Inv => NoRace /\ Linearizable
  BY DEF Inv, NoRace, Linearizable
<1> QED
  BY <1>1, <1>2, <1>3, PTL DEF Spec
=============================================================================
